#!/usr/bin/env python3
import sys, os, glob, collections, json, re
sys.path.insert(0, os.path.dirname(os.path.dirname(os.path.abspath(__file__))))
from vlib import core
wd = sys.argv[1] if len(sys.argv) > 1 else "/verif/work/t"
traces = sorted(glob.glob(os.path.join(wd, "phy.*.ndjson")))
res = core.validate_traces("PhyTrace.tla", "PhyTrace.cfg", traces, "phydev")
c = collections.Counter()
for r in res:
    for m in r["mismatches"]:
        mm = re.match(r'<<\s*"MISMATCH",\s*(\d+),\s*<<\s*"([^"]+)",\s*"([^"]+)",\s*("?[^,>]+"?)', m)
        if mm:
            c[(mm.group(2)[:40], mm.group(3), mm.group(4))] += 1
        else:
            c[m[:120]] += 1
for k, v in sorted(c.items(), key=lambda x: -x[1]):
    print(v, k)
print("traces", len(res), "accepted", sum(1 for r in res if r["accepted"]), "events", sum(r["distinct"] for r in res))
