#!/bin/bash
# seedtest.sh <seed-name> <check-id>...: apply a seeded change to /repo, run checks (quick), undo it.
NAME=$1; shift
cd /repo && git apply /verif/seeded/$NAME/patch.diff || { echo "PATCH DOES NOT APPLY"; exit 3; }
cd /verif
for c in "$@"; do
  ./check $c --tier quick > /tmp/seedtest_$c.log 2>&1; rc=$?
  echo "== $NAME vs $c: exit=$rc $(grep -c '^VIOLATION' /tmp/seedtest_$c.log) violations; first: $(grep -m1 '^VIOLATION' /tmp/seedtest_$c.log | cut -c1-330)"
done
cd /repo && git checkout -- . && git status --short | head -3
