#!/bin/bash
# seedsweep.sh <seed>... : run every quick check with other generator seeds on the unchanged tree.
# Any VIOLATION is either a genuine defect or a false alarm of the machinery - both need attention.
cd /verif
for s in "$@"; do
  for i in 04 05 06 07 08 09 10 11 12 20 01 02 03 19 13 17 18; do
    VERIF_SEED=$s ./check C$i --tier quick --seed $s > /tmp/sweep_${s}_C$i.log 2>&1; rc=$?
    echo "seed=$s C$i rc=$rc viol=$(grep -c '^VIOLATION' /tmp/sweep_${s}_C$i.log) $(grep -m1 '^VIOLATION' /tmp/sweep_${s}_C$i.log | cut -c1-260)"
  done
done
