#!/bin/bash
# cmd_mutants.sh: demonstrate that the C03/C19 checks detect breakage of lorawan-encoding.
# Works in a scratch worktree of /repo HEAD (never touches /repo): applies the proposed fixes of
# work/proposed_fixes/{S12,S13,A3..A6}*.diff that still apply (so that no known deviation masks anything and
# the KNOWN list can be empty), then one source mutation at a time: build a copy of the harness against the
# worktree, record (quick tier), validate every trace with CmdTrace.tla, count mismatching events.
# Expected: baseline 0 mismatches, every mutation > 0.   Runtime about 10 minutes.
set -u
export CARGO_NET_OFFLINE=true
WT=/tmp/wt/A_mut; H=/tmp/h_A_mut; OUT=/verif/work/cmd_mutants; NONE=$OUT/none.json
rm -rf $OUT $H; mkdir -p $OUT /tmp/wt; echo '[]' > $NONE
git -C /repo worktree remove --force $WT 2>/dev/null
git -C /repo worktree add -q --detach $WT HEAD || exit 2
for d in /verif/work/proposed_fixes/{S12,S13,A3,A4,A5,A6}_*.diff; do
  [ -f "$d" ] && (cd $WT && git apply "$d" 2>/dev/null && echo "applied $(basename $d)" || echo "skipped $(basename $d) (does not apply: already fixed?)")
done
mkdir -p $H && cp -r /verif/harness/src /verif/harness/Cargo.toml /verif/harness/Cargo.lock /verif/harness/.cargo $H/
sed -i "s#/repo/#$WT/#g" $H/Cargo.toml
CASES=$OUT/cases.json
( cd /verif/spec && OUT=$CASES /verif/tools/tlc1g -workers 1 -metadir $OUT/md_cases -config CmdCases.cfg CmdCases.tla > $OUT/cases.log 2>&1 )

run_one() {  # NAME
  local NAME=$1 D=$OUT/t_$1
  ( cd $H && cargo build --offline --bin vh 2>&1 | grep -E "^error" -A8 )
  rm -rf $D; mkdir -p $D
  $H/target/debug/vh cmds_items --out $D --shards 8 cases=$CASES > /dev/null
  $H/target/debug/vh cmds_fields --out $D --shards 8 > /dev/null
  $H/target/debug/vh idtext --out $D --shards 4 > /dev/null
  for f in $D/*.ndjson; do
    b=$(basename $f .ndjson)
    ( cd /verif/spec && KNOWN=$NONE TRACE=$f /verif/tools/tlc1g -workers 1 -metadir $OUT/md_$b -noGenerateSpecTE \
        -config CmdTrace.cfg CmdTrace.tla > $OUT/o_$b.txt 2>&1 ) &
  done; wait
  local c03=0 c19=0
  for o in $OUT/o_*.txt; do
    n=$(grep -c MISMATCH $o); grep -q "No error" $o || echo "  TLC problem in $o"
    case $o in *items*) c03=$((c03+n));; *) c19=$((c19+n));; esac
  done
  first=$(cat $OUT/o_*.txt | grep -A4 MISMATCH | head -5 | tr -s ' \n' ' ' | cut -c1-200)
  echo "RESULT $NAME: mismatching events C03=$c03 C19=$c19 ${first:+first: $first}"
  rm -rf $D $OUT/o_*.txt
}

mutate() {  # NAME FILE OLD NEW
  cp $WT/$2 $OUT/backup
  python3 - "$WT/$2" "$3" "$4" <<'PY' || { echo "RESULT $1: pattern not found (skipped)"; return; }
import sys
p, old, new = sys.argv[1:4]
s = open(p).read()
assert old in s
open(p, 'w').write(s.replace(old, new, 1))
PY
  run_one $1
  cp $OUT/backup $WT/$2
}

run_one baseline
E=lorawan-encoding/src
mutate trunc_off_by_one lorawan-macros/src/lib.rs 'if data.len() < 1 + len {' 'if data.len() < len {'
mutate not_fused $E/maccommands.rs 'self.errored = true;' ''
mutate txpower_mask $E/maccommands.rs 'DR::from(self.0[0] & 0x0f)' 'DR::from(self.0[0] & 0x07)'
mutate margin_sign $E/maccommands.rs '((self.0[1] << 2) as i8) >> 2' '((self.0[1] << 2) >> 2) as i8'
mutate txpower_clobbers $E/maccommandcreator.rs 'self.data[1] &= 0xf0;
        self.data[1] |= tx_power & 0x0f;' 'self.data[1] = tx_power & 0x0f;'
mutate newch_freq_off $E/maccommands.rs 'Frequency::new_from_raw(&self.0[1..4])' 'Frequency::new_from_raw(&self.0[0..3])'
mutate stream_fit $E/maccommandcreator.rs 'if mac_commands_len(cmds) > res.len() {' 'if mac_commands_len(cmds) >= res.len() {'
mutate display_upper $E/parser.rs '"{:0width$x}"' '"{:0width$X}"'
mutate keys_eui_no_reverse $E/string.rs 'res.reverse();' ''
mutate fhdr_bound $E/parser.rs 'if MHDR_LEN + fhdr_len > mic_offset {' 'if MHDR_LEN + fhdr_len >= mic_offset {'
mutate group_mask_3bits $E/multicast/group_status.rs 'let ans_group_mask = status & 0b1111;' 'let ans_group_mask = status & 0b0111;'
mutate periodicity_tab $E/certification.rs '8 => 120,' '8 => 100,'
mutate eirp_tab $E/maccommands.rs '9 => 24,' '9 => 23,'
mutate echo_inc $E/certification.rs '*dst = src.wrapping_add(1);' '*dst = src.saturating_add(1);'
mutate nanos_div $E/maccommandcreator.rs '(nano_seconds / 3906250) as u8' '(nano_seconds / 3906251) as u8'

git -C /repo worktree remove --force $WT
rm -rf $H $OUT
