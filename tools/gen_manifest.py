#!/usr/bin/env python3
"""Regenerates /verif/MANIFEST.json from the table below (single source of truth for the interface)."""
import json, os, subprocess
ROOT = os.path.dirname(os.path.dirname(os.path.abspath(__file__)))
props = [json.loads(l)["id"] for l in open(os.path.join(ROOT, "properties.jsonl"))]

TV = "TLA+ specification + TLC trace validation of recorded implementation behaviour"
CHECKS = {
 "C01": dict(
  category="model_checking",
  text="Every frame description of a covering design over the builder's input space (every payload length 0..242, all types x flag combinations, FOpts 0..20, port classes, 16/32-bit counter boundaries, both software crypto variants, refusal classes at their boundaries, JoinRequest, JoinAccept with every DLSettings byte/RxDelay/CFList type; thorough adds 45k seeded random descriptions) is built by the real code and the bytes are compared by TLC with Codec!BuildDataBytes / JoinRequestBytes / JoinAcceptPlain, an independent TLA+ transcription of the LoRaWAN 1.0.x layout, AES-128 (FIPS-197) and AES-CMAC (RFC 4493) that shares nothing with lora-rs or RustCrypto.",
  note="Trusted: Aes.tla/Cmac.tla/Codec.tla (pinned by standard known answers as TLC ASSUMEs), TLC, the recorder. Not exhaustive: the input space is sampled by a covering design plus seeded random fill.",
  technique=TV + " (Aes.tla, Cmac.tla, Codec.tla, CodecTrace.tla)",
  design="DESIGN.md §6 C01"),
 "C02": dict(
  category="model_checking",
  text="Every parse / validate_mic / check_mic_and_decrypt_in_place / decrypt_in_place / JoinAccept decode call on (a) every frame built in C01's design (round trip), (b) bit-level mutations of them, (c) wrong/missing keys and counters whose halves do or do not match the wire, (d) random strings of every length 0..255, is recorded with its complete result and final buffer and validated by TLC against Codec.tla: authentic iff StructOk and the independently computed MIC matches, exposed fields and plaintext equal the reference decoder's, buffer untouched on any data-frame failure, double decrypt is the identity.",
  note="Trusted: as C01. Error kinds are not compared (the property does not fix them).",
  technique=TV + " (Codec.tla, CodecTrace.tla)",
  design="DESIGN.md §6 C02"),
 "C03": dict(
  category="model_checking",
  text="Every byte string of (a) the spec-derived enumeration (CmdCases.tla: every CID 0..255 x every truncation point per the command's length rule, including every AnsGroupMask, x {alone, + valid command, + unknown CID}, for all six command sets), (b) all strings of length <= 2 (quick) / <= 3 (thorough, all 2^24, run-length encoded by the recorder and expanded octet by octet by TLC) for the six iterators and the four frame-parser entry points, (c) seeded mutations of valid streams and frames and random strings of every length 0..255, (d) every XPayload::new at every length, is run through the real code with every accessor of every yielded command / parsed view called under catch_unwind and an iteration cap; TLC compares the yielded item list with MacCmds!Items (whole commands, lengths summing to a prefix, at most one trailing error, fused), checks MacCmds!WellFormed on it directly, the variant names, the payload bytes, and the frame classes against Codec!StructOk; a panic or non-termination is an event no rule accepts.",
  note="Trusted: MacCmds.tla (written from LoRaWAN 1.0.3 sec. 5, TS009, TS005 as recalled; self-checked by MCCmds.tla on every run), Codec.tla, TLC, the recorder (no oracle logic). Exhaustive only for the short-string sub-space; longer strings are sampled (seeded, not coverage-guided: coverage-guided fuzzing is outside this technique family). The McClassC/BSessionAns length rule is a disputed entry (both readings accepted).",
  technique=TV + " (MacCmds.tla, MCCmds.tla, CmdCases.tla, CmdTrace.tla, Codec.tla)",
  design="DESIGN.md §6 C03"),
 "C04": dict(
  category="model_checking",
  text="Seeded random histories on the real nb and async(+Class C) front-ends in all 9 regions (OTAA and ABP), with hostile network input: JoinAccepts with arbitrary DLSettings/RxDelay/CFList (incl. RFU types), MAC-command streams with boundary and random field values (incl. reserved ones and malformed tails), replays, forgeries, random bytes, oversize frames, radio faults. Every call runs under catch_unwind with an RNG draw budget, so a panic or hang becomes a trace event no action of MacTrace.tla matches; after every history step the device's complete projected state must equal the specification's. Application misuse the type system allows is included (data on port 0, 200-255 byte payloads, set_datarate to any value 0..15, calls in the wrong nb state). Enumerated on top of the random histories (the property's 'exhaustive over an event alphabet'): the nb state machine under free-form event sequences (a canonical prefix into each state - Idle, transmitting, waiting for / receiving in RX1 and RX2, for data and join - followed by every sequence of 2 / thorough 3 events over {send answered Done/Txing, join, TxDone, timeout, timeout with radio error, authentic / MIC-broken / oversize frame, JoinAccept, stray and failure radio events}); every async procedure (send|join) x RX1 outcome x RX2 outcome x fault position 0..9, each followed by a second procedure or (Class C) by listening outside a procedure with a frame of each kind, with and without Class C; and a single-channel walk (every channel index once the only enabled one). Beyond the default build: the device compiled with its certification-protocol handler (cargo feature `certification`, FPort 224) receives every TS009 command, well-formed and malformed, on all three front-ends and is held to CertTrace.tla (no panic/hang, every transmitted frame a well-formed uplink with valid MIC and strictly increasing counter, still transmits afterwards), and every history that does not end in a listed panic is additionally held to the behaviour model of the handler in Mac.tla / MacTrace.tla (command walk, ADR bit, frame-type override on later uplinks, LinkCheckReq queued, answers transmitted at once on FPort 224 with exactly the expected payload on a legal channel / data rate / commanded power, counters, what reaches the application); the handler's responses that the public API cannot represent panic - open finding S33, one signature per front-end and command. The remote multicast setup handler (feature `multicast`, FPort 200) gets every TS005 setup command, well-formed, truncated, unknown and repeated up to 242 times per frame, under the same CertTrace.tla clauses (this found and fixed S35, a panic, and S36, a frame-counter reuse). Two further open findings (channel selection without a usable channel / undefined data rate; send() panicking on port-0 data or oversize payloads) are listed in known_findings.json and reported as KNOWN-FINDING.",
  note='Trusted: Mac.tla (intended MAC behaviour, DESIGN Appendix B), Regions.tla (regional tables; disputed entries take the laxer reading), Codec.tla/Aes.tla/Cmac.tla (decide authenticity of every delivered frame and decode every uplink), TLC, the scripted radios/timer/RNG of the harness (no oracle logic). Histories are seeded-random (VERIF_SEED), not exhaustive; the exhaustive part is the named MC config over scaled-down constants.',
  technique="explicit TLA+ specification (Mac.tla, Regions.tla, Codec.tla) checked with TLC: " + 'MacTrace.tla' + "; implementation traces validated against it",
  design="DESIGN.md §6 C04"),
 "C05": dict(
  category="model_checking",
  text='MCFcnt.cfg checks Mac!NextFcnt exhaustively on a scaled counter space (WireMod 8, MaxGap 2, 32 counters): accept iff last < N <= last+MaxGap, unique reconstruction, strictly increasing, no double accept, never backwards. The same operator text (FcntCore.tla, which Mac.tla instantiates) is proved by Apalache (FcntApa.tla, SMT) to accept exactly the fresh counters, soundly and completely, with the REAL constants for all 2^32 x 2^16 inputs; FcntTrace.tla compares the reconstruction of the implementation with it for all 65536 wire values at boundary and random `last` values. Trace validation holds the real device to the same operator with the real constants: histories dominated by downlinks of every class; Codec.tla decides MIC validity, the spec decides freshness and size, and delivery / counters / responses / answers must match exactly.',
  note='Trusted: Mac.tla (intended MAC behaviour, DESIGN Appendix B), Regions.tla (regional tables; disputed entries take the laxer reading), Codec.tla/Aes.tla/Cmac.tla (decide authenticity of every delivered frame and decode every uplink), TLC, the scripted radios/timer/RNG of the harness (no oracle logic). Histories are seeded-random (VERIF_SEED), not exhaustive; the exhaustive part is the named MC config over scaled-down constants.',
  technique="explicit TLA+ specification (Mac.tla, Regions.tla, Codec.tla) checked with TLC: " + 'MCFcnt.cfg + MacTrace.tla + FcntTrace.tla' + "; implementation traces validated against it; the counter-reconstruction lemma over the real constants by Apalache (FcntApa.tla) on the same operator",
  design="DESIGN.md §6 C05, §13.2"),
 "C06": dict(
  category="model_checking",
  text="MCFront.cfg explores every interleaving of sends, window outcomes, Class C receptions and a radio fault at every call position of the async procedure over a scaled counter space (including exhaustion): counters handed to the radio strictly increase; MCFrontReal.cfg repeats it with the REAL constants from start counters 0, 0xFFFE and 2^32-4 .. 2^32-2 (a few accepted downlinks). Trace validation: the enumerated async procedures (send|join x RX1 x RX2 outcome x fault position 0..9, followed by a second procedure, with/without Class C) and the nb state machine under free-form event sequences; histories with radio faults injected at random call positions on both front-ends; every transmitted uplink is decoded by Codec.tla (MIC under the full 32-bit counter, low half on the wire) and the counter after every call must equal Mac.tla's (consumed also when the procedure aborts after a successful tx). The nb front-end has its own design-level model, MCNb.tla: the four-state machine driven by every event the API allows in any order (incl. a radio that answers Txing and then fails, and set_datarate between a transmission and its windows) with the counter invariants checked by TLC; TLC prints one event sequence per transition of that model and each is executed on the real nb device and judged by MacTrace.tla.",
  note='Trusted: Mac.tla (intended MAC behaviour, DESIGN Appendix B), Regions.tla (regional tables; disputed entries take the laxer reading), Codec.tla/Aes.tla/Cmac.tla (decide authenticity of every delivered frame and decode every uplink), TLC, the scripted radios/timer/RNG of the harness (no oracle logic). Histories are seeded-random (VERIF_SEED), not exhaustive; the exhaustive part is the named MC config over scaled-down constants.',
  technique="explicit TLA+ specification (Mac.tla, Regions.tla, Codec.tla) checked with TLC: " + 'MCFront.cfg + MacTrace.tla' + "; implementation traces validated against it",
  design="DESIGN.md §6 C06"),
 "C07": dict(
  category="model_checking",
  text="The specification is deterministic given the logged environment, so validating a trace is running a perfect twin that never saw the rejected frames: histories in which most delivered frames are unacceptable (random bytes, bit-flips, foreign keys, other address, replays, stale/far-future counters, oversize, JoinAccepts under a wrong key) inserted where there is something to lose (sticky answers, owed ACK, ADR counter, modified plan); every later uplink byte, radio configuration, response and the full state must equal the spec's, for which RxRejected leaves everything unchanged.",
  note='Trusted: Mac.tla (intended MAC behaviour, DESIGN Appendix B), Regions.tla (regional tables; disputed entries take the laxer reading), Codec.tla/Aes.tla/Cmac.tla (decide authenticity of every delivered frame and decode every uplink), TLC, the scripted radios/timer/RNG of the harness (no oracle logic). Histories are seeded-random (VERIF_SEED), not exhaustive; the exhaustive part is the named MC config over scaled-down constants.',
  technique="explicit TLA+ specification (Mac.tla, Regions.tla, Codec.tla) checked with TLC: " + 'MacTrace.tla' + "; implementation traces validated against it",
  design="DESIGN.md §6 C07"),
 "C08": dict(
  category="model_checking",
  text="Histories in which nearly every uplink is answered by an authentic Class A downlink with a MAC-command stream (FOpts or port 0, blocks and mixtures, boundary/random/reserved field values). For each accepted downlink the spec derives the answer shape (order, LinkADR block multiplicity, whole commands, truncation at 15 bytes only at the tail, stickiness) and compares it byte for byte with the device's pending answers and next uplinks; answer bits are read from the device and the post-state snapshot must be exactly the commanded effect for full acceptance and exactly the pre-state otherwise; requests on the closed invalid list must not be fully accepted. Design level: MCMacCmd.tla model-checks every sequence of <= MaxDown accepted downlinks over a request alphabet with reserved and out-of-range values on the real EU868/US915 tables (invalid never fully acked, rejected changed nothing, accepted LinkADR leaves a transmittable plan, pending answers well-formed and sticky, join channels read-only, parameters legal). Specification -> implementation: one behaviour per reachable design state, generated by TLC (MCMacCmdGen.tla), executed on the real nb/async devices and validated by MacTrace.tla.",
  note='Trusted: Mac.tla (intended MAC behaviour, DESIGN Appendix B), Regions.tla (regional tables; disputed entries take the laxer reading), Codec.tla/Aes.tla/Cmac.tla (decide authenticity of every delivered frame and decode every uplink), TLC, the scripted radios/timer/RNG of the harness (no oracle logic). Histories are seeded-random (VERIF_SEED), not exhaustive; the exhaustive part is the named MC config over scaled-down constants.',
  technique="explicit TLA+ specification (Mac.tla, Regions.tla, Codec.tla, MCMacCmd.tla) checked with TLC: MacTrace.tla trace validation of recorded implementation behaviour; MCMacCmd.tla model checking; TLC-generated behaviours (MCMacCmdGen.tla) replayed into the implementation",
  design="DESIGN.md §6 C08, §13.2"),
 "C09": dict(
  category="model_checking",
  text="Every tx call of every history (9 regions, 4 (max power, gain) boards, join-bias settings, CFLists, LinkADRReq, NewChannelReq, ADR back-off) is checked against Mac!TxChoices computed from the specification's own channel plan (defined and enabled channel, in band, data rate defined and of the channel's bandwidth class, join channels/data rates) and against Mac!MaxTxPower = min(radio max, max EIRP - gain, commanded).",
  note='Trusted: Mac.tla (intended MAC behaviour, DESIGN Appendix B), Regions.tla (regional tables; disputed entries take the laxer reading), Codec.tla/Aes.tla/Cmac.tla (decide authenticity of every delivered frame and decode every uplink), TLC, the scripted radios/timer/RNG of the harness (no oracle logic). Histories are seeded-random (VERIF_SEED), not exhaustive; the exhaustive part is the named MC config over scaled-down constants.',
  technique="explicit TLA+ specification (Mac.tla, Regions.tla, Codec.tla) checked with TLC: " + 'MacTrace.tla' + "; implementation traces validated against it",
  design="DESIGN.md §6 C09"),
 "C10": dict(
  category="model_checking",
  text='Every RX1/RX2/RXC radio configuration and every timer value requested by either front-end is compared with the windows the specification bound when the uplink was prepared: RX1 = (downlink frequency paired with the channel actually used, regional RX1 table for the data rate actually used and the offset in force), RX2 = negotiated or default, delays = negotiated (join 5 s / 6 s), RX2 = RX1 + 1 s, shifted only by lead time / offset; Class C listens with RX2 parameters.',
  note='Trusted: Mac.tla (intended MAC behaviour, DESIGN Appendix B), Regions.tla (regional tables; disputed entries take the laxer reading), Codec.tla/Aes.tla/Cmac.tla (decide authenticity of every delivered frame and decode every uplink), TLC, the scripted radios/timer/RNG of the harness (no oracle logic). Histories are seeded-random (VERIF_SEED), not exhaustive; the exhaustive part is the named MC config over scaled-down constants.',
  technique="explicit TLA+ specification (Mac.tla, Regions.tla, Codec.tla) checked with TLC: " + 'MacTrace.tla' + "; implementation traces validated against it",
  design="DESIGN.md §6 C10"),
 "C11": dict(
  category="model_checking",
  text='Join-heavy histories (35% re-joins from a joined state; JoinAccepts enumerating every DLSettings byte, RxDelay 0..15 with 0/1 over-represented, CFList type 0/1/RFU/none with boundary frequencies and masks; wrong key, bit-flipped, truncated; arriving in RX1, RX2 or never). JoinRequest bytes must equal Codec!JoinRequestBytes for the DevNonce drawn; the device must join exactly on Codec!JoinAcceptOk and then hold the keys Codec.tla derives (two AES blocks evaluated by TLC), the assigned address, restarted counters and the regional rules for RxDelay / DLSettings / CFList. Design level: MCJoin.tla model-checks every sequence of <= 2 join attempts (accepted in RX1/RX2 with each JoinAccept of an alphabet incl. invalid DLSettings, RxDelay 0, CFLists of the wrong/RFU type, zero masks, out-of-band frequencies; or not accepted: nothing / forged / data frame) with a parameter-changing request in between (joined only by a valid accept, session restarted, accept applied-when-valid/else previous value kept, join channels read-only, channels in band). Specification -> implementation: the behaviours TLC generates from MCJoin (kept apart by the previous accept and request) are executed on the real nb/async devices and validated by MacTrace.tla.',
  note='Trusted: Mac.tla (intended MAC behaviour, DESIGN Appendix B), Regions.tla (regional tables; disputed entries take the laxer reading), Codec.tla/Aes.tla/Cmac.tla (decide authenticity of every delivered frame and decode every uplink), TLC, the scripted radios/timer/RNG of the harness (no oracle logic). Histories are seeded-random (VERIF_SEED), not exhaustive; the exhaustive part is the named MC config over scaled-down constants.',
  technique="explicit TLA+ specification (Mac.tla, Regions.tla, Codec.tla, MCJoin.tla) checked with TLC: MacTrace.tla trace validation of recorded implementation behaviour; MCJoin.tla model checking; TLC-generated behaviours of MCJoin replayed into the implementation",
  design="DESIGN.md §6 C11, §13.2"),
 "C12": dict(
  category="model_checking",
  text="MCAdr.cfg explores all interleavings of silent/answered uplinks, confirmed and Class C downlinks, ADR toggles and data-rate overrides with ADR_ACK_LIMIT 2 / DELAY 1 in a region with a data-rate gap; ghost variables restate the property and must equal the MAC's bits and data rate; MCAdrReal.cfg / MCAdrRealIN.cfg repeat the exploration with the REAL constants (limit 64, delay 32, AU915 and IN865 with its data-rate gap; the frame counters, which play no part, are hidden by a VIEW: ~5 500 states, depth 322). Trace validation with the real constants: long histories with few downlinks; every uplink's MType, DevAddr, ADR, ADRACKReq and ACK bits are decoded from the transmitted bytes and compared with Mac!UplinkFields, the ADR counter and data rate after every call with Mac!AfterRx2Complete.",
  note='Trusted: Mac.tla (intended MAC behaviour, DESIGN Appendix B), Regions.tla (regional tables; disputed entries take the laxer reading), Codec.tla/Aes.tla/Cmac.tla (decide authenticity of every delivered frame and decode every uplink), TLC, the scripted radios/timer/RNG of the harness (no oracle logic). Histories are seeded-random (VERIF_SEED), not exhaustive; the exhaustive part is the named MC config over scaled-down constants.',
  technique="explicit TLA+ specification (Mac.tla, Regions.tla, Codec.tla) checked with TLC: " + 'MCAdr.cfg + MacTrace.tla' + "; implementation traces validated against it",
  design="DESIGN.md §6 C12"),
 "C19": dict(
  category="model_checking",
  text="For every command with a creator, the creator is driven through its setters (each once, random order; the setter under test with every argument of its domain when <= 16 bits, boundary + random otherwise, in and out of range) and the built bytes are compared by TLC with the layout fold of MacCmds.tla (admissible value => accepted and exactly that field changes; otherwise refused or truncated, neighbours untouched, never a panic); every command is parsed and every accessor compared with MacCmds!FieldGet / the derived tables (all 256 values per octet position in the thorough tier); build_mac_commands of random command lists with the buffer at the boundary is compared with the concatenation and parsed back with MacCmds!Items; Display/FromStr of all 18 identifier and key types (all 2^16 DevNonces, random 24..128-bit values, a malformed-string corpus) are compared with MSB-first lowercase hex / 'exactly 2n hex digits'.",
  note="Trusted: as C03 plus Aes.tla for the McKey wrapping. Builder and parser are each held to the layout separately, so agreeing-but-wrong pairs are caught. Not covered: layout fields the library has no accessor or setter for (listed in the evidence), last-write-wins of repeated setters. One open finding (S12, DeviceTimeAns seconds byte order: the pinned test asserts the swapped value) is reported as KNOWN-FINDING.",
  technique=TV + " (MacCmds.tla, MCCmds.tla, CmdTrace.tla, Aes.tla)",
  design="DESIGN.md §6 C19"),
 "C20": dict(
  category="model_checking",
  text="In the histories of the MAC family a serialise / deserialise / install step is inserted after about 5% of the calls (nb front-end: set_session of the deserialised copy). The snapshot after the step must equal the specification state in every session field (keys, address, both counters incl. 'no downlink yet', ADR counter, pending answers, owed ACK), and the rest of the history (next uplink bytes, verdicts on replayed downlinks) is validated against the unchanged specification state, i.e. the restored device is held to the original's future.",
  note='Trusted: Mac.tla (intended MAC behaviour, DESIGN Appendix B), Regions.tla (regional tables; disputed entries take the laxer reading), Codec.tla/Aes.tla/Cmac.tla (decide authenticity of every delivered frame and decode every uplink), TLC, the scripted radios/timer/RNG of the harness (no oracle logic). Histories are seeded-random (VERIF_SEED), not exhaustive; the exhaustive part is the named MC config over scaled-down constants.',
  technique="explicit TLA+ specification (Mac.tla, Regions.tla, Codec.tla) checked with TLC: " + 'MacTrace.tla' + "; implementation traces validated against it",
  design="DESIGN.md §6 C20"),
 "C13": dict(
  category="model_checking",
  text="Sx126xWire.tla and Sx127xWire.tla state, per driver operation, the SPI traffic the data sheets and Semtech's reference driver SWL2001 define: opcode/register framing, SF/BW/CR/LDRO/header/CRC/IQ/preamble/payload encodings, PLL-word formulas, PA rows of table 13-21 and TX parameters, IRQ masks, mantissa/exponent and 10-bit symbol timeouts, image-calibration bands, buffer base/FIFO handling, sync word registers, sleep/standby/TX/RX/CAD commands, read-modify-write rules given the prior register contents, and the chapter-15 / SX1276 errata 2.1, 2.3 sequences as named operators. The harness records BOTH lora-phy and SWL2001 (via smtc-modem-cores) over an emulated SPI bus with identical primed register contents for every operation and parameter tuple of the enumeration (all SF x BW x CR x LDRO, preamble set x flags x payload lengths, LoRaWAN channel rasters + a stride over 137-1020 MHz, all power requests x chip variants x PA paths, symbol timeouts, sync words, random prior registers); TLC validates every recorded transaction list against the operators (SX126x: byte-identical lists; SX127x: register-file effect on owned fields, FIFO stream, all other bits untouched). A reference recording the specification rejects is a tool error, a lora-phy recording it rejects is a violation.",
  note="Trusted: the two wire modules (pinned by the reference driver over the same parameter space and by known-answer ASSUMEs), TLC, the emulated SPI bus / chip memories of the recorder (no oracle logic). SX127x comparison is on chip-visible effect because the two drivers factor register traffic differently (as the repository's own tests do); documented per-driver policy bits are free. Not compared: SX127x packet fetch and image calibration (no wire counterpart in the reference), TCXO/DC-DC start-up branches, LR11xx. Sampled, not exhaustive.",
  technique=TV + " (Sx126xWire.tla, Sx127xWire.tla, WireBits.tla, WireTrace.tla); reference driver recorded alongside",
  design="DESIGN.md §6 C13"),
 "C17": dict(
  category="model_checking",
  text="The decode operators of the wire modules (PLL word -> Hz for both synthesiser resolutions, PA configuration + TX parameters -> dBm by table 13-21 / the RegPaConfig formulas, timeout registers -> symbols, status bytes -> RSSI/SNR) are the oracle: the real drivers are driven over the emulated SPI bus and TLC decodes what they programmed. Checked: SX126x word is the nearest step (< 1 Hz), SX127x within one step (< 62 Hz), conversion periodicity word(f+15625) = word(f)+16384; PA settings decode to the request clamped into the PA path's range, never above it; programmed symbol timeout >= request up to the chip maximum (248 / 1023); the LoRaWAN adapter's ms->symbols conversion observed through LorawanRadio covers 12.25 preamble symbols + margin (exact rational symbol time); reported RSSI/SNR within 1 dB of the data sheet conversion, no panic.",
  note="Trusted: the decode operators (data sheet formulas, known-answer ASSUMEs), Modulation.tla bandwidth table, TLC, the recorder. The 8.8e8-point 1 Hz sweep is replaced by whole conversion periods + the periodicity relation; that the specification's conversion (PllCore.tla, instantiated by both wire modules) is nearest-step, monotone and periodic for EVERY frequency 137-1020 MHz is proved by Apalache (PllApa.tla); status triples are covered per byte plus the (rssi,snr) cross, not all 2^24. SX127x RSSI for negative SNR accepts both the data sheet reading and the reference's slope-corrected reading. Open findings are reported as KNOWN-FINDING.",
  technique=TV + " (Sx126xWire.tla, Sx127xWire.tla decode operators, Modulation.tla, WireTrace.tla); conversion lemma for all frequencies by Apalache (PllApa.tla) on the same operators (PllCore.tla)",
  design="DESIGN.md §6 C17"),
 "C18": dict(
  category="model_checking",
  text="RxFetch.tla defines what fetching a received packet may do: the chip's 256-byte buffer with address wrap-around, the packet length the chip defines (reported length, or the configured one with an implicit header), the SX126x command-status codes, and the allowed outcomes (success with exactly the packet bytes and an untouched tail, or an error; never a panic; success required when the packet fits and the status is clean). The emulated chip buffer holds an injective position pattern and the caller's buffer canaries (two runs), so the recorder logs a lossless run-length description of the caller's buffer; TLC checks every case: thorough = all 256 lengths x 256 offsets x buffer sizes {0,1,12,64,255,256} x header modes x 12 status bytes on RadioKind::get_rx_payload for SX1262, SX1276, SX1272 (exhaustive), plus a 16x16 grid through LoRa::complete_rx and LorawanRadio::rx_single; the LR1110 driver (responses in separate Stat1-prefixed transactions) is recorded the same way for explicit-header reception. The last clause ('the adapter hands the MAC exactly those bytes') is also checked on the MAC's own RadioBuffer: async devices built with a radio buffer of 64 / 128 / 33 bytes receive authentic downlinks of N-2..N bytes (RX1, RX2, Class C) and a 33-byte JoinAccept with CFList (`vh bufwalk`), and MacTrace.tla decides what each must do.",
  note="Trusted: RxFetch.tla (chip buffer semantics from the data sheets), TLC, the emulated chip memory. The indirect call paths are sampled on a grid in both tiers.",
  technique=TV + " (RxFetch.tla, WireTrace.tla); exhaustive on the direct call path in the thorough tier",
  design="DESIGN.md §6 C18"),
 "C14": dict(
  category="model_checking",
  text="Exhaustive enumeration of API call sequences (quick: depth 2, thorough: depth 3, plus structured depth-4/5 histories around sleep/re-initialisation) over the property's call alphabet x interrupt outcomes, with a fault injected at EVERY bus event (SPI transfer, BUSY wait, DIO wait, reset, RF switch) of the last call and a dropped future at the droppable wait, on the real LoRa<Sx126x>, LoRa<Sx127x> and LoRa<Lr1110> over a scripted bus, and on all three again through the LoRaWAN radio adapter (LorawanRadio: tx / setup_rx / rx_single / rx_continuous / low_power, one level deeper). PhyTrace.tla holds an abstract SX126x, an abstract SX1276 and an abstract LR1110 that are stepped by decoding the raw SPI bytes actually sent, and checks the four clauses: wrong-mode calls refused without bus traffic, never commanded asleep without wake-up, everything reprogrammed after cold start before TX/RX/CAD starts, standby + driver knows after failure. Clause 4 is held strictly for time-outs, interrupt errors and for an injected fault at every bus event of every call (the former open finding S23 is repaired in /repo: every operation passes its result through standby_on_error); only a fault on the very command that restores standby, or a fault on top of an operation that had already timed out (two failures), is outside the single-fault quantifier - a driver that comes out believing standby while the chip is elsewhere is never excused. Design level and specification -> implementation: MCPhy.tla models the driver's bookkeeping next to the chip for all call sequences (clauses as invariants) and TLC generates one call sequence per transition of that model, each followed by a probe transmission, executed on the real SX1262, SX1276, SX1272 and LR1110 drivers. Open finding: S37 (tx() accepted straight after continuous_wave()).",
  note="Trusted: the abstract SX126x, SX1276 and LR1110 of PhyTrace.tla (datasheet-level, small). Covered: SX1262 (DC-DC, TCXO), SX1276 and SX1272 (TCXO, PA_BOOST) and LR1110 (DC-DC, TCXO, RF-switch DIOs, HP PA), directly and behind the LoRaWAN radio adapter. NOT covered by this check: SX1261 / STM32WL variants (they differ from the SX1262 in PA tables and the DIO2 switch option only), call sequences deeper than the stated bounds.",
  technique="explicit TLA+ chip model + clauses (PhyTrace.tla) checked with TLC on exhaustively enumerated call/outcome/fault sequences executed on the real driver; MCPhy.tla model checking and TLC-generated call sequences replayed into the implementation",
  design="DESIGN.md §6 C14"),
 "C15": dict(
  category="model_checking",
  text="Exhaustive over the finite domain (8 SF x 10 BW): every implementation's LDRO decision (airtime calculator, SX126x, SX1276, SX1272, LR11xx) and the LDRO bit decoded from the SPI bytes each driver writes are recorded and validated by TLC against Modulation!Ldro (symbol time >= 16.38 ms, exact rational comparison), plus mutual agreement.",
  note="Trusted: Modulation.tla, datasheet positions of the LDRO bit, the recorder. The pair SF8/15.6 kHz (nominal vs exact bandwidth straddle the threshold) is a documented don't-care for the value; agreement is still required.",
  technique=TV + " (Modulation.tla, ModTrace.tla); exhaustive",
  design="DESIGN.md §6 C15"),
 "C16": dict(
  category="model_checking",
  text="Every value of time_on_air_us over the enumerated parameter space (quick: 7 preamble options = 1.1M values, thorough: all 257 = the whole 42M-point domain) is recorded from the implementation and compared by TLC with Modulation!Toa, the Semtech formula in exact integer arithmetic; monotonicity in the length and absence of overflow/panic are checked on the same observations.",
  note="Trusted: Modulation.tla (transcription of the AN1200.13 formula), TLC's integer arithmetic, the recorder (no oracle logic).",
  technique=TV + " (Modulation.tla, ModTrace.tla)",
  design="DESIGN.md §6 C16"),
}
NA_REASON = {}

def main():
    head = subprocess.run(["git", "-C", "/repo", "log", "--format=%h %s"], capture_output=True, text=True).stdout.splitlines()
    hook_commits = [l.split()[0] for l in head if "verif-hooks" in l]
    checks = []
    for pid in props:
        if pid not in CHECKS:
            continue
        c = CHECKS[pid]
        checks.append({
            "property_id": pid,
            "quick_cmd": f"./check {pid} --tier quick",
            "thorough_cmd": f"./check {pid} --tier thorough",
            "evidence_file": f"/verif/evidence/{pid}.json",
            "replay_cmd_template": f"./check {pid} --replay {{path}}",
            "engine": "tlc",
            "level_claimed": {"category": c["category"], "text": c["text"], "design_ref": c["design"]},
            "level_note": c["note"],
            "technique": c["technique"],
        })
    m = {
        "version": 1,
        "setup_cmd": "cd /verif/harness && ( [ -f Cargo.lock ] || cp /repo/Cargo.lock . ) && CARGO_NET_OFFLINE=true cargo build --offline --bin vh",
        "hooks": {
            "guard": "cargo feature `verif-hooks` (crates lorawan-device and lora-phy)",
            "enable": "the harness crate /verif/harness depends on the /repo crates by path with features = [\"verif-hooks\"]; every check rebuilds it from /repo's working tree",
            "baseline_off_cmd": "cd /repo && cargo test --workspace --no-fail-fast --offline",
            "source_commits": hook_commits,
            "add_only": True,
        },
        "engines": [{
            "name": "tlc",
            "path": "/verif/check",
            "serves_properties": [c["property_id"] for c in checks],
            "kind_free_text": "explicit TLA+ specifications in /verif/spec checked with TLC (exhaustive model checking of small-constant configs, simulation, and trace validation); implementation behaviour recorded by the Rust harness /verif/harness (path deps on /repo) and validated against the specifications; TLC-generated behaviours replayed into the implementation",
        }],
        "checks": checks,
        "notes": "Design: DESIGN.md. Genuine defects found: known_findings.json (open = reported as KNOWN-FINDING, fixed = repaired by a fix: commit in /repo).",
        "not_applicable": [{"property_id": p, "reason": NA_REASON.get(p, "check not built yet (build in progress, see DESIGN.md §11); no claim is made")}
                           for p in props if p not in CHECKS],
    }
    with open(os.path.join(ROOT, "MANIFEST.json"), "w") as f:
        json.dump(m, f, indent=1)
    print("MANIFEST.json:", len(checks), "checks,", len(m["not_applicable"]), "not applicable")

if __name__ == "__main__":
    main()
