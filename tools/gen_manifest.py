#!/usr/bin/env python3
"""Regenerates /verif/MANIFEST.json from the table below (single source of truth for the interface)."""
import json, os, subprocess
ROOT = os.path.dirname(os.path.dirname(os.path.abspath(__file__)))
props = [json.loads(l)["id"] for l in open(os.path.join(ROOT, "properties.jsonl"))]

TV = "TLA+ specification + TLC trace validation of recorded implementation behaviour"
CHECKS = {
 "C01": dict(
  category="model_checking",
  text="Every frame description of a covering design over the builder's input space (every payload length 0..242, all types x flag combinations, FOpts 0..20, port classes, 16/32-bit counter boundaries, both software crypto variants, refusal classes at their boundaries, JoinRequest, JoinAccept with every DLSettings byte/RxDelay/CFList type; thorough adds 45k seeded random descriptions) is built by the real code and the bytes are compared by TLC with Codec!BuildDataBytes / JoinRequestBytes / JoinAcceptPlain, an independent TLA+ transcription of the LoRaWAN 1.0.x layout, AES-128 (FIPS-197) and AES-CMAC (RFC 4493) that shares nothing with lora-rs or RustCrypto.",
  note="Trusted: Aes.tla/Cmac.tla/Codec.tla (pinned by standard known answers as TLC ASSUMEs), TLC, the recorder. Not exhaustive: the input space is sampled by a covering design plus seeded random fill.",
  technique=TV + " (Aes.tla, Cmac.tla, Codec.tla, CodecTrace.tla)",
  design="DESIGN.md §6 C01"),
 "C02": dict(
  category="model_checking",
  text="Every parse / validate_mic / check_mic_and_decrypt_in_place / decrypt_in_place / JoinAccept decode call on (a) every frame built in C01's design (round trip), (b) bit-level mutations of them, (c) wrong/missing keys and counters whose halves do or do not match the wire, (d) random strings of every length 0..255, is recorded with its complete result and final buffer and validated by TLC against Codec.tla: authentic iff StructOk and the independently computed MIC matches, exposed fields and plaintext equal the reference decoder's, buffer untouched on any data-frame failure, double decrypt is the identity.",
  note="Trusted: as C01. Error kinds are not compared (the property does not fix them).",
  technique=TV + " (Codec.tla, CodecTrace.tla)",
  design="DESIGN.md §6 C02"),
 "C15": dict(
  category="model_checking",
  text="Exhaustive over the finite domain (8 SF x 10 BW): every implementation's LDRO decision (airtime calculator, SX126x, SX1276, SX1272, LR11xx) and the LDRO bit decoded from the SPI bytes each driver writes are recorded and validated by TLC against Modulation!Ldro (symbol time >= 16.38 ms, exact rational comparison), plus mutual agreement.",
  note="Trusted: Modulation.tla, datasheet positions of the LDRO bit, the recorder. The pair SF8/15.6 kHz (nominal vs exact bandwidth straddle the threshold) is a documented don't-care for the value; agreement is still required.",
  technique=TV + " (Modulation.tla, ModTrace.tla); exhaustive",
  design="DESIGN.md §6 C15"),
 "C16": dict(
  category="model_checking",
  text="Every value of time_on_air_us over the enumerated parameter space (quick: 7 preamble options = 1.1M values, thorough: all 257 = the whole 42M-point domain) is recorded from the implementation and compared by TLC with Modulation!Toa, the Semtech formula in exact integer arithmetic; monotonicity in the length and absence of overflow/panic are checked on the same observations.",
  note="Trusted: Modulation.tla (transcription of the AN1200.13 formula), TLC's integer arithmetic, the recorder (no oracle logic).",
  technique=TV + " (Modulation.tla, ModTrace.tla)",
  design="DESIGN.md §6 C16"),
}
NA_REASON = {}

def main():
    head = subprocess.run(["git", "-C", "/repo", "log", "--format=%h %s"], capture_output=True, text=True).stdout.splitlines()
    hook_commits = [l.split()[0] for l in head if "verif-hooks" in l]
    checks = []
    for pid in props:
        if pid not in CHECKS:
            continue
        c = CHECKS[pid]
        checks.append({
            "property_id": pid,
            "quick_cmd": f"./check {pid} --tier quick",
            "thorough_cmd": f"./check {pid} --tier thorough",
            "evidence_file": f"/verif/evidence/{pid}.json",
            "replay_cmd_template": f"./check {pid} --replay {{path}}",
            "engine": "tlc",
            "level_claimed": {"category": c["category"], "text": c["text"], "design_ref": c["design"]},
            "level_note": c["note"],
            "technique": c["technique"],
        })
    m = {
        "version": 1,
        "setup_cmd": "cd /verif/harness && ( [ -f Cargo.lock ] || cp /repo/Cargo.lock . ) && CARGO_NET_OFFLINE=true cargo build --offline --bin vh",
        "hooks": {
            "guard": "cargo feature `verif-hooks` (crates lorawan-device and lora-phy)",
            "enable": "the harness crate /verif/harness depends on the /repo crates by path with features = [\"verif-hooks\"]; every check rebuilds it from /repo's working tree",
            "baseline_off_cmd": "cd /repo && cargo test --workspace --no-fail-fast --offline",
            "source_commits": hook_commits,
            "add_only": True,
        },
        "engines": [{
            "name": "tlc",
            "path": "/verif/check",
            "serves_properties": [c["property_id"] for c in checks],
            "kind_free_text": "explicit TLA+ specifications in /verif/spec checked with TLC (exhaustive model checking of small-constant configs, simulation, and trace validation); implementation behaviour recorded by the Rust harness /verif/harness (path deps on /repo) and validated against the specifications; TLC-generated behaviours replayed into the implementation",
        }],
        "checks": checks,
        "notes": "Design: DESIGN.md. Genuine defects found: known_findings.json (open = reported as KNOWN-FINDING, fixed = repaired by a fix: commit in /repo).",
        "not_applicable": [{"property_id": p, "reason": NA_REASON.get(p, "check not built yet (build in progress, see DESIGN.md §11); no claim is made")}
                           for p in props if p not in CHECKS],
    }
    with open(os.path.join(ROOT, "MANIFEST.json"), "w") as f:
        json.dump(m, f, indent=1)
    print("MANIFEST.json:", len(checks), "checks,", len(m["not_applicable"]), "not applicable")

if __name__ == "__main__":
    main()
