#!/usr/bin/env python3
"""Seeded-mutation self-test of the SPI-level checks (C13, C17, C18).
Creates a scratch git worktree of /repo and a copy of the recorder crate that builds against it (never touches
/repo's working tree), applies one source mutation at a time, re-records the affected operation and validates the
trace with TLC.  Every mutation must be DETECTED.  Usage: tools/wire_mutants.py [name-prefix ...]"""
import subprocess, sys, os, glob, json, shutil
sys.path.insert(0, os.path.dirname(os.path.dirname(os.path.abspath(__file__))))
from vlib import core, wirefam
WT = '/tmp/wt/wire_mut'
H = '/tmp/h_wire_mut'


def setup():
    subprocess.run(["git", "-C", "/repo", "worktree", "remove", "--force", WT], capture_output=True)
    os.makedirs(os.path.dirname(WT), exist_ok=True)
    subprocess.run(["git", "-C", "/repo", "worktree", "add", "--detach", WT, "HEAD"], check=True, capture_output=True)
    shutil.rmtree(H, ignore_errors=True)
    os.makedirs(H + "/src/bin")
    os.makedirs(H + "/.cargo")
    src = os.path.join(core.HARNESS)
    open(H + "/Cargo.toml", "w").write(open(src + "/Cargo.toml").read().replace("/repo/", WT + "/"))
    shutil.copy(src + "/Cargo.lock", H + "/Cargo.lock")
    shutil.copy(src + "/.cargo/config.toml", H + "/.cargo/config.toml")
    for f in ("trace", "cli", "mock", "modrec", "wirerec"):
        shutil.copy(f"{src}/src/{f}.rs", f"{H}/src/{f}.rs")
    open(H + "/src/lib.rs", "w").write("pub mod trace;\npub mod cli;\npub mod mock;\npub mod modrec;\npub mod wirerec;\n")
    open(H + "/src/bin/vh.rs", "w").write(
        "use vharness::cli::{quiet_panics, Args};\nfn main() {\n    let a = Args::parse();\n    quiet_panics();\n"
        "    match a.cmd.as_str() {\n        \"fetch\" => vharness::wirerec::vh_fetch(&a),\n        \"decode\" => vharness::wirerec::vh_decode(&a),\n"
        "        \"wire\" => vharness::wirerec::vh_wire(&a),\n        _ => std::process::exit(2),\n    }\n}\n")


def teardown():
    subprocess.run(["git", "-C", "/repo", "worktree", "remove", "--force", WT], capture_output=True)
    shutil.rmtree(H, ignore_errors=True)


MUTS = [
 ("C18-a sx126x: length check removed", "lora-phy/src/sx126x/mod.rs",
  "if (payload_length as usize) > receiving_buffer.len() {", "if false {", "fetch", ["chips=sx1262","paths=direct"], "C18"),
 ("C18-b sx126x: read from offset 0 instead of the reported start", "lora-phy/src/sx126x/mod.rs",
  "&[OpCode::ReadBuffer.value(), offset, 0x00u8],", "&[OpCode::ReadBuffer.value(), 0u8, 0x00u8],", "fetch", ["chips=sx1262","paths=lorawan"], "C18"),
 ("C18-c sx127x: implicit header uses the chip-reported length", "lora-phy/src/sx127x/mod.rs",
  "let payload_length = if rx_pkt_params.implicit_header {\n            rx_pkt_params.payload_length", "let payload_length = if false {\n            rx_pkt_params.payload_length", "fetch", ["chips=sx1276","paths=lora"], "C18"),
 ("C17-a sx126x: PLL conversion without the rounding term", "lora-phy/src/sx126x/mod.rs",
  "+ (((steps_frac << SX126X_PLL_STEP_SHIFT_AMOUNT) + (SX126X_PLL_STEP_SCALED >> 1)) / SX126X_PLL_STEP_SCALED)", "+ ((steps_frac << SX126X_PLL_STEP_SHIFT_AMOUNT) / SX126X_PLL_STEP_SCALED)", "decode", ["parts=freq","chips=sx1262"], "C17"),
 ("C17-b sx1262 PA table: +17 dBm row with hpMax 2", "lora-phy/src/sx126x/variant.rs",
  "            max_dbm: 17,\n            pa_duty_cycle: 0x02,\n            hp_max: 0x03,\n            tx_params_at_max: 22,\n        },\n        PaTableEntry {\n            max_dbm: 20,\n            pa_duty_cycle: 0x03,\n            hp_max: 0x05,\n            tx_params_at_max: 22,\n        },\n        PaTableEntry {\n            max_dbm: 22,\n            pa_duty_cycle: 0x04,\n            hp_max: 0x07,\n            tx_params_at_max: 22,\n        },\n    ],\n};\n\n/// ST's",
  "            max_dbm: 17,\n            pa_duty_cycle: 0x02,\n            hp_max: 0x02,\n            tx_params_at_max: 22,\n        },\n        PaTableEntry {\n            max_dbm: 20,\n            pa_duty_cycle: 0x03,\n            hp_max: 0x05,\n            tx_params_at_max: 22,\n        },\n        PaTableEntry {\n            max_dbm: 22,\n            pa_duty_cycle: 0x04,\n            hp_max: 0x07,\n            tx_params_at_max: 22,\n        },\n    ],\n};\n\n/// ST's", "decode", ["parts=power","chips=sx1262"], "C17"),
 ("C17-c sx127x: symbol timeout MSB masked with 0x01", "lora-phy/src/sx127x/mod.rs",
  "let symbol_num_msb = ((val >> 8) & 0x03) as u8;", "let symbol_num_msb = ((val >> 8) & 0x01) as u8;", "decode", ["parts=symb","chips=sx1276"], "C17"),
 ("C17-d sx1276: RFO power clamp lets +15 dBm requests through as 15", "lora-phy/src/sx127x/sx1276.rs",
  "let txp = p_out.clamp(-4, 14);", "let txp = p_out.clamp(-4, 15);", "decode", ["parts=power","chips=sx1276"], "C17"),
 ("C17-e sx127x: RSSI offset HF -157 -> -155", "lora-phy/src/sx127x/mod.rs",
  "const SX1276_RSSI_OFFSET_HF: i16 = -157;", "const SX1276_RSSI_OFFSET_HF: i16 = -155;", "decode", ["parts=status","chips=sx1276"], "C17"),
 ("C13-a sx126x: bandwidth code of 41.7 kHz", "lora-phy/src/sx126x/radio_kind_params.rs",
  "Bandwidth::_41KHz => Ok(0x0a),", "Bandwidth::_41KHz => Ok(0x0b),", "wire", ["fam=sx126x","chips=sx1261","ops=mod_params"], "C13"),
 ("C13-b sx126x: CRC and IQ bytes of SetPacketParams swapped", "lora-phy/src/sx126x/mod.rs",
  "            pkt_params.crc_on as u8,\n            pkt_params.iq_inverted as u8,\n        ];", "            pkt_params.iq_inverted as u8,\n            pkt_params.crc_on as u8,\n        ];", "wire", ["fam=sx126x","chips=sx1261","ops=pkt_params"], "C13"),
 ("C13-c sx126x: TX clamp mask 0b11110 -> 0b01110", "lora-phy/src/sx126x/mod.rs",
  "tx_clamp_val | 0b11110", "tx_clamp_val | 0b01110", "wire", ["fam=sx126x","chips=sx1262","ops=tx_power"], "C13"),
 ("C13-d sx1276: coding rate field shifted by 2", "lora-phy/src/sx127x/sx1276.rs",
  "config_1 = (config_1 & 0xf1u8) | (cr << 1);", "config_1 = (config_1 & 0xf1u8) | (cr << 2);", "wire", ["fam=sx127x","chips=sx1276","ops=mod_params"], "C13"),
 ("C13-e sx1272: CRC bit at the wrong position", "lora-phy/src/sx127x/sx1272.rs",
  "let cfg1 = (modemcfg1 & 0b1111_1001) | (hdr << 2) | (crc << 1);", "let cfg1 = (modemcfg1 & 0b1111_1001) | (hdr << 2) | crc;", "wire", ["fam=sx127x","chips=sx1272","ops=pkt_params"], "C13"),
 ("C13-f sx127x: payload length register not updated after the FIFO write", "lora-phy/src/sx127x/mod.rs",
  "        self.write_register(Register::RegPayloadLength, payload.len() as u8)\n            .await\n    }", "        Ok(())\n    }", "wire", ["fam=sx127x","chips=sx1276","ops=buffer"], "C13"),
 ("C13-g sx126x: image calibration 863-870 MHz band bytes D7 DB -> D7 DC", "lora-phy/src/sx126x/mod.rs",
  "cal_freq[1] = 0xDB;", "cal_freq[1] = 0xDC;", "wire", ["fam=sx126x","chips=sx1262","ops=cal_image"], "C13"),
]

def main():
    only = sys.argv[1:]
    setup()
    missed = 0
    try:
        for name, file, old, new, cmd, extra, pid in MUTS:
            if only and not any(name.startswith(o) for o in only):
                continue
            subprocess.run(["git", "-C", WT, "checkout", "--", "."], check=True)
            p = os.path.join(WT, file)
            s = open(p).read()
            if old not in s:
                print("SKIP (pattern not found):", name)
                continue
            open(p, "w").write(s.replace(old, new, 1))
            b = subprocess.run(["cargo", "build", "--offline", "--bin", "vh"], cwd=H, env=dict(os.environ, CARGO_NET_OFFLINE="true"),
                               capture_output=True, text=True)
            if b.returncode != 0:
                print("BUILD FAILED:", name, b.stderr[-600:])
                continue
            wd = "/tmp/wire_mut_run"
            shutil.rmtree(wd, ignore_errors=True)
            os.makedirs(wd)
            r = subprocess.run([H + "/target/debug/vh", cmd, "--out", wd, "--shards", "16", "--tier", "quick"] + extra, capture_output=True, text=True)
            traces = sorted(glob.glob(wd + "/*.ndjson"))
            core.WORK = "/tmp"
            res, bad, sigs = wirefam.validate(pid, traces, wd)
            lp = [x for x in bad if (x[2] or {}).get("drv", "lora-phy") != "reference"]
            missed += 0 if lp else 1
            print(f"{'DETECTED' if lp else 'MISSED  '} {name}: {len(bad)} deviating events ({r.stdout.strip()}); e.g. {(lp[0][3][0][:230] if lp else '')}".replace("\n", " "))
    finally:
        teardown()
    return 1 if missed else 0


if __name__ == "__main__":
    sys.exit(main())
