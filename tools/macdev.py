#!/usr/bin/env python3
"""Development helper: generate MAC histories, validate, summarise the first mismatch of each trace."""
import sys, os, glob, collections, json
sys.path.insert(0, os.path.dirname(os.path.dirname(os.path.abspath(__file__))))
from vlib import core
args = sys.argv[1:]
wd = core.workdir("macdev")
core.run_vh("mac", wd, shards=16, extra=args)
kf = os.path.join(wd, "known.json")
open(kf, "w").write(json.dumps(["join-undefined-datarate-panic"]))
traces = sorted(glob.glob(os.path.join(wd, "mac.*.ndjson")))
res = core.validate_traces("MacTrace.tla", "MacTrace.cfg", traces, "macdev", env={"KNOWN": kf})
c = collections.Counter()
tot = 0
for r in res:
    tot += r["distinct"]
    if r["accepted"]:
        continue
    ln = r.get("matched", 0) + 1
    ev = core.nth_event(r["trace"], ln)
    # find region of that history
    reg = None
    for i, e in enumerate(core.read_events(r["trace"], ln), 1):
        if e["ev"] == "reset":
            reg = (e["region"], e["front"], e["classc"])
    mm = r["mismatches"][-1] if r["mismatches"] else "?"
    key = mm.split('"expected"')[0][:150]
    c[key] += 1
    print(os.path.basename(r["trace"]), "line", ln, reg, ev["ev"], ev.get("kind", ""), ev["resp"]["k"] if "resp" in ev else "", (ev.get("frame") or {}).get("intent", ""))
    print("    ", mm[:700])
print("known", sum(len(r["known"]) for r in res))
print("accepted", sum(1 for r in res if r["accepted"]), "of", len(res), "states", tot)
