#!/bin/bash
# confirm_seed.sh <ID> <name>: confirm a seeded change in a fresh scratch worktree of /repo HEAD:
#  (1) patch applies, workspace test suite passes with it (demo excluded),
#  (2) the demonstration fails with the change and passes without it.
# Then store it under /verif/seeded/<name>/ and remove the scratch worktree.
set -u
ID=$1; NAME=$2; SRC=${SEEDROOT:-/tmp/seed}/$ID; WT=/tmp/wt/confirm_$NAME
export CARGO_NET_OFFLINE=true
cd /repo && git worktree add -q --detach $WT HEAD || exit 2
cd $WT
DEMO_PATH=$(python3 -c "import json;print(json.load(open('$SRC/meta.json'))['demo_path_in_repo'])")
DEMO_CMD=$(python3 -c "import json;print(json.load(open('$SRC/meta.json'))['demo_cmd'])")
echo "== demo: $DEMO_PATH ; cmd: $DEMO_CMD"
git apply $SRC/patch.diff || { echo "PATCH DOES NOT APPLY"; cd /repo; git worktree remove --force $WT; exit 3; }
echo "== suite with change"
cargo test --workspace --offline 2>&1 | grep -E "^test result|FAILED|failed" | sort | uniq -c | head -20
SUITE=${PIPESTATUS[0]}
mkdir -p $(dirname $DEMO_PATH); cp $SRC/demo.rs $DEMO_PATH
echo "== demo WITH change (expect failure)"
( cd $WT && eval "${DEMO_CMD#cd * && }" ) > $SRC/demo_with.log 2>&1; W=$?
grep -E "^test result|panicked|FAILED" $SRC/demo_with.log | head -5
git apply -R $SRC/patch.diff
echo "== demo WITHOUT change (expect pass)"
( cd $WT && eval "${DEMO_CMD#cd * && }" ) > $SRC/demo_without.log 2>&1; WO=$?
grep -E "^test result|panicked|FAILED" $SRC/demo_without.log | head -5
echo "RESULT suite_rc=$SUITE demo_with_rc=$W demo_without_rc=$WO"
cd /repo && git worktree remove --force $WT
if [ $W -ne 0 ] && [ $WO -eq 0 ]; then
  mkdir -p /verif/seeded/$NAME && cp $SRC/patch.diff $SRC/demo.rs $SRC/meta.json /verif/seeded/$NAME/ && echo "CONFIRMED -> /verif/seeded/$NAME"
else
  echo "NOT CONFIRMED"
fi
