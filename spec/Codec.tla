------------------------------- MODULE Codec -------------------------------
(* LoRaWAN 1.0.x frame layout and cryptography, written from the           *)
(* specification (LoRaWAN 1.0.3 sections 4 and 6), independent of lora-rs. *)
(* Bytes are 0..255; a 32-bit counter is <<hi16, lo16>>; addresses, EUIs   *)
(* and nonces are byte sequences in wire (little-endian) order; keys are   *)
(* 16-tuples; "no key" and "no port" are <<>> and -1.                      *)
EXTENDS Cmac, TLC

LE16(x) == <<x % 256, x \div 256>>
Fcnt32Bytes(c) == LE16(c[2]) \o LE16(c[1])          \* c = <<hi, lo>>

MTypeOf(mhdr) == mhdr \div 32
MajorOf(mhdr) == mhdr % 4
IsDataMType(t) == t \in 2..5
IsUplinkMType(t) == t \in {2, 4}
DirOf(t) == IF IsUplinkMType(t) THEN 0 ELSE 1

Take4(s) == <<s[1], s[2], s[3], s[4]>>

\* ---------------------------------------------------------------- data frames

\* B0 block for the MIC and A_i blocks for the key stream
B0(dir, addr, fcnt, len) == <<73, 0, 0, 0, 0, dir>> \o addr \o Fcnt32Bytes(fcnt) \o <<0, len % 256>>
ABlock(dir, addr, fcnt, i) == <<1, 0, 0, 0, 0, dir>> \o addr \o Fcnt32Bytes(fcnt) \o <<0, i % 256>>

\* AES-CTR style payload transformation (its own inverse)
CryptPayload(key, dir, addr, fcnt, data) ==
    LET rk == RoundKeys(key)
        n  == (Len(data) + 15) \div 16
        S  == TLCEval([i \in 1..n |-> EncryptRK(rk, ABlock(dir, addr, fcnt, i))])
    IN TLCEval([j \in 1..Len(data) |-> data[j] ^^ S[((j - 1) \div 16) + 1][((j - 1) % 16) + 1]])

DataMic(nwk, dir, addr, fcnt, msg) ==
    Take4(Cmac(nwk, B0(dir, addr, fcnt, Len(msg)) \o msg))

\* FCtrl octet.  ADRACKReq exists only in uplinks, FPending only in downlinks.
FCtrlByte(up, adr, adrAckReq, ack, fPending, fOptsLen) ==
    (IF adr = 1 THEN 128 ELSE 0) + (IF adrAckReq = 1 /\ up THEN 64 ELSE 0)
    + (IF ack = 1 THEN 32 ELSE 0) + (IF fPending = 1 /\ ~up THEN 16 ELSE 0) + fOptsLen

\* d: [mtype, addr, adr, adrackreq, ack, fpending, fcnt, fopts, port, frm, nwk, app, buflen]
DataForbidden(d) ==
    \/ Len(d.fopts) > 15
    \/ d.port = 0 /\ Len(d.fopts) > 0
    \/ d.nwk = <<>>
    \/ d.port > 0 /\ d.app = <<>> /\ Len(d.frm) > 0
DataLen(d) == 1 + 7 + Len(d.fopts) + (IF d.port >= 0 THEN 1 + Len(d.frm) ELSE 0) + 4
\* a description for which both refusing and building are acceptable
DataDontCare(d) == d.port > 0 /\ d.app = <<>> /\ Len(d.frm) = 0 /\ ~DataForbidden(d)

BuildDataBytes(d) ==
    LET up   == IsUplinkMType(d.mtype)
        dir  == DirOf(d.mtype)
        key  == IF d.port = 0 THEN d.nwk ELSE d.app
        enc  == IF d.port >= 0 /\ Len(d.frm) > 0
                THEN CryptPayload(key, dir, d.addr, d.fcnt, d.frm) ELSE <<>>
        msg  == <<d.mtype * 32>> \o d.addr
                \o <<FCtrlByte(up, d.adr, d.adrackreq, d.ack, d.fpending, Len(d.fopts))>>
                \o LE16(d.fcnt[2]) \o d.fopts
                \o (IF d.port >= 0 THEN <<d.port>> \o enc ELSE <<>>)
    IN msg \o DataMic(d.nwk, dir, d.addr, d.fcnt, msg)

\* --- decoding
StructOk(b) ==
    /\ Len(b) >= 12
    /\ MajorOf(b[1]) = 0
    /\ IsDataMType(MTypeOf(b[1]))
    /\ 8 + (b[6] % 16) <= Len(b) - 4

\* error class of a byte string presented as a data frame
StructClass(b) ==
    IF Len(b) < 12 THEN "TooShort"
    ELSE IF MajorOf(b[1]) # 0 THEN "UnsupportedMajorVersion"
    ELSE IF ~IsDataMType(MTypeOf(b[1])) THEN "NotADataFrame"
    ELSE IF 8 + (b[6] % 16) > Len(b) - 4 THEN "TruncatedFhdr"
    ELSE "ok"

\* header fields of a structurally valid data frame (FRMPayload still encrypted)
Fields(b) ==
    LET fol  == b[6] % 16
        after == 8 + fol               \* number of bytes before FPort
        micAt == Len(b) - 4
        hasPort == after < micAt
        t == MTypeOf(b[1])
    IN [ mtype  |-> t,
         addr   |-> <<b[2], b[3], b[4], b[5]>>,
         fctrl  |-> b[6],
         adr    |-> (b[6] \div 128) % 2,
         adrackreq |-> IF IsUplinkMType(t) THEN (b[6] \div 64) % 2 ELSE 0,
         ack    |-> (b[6] \div 32) % 2,
         fpending |-> IF IsUplinkMType(t) THEN 0 ELSE (b[6] \div 16) % 2,
         fcnt16 |-> b[7] + 256 * b[8],
         fopts  |-> SubSeq(b, 9, 8 + fol),
         port   |-> IF hasPort THEN b[after + 1] ELSE -1,
         frm    |-> IF hasPort THEN SubSeq(b, after + 2, micAt) ELSE <<>>,
         mic    |-> SubSeq(b, micAt + 1, Len(b)) ]

MicOk(b, nwk, fcnt) ==
    LET f == Fields(b)
    IN DataMic(nwk, DirOf(f.mtype), f.addr, fcnt, SubSeq(b, 1, Len(b) - 4)) = f.mic

\* plaintext FRMPayload; the counter is the high half of the argument and the wire low half
DecryptFrm(b, nwk, app, fcntArg) ==
    LET f == Fields(b)
        key == IF f.port = 0 THEN nwk ELSE app
    IN IF Len(f.frm) = 0 THEN <<>>
       ELSE CryptPayload(key, DirOf(f.mtype), f.addr, <<fcntArg[1], f.fcnt16>>, f.frm)

\* the whole buffer after in-place decryption
DecryptedBytes(b, nwk, app, fcntArg) ==
    LET f == Fields(b)
        pl == DecryptFrm(b, nwk, app, fcntArg)
        start == Len(b) - 4 - Len(f.frm)
    IN TLCEval([i \in 1..Len(b) |-> IF i > start /\ i <= Len(b) - 4 THEN pl[i - start] ELSE b[i]])

\* ---------------------------------------------------------------- join frames

JoinRequestBytes(joinEui, devEui, devNonce, appKey) ==
    LET msg == <<0>> \o joinEui \o devEui \o devNonce
    IN msg \o Take4(Cmac(appKey, msg))

\* plaintext of a JoinAccept (MHDR .. MIC); cflist is <<>> or 16 bytes
JoinAcceptPlain(joinNonce, netId, devAddr, dlSettings, rxDelay, cflist, appKey) ==
    LET msg == <<32>> \o joinNonce \o netId \o devAddr \o <<dlSettings, rxDelay>> \o cflist
    IN msg \o Take4(Cmac(appKey, msg))

\* ECB "encrypt" of bytes 2.. of a join accept (what the device applies; the server applies the inverse)
EcbEncryptTail(key, b) ==
    LET rk == RoundKeys(key)
        n  == (Len(b) - 1) \div 16
        tail == SubSeq(b, 2, Len(b))
        E  == TLCEval([i \in 1..n |-> EncryptRK(rk, Blk(tail, i))])
    IN <<b[1]>> \o TLCEval([j \in 1..(16 * n) |-> E[((j - 1) \div 16) + 1][((j - 1) % 16) + 1]])

JoinAcceptStructOk(b) == Len(b) \in {17, 33} /\ MajorOf(b[1]) = 0 /\ MTypeOf(b[1]) = 1
JoinAcceptClass(b) ==
    IF Len(b) = 0 THEN "TooShort"
    ELSE IF MajorOf(b[1]) # 0 THEN "UnsupportedMajorVersion"
    ELSE IF MTypeOf(b[1]) # 1 THEN "UnexpectedMessageType"
    ELSE IF Len(b) \notin {17, 33} THEN "InvalidLength"
    ELSE "ok"

\* decrypted image of a received join accept, and its authenticity
JoinAcceptDecrypted(b, appKey) == EcbEncryptTail(appKey, b)
JoinAcceptMicOk(plain, appKey) ==
    Take4(Cmac(appKey, SubSeq(plain, 1, Len(plain) - 4))) = SubSeq(plain, Len(plain) - 3, Len(plain))
JoinAcceptOk(b, appKey) == JoinAcceptStructOk(b) /\ JoinAcceptMicOk(JoinAcceptDecrypted(b, appKey), appKey)

JoinAcceptFields(p) ==
    [ joinNonce |-> SubSeq(p, 2, 4), netId |-> SubSeq(p, 5, 7), devAddr |-> SubSeq(p, 8, 11),
      dlSettings |-> p[12], rxDelay |-> p[13] % 16,
      cflist |-> IF Len(p) = 33 THEN SubSeq(p, 14, 29) ELSE <<>> ]

\* session key derivation: aes128_encrypt(AppKey, tag | JoinNonce | NetID | DevNonce | pad16)
DeriveKey(tag, appKey, joinNonce, netId, devNonce) ==
    Encrypt(appKey, <<tag>> \o joinNonce \o netId \o devNonce \o <<0, 0, 0, 0, 0, 0, 0>>)
DeriveNwkSKey(appKey, joinNonce, netId, devNonce) == DeriveKey(1, appKey, joinNonce, netId, devNonce)
DeriveAppSKey(appKey, joinNonce, netId, devNonce) == DeriveKey(2, appKey, joinNonce, netId, devNonce)

JoinRequestStructClass(b) ==
    IF Len(b) = 0 THEN "TooShort"
    ELSE IF MajorOf(b[1]) # 0 THEN "UnsupportedMajorVersion"
    ELSE IF MTypeOf(b[1]) # 0 THEN "UnexpectedMessageType"
    ELSE IF Len(b) # 23 THEN "InvalidLength"
    ELSE "ok"

\* ---------------------------------------------------------------- known answers
\* LoRaWAN uplink used in the lora-rs documentation: "hello" on port 1, FCnt 1, DevAddr 01020304,
\* NwkSKey 0x02*16, AppSKey 0x01*16 (cross-checked against other LoRaWAN stacks' vectors).
Rep16(x) == <<x, x, x, x, x, x, x, x, x, x, x, x, x, x, x, x>>
ASSUME BuildDataBytes([mtype |-> 2, addr |-> <<4, 3, 2, 1>>, adr |-> 1, adrackreq |-> 0, ack |-> 0, fpending |-> 0,
                       fcnt |-> <<0, 1>>, fopts |-> <<>>, port |-> 1, frm |-> <<104, 101, 108, 108, 111>>,
                       nwk |-> Rep16(2), app |-> Rep16(1), buflen |-> 256])
       = <<64, 4, 3, 2, 1, 128, 1, 0, 1, 166, 148, 100, 38, 21, 214, 195, 181, 130>>
=============================================================================
