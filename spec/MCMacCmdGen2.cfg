SPECIFICATION GSpec
CONSTANTS
  WireMod = 65536
  MaxGap = 16384
  HiMax = 65535
  AdrLimit = 64
  AdrDelay = 32
  Region = "EU868"
  SecondSmall = TRUE
  MaxDown = 2
VIEW GView
INVARIANTS Emit
CONSTRAINT Bound
CHECK_DEADLOCK FALSE
