---------------------------- MODULE MCMacCmdGen ----------------------------
(* Specification -> implementation.  MCMacCmd explored exhaustively, with a  *)
(* history variable (hidden from the state fingerprint by VIEW) that records *)
(* the abstract events leading to each state.  TLC reaches every distinct    *)
(* state of the design exactly once; the history printed for it is a         *)
(* behaviour of the specification ending in that state.  The runner turns    *)
(* every maximal history into a script (ABP session, one uplink per event,   *)
(* the network's downlink built with the session keys) executed on the real  *)
(* nb and async devices; the recorded trace is validated by MacTrace.tla.    *)
(* The set of printed histories covers every reachable state of MCMacCmd     *)
(* and every first-visit transition.                                         *)
EXTENDS MCMacCmd, Json

CONSTANT SecondSmall
VARIABLE hist
gvars == <<m, nDown, owed, lastReqs, lastSts, pre, hist>>

GInit == Init /\ hist = <<>>
\* With SecondSmall the downlinks after the first are limited to a repetition of the previous one (what a network
\* does until it has seen the answers) and a few requests of each kind: all first downlinks x these, instead of
\* all x all (1.4 M generated successors at MaxDown 2).
SmallSet ==
    {[kind |-> "adr", cmds |-> <<AdrCmd(5, 14, 0, <<7, 0>>)>>], [kind |-> "adr", cmds |-> <<AdrCmd(15, 15, 6, <<0, 0>>)>>],
     [kind |-> "rxparam", off |-> 5, dr |-> 0, freq |-> InBand], [kind |-> "timing", del |-> 5], [kind |-> "devstatus"]}
    \cup (IF Fixed THEN {} ELSE
          {[kind |-> "newch", idx |-> 3, freq |-> InBand, dmin |-> 0, dmax |-> 5], [kind |-> "newch", idx |-> 3, freq |-> 0, dmin |-> 0, dmax |-> 5],
           [kind |-> "dlch", idx |-> 0, freq |-> InBand + 200000]})
May(reqs) == ~SecondSmall \/ nDown = 0 \/ reqs = lastReqs \/ (Len(reqs) = 1 /\ reqs[1] \in SmallSet)
GNext ==
    \/ \E a \in Alphabet : May(<<a>>) /\ Downlink(<<a>>) /\ hist' = Append(hist, [t |-> "down", reqs |-> <<a>>])
    \/ \E a \in PairAdr, b \in OtherAlphabet :
          \/ May(<<a, b>>) /\ Downlink(<<a, b>>) /\ hist' = Append(hist, [t |-> "down", reqs |-> <<a, b>>])
          \/ May(<<b, a>>) /\ Downlink(<<b, a>>) /\ hist' = Append(hist, [t |-> "down", reqs |-> <<b, a>>])
    \/ Uplink /\ hist' = Append(hist, [t |-> "up", reqs |-> <<>>])
GSpec == GInit /\ [][GNext]_gvars

GView == <<m, nDown, owed, lastReqs, lastSts, pre>>

\* one line per generated successor: the behaviour that reached it (TLC evaluates an invariant on every generated
\* successor before the VIEW decides whether it is new; the runner drops duplicates and proper prefixes)
Emit == PrintT(<<"REPLAY", ToJson(hist)>>)
=============================================================================
