---------------------------- MODULE MCMacCmdGen ----------------------------
(* Specification -> implementation.  MCMacCmd explored exhaustively, with a  *)
(* history variable (hidden from the state fingerprint by VIEW) that records *)
(* the abstract events leading to each state.  TLC reaches every distinct    *)
(* state of the design exactly once; the history printed for it is a         *)
(* behaviour of the specification ending in that state.  The runner turns    *)
(* every maximal history into a script (ABP session, one uplink per event,   *)
(* the network's downlink built with the session keys) executed on the real  *)
(* nb and async devices; the recorded trace is validated by MacTrace.tla.    *)
(* The set of printed histories covers every reachable state of MCMacCmd     *)
(* and every first-visit transition.                                         *)
EXTENDS MCMacCmd, Json

VARIABLE hist
gvars == <<m, nDown, owed, lastReqs, lastSts, pre, hist>>

GInit == Init /\ hist = <<>>
GNext ==
    \/ \E a \in Alphabet : Downlink(<<a>>) /\ hist' = Append(hist, [t |-> "down", reqs |-> <<a>>])
    \/ \E a \in PairAdr, b \in OtherAlphabet :
          \/ Downlink(<<a, b>>) /\ hist' = Append(hist, [t |-> "down", reqs |-> <<a, b>>])
          \/ Downlink(<<b, a>>) /\ hist' = Append(hist, [t |-> "down", reqs |-> <<b, a>>])
    \/ Uplink /\ hist' = Append(hist, [t |-> "up", reqs |-> <<>>])
GSpec == GInit /\ [][GNext]_gvars

GView == <<m, nDown, owed, lastReqs, lastSts, pre>>

\* one line per distinct state: the behaviour that reached it
Emit == PrintT(<<"REPLAY", ToJson(hist)>>)
=============================================================================
