SPECIFICATION Spec
CONSTANTS
  WireMod = 65536
  MaxGap = 16384
  HiMax = 65535
  AdrLimit = 64
  AdrDelay = 32
  Region = "US915"
  MaxJoins = 2
  MaxDown = 1
  DlSet = {0, 18, 127, 96, 8}
  DelSet = {0, 1, 5, 15}
  CfKinds = {"none", "t0ok", "t1ok", "t1zero", "rfu"}
VIEW JView
INVARIANTS JoinedOnlyByValidAccept NotJoinedWithoutAccept JoinRestartsSession JoinChannelsReadOnly ChannelsInBand ParamsLegal MaskNeverEmptyFixed
PROPERTY AcceptApplied
CHECK_DEADLOCK FALSE
