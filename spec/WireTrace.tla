----------------------------- MODULE WireTrace -----------------------------
(* Trace validation of the SX126x / SX127x drivers of lora-phy (and of        *)
(* Semtech's SWL2001 reference driver) at the SPI-byte level against          *)
(* Sx126xWire.tla / Sx127xWire.tla / RxFetch.tla (properties C13, C17, C18).  *)
(* Every event is an independent observation; a deviating event is printed    *)
(* (soft mismatch) and validation continues.                                  *)
EXTENDS RxFetch, Json, IOUtils, TLC, TLCExt

Rec == ndJsonDeserialize(IOEnv.TRACE)

\* open known findings (deviation signatures) that may be matched instead of the intended behaviour
Allowed == IF "KNOWN" \in DOMAIN IOEnv THEN JsonDeserialize(IOEnv.KNOWN) ELSE <<>>
IsAllowed(sig) == \E i \in 1..Len(Allowed) : Allowed[i] = sig

VARIABLE l
vars == <<l>>

Chk(name, exp, obs) ==
    IF exp = obs THEN TRUE
    ELSE PrintT(<<"MISMATCH", l, name, "expected", exp, "observed", obs>>) /\ FALSE
\* a listed known finding matched at this line (the runner turns it into a KNOWN-FINDING line)
Known(sig, detail) == PrintT(<<"KNOWN", l, sig, detail>>)

\* ------------------------------------------------------------------ C18: fetch
\* e.cases[i] = <<reportedLen, configuredLen, panic, ok, len, segs>>
FetchCaseOk(e, c) ==
    LET o == [panic |-> c[3], ok |-> c[4], len |-> c[5], segs |-> c[6]] IN
    IF OutcomeOk(e.chip, e.status, e.hdr = 1, c[1], c[2], e.off, e.bufsz, o) THEN TRUE
    ELSE Chk(<<"fetch", e.chip, e.path, "implicit", e.hdr, "off", e.off, "bufsz", e.bufsz, "status", e.status,
               "reported", c[1], "configured", c[2],
               Why(e.chip, e.status, e.hdr = 1, c[1], c[2], e.off, e.bufsz, o)>>,
             [ok |-> IF MustFail(PacketLen(e.hdr = 1, c[1], c[2]), e.bufsz) THEN 0 ELSE 1,
              len |-> PacketLen(e.hdr = 1, c[1], c[2]),
              segs |-> ExpectedSegs(e.off, PacketLen(e.hdr = 1, c[1], c[2]), e.bufsz)],
             [ok |-> o.ok, len |-> o.len, segs |-> o.segs, panic |-> o.panic])

FetchOk(e) == \A i \in 1..Len(e.cases) : FetchCaseOk(e, e.cases[i])

Match(e) ==
    CASE e.ev = "fetch" -> FetchOk(e)
      [] OTHER -> Chk("unknown event", "", e.ev)

Init == l = 1
Next == l <= Len(Rec) /\ IF Match(Rec[l]) THEN l' = l + 1 ELSE l' = l + 1
Spec == Init /\ [][Next]_vars

Accepted ==
    IF TLCGet("stats").diameter = Len(Rec) + 1 THEN TRUE
    ELSE PrintT(<<"TRACE-REJECTED", "matched", TLCGet("stats").diameter - 1, "of", Len(Rec)>>) /\ FALSE
=============================================================================
