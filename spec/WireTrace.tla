----------------------------- MODULE WireTrace -----------------------------
(* Trace validation of the SX126x / SX127x drivers of lora-phy (and of        *)
(* Semtech's SWL2001 reference driver) at the SPI-byte level against          *)
(* Sx126xWire.tla / Sx127xWire.tla / RxFetch.tla (properties C13, C17, C18).  *)
(* Every event is an independent observation; a deviating event is printed    *)
(* (soft mismatch) and validation continues.                                  *)
EXTENDS RxFetch, Sx126xWire, Sx127xWire, Modulation, FiniteSets, Json, IOUtils, TLC, TLCExt

Rec == ndJsonDeserialize(IOEnv.TRACE)

\* open known findings (deviation signatures) that may be matched instead of the intended behaviour
Allowed == IF "KNOWN" \in DOMAIN IOEnv THEN JsonDeserialize(IOEnv.KNOWN) ELSE <<>>
IsAllowed(sig) == \E i \in 1..Len(Allowed) : Allowed[i] = sig

VARIABLE l
vars == <<l>>

Chk(name, exp, obs) ==
    IF exp = obs THEN TRUE
    ELSE PrintT(<<"MISMATCH", l, name, "expected", exp, "observed", obs>>) /\ FALSE
\* a listed known finding matched at this line (the runner turns it into a KNOWN-FINDING line)
Known(sig, detail) == PrintT(<<"KNOWN", l, sig, detail>>)

\* ------------------------------------------------------------------ C18: fetch
\* e.cases[i] = <<reportedLen, configuredLen, panic, ok, len, segs>>
FetchCaseOk(e, c) ==
    LET o == [panic |-> c[3], ok |-> c[4], len |-> c[5], segs |-> c[6]] IN
    IF OutcomeOk(e.chip, e.status, e.hdr = 1, c[1], c[2], e.off, e.bufsz, o) THEN TRUE
    ELSE Chk(<<"fetch", e.chip, e.path, "implicit", e.hdr, "off", e.off, "bufsz", e.bufsz, "status", e.status,
               "reported", c[1], "configured", c[2],
               Why(e.chip, e.status, e.hdr = 1, c[1], c[2], e.off, e.bufsz, o)>>,
             [ok |-> IF MustFail(PacketLen(e.hdr = 1, c[1], c[2]), e.bufsz) THEN 0 ELSE 1,
              len |-> PacketLen(e.hdr = 1, c[1], c[2]),
              segs |-> ExpectedSegs(e.off, PacketLen(e.hdr = 1, c[1], c[2]), e.bufsz)],
             [ok |-> o.ok, len |-> o.len, segs |-> o.segs, panic |-> o.panic])

FetchOk(e) == \A i \in 1..Len(e.cases) : FetchCaseOk(e, e.cases[i])


\* ------------------------------------------------------------------ helpers on recorded transactions
IsWrite126(t, op) == Len(t) >= 1 /\ t[1] = op
LastIdx(txns, P(_)) ==
    LET idx == {i \in 1..Len(txns) : P(txns[i])} IN IF idx = {} THEN 0 ELSE CHOOSE i \in idx : \A j \in idx : j <= i
IsRegWrite126(t, addr) == Len(t) >= 4 /\ t[1] = OpWriteRegister /\ t[2] = Hi8(addr) /\ t[3] = Lo8(addr)
ZeroRf == SubSeq(Z256, 1, 128)
\* register file from a sparse list of <<address, value>>
RECURSIVE RfFrom(_, _, _)
RfFrom(rf, p, i) == IF i > Len(p) THEN rf ELSE RfFrom([rf EXCEPT ![p[i][1] + 1] = p[i][2]], p, i + 1)
Is126(chip) == chip \in {"sx1261", "sx1262", "stm32wl-hp", "stm32wl-lp"}

\* ------------------------------------------------------------------ C17: frequency
DFreqOk(e) ==
    LET f0 == U32(e.f0) IN
    /\ Chk(<<"dfreq result", e.chip, f0>>, "ok", e.res)
    /\ \A i \in 1..Len(e.cases) :
          LET f == f0 + (i - 1) * e.step
              txns == e.cases[i] IN
          IF Is126(e.chip) THEN
             /\ Chk(<<"dfreq sx126x: one SetRfFrequency transaction", f>>, TRUE, Len(txns) = 1 /\ IsSetRfFrequency(txns[1]))
             /\ LET w == RfWordOf(txns[1]) IN
                Chk(<<"dfreq sx126x: synthesiser word is the nearest step (error in 1/16384 Hz)", f, w, FreqErrNum126(w, f)>>,
                    TRUE, FreqNearest126(w, f) /\ FreqWithin1Hz126(w, f))
          ELSE LET w == FrfWordOf(X7Exec(ZeroRf, txns).rf) IN
               Chk(<<"dfreq sx127x: synthesiser word within one step, < 62 Hz (error in 1/256 Hz)", e.chip, f, w, FreqErrNum127(w, f)>>,
                   TRUE, FreqWithin62Hz127(w, f))
    /\ IF Is126(e.chip) /\ e.step = 15625 THEN
          \A i \in 1..(Len(e.cases) - 1) :
             Chk(<<"dfreq sx126x: conversion is periodic (f + 15625 Hz -> word + 16384)", f0 + (i - 1) * e.step>>,
                 RfWordOf(e.cases[i][1]) + 16384, RfWordOf(e.cases[i + 1][1]))
       ELSE TRUE

\* ------------------------------------------------------------------ C17: TX power
\* the chip range of the PA path; the low-power PA below 400 MHz is limited to paDutyCycle 4 = +14 dBm (DS 13.1.14)
PowerCase126Ok(e, c) ==
    LET req == c[1]  res == c[2]  txns == c[3]
        ds == DeviceSel(e.chip)
        lfLimit == ds = 1 /\ e.band = "lf"
        hi == IF lfLimit THEN 14 ELSE ChipMaxDbm(ds)
        target == Clamp(req, ChipMinDbm(ds), hi)
        ip == LastIdx(txns, LAMBDA t : IsWrite126(t, OpSetPaConfig) /\ Len(t) = 5)
        it == LastIdx(txns, LAMBDA t : IsWrite126(t, OpSetTxParams) /\ Len(t) = 3)
    IN IF res = "err" THEN Chk(<<"dpower sx126x: refused without a reason", e.chip, e.band, req>>, TRUE, lfLimit /\ req >= 15)
       ELSE IF res # "ok" \/ ip = 0 \/ it = 0 THEN Chk(<<"dpower sx126x: no PA programming / panic", e.chip, e.band, req, res>>, "ok", "none")
       ELSE LET pa == txns[ip]  tp == txns[it]
                d == PaDecode(e.chip, pa[2], pa[3], FromByte(tp[2])) IN
            /\ Chk(<<"dpower sx126x: deviceSel / paLut", e.chip, req>>, <<ds, 1>>, <<pa[4], pa[5]>>)
            /\ Chk(<<"dpower sx126x: PA settings decode (table 13-21) to the request clamped into the chip range",
                     e.chip, e.band, "req", req, "paConfig", pa, "txParams", tp, "target", target, "decoded", d>>, TRUE, target \in d)

PowerCase127Ok(e, c, rf0) ==
    LET req == c[1]  res == c[2]  txns == c[3]
        rf == X7Exec(rf0, txns).rf
        padac == IF e.chip = "sx1272" THEN RPaDac1272 ELSE RPaDac1276
        d10 == PaDecode10(e.chip, rf[RPaConfig + 1], rf[padac + 1])
        target == Clamp(req, PaMin(e.chip, e.boost), PaMax(e.chip, e.boost))
    IN /\ Chk(<<"dpower sx127x: result", e.chip, e.boost, req>>, "ok", res)
       /\ Chk(<<"dpower sx127x: PA path (PaSelect)", e.chip, req>>, e.boost, rf[RPaConfig + 1] \div 128)
       /\ Chk(<<"dpower sx127x: PA registers decode to the request clamped into the range, never above it, less than 1 dB below (1/10 dB)",
                e.chip, "boost", e.boost, "req", req, "RegPaConfig", rf[RPaConfig + 1], "RegPaDac", rf[padac + 1], "decoded", d10, "target", 10 * target>>,
              TRUE, d10 <= 10 * target /\ 10 * target - d10 < 10)

DPowerOk(e) ==
    IF Is126(e.chip) THEN \A i \in 1..Len(e.cases) : PowerCase126Ok(e, e.cases[i])
    ELSE LET rf0 == RfFrom(ZeroRf, e.rf, 1) IN \A i \in 1..Len(e.cases) : PowerCase127Ok(e, e.cases[i], rf0)

\* ------------------------------------------------------------------ C17: symbol-count timeout
SymbDecode126(txns) ==
    LET ic == LastIdx(txns, LAMBDA t : IsWrite126(t, OpSetLoRaSymbNumTimeout) /\ Len(t) = 2)
        ir == LastIdx(txns, LAMBDA t : IsRegWrite126(t, RegSynchTimeout) /\ Len(t) = 4)
    IN [cmd |-> IF ic = 0 THEN -1 ELSE txns[ic][2], reg |-> IF ir = 0 THEN -1 ELSE txns[ir][4]]
SymbCaseOk(e, c) ==
    LET n == c[1]  res == c[2]  txns == c[3] IN
    /\ Chk(<<"dsymb result", e.chip, n>>, "ok", res)
    /\ IF Is126(e.chip) THEN
          LET d == SymbDecode126(txns) IN
          IF n = 0 THEN Chk(<<"dsymb sx126x: no timeout requested", n>>, [cmd |-> 0, reg |-> -1], d)
          ELSE /\ Chk(<<"dsymb sx126x: command and register present", n>>, TRUE, d.cmd >= 0 /\ d.reg >= 0)
               /\ Chk(<<"dsymb sx126x: programmed timeout (mantissa * 2^(2 exp + 1)) covers the request up to 248 symbols",
                        "n", n, "reg", d.reg, "decoded", SymbDecodeReg(d.reg)>>, TRUE,
                      SymbDecodeReg(d.reg) >= MinI(n, MaxLoRaSymbNumTimeout) /\ SymbDecodeReg(d.reg) <= MaxLoRaSymbNumTimeout)
               /\ Chk(<<"dsymb sx126x: command byte and register agree", n>>, SymbDecodeReg(d.reg) % 256, d.cmd)
       ELSE LET s == SymbDecode7(X7Exec(ZeroRf, txns).rf) IN
            Chk(<<"dsymb sx127x: programmed 10-bit timeout covers the request up to 1023 symbols", e.chip, "n", n, "decoded", s>>,
                TRUE, s >= MinI(n, MaxSymbTimeout7))
DSymbOk(e) == \A i \in 1..Len(e.cases) : SymbCaseOk(e, e.cases[i])

\* ------------------------------------------------------------------ C17: LoRaWAN adapter, ms -> symbols
\* A single-shot window of `ms' extra milliseconds must stay open for the 12.25 preamble symbols plus ms:
\*   S * Tsym >= 12.25 * Tsym + ms,  Tsym = 2^SF / BW (exact bandwidth num/den Hz)
\*   <=>  (4 S - 49) * 2^SF * den * 250 >= ms * num
Covers(s, sf, bw, ms) ==
    LET a == 4 * s - 49
        x == a * Pow2(sf) IN
    IF a <= 0 THEN ms = 0 /\ a >= 0
    ELSE IF x > 2000000 THEN TRUE                      \* beyond 1000 ms * 500 kHz / 250: covered without multiplying further
    ELSE x * BwExactDen[bw + 1] * 250 >= ms * BwExactNum[bw + 1]
AdapterCaseOk(e, c) ==
    LET ms == c[1]  txns == c[2]
        chipMax == IF Is126(e.chip) THEN MaxLoRaSymbNumTimeout ELSE MaxSymbTimeout7
        s == IF Is126(e.chip) THEN (LET d == SymbDecode126(txns) IN IF d.reg < 0 THEN 0 ELSE SymbDecodeReg(d.reg))
             ELSE SymbDecode7(X7Exec(ZeroRf, txns).rf)
    IN IF s >= chipMax \/ Covers(s, e.sf, e.bw, ms) THEN TRUE
       ELSE IF Covers(s + 1, e.sf, e.bw, ms) /\ IsAllowed("lorawan-rx-window-quarter-symbol-short")
            THEN Known("lorawan-rx-window-quarter-symbol-short", <<e.chip, e.sf, e.bw, ms, s>>)
       ELSE Chk(<<"symbols: receive timeout shorter than 12.25 preamble symbols + the requested margin",
                  e.chip, "sf", e.sf, "bw", e.bw, "ms", ms, "symbols", s>>, TRUE, FALSE)
SymbolsOk(e) ==
    /\ Chk(<<"symbols: adapter run", e.chip, e.sf, e.bw>>, "ok", e.res)
    /\ \A i \in 1..Len(e.cases) : AdapterCaseOk(e, e.cases[i])

\* ------------------------------------------------------------------ C17: packet status, RSSI
PktCase126Ok(e, c) ==
    LET r0 == c[1]  r1 == c[2]  res == c[4]  rssi == c[5]  snr == c[6] IN
    IF res = "panic" /\ r1 \in {126, 127} /\ IsAllowed("sx126x-snr-overflow")
    THEN Known("sx126x-snr-overflow", <<r0, r1>>)
    ELSE /\ Chk(<<"pktstatus sx126x: result", r0, r1, c[3]>>, "ok", res)
         /\ Chk(<<"pktstatus sx126x: RSSI within 1 dB of -RssiPkt/2", "raw", r0, "reported", rssi>>, TRUE,
                AbsI(4 * rssi - RssiQuarterDb126(r0)) < 4)
         /\ Chk(<<"pktstatus sx126x: SNR within 1 dB of SnrPkt/4", "raw", r1, "reported", snr>>, TRUE,
                AbsI(4 * snr - SnrQuarterDb126(r1)) < 4)
\* SX127x (DS 5.5.5): SNR = PacketSnr/4; SNR >= 0: RSSI = offset + 16/15 PacketRssi; SNR < 0: RSSI = offset + PacketRssi + SNR
\* (the data sheet gives the SNR < 0 formula without the 16/15 slope correction, SWL2001 and LoRaMac-node with it: both accepted;
\* the branch and the SNR term are judged on the reported whole-dB SNR).  Units 1/15 dB.
PktCase127Ok(e, c) ==
    LET rr == c[1]  sr == c[2]  res == c[4]  rssi == c[5]  snr == c[6]
        off == RssiOffset7(e.chip, IF e.band = "hf" THEN 868100000 ELSE 434000000)
        lin == 15 * off + 16 * rr
        raw == 15 * off + 15 * rr IN
    /\ Chk(<<"pktstatus sx127x: result", e.chip, rr, sr>>, "ok", res)
    /\ Chk(<<"pktstatus sx127x: SNR within 1 dB of PacketSnr/4", e.chip, "raw", sr, "reported", snr>>, TRUE,
           AbsI(4 * snr - SnrQuarterDb7(sr)) < 4)
    /\ Chk(<<"pktstatus sx127x: RSSI within 1 dB of the data sheet conversion", e.chip, e.band, "rssi raw", rr, "snr raw", sr,
             "reported rssi", rssi, "reported snr", snr>>, TRUE,
           IF snr >= 0 THEN AbsI(15 * rssi - lin) < 15
           ELSE AbsI(15 * rssi - (lin + 15 * snr)) < 15 \/ AbsI(15 * rssi - (raw + 15 * snr)) < 15)
PktStatusOk(e) ==
    IF Is126(e.chip) THEN \A i \in 1..Len(e.cases) : PktCase126Ok(e, e.cases[i])
    ELSE \A i \in 1..Len(e.cases) : PktCase127Ok(e, e.cases[i])
RssiInstOk(e) ==
    \A i \in 1..Len(e.cases) :
       LET c == e.cases[i] IN
       /\ Chk(<<"rssiinst result", e.chip, c[1]>>, "ok", c[2])
       /\ IF Is126(e.chip) THEN Chk(<<"rssiinst sx126x: within 1 dB of -RssiInst/2", c[1], c[3]>>, TRUE, AbsI(4 * c[3] + 2 * c[1]) < 4)
          ELSE Chk(<<"rssiinst sx127x: offset + RegRssiValue", e.chip, e.band, c[1], c[3]>>,
                   RssiOffset7(e.chip, IF e.band = "hf" THEN 868100000 ELSE 434000000) + c[1], c[3])

\* ------------------------------------------------------------------ C13: SX126x transactions
\* prior content of a register from the case's priming list (0 when not primed)
RECURSIVE PriorAt(_, _, _)
PriorAt(p, addr, i) == IF i > Len(p) THEN 0 ELSE IF p[i][1] = addr THEN p[i][2] ELSE PriorAt(p, addr, i + 1)
Prior(c, addr) == PriorAt(c.p, addr, 1)
RetentionList(c) == [i \in 1..9 |-> Prior(c, RegRetentionList + i - 1)]

Exp(name, e, c, exp) == Chk(<<"wire", e.drv, e.chip, e.op, name, "args", c.a, "prior", c.p>>, exp, c.t)
ExpIn(name, e, c, expset) ==
    IF c.t \in expset THEN TRUE
    ELSE Chk(<<"wire", e.drv, e.chip, e.op, name, "args", c.a, "prior", c.p>>, CHOOSE x \in expset : TRUE, c.t)
ResOk(e, c) == Chk(<<"wire result", e.drv, e.chip, e.op, c.a>>, "ok", c.res)

\* lora-phy radio mode codes of the recorder: 0 none, 1 standby, 2 transmit, 3 receive (continuous), 4 CAD, 5 sleep, 6 receive (single)
ModeName(code) == CASE code = 2 -> "tx" [] code \in {3, 6} -> "rx" [] code = 4 -> "cad" [] OTHER -> "idle"
\* IRQ set-up of a mode: all enabled interrupts are routed to DIO1, DIO2/DIO3 unused, everything the mode needs is enabled
IrqParamsOk(mode, t) ==
    /\ Len(t) = 1 /\ Len(t[1]) = 9 /\ t[1][1] = OpSetDioIrqParams
    /\ LET irq == t[1][2] * 256 + t[1][3]
           dio1 == t[1][4] * 256 + t[1][5] IN
       /\ dio1 = irq
       /\ (irq & IrqNeeded(mode)) = IrqNeeded(mode)
       /\ SubSeq(t[1], 6, 9) = <<0, 0, 0, 0>>

\* image calibration: inside a band of table 9-2 the band's pair; elsewhere one well-formed CalibrateImage command
CalImageOk(f, t) ==
    /\ Len(t) = 1 /\ Len(t[1]) = 3 /\ t[1][1] = OpCalibrateImage
    /\ LET b == CalBandOf(f) IN
       IF b = {} THEN TRUE ELSE LET band == CalBands[CHOOSE i \in b : TRUE] IN <<t[1][2], t[1][3]>> = <<band[3], band[4]>>

\* start-up: a = <<sync word, use DC-DC, TCXO voltage code or -1>>.  The ClearDeviceErrors transaction of the TCXO branch is
\* compared up to surplus trailing NOPs (Sx126xWire!IsClearDeviceErrors): it is replaced by the data sheet frame first.
NormClearErrors(t) == [i \in 1..Len(t) |-> IF IsClearDeviceErrors(t[i]) THEN ClearDeviceErrors[1] ELSE t[i]]
Init126(e, c) ==
    LET sw == c.a[1]
        l0 == RetentionList(c)
        addsGain == ~RetentionHas(l0, RegRxGain) /\ l0[1] < 4
        l1 == IF addsGain THEN RetentionAdded(l0, RegRxGain) ELSE l0
        dio2 == e.chip \in {"sx1261", "sx1262"}
    IN (IF c.a[2] = 1 THEN SetRegulatorMode(1) ELSE <<>>)
       \o (IF dio2 THEN SetDio2AsRfSwitchCtrl(1) ELSE <<>>)
       \o (IF c.a[3] >= 0 THEN ClearDeviceErrors \o SetDio3AsTcxoCtrl(c.a[3], TcxoDelay10ms) \o Calibrate(CalibrateAll) ELSE <<>>)
       \o SetPacketType(1) \o SetLoRaSyncWord16(sw) \o SetBufferBaseAddress(0, 0)
       \o AddToRetentionList(l0, RegRxGain)
       \o (IF l0[1] >= 4 /\ ~RetentionHas(l0, RegRxGain) THEN <<>> ELSE AddToRetentionList(l1, RegTxModulation))

RetentionFull(lst, addr) == ~RetentionHas(lst, addr) /\ lst[1] >= 4
Init126Fails(c) ==
    LET l0 == RetentionList(c)
        l1 == IF ~RetentionHas(l0, RegRxGain) /\ l0[1] < 4 THEN RetentionAdded(l0, RegRxGain) ELSE l0
    IN RetentionFull(l0, RegRxGain) \/ RetentionFull(l1, RegTxModulation)

Wire126LoraPhy(e, c) ==
    LET a == c.a IN
    CASE e.op = "sleep" -> ResOk(e, c) /\ Exp("SetSleep", e, c, SetSleep(a[1] = 1))
      [] e.op = "standby" -> ResOk(e, c) /\ Exp("SetStandby(STDBY_RC)", e, c, SetStandby(0))
      [] e.op = "tx_start" -> ResOk(e, c) /\ Exp("SetTx(no timeout)", e, c, SetTx(0))
      [] e.op = "cw" -> ResOk(e, c) /\ Exp("SetTxContinuousWave", e, c, SetTxContinuousWave)
      [] e.op = "wakeup" -> ResOk(e, c) /\ Exp("GetStatus", e, c, GetStatus)
      [] e.op = "rf_freq" -> ResOk(e, c) /\ Exp("SetRfFrequency", e, c, SetRfFrequency(a[1] * 65536 + a[2]))
      [] e.op = "cal_image" -> ResOk(e, c) /\ Chk(<<"wire", e.drv, e.chip, e.op, "CalibrateImage (table 9-2)", a[1] * 65536 + a[2], c.t>>, TRUE,
                                                   CalImageOk(a[1] * 65536 + a[2], c.t))
      [] e.op = "mod_params" -> ResOk(e, c) /\ Exp("SetModulationParams + 15.1", e, c, SetModulationParams(a[1], a[2], a[3], a[4], Prior(c, RegTxModulation)))
      [] e.op = "pkt_params" -> ResOk(e, c) /\ Exp("SetPacketParams + 15.4", e, c, SetPacketParams(a[1], a[2], a[3], a[4], a[5], Prior(c, RegIqPolarity)))
      [] e.op = "sync_word" -> ResOk(e, c) /\ Exp("sync word registers", e, c, SetLoRaSyncWord16(a[1]))
      [] e.op = "buffer_base" ->
            IF a[1] > 255 \/ a[2] > 255 THEN Chk(<<"wire", e.drv, e.op, "refused", a>>, <<"err", <<>>>>, <<c.res, c.t>>)
            ELSE ResOk(e, c) /\ Exp("SetBufferBaseAddress", e, c, SetBufferBaseAddress(a[1], a[2]))
      [] e.op = "write_buffer" -> ResOk(e, c) /\ Exp("WriteBuffer", e, c, WriteBuffer(a[1], c.d))
      [] e.op = "tx_power" -> ResOk(e, c) /\ ExpIn("TX clamp + SetPaConfig + SetTxParams (table 13-21)", e, c,
                                                 SetTxPower(e.chip, a[1], IF a[2] = 1 THEN Ramp40us ELSE Ramp200us, Prior(c, RegTxClampConfig)))
      [] e.op = "irq_params" -> ResOk(e, c) /\ Chk(<<"wire", e.drv, e.chip, e.op, "SetDioIrqParams", a, c.t>>, TRUE, IrqParamsOk(ModeName(a[1]), c.t))
      [] e.op = "irq_process" -> ResOk(e, c) /\ Exp("GetIrqStatus, ClearIrqStatus(all) (+ 15.3 after single-mode RxDone)", e, c,
                                                    GetIrqStatus \o ClearIrqStatus(65535) \o (IF a[1] = 6 THEN StopRtcWorkaround(Prior(c, RegEventMask)) ELSE <<>>))
      [] e.op = "rx_start" -> ResOk(e, c) /\ Exp("StopTimerOnPreamble, symbol timeout, RX gain, SetRx", e, c,
                                                 RxStart(CASE a[1] = 0 -> "single" [] a[1] = 1 -> "continuous" [] OTHER -> "duty", a[2], a[3], a[4], a[5]))
      [] e.op = "cad_start" -> ResOk(e, c) /\ Exp("RX gain, SetCadParams, SetCad", e, c, CadStart(a[1], a[2]))
      [] e.op = "pkt_status" -> ResOk(e, c) /\ Exp("GetPacketStatus", e, c, GetPacketStatus)
      [] e.op = "rssi_inst" -> ResOk(e, c) /\ Exp("GetRssiInst", e, c, GetRssiInst)
      [] e.op = "fetch" -> ResOk(e, c) /\ Exp("GetRxBufferStatus (+ length register) + ReadBuffer", e, c, FetchTxns(a[1], a[2], a[3], a[4]))
      [] e.op = "init" -> Chk(<<"wire result (a full retention list is an error)", e.drv, e.chip, e.op, c.a, c.p>>,
                              IF Init126Fails(c) THEN "err" ELSE "ok", c.res)
                          /\ Chk(<<"wire", e.drv, e.chip, e.op, "start-up sequence (regulator, DIO2, TCXO + calibration, packet type, sync word, buffer base, retention list)",
                                    "args", c.a, "prior", c.p>>, Init126(e, c), NormClearErrors(c.t))
                          /\ (IF c.a[3] >= 0 /\ \E i \in 1..Len(c.t) : IsClearDeviceErrors(c.t[i]) /\ c.t[i] # ClearDeviceErrors[1]
                              THEN PrintT(<<"INFO", l, "ClearDeviceErrors clocked with surplus trailing NOPs", e.chip,
                                            c.t[CHOOSE i \in 1..Len(c.t) : IsClearDeviceErrors(c.t[i])]>>) ELSE TRUE)
      [] OTHER -> Chk(<<"wire: operation unknown for lora-phy", e.chip>>, "", e.op)

\* The reference's functions; a rejected reference trace is a defect of the specification (tool error in the runner)
Wire126Reference(e, c) ==
    LET a == c.a IN
    /\ (IF e.op = "retention_add" /\ RetentionFull(RetentionList(c), a[1])
        THEN Chk(<<"wire result (a full retention list is an error)", e.drv, e.op, c.a, c.p>>, "err", c.res) ELSE ResOk(e, c))
    /\ CASE e.op = "sleep" -> Exp("SetSleep", e, c, SetSleep(a[1] = 1))
      [] e.op = "standby" -> Exp("SetStandby", e, c, SetStandby(a[1]))
      [] e.op = "set_tx" -> Exp("SetTx (ms * 64 RTC steps)", e, c, SetTx(a[1] * 64))
      [] e.op = "cw" -> Exp("SetTxContinuousWave", e, c, SetTxContinuousWave)
      [] e.op = "wakeup" -> Exp("GetStatus", e, c, GetStatus)
      [] e.op = "rf_freq" -> Exp("SetRfFrequency", e, c, SetRfFrequency(a[1] * 65536 + a[2]))
      [] e.op = "cal_img" -> Exp("CalibrateImage", e, c, CalibrateImage(a[1], a[2]))
      [] e.op = "cal_img_mhz" -> Exp("CalibrateImage (floor/ceil of MHz / 4)", e, c, CalImageInMhz(a[1], a[2]))
      [] e.op = "mod_params" -> Exp("SetModulationParams + 15.1", e, c, SetModulationParams(a[1], a[2], a[3], a[4], Prior(c, RegTxModulation)))
      [] e.op = "pkt_params" -> Exp("SetPacketParams + 15.4", e, c, SetPacketParams(a[1], a[2], a[3], a[4], a[5], Prior(c, RegIqPolarity)))
      [] e.op = "sync_word_rmw" -> Exp("sync word read-modify-write", e, c, SetLoRaSyncWordRmw(a[1], <<Prior(c, RegLoRaSyncWord), Prior(c, RegLoRaSyncWord + 1)>>))
      [] e.op = "buffer_base" -> Exp("SetBufferBaseAddress", e, c, SetBufferBaseAddress(a[1], a[2]))
      [] e.op = "write_buffer" -> Exp("WriteBuffer", e, c, WriteBuffer(a[1], c.d))
      [] e.op = "pa_cfg" -> Exp("SetPaConfig", e, c, SetPaConfig(a[1], a[2], a[3], a[4]))
      [] e.op = "tx_params" -> Exp("SetTxParams", e, c, SetTxParams(a[1], a[2]))
      [] e.op = "tx_clamp" -> Exp("15.2 TX clamp", e, c, TxClampWorkaround(Prior(c, RegTxClampConfig)))
      [] e.op = "dio_irq" -> Exp("SetDioIrqParams", e, c, SetDioIrqParams(a[1], a[2], a[3], a[4]))
      [] e.op = "clear_irq" -> Exp("ClearIrqStatus", e, c, ClearIrqStatus(a[1]))
      [] e.op = "get_irq_status" -> Exp("GetIrqStatus", e, c, GetIrqStatus)
      [] e.op = "stop_timer" -> Exp("StopTimerOnPreamble", e, c, StopTimerOnPreamble(a[1]))
      [] e.op = "rx_gain" -> Exp("RX gain", e, c, SetRxGain(a[1]))
      [] e.op = "symb_timeout" -> Exp("SetLoRaSymbNumTimeout", e, c, SetLoRaSymbNumTimeout(a[1]))
      [] e.op = "set_rx" -> Exp("SetRx", e, c, SetRx(a[1]))
      [] e.op = "cad_params" -> Exp("SetCadParams", e, c, SetCadParams(a[1], a[2], a[3], a[4], a[5]))
      [] e.op = "set_cad" -> Exp("SetCad", e, c, SetCad)
      [] e.op = "pkt_status" -> Exp("GetPacketStatus", e, c, GetPacketStatus)
      [] e.op = "rssi_inst" -> Exp("GetRssiInst", e, c, GetRssiInst)
      [] e.op = "rx_buffer_status" -> Exp("GetRxBufferStatus", e, c, GetRxBufferStatus)
      [] e.op = "read_buffer" -> Exp("ReadBuffer", e, c, ReadBuffer(a[1], a[2]))
      [] e.op = "dio2_rf_switch" -> Exp("SetDio2AsRfSwitchCtrl", e, c, SetDio2AsRfSwitchCtrl(a[1]))
      [] e.op = "pkt_type" -> Exp("SetPacketType", e, c, SetPacketType(a[1]))
      [] e.op = "retention_add" -> Exp("retention list", e, c, AddToRetentionList(RetentionList(c), a[1]))
      [] e.op = "reg_mode" -> Exp("SetRegulatorMode", e, c, SetRegulatorMode(a[1]))
      [] e.op = "clear_device_errors" -> Exp("ClearDeviceErrors", e, c, ClearDeviceErrors)
      [] e.op = "tcxo_ctrl" -> Exp("SetDio3AsTcxoCtrl", e, c, SetDio3AsTcxoCtrl(a[1], a[2]))
      [] e.op = "calibrate" -> Exp("Calibrate", e, c, Calibrate(a[1]))
      [] OTHER -> Chk(<<"wire: operation unknown for the reference", e.chip>>, "", e.op)

\* the 16-bit sync word form of lora-phy lands on the bytes the reference writes on a chip holding the reset nibbles
ASSUME \A sw8 \in {18, 52, 0, 255, 171} :
          SetLoRaSyncWord16(SyncWord16Of(sw8))[1] = SetLoRaSyncWordRmw(sw8, SyncWordReset)[2]


\* ------------------------------------------------------------------ C13: SX127x register effects
Eff7(name, e, c, eff) ==
    LET rf0 == RfFrom(ZeroRf, c.p, 1) IN
    IF X7EffectOk(eff, rf0, c.t) THEN TRUE
    ELSE Chk(<<"wire", e.drv, e.chip, e.op, name, "args", c.a, "differs <<reg, before, after, owned mask, owned value>>">>,
             [regs |-> {}, fifoOk |-> TRUE, lastOk |-> TRUE], X7Diff(eff, rf0, c.t))
Refused7(e, c) == Chk(<<"wire", e.drv, e.chip, e.op, "must be refused without touching the chip", c.a>>, <<"err", <<>>>>, <<c.res, c.t>>)
Rf0(c) == RfFrom(ZeroRf, c.p, 1)
Both(e1, e2) == [e1 EXCEPT !.own = e1.own \o e2.own, !.free = e1.free \o e2.free]
WithFree(eff, fr) == [eff EXCEPT !.free = @ \o fr]
WithOwn(eff, ow) == [eff EXCEPT !.own = @ \o ow]

\* lora-phy programs the whole RegOcp / RegLna and the upper PaRamp bits as a matter of board policy
LoraPhyTxFree(chip) == << <<ROcp, 255>>, <<RPaRamp, 240>> >>

RxStartEffect7(c, single, n) ==
    LET rf0 == Rf0(c)
        s == SymbDecode7(X7Exec(rf0, c.t).rf)
        lo == MinI(n, MaxSymbTimeout7)
        \* the programmed timeout covers the request (and is not longer than the 4-symbol minimum window when less is asked)
        want == IF s >= lo /\ s <= MaxI(lo, 4) THEN s ELSE lo
    IN [Effect(OpModeOwn(IF single THEN ModeRxSingle ELSE ModeRxContinuous)
               \o << <<RFifoAddrPtr, 255, rf0[RFifoRxBaseAddr + 1]>> >>
               \o (IF single THEN SymbTimeoutOwn(want) ELSE <<>>),
               OpModeFree \o << <<RLna, 255>> >>
               \o (IF single THEN <<>> ELSE << <<RModemConfig2, 3>>, <<RSymbTimeoutLsb, 255>> >>))
        EXCEPT !.last = ROpMode]

Wire127LoraPhy(e, c) ==
    LET a == c.a  chip == e.chip IN
    CASE e.op = "sleep" -> ResOk(e, c) /\ Eff7("sleep mode", e, c, SetMode(ModeSleep))
      [] e.op = "standby" -> ResOk(e, c) /\ Eff7("standby mode", e, c, SetMode(ModeStandby))
      [] e.op = "tx_start" -> ResOk(e, c) /\ Eff7("TX mode", e, c, SetMode(ModeTx))
      [] e.op = "cad_start" -> ResOk(e, c) /\ Eff7("CAD mode", e, c, WithFree(SetMode(ModeCad), << <<RLna, 255>> >>))
      [] e.op = "rf_freq" -> ResOk(e, c) /\ Eff7("RegFrf = round(f / Fstep) as the reference computes it", e, c, SetRfFrequency7(a[1] * 65536 + a[2]))
      [] e.op = "mod_params" ->
            LET sf == a[1]  bw == a[2]  f == a[5] * 65536 + a[6]
                base == Effect(ModParamsOwn(chip, sf, bw, a[3], a[4]),
                               IF chip = "sx1276" THEN << <<RModemConfig3, 4>> >> ELSE <<>>)
                full == IF chip = "sx1276"
                        THEN WithOwn(base, Errata23Own(bw) \o (IF a[7] = 1 THEN Errata21Own(bw, f) ELSE <<>>))
                        ELSE base
                \* what the driver documents: errata 2.3 only from 62.5 kHz upwards
                narrow == WithOwn(base, IF a[7] = 1 THEN Errata21Own(bw, f) ELSE <<>>)
            IN /\ ResOk(e, c)
               /\ IF chip = "sx1276" /\ bw < 6 /\ IsAllowed("sx1276-errata-2.3-below-62khz") /\ X7EffectOk(narrow, Rf0(c), c.t)
                  THEN Known("sx1276-errata-2.3-below-62khz", <<sf, bw>>)
                  ELSE Eff7("modulation parameters (+ SX1276 errata 2.3, 2.1)", e, c, full)
      [] e.op = "pkt_params" -> ResOk(e, c) /\ Eff7("packet parameters + IQ registers", e, c,
                                                   Effect(PktParamsOwn(chip, a[1], a[2], a[3], a[4]) \o IqOwn(a[5], "both"), <<>>))
      [] e.op = "sync_word" -> IF SyncWord16Ok(a[1]) THEN ResOk(e, c) /\ Eff7("sync word", e, c, Effect(SyncWordOwn(SyncWord8Of(a[1])), <<>>))
                               ELSE Refused7(e, c)
      [] e.op = "buffer_base" -> IF a[1] > 255 \/ a[2] > 255 THEN Refused7(e, c)
                                 ELSE ResOk(e, c) /\ Eff7("FIFO base addresses", e, c, Effect(BufferBaseOwn(a[1], a[2]), <<>>))
      [] e.op = "write_buffer" -> ResOk(e, c) /\ Eff7("payload into the FIFO at the TX base", e, c, WritePayload(Rf0(c)[RFifoTxBaseAddr + 1], c.d))
      [] e.op = "tx_power" -> ResOk(e, c) /\ Eff7("PA configuration for the request clamped into the path's range", e, c,
                                                 Effect(TxPowerOwn(chip, a[2], a[1], IF a[3] = 1 THEN Ramp40us7 ELSE Ramp250us7),
                                                        PaFree(chip, a[2]) \o LoraPhyTxFree(chip)))
      [] e.op = "irq_params" ->
            ResOk(e, c) /\ Eff7("interrupt mask and DIO mapping of the mode", e, c,
                                IF ModeName(a[1]) = "idle" THEN Effect(<<>>, << <<RIrqFlagsMask, 255>>, <<RDioMapping1, 255>> >>)
                                ELSE IrqParamsEffect(ModeName(a[1])))
      [] e.op = "rx_start" -> IF a[1] = 2 THEN Refused7(e, c)
                              ELSE ResOk(e, c) /\ Eff7("receive start", e, c, RxStartEffect7(c, a[1] = 0, a[2]))
      [] OTHER -> Chk(<<"wire: operation unknown for lora-phy", e.chip>>, "", e.op)

Wire127Reference(e, c) ==
    LET a == c.a  chip == e.chip IN
    /\ ResOk(e, c)
    /\ CASE e.op = "sleep" -> Eff7("sleep mode", e, c, SetMode(ModeSleep))
      [] e.op = "standby" -> Eff7("standby mode", e, c, SetMode(ModeStandby))
      [] e.op = "rf_freq" -> Eff7("RegFrf", e, c, SetRfFrequency7(a[1] * 65536 + a[2]))
      [] e.op = "mod_params" -> Eff7("modulation parameters", e, c, Effect(ModParamsOwn(chip, a[1], a[2], a[3], a[4]), <<>>))
      [] e.op = "pkt_params" ->
            Eff7("packet parameters (composite: standby, FIFO bases 0, payload lengths)", e, c,
                 Effect(PktParamsOwn(chip, a[1], a[2], a[3], a[4]) \o OpModeOwn(ModeStandby) \o BufferBaseOwn(0, 0)
                        \o << <<RPayloadLength, 255, a[3]>>, <<RMaxPayloadLength, 255, a[3]>> >>, OpModeFree))
      [] e.op = "sync_word8" -> Eff7("sync word", e, c, Effect(SyncWordOwn(a[1]), <<>>))
      [] e.op = "write_buffer" -> Eff7("payload into the FIFO", e, c, WithFree(WritePayload(0, c.d), << <<RFifoTxBaseAddr, 255>> >>))
      [] e.op = "tx_params" -> Eff7("PA registers", e, c, Effect(PaOwn(chip, a[3], a[4], a[1], a[2]), PaFree(chip, a[3])))
      [] e.op = "irq_mask" -> Eff7("interrupt mask", e, c, Effect(<< <<RIrqFlagsMask, 255, IrqMaskReg7(a[1])>> >>, <<>>))
      [] e.op = "symb_timeout" -> Eff7("symbol timeout", e, c, Effect(SymbTimeoutOwn(a[1]), <<>>))
      [] e.op = "rx_start" ->
            LET bw == a[3]  f == a[4] * 65536 + a[5]
                errata == IF chip = "sx1276"
                          THEN Errata21Own(bw, f) \o Errata23Own(bw)
                               \o (IF bw < 6 THEN FrfOwn(PllWord127(f + BwHzRef[bw + 1])) ELSE <<>>)
                          ELSE <<>>
            IN Eff7("receive start (IQ registers, errata 2.1 / 2.3, FIFO pointer, mode)", e, c,
                    [Effect(OpModeOwn(IF a[1] = 1 THEN ModeRxContinuous ELSE ModeRxSingle) \o << <<RFifoAddrPtr, 255, 0>> >>
                            \o IqOwn(a[2], "rx") \o errata,
                            OpModeFree \o IqFree("rx") \o DioFree) EXCEPT !.last = ROpMode])
      [] e.op = "tx_start" -> Eff7("transmit start (IQ registers, mode)", e, c,
                                   [Effect(OpModeOwn(ModeTx) \o IqOwn(a[1], "tx"), OpModeFree \o IqFree("tx") \o DioFree) EXCEPT !.last = ROpMode])
      [] e.op = "cad_start" -> Eff7("CAD start", e, c, WithFree(SetMode(ModeCad), DioFree))
      [] OTHER -> Chk(<<"wire: operation unknown for the reference", e.chip>>, "", e.op)

\* lora-phy RF frequency events: the cases that are explained by truncating f / Fstep instead of rounding to the nearest
\* step are one known deviation; it is reported once per event (with the number of cases), everything else case by case
FrfTruncated(c) ==
    LET f == c.a[1] * 65536 + c.a[2] IN
    /\ PllWord127(f) # PllWord127Trunc(f)
    /\ c.res = "ok"
    /\ X7EffectOk(Effect(FrfOwn(PllWord127Trunc(f)), <<>>), Rf0(c), c.t)
RfFreq127LoraPhyOk(e) ==
    LET trunc == IF IsAllowed("sx127x-frf-truncated") THEN {i \in 1..Len(e.cases) : FrfTruncated(e.cases[i])} ELSE {} IN
    /\ \A i \in (1..Len(e.cases)) \ trunc : Wire127LoraPhy(e, e.cases[i])
    /\ IF trunc = {} THEN TRUE
       ELSE LET j == CHOOSE i \in trunc : TRUE IN
            Known("sx127x-frf-truncated", <<e.chip, "cases", Cardinality(trunc), "e.g. Hz", e.cases[j].a[1] * 65536 + e.cases[j].a[2]>>)

Wire127Ok(e) ==
    IF e.drv = "reference" THEN \A i \in 1..Len(e.cases) : Wire127Reference(e, e.cases[i])
    ELSE IF e.op = "rf_freq" THEN RfFreq127LoraPhyOk(e)
    ELSE \A i \in 1..Len(e.cases) : Wire127LoraPhy(e, e.cases[i])

Wire126Ok(e) ==
    \A i \in 1..Len(e.cases) :
       IF e.drv = "reference" THEN Wire126Reference(e, e.cases[i]) ELSE Wire126LoraPhy(e, e.cases[i])

WireOk(e) == IF Is126(e.chip) THEN Wire126Ok(e) ELSE Wire127Ok(e)

Match(e) ==
    CASE e.ev = "fetch" -> FetchOk(e)
      [] e.ev = "dfreq" -> DFreqOk(e)
      [] e.ev = "dpower" -> DPowerOk(e)
      [] e.ev = "dsymb" -> DSymbOk(e)
      [] e.ev = "symbols" -> SymbolsOk(e)
      [] e.ev = "pktstatus" -> PktStatusOk(e)
      [] e.ev = "rssiinst" -> RssiInstOk(e)
      [] e.ev = "wire" -> WireOk(e)
      [] OTHER -> Chk("unknown event", "", e.ev)

Init == l = 1
Next == l <= Len(Rec) /\ IF Match(Rec[l]) THEN l' = l + 1 ELSE l' = l + 1
Spec == Init /\ [][Next]_vars

Accepted ==
    IF TLCGet("stats").diameter = Len(Rec) + 1 THEN TRUE
    ELSE PrintT(<<"TRACE-REJECTED", "matched", TLCGet("stats").diameter - 1, "of", Len(Rec)>>) /\ FALSE
=============================================================================
