------------------------------- MODULE MCFront -------------------------------
(* C06 at the design level: the counters of the uplinks handed to the radio   *)
(* never repeat, for every interleaving of sends, receive-window outcomes,    *)
(* Class C receptions and a radio fault at every call position of the async   *)
(* procedure (tx, low_power/RXC setup, RX1 setup, rx_single, window_complete, *)
(* ... RX2).  Uses the MAC operators of Mac.tla over a scaled-down counter    *)
(* space so that session expiry is reachable.                                 *)
EXTENDS Mac, TLC

CONSTANTS StartUps,    \* initial uplink counters to explore
          ClassC       \* BOOLEAN: Class C listening between the windows

VARIABLES m, pc, sent, expired, up0
mcvars == <<m, pc, sent, expired, up0>>

\* near the start and near the end of the (scaled-down) counter space
StartUpsDef == {<<0, 0>>, <<0, 3>>, <<1, 1>>, <<1, 2>>}
\* with the real constants (16-bit wire counter, 32-bit counters): at the start, across the 16-bit roll-over and at
\* the very end of the counter space
StartUpsReal == {<<0, 0>>, <<0, 65534>>, <<65535, 65532>>, <<65535, 65533>>, <<65535, 65534>>}
Key == <<1, 1, 1, 1, 1, 1, 1, 1, 1, 1, 1, 1, 1, 1, 1, 1>>
M0(c) == [AfterAbp(InitMac("EU868", 14, 0), Key, Key, <<1, 2, 3, 4>>) EXCEPT !.sess.up = c]

Init == /\ \E c \in StartUps : m = M0(c)
        /\ pc = "idle" /\ sent = <<>> /\ expired = FALSE /\ up0 = CntZero

\* the downlink counter space is finite too
DownOk == IF m.sess.down = <<>> THEN TRUE ELSE CntLt(m.sess.down, CntMax)
NoCmds(n, conf, classA) == [n |-> n, confirmed |-> conf, fopts |-> <<>>, port |-> -1, payload |-> <<>>, classA |-> classA]
NextDown == IF m.sess.down = <<>> THEN <<0, 0>> ELSE CntInc(m.sess.down)

\* the positions of the async procedure after a successful tx, in order
Positions == <<"bw1", "rx1setup", "rx1listen", "wc1", "bw2", "rx2setup", "rx2listen", "wc2">>
NextPos(p) == CHOOSE i \in 1..Len(Positions) : Positions[i] = p

\* send: prepare the frame; the radio accepts it or fails
Send(confirmed) ==
    /\ pc = "idle" /\ ~expired /\ Joined(m)
    /\ \/ /\ m' = AfterSendPrepare(m, confirmed)            \* tx fails: nothing was handed over
          /\ UNCHANGED <<pc, sent, expired, up0>>
       \/ /\ m' = AfterSendPrepare(m, confirmed)
          /\ sent' = Append(sent, m.sess.up) /\ up0' = m.sess.up
          /\ pc' = "bw1" /\ UNCHANGED expired

\* a radio fault at the current position aborts the procedure; the counter of the frame on air is consumed
Fault ==
    /\ pc \in {Positions[i] : i \in 1..Len(Positions)}
    /\ m' = AfterAbort(m, up0)
    /\ pc' = "idle" /\ UNCHANGED <<sent, expired, up0>>

Advance(p) == IF NextPos(p) = Len(Positions) THEN "done" ELSE Positions[NextPos(p) + 1]

\* between windows: (Class C) any number of accepted Class C downlinks, then the timer fires
ClassCFrame ==
    /\ ClassC /\ pc \in {"bw1", "bw2"} /\ DownOk
    /\ expired' = (expired \/ SessionExpired(m))
    /\ m' = AfterRxAccepted(m, NoCmds(NextDown, FALSE, FALSE), <<>>, 0)
    /\ UNCHANGED <<pc, sent, up0>>

Step ==
    /\ pc \in {"bw1", "rx1setup", "wc1", "bw2", "rx2setup"}
    /\ pc' = Advance(pc) /\ UNCHANGED <<m, sent, expired, up0>>

\* a receive window: timeout or rejected frame (no effect), accepted frame (ends after window_complete)
Listen ==
    /\ pc \in {"rx1listen", "rx2listen"}
    /\ \/ pc' = Advance(pc) /\ UNCHANGED <<m, sent, expired, up0>>
       \/ /\ DownOk
          /\ expired' = (expired \/ SessionExpired(m))
          /\ m' = AfterRxAccepted(m, NoCmds(NextDown, TRUE, TRUE), <<>>, 0)
          /\ pc' = IF pc = "rx1listen" THEN "wc1acc" ELSE "wc2acc"
          /\ UNCHANGED <<sent, up0>>

\* window_complete after an accepted frame, then the procedure returns
AfterAccept ==
    /\ pc \in {"wc1acc", "wc2acc"}
    /\ \/ pc' = "idle" /\ UNCHANGED <<m, sent, expired, up0>>
       \/ pc' = "idle" /\ UNCHANGED <<m, sent, expired, up0>>      \* (a fault here changes nothing more)

Wc2 ==
    /\ pc = "wc2" /\ pc' = "done" /\ UNCHANGED <<m, sent, expired, up0>>

Complete ==
    /\ pc = "done"
    /\ expired' = (expired \/ SessionExpired(m))
    /\ m' = AfterRx2Complete(m)
    /\ pc' = "idle" /\ UNCHANGED <<sent, up0>>

Next == (\E c \in BOOLEAN : Send(c)) \/ Fault \/ ClassCFrame \/ Step \/ Listen \/ AfterAccept \/ Wc2 \/ Complete
Spec == Init /\ [][Next]_mcvars

\* --- C06
CountersStrictlyIncrease == \A i \in 1..(Len(sent) - 1) : CntLt(sent[i], sent[i + 1])
\* every frame on air has its counter consumed before the next frame is prepared
IdleMeansConsumed == pc = "idle" /\ sent # <<>> /\ ~expired /\ Joined(m) => CntLt(sent[Len(sent)], m.sess.up)
NeverWraps == [][Joined(m') => ~CntLt(m'.sess.up, m.sess.up)]_mcvars

Bound == Len(sent) <= 3
\* (real constants: the downlink counter space is not small any more - a few accepted downlinks are enough)
BoundReal == Len(sent) <= 3 /\ (m.sess.down = <<>> \/ (m.sess.down[1] = 0 /\ m.sess.down[2] <= 3))

\* --- liveness (C04 at the design level: a procedure never hangs).  Under weak fairness of the procedure's own
\* steps (the radio and the timer eventually answer), every procedure returns to the caller.
ProcStep == Fault \/ ClassCFrame \/ Step \/ Listen \/ AfterAccept \/ Wc2 \/ Complete
LiveSpec == Init /\ [][Next]_mcvars /\ WF_mcvars(Step \/ Listen \/ AfterAccept \/ Wc2 \/ Complete)
ProcedureReturns == (pc # "idle") ~> (pc = "idle")
=============================================================================
