SPECIFICATION Spec
POSTCONDITION TraceAccepted
CHECK_DEADLOCK FALSE
CONSTANTS
  WireMod = 65536
  MaxGap = 16384
  HiMax = 65535
  AdrLimit = 64
  AdrDelay = 32
