------------------------------- MODULE MCJoin -------------------------------
(* C11 at the design level, and the source of join behaviours replayed into  *)
(* the implementation.  Every sequence of up to MaxJoins join attempts       *)
(* (accepted in RX1 or RX2 with a JoinAccept from an alphabet of DLSettings  *)
(* bytes, RxDelay values and CFLists that includes invalid and RFU ones; or  *)
(* not accepted: nothing received, a forged accept, a data frame), with up   *)
(* to MaxDown accepted Class A downlinks carrying one MAC-command request    *)
(* that changes what a JoinAccept also sets, and plain uplinks, on the real  *)
(* regional tables.                                                          *)
(*                                                                           *)
(* Design properties: joined only by a valid accept; a join restarts both    *)
(* counters and empties the answer queue; the accept's RxDelay / DLSettings  *)
(* are applied when valid for the region and the previous values kept when   *)
(* not; negotiated parameters stay legal; join channels are read-only.       *)
(*                                                                           *)
(* `hist` (hidden from the fingerprint by VIEW) records the behaviour that   *)
(* reached each state; vlib/mcreplay.py replays the maximal ones on the real *)
(* devices (the root key, nonces and address are chosen by the runner; the   *)
(* device's session keys are judged by Codec.tla in the trace pass).         *)
EXTENDS Mac, TLC, Json

CONSTANTS Region, MaxJoins, MaxDown,
          DlSet,        \* DLSettings bytes
          DelSet,       \* RxDelay values
          CfKinds       \* subset of {"none", "t0ok", "t0mixed", "t1ok", "t1zero", "rfu"}

VARIABLES m, nJoin, nDown, lastEv, lastWin, byAccept, hist,
          prev     \* what the previous accepted JoinAccept and the request after it were: the design state does not
                   \* depend on them (the properties below say so), an implementation might - so behaviours that
                   \* differ only in them are kept apart and replayed separately
jvars == <<m, nJoin, nDown, lastEv, lastWin, byAccept, hist, prev>>
\* the window of the last accept is part of the view so that both windows are kept as distinct behaviours
JView == <<m, nJoin, nDown, lastEv, lastWin, byAccept, prev>>

Fixed == IsFixed(Region)
InBand == IF Fixed THEN 923300000 ELSE IF Region = "EU868" THEN 867100000 ELSE 865200000
F3(hz) == LET v == hz \div 100 IN <<v % 256, (v \div 256) % 256, (v \div 65536) % 256>>
Pad(s) == s \o [i \in 1..(15 - Len(s)) |-> 0]

CfList(kind) ==
    CASE kind = "none" -> <<>>
      [] kind = "t0ok" -> F3(InBand) \o F3(InBand + 200000) \o F3(InBand + 400000) \o F3(InBand + 600000) \o F3(InBand + 800000) \o <<0>>
      \* a valid frequency, an unused slot, an out-of-band one, a valid one, the largest value
      [] kind = "t0mixed" -> F3(InBand + 200000) \o F3(0) \o F3(100000000) \o F3(InBand) \o <<255, 255, 255>> \o <<0>>
      [] kind = "t1ok" -> Pad(<<0, 255, 0, 0, 0, 0, 0, 0, 2>>) \o <<1>>
      [] kind = "t1zero" -> Pad(<<>>) \o <<1>>
      [] kind = "rfu" -> Pad(F3(InBand + 200000)) \o <<2>>

JaSet == {[devAddr |-> <<1, 2, 3, 4>>, dlSettings |-> d, rxDelay |-> x, cflist |-> CfList(k), kind |-> k] :
             d \in DlSet, x \in DelSet, k \in CfKinds}

\* requests that touch what a JoinAccept also sets (RX1 offset, RX2 data rate / frequency, RX delay, channels)
CmdSet ==
    {[kind |-> "rxparam", off |-> 2, dr |-> 3, freq |-> InBand],
     [kind |-> "timing", del |-> 7],
     [kind |-> "adr", cmds |-> <<[dr |-> 3, pw |-> 2, chmask |-> <<3, 0>>, cntl |-> 0, nbtrans |-> 1]>>]}
    \cup (IF Fixed THEN {} ELSE
          {[kind |-> "newch", idx |-> 3, freq |-> InBand + 1000000, dmin |-> 0, dmax |-> 5],
           [kind |-> "dlch", idx |-> 0, freq |-> InBand + 200000],
           \* a downlink frequency on the first slot a CFList fills: a re-join whose CFList names the same uplink
           \* frequency there defines the channel anew (RX1 on the uplink frequency again)
           [kind |-> "dlch", idx |-> NumJoinChannels(Region), freq |-> InBand + 400000]})

Key(n, kind) == <<kind, n>>          \* abstract session keys: derived from the n-th DevNonce
M0 == InitMac(Region, 14, 0)

Init == m = M0 /\ nJoin = 0 /\ nDown = 0 /\ lastEv = "init" /\ lastWin = 0 /\ byAccept = FALSE /\ hist = <<>> /\ prev = <<>>

\* a join attempt answered by an authentic JoinAccept in window w
JoinOk(ja, w) ==
    /\ nJoin < MaxJoins
    /\ LET m1 == AfterJoinReq(m, nJoin, <<9>>)
       IN m' = AfterJoinAccept(m1, ja, Key(nJoin, "nwk"), Key(nJoin, "app"))
    /\ nJoin' = nJoin + 1 /\ lastEv' = "join" /\ lastWin' = w /\ byAccept' = TRUE /\ nDown' = nDown
    /\ prev' = Append(prev, <<ja.dlSettings, ja.rxDelay, ja.kind>>)
    /\ hist' = Append(hist, [t |-> "join", win |-> w, dl |-> ja.dlSettings, del |-> ja.rxDelay, cf |-> ja.cflist, reqs |-> <<>>])

\* a join attempt that ends without an accept: nothing received / forged accept / a data frame instead
JoinNoAccept(why) ==
    /\ nJoin < MaxJoins
    /\ m' = AfterRx2Complete(AfterJoinReq(m, nJoin, <<9>>))
    /\ nJoin' = nJoin + 1 /\ lastEv' = "nojoin" /\ lastWin' = 0 /\ byAccept' = FALSE /\ nDown' = nDown
    /\ prev' = Append(prev, why)
    /\ hist' = Append(hist, [t |-> why, win |-> 0, dl |-> 0, del |-> 0, cf |-> <<>>, reqs |-> <<>>])

NextDown == IF m.sess.down = <<>> THEN <<0, 0>> ELSE CntInc(m.sess.down)
Downlink(q) ==
    /\ Joined(m) /\ nDown < MaxDown /\ ~SessionExpired(m)
    /\ LET m1 == AfterSendPrepare(m, FALSE)
           sts == NaturalStatuses([m1 EXCEPT !.sess.down = NextDown, !.sess.adrCnt = AdrZero, !.sess.pending = <<>>], <<q>>)
           v == [n |-> NextDown, confirmed |-> FALSE, fopts |-> <<>>, port |-> -1, payload |-> <<>>, classA |-> TRUE]
           base == [m1 EXCEPT !.sess.down = NextDown, !.sess.adrCnt = AdrZero, !.sess.pending = <<>>]
           m2 == FoldRequests(base, <<q>>, sts)
           qd == Queue(<<>>, AnswersFor(Region, <<q>>, sts, 0), 0)
       IN m' = [m2 EXCEPT !.sess.pending = qd.pending, !.sess.up = CntInc(m.sess.up)]
    /\ nDown' = nDown + 1 /\ lastEv' = "down" /\ lastWin' = 0 /\ UNCHANGED <<nJoin, byAccept>>
    /\ prev' = Append(prev, q.kind)
    /\ hist' = Append(hist, [t |-> "down", win |-> 1, dl |-> 0, del |-> 0, cf |-> <<>>, reqs |-> <<q>>])

Uplink ==
    /\ Joined(m) /\ ~SessionExpired(m) /\ lastEv # "up"
    /\ m' = AfterRx2Complete(AfterSendPrepare(m, FALSE))
    /\ lastEv' = "up" /\ lastWin' = 0 /\ UNCHANGED <<nJoin, nDown, byAccept>>
    /\ prev' = prev
    /\ hist' = Append(hist, [t |-> "up", win |-> 0, dl |-> 0, del |-> 0, cf |-> <<>>, reqs |-> <<>>])

Next == (\E ja \in JaSet, w \in {1, 2} : JoinOk(ja, w))
        \/ (\E why \in {"nojoin", "forged", "dataframe"} : JoinNoAccept(why))
        \/ (\E q \in CmdSet : Downlink(q))
        \/ Uplink
Spec == Init /\ [][Next]_jvars

\* --- design properties
JoinedOnlyByValidAccept == Joined(m) => byAccept
NotJoinedWithoutAccept == lastEv = "nojoin" => ~Joined(m) /\ m.sess = EmptySess
JoinRestartsSession ==
    lastEv = "join" => /\ m.sess.up = CntZero /\ m.sess.down = <<>> /\ m.sess.pending = <<>>
                       /\ m.sess.adrCnt = AdrZero /\ ~m.sess.ackOwed
                       /\ m.sess.nwk = Key(nJoin - 1, "nwk") /\ m.sess.app = Key(nJoin - 1, "app")
AcceptApplied ==
    [][\A ja \in JaSet :
          (lastEv' = "join" /\ hist'[Len(hist')].dl = ja.dlSettings /\ hist'[Len(hist')].del = ja.rxDelay
              /\ hist'[Len(hist')].cf = ja.cflist) =>
            LET off == (ja.dlSettings \div 16) % 8
                rx2 == ja.dlSettings % 16
            IN /\ m'.cfg.rx1delay = 1000 * (IF ja.rxDelay = 0 THEN 1 ELSE ja.rxDelay)
               /\ m'.cfg.rx1off = (IF off <= MaxRx1Offset(Region) THEN off ELSE m.cfg.rx1off)
               /\ m'.cfg.rx2dr = (IF DrDefined(Region, rx2) THEN rx2 ELSE m.cfg.rx2dr)
               \* a CFList of the wrong type for the region, or an RFU type, changes nothing
               /\ (ja.kind = "rfu" \/ (ja.kind \in {"t0ok", "t0mixed"} /\ Fixed) \/ (ja.kind \in {"t1ok", "t1zero"} /\ ~Fixed)
                      => m'.plan = m.plan)
               \* an all-zero mask is ignored
               /\ (ja.kind = "t1zero" => m'.plan = m.plan)]_jvars
JoinChannelsReadOnly ==
    Fixed \/ \A i \in 1..NumJoinChannels(Region) : m.plan.chan[i][1] = JoinFreqs(Region)[i]
ChannelsInBand ==
    Fixed \/ \A i \in 1..16 : m.plan.chan[i] = NoChan \/ FreqValid(Region, m.plan.chan[i][1])
ParamsLegal ==
    /\ m.cfg.rx1off <= MaxRx1Offset(Region)
    /\ (m.cfg.rx2dr = None \/ DrDefined(Region, m.cfg.rx2dr))
    /\ (m.cfg.rx2f = None \/ FreqValid(Region, m.cfg.rx2f))
    /\ m.cfg.rx1delay \in {1000 * d : d \in 1..15}
MaskNeverEmptyFixed == ~Fixed \/ \E c \in 0..71 : MaskBit(m.plan.mask, c)

\* one line per distinct state: the behaviour that reached it
Emit == PrintT(<<"REPLAY", ToJson(hist)>>)
=============================================================================
