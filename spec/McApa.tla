------------------------------- MODULE McApa -------------------------------
(* The counter rule of a multicast group with the REAL constants (16-bit     *)
(* wire counter, 32-bit counters), for every `next`, every maxMcFCount and   *)
(* every frame counter n at once (Apalache, SMT): McCore!Judge - the very    *)
(* operator McTrace.tla holds the implementation to and MCMc.tla explores    *)
(* over a 2-bit wire counter - accepts an authentic frame with counter n iff *)
(* next <= n < maxMcFCount and n < next + 65536 (the wire counter identifies *)
(* it); whatever arrives on the wire, the counter it rebuilds is congruent   *)
(* to the wire value, not below `next` and less than one wire period above   *)
(* it; and the counter after an accepted one is its successor.               *)
EXTENDS Integers, Sequences, McCore

WM == 65536
HM == 65535

VARIABLES
    \* @type: Seq(Int);
    next,
    \* @type: Seq(Int);
    max,
    \* @type: Int;
    nhi,
    \* @type: Int;
    nlo,
    \* @type: Int;
    wire

\* @type: Seq(Int) => Int;
Val(c) == c[1] * WM + c[2]

Init ==
    /\ \E h \in 0..HM, l \in 0..(WM - 1) : next = <<h, l>>
    /\ \E h \in 0..HM, l \in 0..(WM - 1) : max = <<h, l>>
    /\ nhi \in 0..HM /\ nlo \in 0..(WM - 1) /\ wire \in 0..(WM - 1)
Next == UNCHANGED <<next, max, nhi, nlo, wire>>

\* the frame's MIC verifies exactly under its own counter
\* @type: Seq(Int) => Bool;
AuthN(c) == c = <<nhi, nlo>>

AcceptIffInRange ==
    (Judge(WM, HM, next, max, nlo, AuthN).kind = "accept")
        <=> (/\ Val(next) <= Val(<<nhi, nlo>>) /\ Val(<<nhi, nlo>>) < Val(max)
             /\ Val(<<nhi, nlo>>) < Val(next) + WM)

AcceptedCounterIsTheFrames ==
    LET v == Judge(WM, HM, next, max, nlo, AuthN) IN v.kind = "accept" => v.n = <<nhi, nlo>>

RebuildSound ==
    LET r == Rebuild(WM, HM, next, wire) IN
    r = <<>> \/ (/\ r[2] = wire /\ r[1] \in 0..HM
                 /\ Val(next) <= Val(r) /\ Val(r) < Val(next) + WM)
RebuildComplete ==
    (\E h \in 0..HM : Val(next) <= h * WM + wire /\ h * WM + wire < Val(next) + WM) => Rebuild(WM, HM, next, wire) # <<>>

\* @type: Seq(Int);
Cand == <<nhi, nlo>>
IncIsSuccessor == Val(Inc(WM, HM, Cand)) = (IF Val(Cand) = HM * WM + WM - 1 THEN Val(Cand) ELSE Val(Cand) + 1)

Inv == AcceptIffInRange /\ AcceptedCounterIsTheFrames /\ RebuildSound /\ RebuildComplete /\ IncIsSuccessor
=============================================================================
