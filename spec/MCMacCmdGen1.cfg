SPECIFICATION GSpec
CONSTANTS
  WireMod = 16
  MaxGap = 4
  HiMax = 3
  AdrLimit = 64
  AdrDelay = 32
  Region = "EU868"
  SecondSmall = FALSE
  MaxDown = 1
VIEW GView
INVARIANTS Emit
CONSTRAINT Bound
CHECK_DEADLOCK FALSE
