SPECIFICATION GSpec
CONSTANTS
  WireMod = 65536
  MaxGap = 16384
  HiMax = 65535
  AdrLimit = 64
  AdrDelay = 32
  Region = "EU868"
  SecondSmall = FALSE
  MaxDown = 1
VIEW GView
INVARIANTS Emit
CONSTRAINT Bound
CHECK_DEADLOCK FALSE
