------------------------------ MODULE FcntTrace ------------------------------
(* C05, arithmetic part: the device's reconstruction of the 32-bit downlink    *)
(* counter from the 16-bit wire value (hook verif_next_fcnt_down) equals       *)
(* Mac!NextFcnt for ALL 65536 wire values, for each recorded `last`.           *)
EXTENDS Mac, Json, IOUtils, TLC, TLCExt

Rec == ndJsonDeserialize(IOEnv.TRACE)
VARIABLE l
vars == <<l>>

Chk(name, exp, obs) ==
    IF exp = obs THEN TRUE
    ELSE PrintT(<<"MISMATCH", l, name, "expected", exp, "observed", obs>>) /\ FALSE

\* the run covering wire value w
RunOf(runs, w) == CHOOSE i \in 1..Len(runs) : runs[i][1] <= w /\ w <= runs[i][2]
Obs(runs, w) == LET r == runs[RunOf(runs, w)] IN IF r[3] < 0 THEN <<r[3]>> ELSE <<r[3], w>>
Exp(last, w) == LET n == NextFcnt(last, w) IN IF n = <<>> THEN <<-1>> ELSE n

FcntOk(e) ==
    /\ Chk("no panic", 0, e.panics)
    /\ \A i \in 1..Len(e.runs) :
          \* within a run the implementation's outcome class is constant: check both ends and every value
          \A w \in e.runs[i][1]..e.runs[i][2] :
              Chk(<<"C05 counter reconstruction", e.last, w>>, Exp(e.last, w), Obs(e.runs, w))

Init == l = 1
Next == l <= Len(Rec) /\ IF FcntOk(Rec[l]) THEN l' = l + 1 ELSE l' = l + 1
Spec == Init /\ [][Next]_vars
TraceAccepted ==
    IF TLCGet("stats").diameter = Len(Rec) + 1 THEN TRUE
    ELSE PrintT(<<"TRACE-REJECTED", "matched", TLCGet("stats").diameter - 1, "of", Len(Rec)>>) /\ FALSE
=============================================================================
