------------------------------ MODULE RxFetch ------------------------------
(* Fetching a received packet from the radio chip into the caller's buffer  *)
(* (property C18).  Written from the chips' data-buffer definitions:        *)
(*                                                                          *)
(*  SX126x (DS.SX1261-2 13.2.3/13.2.4, 13.5.2): a 256-byte data buffer;     *)
(*    GetRxBufferStatus returns (status, PayloadLengthRx,                   *)
(*    RxStartBufferPointer); ReadBuffer(offset) returns the bytes at        *)
(*    offset, offset+1, ... with the address wrapping from 255 to 0.        *)
(*    In implicit-header mode the length of the packet is the configured    *)
(*    payload length (register 0x0702), not PayloadLengthRx.  The status    *)
(*    byte carries a 3-bit command status (bits 3:1): 3 = command timeout,  *)
(*    4 = command processing error, 5 = failure to execute command.         *)
(*                                                                          *)
(*  SX127x (DS SX1276 4.1.2.3, SX1272 4.1.2.3): a 256-byte FIFO;            *)
(*    RegRxNbBytes = number of payload bytes of the last packet,            *)
(*    RegFifoRxCurrentAddr = its start address; reading RegFifo returns the *)
(*    byte at RegFifoAddrPtr and increments the 8-bit pointer (wraps).      *)
(*    In implicit-header mode the length is the configured PayloadLength.   *)
(*                                                                          *)
(*  LR1110 (UM.LR1110 3.7, 8.x): a 256-byte data buffer; GetRxBufferStatus   *)
(*    returns (PayloadLengthRx, RxStartBufferPointer) and ReadBuffer8        *)
(*    (offset, length) the bytes from offset on, each response preceded by   *)
(*    Stat1 in a separate read transaction.  Only explicit-header reception  *)
(*    is recorded for this chip.                                             *)
(*                                                                          *)
(* The harness fills the chip buffer with the position-dependent pattern    *)
(* Pat(i), so the expected bytes are a function of (offset, length) only.   *)
EXTENDS Integers, Sequences

BufSize == 256

\* position-dependent pattern of the emulated chip buffer (injective on 0..255: 37 is odd)
Pat(i) == (37 * i + 11) % 256

\* byte k (0-based) of a packet that starts at chip address off: wrap-around at 256
ChipByte(off, k) == Pat((off + k) % BufSize)

\* the length the chip defines for the packet
PacketLen(implicitHeader, reportedLen, configuredLen) ==
    IF implicitHeader THEN configuredLen ELSE reportedLen

\* SX126x command status (bits 3:1 of the status byte) that reports a failed command
CmdStatus(status) == (status \div 2) % 8
\* LR1110 (UM.LR1110 3.3.2): Stat1 bits 3:1 = 0 CMD_FAIL, 1 CMD_PERR (the response is not valid), 2 CMD_OK, 3 CMD_DAT
StatusIsError(chip, status) ==
    IF chip \in {"sx1261", "sx1262", "stm32wl"} THEN CmdStatus(status) \in {3, 4, 5}
    ELSE IF chip = "lr1110" THEN CmdStatus(status) \in {0, 1}
    ELSE FALSE

(* ---- the outcome relation -------------------------------------------------
   An outcome is a record
     [panic |-> 0/1, ok |-> 0/1, len |-> n,
      segs |-> << <<kind, start, count>>, ... >>]
   where segs is the lossless run-length description of the caller's buffer
   after the call: kind 1 = `count' cells holding the chip bytes of addresses
   start, start+1, ... (mod 256); kind 0 = `count' untouched cells (still
   holding the canary); kind 2 = `count' cells overwritten with something that
   is not a chip byte sequence (start = the value).
   Fetch(...) is the set of outcomes C18 allows.                            *)

\* the caller's buffer the property demands after a successful fetch of L bytes
ExpectedSegs(off, L, bufsz) ==
    (IF L > 0 THEN << <<1, off, L>> >> ELSE << >>) \o
    (IF bufsz - L > 0 THEN << <<0, 0, bufsz - L>> >> ELSE << >>)

\* untouched caller buffer
UntouchedSegs(bufsz) == IF bufsz > 0 THEN << <<0, 0, bufsz>> >> ELSE << >>

\* may the call succeed / must it succeed / must it fail
MustFail(L, bufsz) == L > bufsz
MustSucceed(chip, status, L, bufsz) == L <= bufsz /\ ~StatusIsError(chip, status)

OutcomeOk(chip, status, implicitHeader, reportedLen, configuredLen, off, bufsz, o) ==
    LET L == PacketLen(implicitHeader, reportedLen, configuredLen) IN
    /\ o.panic = 0                                    \* never a panic
    /\ IF o.ok = 1
       THEN /\ ~MustFail(L, bufsz)
            /\ o.len = L                              \* the chip-defined length, not more, not less
            /\ o.len <= bufsz
            /\ o.segs = ExpectedSegs(off, L, bufsz)   \* exactly those bytes, rest untouched
       ELSE /\ ~MustSucceed(chip, status, L, bufsz)   \* an error needs a reason
            \* on failure nothing beyond the caller's buffer can be checked; inside it any
            \* prefix of the packet may already have been copied, but never foreign bytes
            /\ \A i \in 1..Len(o.segs) : o.segs[i][1] \in {0, 1}

\* which clause failed (for diagnostics)
Why(chip, status, implicitHeader, reportedLen, configuredLen, off, bufsz, o) ==
    LET L == PacketLen(implicitHeader, reportedLen, configuredLen) IN
    IF o.panic = 1 THEN "panic"
    ELSE IF o.ok = 1 /\ MustFail(L, bufsz) THEN "succeeded although the packet does not fit"
    ELSE IF o.ok = 1 /\ o.len # L THEN "wrong length"
    ELSE IF o.ok = 1 /\ o.segs # ExpectedSegs(off, L, bufsz) THEN "wrong bytes or tail touched"
    ELSE IF o.ok = 0 /\ MustSucceed(chip, status, L, bufsz) THEN "failed without a reason"
    ELSE IF o.ok = 0 THEN "foreign bytes in the buffer after a failure"
    ELSE "ok"

\* sanity of the definitions (evaluated by TLC at start-up)
ASSUME \A i, j \in 0..255 : i # j => Pat(i) # Pat(j)
ASSUME ChipByte(250, 10) = Pat(4)
ASSUME ExpectedSegs(3, 0, 0) = << >>
ASSUME ExpectedSegs(250, 12, 12) = << <<1, 250, 12>> >>
ASSUME StatusIsError("lr1110", 0) /\ StatusIsError("lr1110", 3) /\ ~StatusIsError("lr1110", 4) /\ ~StatusIsError("lr1110", 7)
ASSUME StatusIsError("sx1262", 6) /\ StatusIsError("sx1262", 10) /\ ~StatusIsError("sx1262", 4) /\ ~StatusIsError("sx1276", 6)
=============================================================================
