-------------------------------- MODULE MCPhy --------------------------------
(* C14 at the design level, and the source of call sequences replayed into   *)
(* the real driver.  An abstract model of the PHY driver's bookkeeping        *)
(* (LoRa::radio_mode, cold_start, calibrate_image - lora-phy/src/lib.rs) next *)
(* to the abstract SX126x of PhyTrace.tla (mode, configuration valid since    *)
(* the last cold start), for fault-free calls with every interrupt outcome.   *)
(*                                                                            *)
(* TLC explores EVERY sequence of API calls (the state space is small, so     *)
(* there is no depth bound) and checks the property's clauses as invariants:  *)
(* the driver's belief and the chip's mode agree, an operation only starts on *)
(* a configured chip, the chip is only commanded while awake, and after a     *)
(* timed-out operation both are in standby.                                   *)
(*                                                                            *)
(* `hist` (hidden from the fingerprint by VIEW) records the call sequence      *)
(* that produced each generated successor: one behaviour per TRANSITION of    *)
(* the abstract model.  vlib/c14.py replays the maximal ones on the real      *)
(* LoRa<Sx126x> and LoRa<Sx127x>; PhyTrace.tla judges the recorded bus        *)
(* traffic.  The driver model only steers which sequences are executed - a    *)
(* driver that deviates from it is judged by what it really sent.             *)
EXTENDS Integers, Sequences, FiniteSets, TLC, Json

CONSTANT PrintEdges

VARIABLES mode,     \* driver: sleep | standby | transmit | rx_single | rx_cont | rx_duty | cad | listen
          cold,     \* driver: configuration lost, cold-start programming pending
          calimg,   \* driver: image calibration pending
          cm,       \* chip: stdby | sleep_warm | sleep_cold | tx | rx | rxc | rxdc | cad | cw
          conf,     \* chip: configuration programmed since the last cold start / reset
          hist
pvars == <<mode, cold, calimg, cm, conf, hist>>
PView == <<mode, cold, calimg, cm, conf>>

Asleep == cm \in {"sleep_warm", "sleep_cold"}
RxModes == {"rx_single", "rx_cont", "rx_duty"}

Init == mode = "standby" /\ cold = FALSE /\ calimg = TRUE /\ cm = "stdby" /\ conf = TRUE /\ hist = <<>>

\* with PrintEdges every transition prints the call sequence that takes it (TLC evaluates an invariant only on
\* states that are new under the VIEW, which would give one sequence per state, not per transition)
Log(call, irq) ==
    /\ hist' = Append(hist, [call |-> call, irq |-> irq])
    /\ (PrintEdges => PrintT(<<"REPLAY", ToJson(hist')>>))

\* ensure_ready(mode): a sleeping (or duty-cycling) chip is woken when the driver knows it sleeps
Woken == IF mode \in {"sleep", "rx_duty"} /\ (Asleep \/ cm = "rxdc") THEN "stdby" ELSE cm

\* prepare_modem: wake, standby, cold-start programming if pending, image calibration if pending
\* (returns the chip mode and configuration after it)
PmCm == "stdby"
PmConf == IF cold THEN TRUE ELSE conf

InitCall ==
    /\ mode' = "standby" /\ cold' = FALSE /\ calimg' = TRUE /\ cm' = "stdby" /\ conf' = TRUE
    /\ Log("init", <<>>)

Sleep(warm) ==
    /\ IF mode = "sleep" THEN UNCHANGED <<mode, cold, calimg, cm, conf>>
       ELSE /\ mode' = "sleep" /\ cold' = (cold \/ ~warm) /\ UNCHANGED calimg
            /\ cm' = IF warm THEN "sleep_warm" ELSE "sleep_cold"
            /\ conf' = (conf /\ warm)
    /\ Log(IF warm THEN "sleep_warm" ELSE "sleep_cold", <<>>)

SyncWord ==
    /\ mode' = "standby" /\ cm' = "stdby" /\ UNCHANGED <<cold, calimg, conf>>
    /\ Log("sync_word", <<>>)

Prep(call, newMode) ==
    /\ mode' = newMode /\ cold' = FALSE /\ calimg' = FALSE /\ cm' = PmCm /\ conf' = PmConf
    /\ Log(call, <<>>)

\* tx: interrupt outcome done / timeout
\* (Transmit is also the mode continuous_wave leaves, with the carrier on: only a prepared payload is sent)
Tx(irq) ==
    /\ IF mode = "transmit" /\ cm # "cw"
       THEN mode' = "standby" /\ cm' = "stdby" /\ UNCHANGED <<cold, calimg, conf>>
       ELSE UNCHANGED <<mode, cold, calimg, cm, conf>>
    /\ Log("tx", irq)

StartRx ==
    /\ IF mode \in RxModes
       THEN cm' = (CASE mode = "rx_single" -> "rx" [] mode = "rx_cont" -> "rxc" [] OTHER -> "rxdc")
       ELSE UNCHANGED cm
    /\ UNCHANGED <<mode, cold, calimg, conf>>
    /\ Log("start_rx", <<>>)

\* complete_rx: done leaves the driver in its receive mode; a timeout / error forces standby except in continuous mode
CompleteRx(irq, ok) ==
    /\ IF mode \in RxModes
       THEN IF ok THEN /\ cm' = (IF cm = "rx" THEN "stdby" ELSE cm) /\ UNCHANGED mode
                  ELSE IF mode = "rx_cont" THEN UNCHANGED <<mode, cm>>
                  ELSE mode' = "standby" /\ cm' = "stdby"
       ELSE UNCHANGED <<mode, cm>>
    /\ UNCHANGED <<cold, calimg, conf>>
    /\ Log("complete_rx", irq)

SwitchCh ==
    /\ IF mode \in RxModes
       THEN cm' = (CASE mode = "rx_single" -> "rx" [] mode = "rx_cont" -> "rxc" [] OTHER -> "rxdc")
       ELSE UNCHANGED cm
    /\ UNCHANGED <<mode, cold, calimg, conf>>
    /\ Log("switch_ch", <<>>)

Listen ==
    /\ mode' = "listen" /\ cold' = FALSE /\ calimg' = FALSE /\ cm' = "rxc" /\ conf' = PmConf
    /\ Log("listen", <<>>)

\* continuous_wave: prepares like a transmission and starts the unmodulated carrier at once; the driver has no
\* mode of its own for it and records Transmit, but a tx() straight after it is refused (no payload was prepared)
Cw ==
    /\ mode' = "transmit" /\ cold' = FALSE /\ calimg' = FALSE /\ cm' = "cw" /\ conf' = PmConf
    /\ Log("cw", <<>>)

Cad(irq) ==
    /\ IF mode = "cad"
       THEN mode' = "standby" /\ cm' = "stdby" /\ UNCHANGED <<cold, calimg, conf>>
       ELSE UNCHANGED <<mode, cold, calimg, cm, conf>>
    /\ Log("cad", irq)

\* interrupt flag words as the SX126x reports them (the runner translates them for the SX127x)
TxDone == <<1>>
Timeout == <<512>>
RxDone == <<2>>
CadDone == <<128>>

Next ==
    \/ InitCall
    \/ Sleep(TRUE) \/ Sleep(FALSE)
    \/ SyncWord
    \/ Prep("prep_tx", "transmit") \/ Prep("prep_rx_single", "rx_single") \/ Prep("prep_rx_cont", "rx_cont")
    \/ Prep("prep_rx_duty", "rx_duty") \/ Prep("prep_cad", "cad")
    \/ Tx(TxDone) \/ Tx(Timeout)
    \/ StartRx
    \/ CompleteRx(RxDone, TRUE) \/ CompleteRx(Timeout, FALSE)
    \/ SwitchCh \/ Listen \/ Cw
    \/ Cad(CadDone)
Spec == Init /\ [][Next]_pvars

\* --- the clauses of C14 on the abstract model
\* the driver's belief and the chip's mode agree
Agree ==
    /\ mode = "sleep" <=> Asleep
    /\ mode = "standby" => cm = "stdby"
    /\ mode = "cad" => cm = "stdby"                          \* prepared, not started (the operations complete within their call)
    /\ mode = "transmit" => cm \in {"stdby", "cw"}           \* ... or the carrier started by continuous_wave
    /\ mode = "listen" => cm = "rxc"
\* an operation only runs on a chip that was reprogrammed after its last cold start
OperatesConfigured == cm \in {"tx", "rx", "rxc", "rxdc", "cad", "cw"} => conf
\* whenever the driver believes the configuration is in place, it is
ColdStartTracked == (~cold /\ ~Asleep) => conf

\* replayed sequences are kept short: everything reachable is reachable within this many calls
Short == Len(hist) <= 7
=============================================================================
