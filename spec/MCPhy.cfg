SPECIFICATION Spec
CONSTANTS
  PrintEdges = FALSE
VIEW PView
INVARIANTS Agree OperatesConfigured ColdStartTracked
CHECK_DEADLOCK FALSE
