------------------------------ MODULE McTrace ------------------------------
(* The multicast part of a device built with the `multicast` cargo feature  *)
(* (LoRaWAN Remote Multicast Setup, TS005): the group table, the remote      *)
(* set-up handler that maintains it, and the data path that consults it.     *)
(*                                                                           *)
(* GROUP TABLE.  Four slots (McGroupID 0..3), each empty or holding a group: *)
(* McAddr, McNetSKey, McAppSKey, the next frame counter the group may use    *)
(* and maxMcFCount.                                                          *)
(*                                                                           *)
(* SET-UP HANDLER.  The FRMPayload of a unicast downlink that the device     *)
(* accepts (authentic under its own session for the reconstructed counter -  *)
(* Mac!NextFcnt - in a receive window or while listening as Class C) on      *)
(* FPort 200 is a stream of set-up commands (MacCmds.tla, set mc_down),      *)
(* taken in order up to the first unknown or truncated one:                  *)
(*   PackageVersionReq  -> PackageVersionAns (package 2, version 2)          *)
(*   McGroupStatusReq   -> McGroupStatusAns: NbTotalGroups = groups defined, *)
(*                         AnsGroupMask = requested and defined, one record  *)
(*                         (id, McAddr) per reported group in id order       *)
(*   McGroupSetupReq    -> the slot named by the request holds the group of  *)
(*                         the request (session keys by the TS005 key        *)
(*                         hierarchy from the GenAppKey, re-derived here     *)
(*                         with Aes.tla; the counter starts at minMcFCount); *)
(*                         a group already in the slot is replaced;          *)
(*                         McGroupSetupAns with the id                       *)
(*   McGroupDeleteReq   -> the slot is emptied, McGroupDeleteAns with the id;*)
(*                         for an empty slot McGroupDeleteAns with the id    *)
(*                         AND the McGroupUndefined bit                      *)
(*   McClassC/BSessionReq -> not implemented by the library: no answer, no   *)
(*                         effect (stated as built)                          *)
(* The answers, in request order, are the FRMPayload (under the AppSKey) of   *)
(* an uplink on FPort 200 that the device transmits at once.  At most 242    *)
(* octets of answers fit one uplink: handling stops at the first answer that *)
(* does not fit (only answers of requests without effect are made to         *)
(* overflow in the recorded histories; what a set-up or delete request whose *)
(* answer does not fit should do is not specified here).                     *)
(*                                                                           *)
(* DATA PATH (C05 read for a multicast session).  A frame heard on an FPort  *)
(* of the multicast range (201..205) - in RX1, RX2, between the windows or   *)
(* outside a procedure - belongs to the group with the lowest id whose       *)
(* McAddr it carries; it is accepted exactly when its MIC verifies under the *)
(* group's McNetSKey for the 32-bit counter N that matches the 16-bit wire   *)
(* counter and is the next the group may use or a later one, with            *)
(* N < maxMcFCount; the group then remembers N, the payload is decrypted     *)
(* with the McAppSKey under that same N and delivered, and no frame is ever  *)
(* accepted twice.  Frames of a deleted or replaced group are ignored.       *)
(*                                                                           *)
(* The trace: histories of `vh mcdata` on the feature binary.  Every frame   *)
(* the device hears and every frame it transmits is in the call list of the  *)
(* event; the specification decodes them itself (Codec.tla) - the recorder   *)
(* says nothing about what was set up, except in the cross-check event       *)
(* `mc_group` (the session keys the network side used must be the ones       *)
(* derived here).  The C06 clauses (uplink counters strictly increase, MIC   *)
(* under the counter on the wire) are held on the same traces by             *)
(* CertTrace.tla.                                                            *)
EXTENDS Mac, Codec, Json, IOUtils, TLCExt

MCmd == INSTANCE MacCmds

Rec == ndJsonDeserialize(IOEnv.TRACE)
VARIABLES l,
          grps,   \* the group table: <<slot 0, .., slot 3>>, each [on, g, addr, nwk, app, next, max] (next, max: <<hi16, lo16>>)
          pend,   \* answers of the set-up handler not transmitted yet
          dls,    \* payloads delivered to the application and not taken yet (the device keeps at most 4)
          prev,   \* the unicast session as snapshotted after the previous event
          gak,    \* the GenAppKey installed in the device (reset event)
          board,  \* [region, maxpw, gain] of the history (reset event)
          txp     \* the TX power the network commanded as snapshotted after the previous event (dBm; -1: none)
vars == <<l, grps, pend, dls, prev, gak, board, txp>>

\* signatures of the open findings (known_findings.json): a deviation is followed only when its signature is listed
Allowed == IF "KNOWN" \in DOMAIN IOEnv THEN JsonDeserialize(IOEnv.KNOWN) ELSE <<>>
IsAllowed(sig) == \E i \in 1..Len(Allowed) : Allowed[i] = sig
Known(sig, detail) == PrintT(<<"KNOWN", l, sig, detail>>)
\* KNOWN FINDING (open, S40): McGroupDeleteAns for a slot that holds no group carries the McGroupUndefined bit but
\* not the McGroupID of the request (always 0)
SigDeleteAnsId == "mc-delete-ans-undefined-drops-group-id"

Chk(name, exp, obs) ==
    IF exp = obs THEN TRUE
    ELSE PrintT(<<"MISMATCH", l, name, "expected", exp, "observed", obs>>) /\ FALSE
ChkT(name, cond) ==
    IF cond THEN TRUE ELSE PrintT(<<"MISMATCH", l, name, "expected", TRUE, "observed", FALSE>>) /\ FALSE
\* (frames are independent observations within a history: a failed check is printed - the runner reports it with
\* the history - and validation goes on with the state the SPECIFICATION prescribes; `Soft` never blocks)
Soft(ok) == IF ok THEN TRUE ELSE TRUE

NoGroup == [on |-> FALSE, g |-> 0, addr |-> <<>>, nwk |-> <<>>, app |-> <<>>, next |-> <<0, 0>>, max |-> <<0, 0>>]
NoGroups == <<NoGroup, NoGroup, NoGroup, NoGroup>>
McZero16 == <<0, 0, 0, 0, 0, 0, 0, 0, 0, 0, 0, 0, 0, 0, 0, 0>>

Block(tag, addr) == <<tag>> \o addr \o <<0, 0, 0, 0, 0, 0, 0, 0, 0, 0, 0>>

\* TS005 section 4 / LoRaWAN 1.0.x: McRootKey = aes128_encrypt(GenAppKey, 0x00 | pad16), McKEKey =
\* aes128_encrypt(McRootKey, 0x00 | pad16), McKey = aes128_encrypt(McKEKey, McKey_encrypted),
\* McAppSKey = aes128_encrypt(McKey, 0x01 | McAddr | pad16), McNetSKey = aes128_encrypt(McKey, 0x02 | McAddr | pad16)
McKeyOf(genAppKey, keyEnc) == Encrypt(Encrypt(Encrypt(genAppKey, McZero16), McZero16), keyEnc)
McAppSKeyOf(genAppKey, keyEnc, addr) == Encrypt(McKeyOf(genAppKey, keyEnc), Block(1, addr))
McNetSKeyOf(genAppKey, keyEnc, addr) == Encrypt(McKeyOf(genAppKey, keyEnc), Block(2, addr))

\* the counter rule (shared with the design-level model MCMc.tla), instantiated for the real 16-bit wire counter
MCore == INSTANCE McCore
U32Inc(c) == MCore!Inc(65536, 65535, c)
\* 4 octets, little-endian -> <<hi16, lo16>>
Le32(p, off) == <<p[off + 2] + 256 * p[off + 3], p[off] + 256 * p[off + 1]>>

McPorts == 201..205
SetupPort == 200
MaxAnswers == 242
PushDl(q, d) == IF Len(q) >= 4 THEN q ELSE Append(q, d)
RECURSIVE Rev(_)
Rev(s) == IF s = <<>> THEN <<>> ELSE Rev(Tail(s)) \o <<s[1]>>

\* ---------------------------------------------------------------- the set-up handler
Defined(t) == {g \in 0..3 : t[g + 1].on}
Bit(x, g) == (x \div (2 ^ g)) % 2
RECURSIVE StatusRecords(_, _, _)
StatusRecords(t, mask, g) ==
    IF g > 3 THEN <<>>
    ELSE (IF Bit(mask, g) = 1 /\ t[g + 1].on THEN <<g>> \o t[g + 1].addr ELSE <<>>) \o StatusRecords(t, mask, g + 1)
AnsMask(t, mask) == (IF Bit(mask, 0) = 1 /\ t[1].on THEN 1 ELSE 0) + (IF Bit(mask, 1) = 1 /\ t[2].on THEN 2 ELSE 0)
                  + (IF Bit(mask, 2) = 1 /\ t[3].on THEN 4 ELSE 0) + (IF Bit(mask, 3) = 1 /\ t[4].on THEN 8 ELSE 0)

\* one command (CID at p[off], payload behind it) on table t: [t, ans, setup]  (setup: id of a group set up, or -1)
\* dev: the answers as the open finding S40 makes them (used only to recognise that finding)
OneCmd(t, p, off, cid, dev) ==
    CASE cid = 0 -> [t |-> t, ans |-> <<0, 2, 2>>, setup |-> -1]
      [] cid = 1 -> LET mask == p[off + 1] % 16 IN
                    [t |-> t, ans |-> <<1, 16 * Cardinality(Defined(t)) + AnsMask(t, mask)>> \o StatusRecords(t, mask, 0), setup |-> -1]
      [] cid = 2 -> LET g == p[off + 1] % 4
                        addr == SubSeq(p, off + 2, off + 5)
                        keyenc == SubSeq(p, off + 6, off + 21) IN
                    [t |-> [t EXCEPT ![g + 1] = [on |-> TRUE, g |-> g, addr |-> addr,
                                                 nwk |-> McNetSKeyOf(gak, keyenc, addr), app |-> McAppSKeyOf(gak, keyenc, addr),
                                                 next |-> Le32(p, off + 22), max |-> Le32(p, off + 26)]],
                     ans |-> <<2, g>>, setup |-> g]
      [] cid = 3 -> LET g == p[off + 1] % 4 IN
                    IF t[g + 1].on THEN [t |-> [t EXCEPT ![g + 1] = NoGroup], ans |-> <<3, g>>, setup |-> -1]
                    ELSE [t |-> t, ans |-> <<3, 4 + (IF dev THEN 0 ELSE g)>>, setup |-> -1]
      [] OTHER -> [t |-> t, ans |-> <<>>, setup |-> -1]     \* McClassCSessionReq, McClassBSessionReq: not implemented

RECURSIVE Handle(_, _, _, _, _, _, _)
\* items: MacCmds!Items of the payload; k: next item; off: its offset.  Result [t, pend, setup]
Handle(t, pnd, p, items, k, off, dev) ==
    IF k > Len(items) \/ items[k][1] # 1 THEN [t |-> t, pend |-> pnd, setup |-> -1]
    ELSE LET r == OneCmd(t, p, off, items[k][2], dev) IN
         IF Len(pnd) + Len(r.ans) > MaxAnswers THEN [t |-> t, pend |-> pnd, setup |-> -1]
         ELSE LET rest == Handle(r.t, pnd \o r.ans, p, items, k + 1, off + items[k][3], dev) IN
              [t |-> rest.t, pend |-> rest.pend, setup |-> IF rest.setup >= 0 THEN rest.setup ELSE r.setup]

SetupMessage(t, pnd, p, dev) == Handle(t, pnd, p, MCmd!Items("mc_down", p), 1, 1, dev)

\* ---------------------------------------------------------------- the data path
RECURSIVE GroupOf(_, _, _)
GroupOf(t, addr, g) == IF g > 3 THEN -1 ELSE IF t[g + 1].on /\ t[g + 1].addr = addr THEN g ELSE GroupOf(t, addr, g + 1)

\* verdict on one heard frame of the multicast port range: [kind: "accept" | "atmax" | "ignore", g, n]
Verdict(t, b) ==
    LET f == Fields(b)
        g == GroupOf(t, f.addr, 0) IN
    IF g < 0 THEN [kind |-> "ignore", g |-> -1, n |-> <<>>]
    ELSE LET grp == t[g + 1]
             Auth(n) == MicOk(b, grp.nwk, n)
             v == MCore!Judge(65536, 65535, grp.next, grp.max, f.fcnt16, Auth)
         IN [kind |-> v.kind, g |-> IF v.kind = "ignore" THEN -1 ELSE g, n |-> v.n]

\* ---------------------------------------------------------------- one event: the calls in order
\* walk state: [t, pend, pendk (the answers as the open finding S40 makes them), dls, uacc (a unicast frame was accepted in this event), setup, last (verdict of the last
\* multicast-range frame, for the response of a listening call)]
IsHeard(c) == c.c \in {"rx_single", "rx_cont"} /\ "out" \in DOMAIN c /\ c.out = "frame"
NoVerdict == [kind |-> "none", g |-> -1, n |-> <<>>]

HeardFrame(st, b) ==
    IF ~StructOk(b) THEN st
    ELSE LET f == Fields(b) IN
         IF f.port \in McPorts THEN
             LET v == Verdict(st.t, b) IN
             IF v.kind = "accept" THEN
                 [st EXCEPT !.t = [st.t EXCEPT ![v.g + 1].next = U32Inc(v.n)],
                            !.dls = PushDl(st.dls, [port |-> f.port, data |-> DecryptFrm(b, st.t[v.g + 1].nwk, st.t[v.g + 1].app, v.n)]),
                            !.last = v]
             ELSE [st EXCEPT !.last = v]
         ELSE IF prev.has = 1 /\ ~st.uacc /\ f.addr = prev.addr /\ ~IsUplinkMType(f.mtype) THEN
             LET n == NextFcnt(prev.down, f.fcnt16) IN
             IF n # <<>> /\ MicOk(b, prev.nwk, n) THEN
                 IF f.port = SetupPort /\ Len(f.frm) > 0 THEN
                     LET pl == DecryptFrm(b, prev.nwk, prev.app, n)
                         r == SetupMessage(st.t, st.pend, pl, FALSE) IN
                     [st EXCEPT !.t = r.t, !.pend = r.pend, !.pendk = SetupMessage(st.t, st.pendk, pl, TRUE).pend, !.uacc = TRUE, !.setup = r.setup]
                 ELSE [st EXCEPT !.uacc = TRUE]
             ELSE st
         ELSE st

\* C09 for the handler's own uplinks: the limits of any other transmission (Mac!MaxTxPower, written out for the three
\* quantities this module tracks)
McMaxPower == LET base == MinOf(board.maxpw, MaxEirp(board.region) - board.gain)
              IN IF txp < 0 THEN base ELSE MinOf(base, txp)
Transmitted(st, c) ==
    LET b == c.bytes IN
    IF ~StructOk(b) \/ Fields(b).port # SetupPort THEN st
    ELSE LET f == Fields(b)
             obs == DecryptFrm(b, prev.nwk, prev.app, <<0, f.fcnt16>>) IN
         IF Soft(/\ (IF st.pend # obs /\ st.pendk = obs /\ IsAllowed(SigDeleteAnsId) THEN Known(SigDeleteAnsId, obs)
                      ELSE Chk("multicast set-up: the answers, in request order, are the payload of the FPort-200 uplink", st.pend, obs))
                 /\ ChkT(<<"C09 (multicast set-up) tx power of the handler's uplink", c.pw, "max", McMaxPower>>, c.pw <= McMaxPower)
                 /\ ChkT(<<"C09 (multicast set-up) tx frequency in band", c.rf.freq>>, FreqValid(board.region, c.rf.freq)))
         THEN [st EXCEPT !.pend = <<>>, !.pendk = <<>>] ELSE st

RECURSIVE Walk(_, _, _)
Walk(calls, i, st) ==
    IF i > Len(calls) THEN st
    ELSE LET c == calls[i] IN
         Walk(calls, i + 1,
              IF IsHeard(c) THEN HeardFrame(st, c.bytes)
              ELSE IF c.c = "tx" /\ "bytes" \in DOMAIN c THEN Transmitted(st, c)
              ELSE st)

Judged(e) == e.ev \in {"a_proc", "a_rxc"} /\ e.resp.k \notin {"Panic", "Hang"}
\* number of frames a listening call heard
NHeard(e) == Len(SelectSeq(e.calls, IsHeard))

EvCalls(e) ==
    LET st0 == [t |-> grps, pend |-> pend, pendk |-> pend, dls |-> dls, uacc |-> FALSE, setup |-> -1, last |-> NoVerdict]
        st == Walk(e.calls, 1, st0) IN
    /\ Soft(ChkT(<<"multicast set-up: the answers are transmitted at once (an FPort-200 uplink follows the request)", st.pend>>,
                 st.pend = <<>>))
    \* what the call reports
    /\ Soft(IF st.setup >= 0 THEN
                /\ Chk("multicast set-up: a new group is reported", "Multicast", e.resp.k)
                /\ (e.resp.k # "Multicast" \/ (Chk("multicast set-up: response kind", "new", e.resp.mk) /\ Chk("multicast set-up: group", st.setup, e.resp.g)))
            ELSE IF e.ev = "a_rxc" /\ NHeard(e) = 1 /\ st.last.kind = "accept" THEN
                /\ Chk(<<"C05 (multicast) fresh authentic frame of the group is accepted", st.last.n>>, "Multicast", e.resp.k)
                /\ (e.resp.k # "Multicast" \/ (/\ Chk("C05 (multicast) response kind", "received", e.resp.mk)
                                               /\ Chk("C05 (multicast) group", st.last.g, e.resp.g)
                                               /\ Chk("C05 (multicast) accepted counter (32 bits)", st.last.n, e.resp.cnt)))
            ELSE IF e.ev = "a_rxc" /\ NHeard(e) = 1 /\ st.last.kind = "atmax" THEN
                \* the first counter beyond the life time: not accepted; the device may say that the group has expired
                ChkT(<<"C05 (multicast) a frame at maxMcFCount is not accepted", e.resp.k>>,
                     e.resp.k = "Pending" \/ (e.resp.k = "Multicast" /\ e.resp.mk = "expired"))
            ELSE IF e.ev = "a_rxc" /\ NHeard(e) = 1 /\ st.last.kind = "ignore" THEN
                \* replayed, stale, beyond the life time, of a deleted group, under another address or with a MIC that does not verify
                Chk("C05 (multicast) a frame that is not fresh and authentic for a group is ignored", "Pending", e.resp.k)
            ELSE TRUE)
    /\ grps' = st.t /\ pend' = <<>> /\ dls' = st.dls

EvGroup(e) ==
    LET g == grps[e.g + 1] IN
    /\ Soft(/\ ChkT(<<"multicast set-up: the group the network set up is in the table", e.g>>, g.on)
            /\ (~g.on \/ (/\ Chk("McAddr", e.addr, g.addr)
                          /\ Chk("McAppSKey = aes128_encrypt(McKey, 0x01 | McAddr | pad16)", g.app, e.app)
                          /\ Chk("McNetSKey = aes128_encrypt(McKey, 0x02 | McAddr | pad16)", g.nwk, e.nwk)
                          /\ Chk("maxMcFCount", e.max, g.max))))
    /\ UNCHANGED <<grps, pend, dls>>

EvTakeDl(e) ==
    /\ Soft(Chk("C05 (multicast) delivered payloads", Rev(dls), [i \in 1..Len(e.got) |-> [port |-> e.got[i].port, data |-> e.got[i].data]]))
    /\ dls' = <<>> /\ UNCHANGED <<grps, pend>>

Match(e) ==
    CASE e.ev = "reset" -> /\ grps' = NoGroups /\ pend' = <<>> /\ dls' = <<>> /\ gak' = (IF "genappkey" \in DOMAIN e THEN e.genappkey ELSE gak)
                           /\ board' = [region |-> e.region, maxpw |-> e.maxpw, gain |-> e.gain]
      [] e.ev = "mc_group" -> EvGroup(e) /\ UNCHANGED <<gak, board>>
      [] e.ev \in {"a_proc", "a_rxc"} /\ Judged(e) -> EvCalls(e) /\ UNCHANGED <<gak, board>>
      [] e.ev = "take_dl" -> EvTakeDl(e) /\ UNCHANGED <<gak, board>>
      [] OTHER -> UNCHANGED <<grps, pend, dls, gak, board>>

Init == /\ l = 1 /\ grps = NoGroups /\ pend = <<>> /\ dls = <<>> /\ prev = [has |-> 0] /\ gak = McZero16
        /\ board = [region |-> "EU868", maxpw |-> 14, gain |-> 0] /\ txp = -1
Next == /\ l <= Len(Rec) /\ l' = l + 1 /\ Match(Rec[l])
        /\ prev' = (IF "sess" \in DOMAIN Rec[l] THEN Rec[l].sess ELSE prev)
        /\ txp' = (IF "snap" \in DOMAIN Rec[l] THEN Rec[l].snap.txp ELSE txp)
Spec == Init /\ [][Next]_vars

TraceAccepted ==
    IF TLCGet("stats").diameter = Len(Rec) + 1 THEN TRUE
    ELSE PrintT(<<"TRACE-REJECTED", "matched", TLCGet("stats").diameter - 1, "of", Len(Rec)>>) /\ FALSE
=============================================================================
