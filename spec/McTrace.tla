------------------------------ MODULE McTrace ------------------------------
(* The multicast DATA path of a device built with the `multicast` cargo     *)
(* feature (LoRaWAN Remote Multicast Setup, TS005): which frames of a        *)
(* multicast group the device acts upon.  C05 read for a multicast session:  *)
(* a frame is accepted exactly when its MIC verifies under the group's       *)
(* McNetSKey for the 32-bit counter N that matches the 16-bit wire counter   *)
(* and is the next the group may use or a later one (minMcFCount at set-up,  *)
(* afterwards last accepted + 1), with N < maxMcFCount; it then remembers N, *)
(* delivers the payload decrypted with the McAppSKey under that same N, and  *)
(* no frame is ever accepted twice.                                          *)
(*                                                                           *)
(* The trace: histories of `vh mcdata` - a Class C device, a group set up by *)
(* an authentic McGroupSetupReq (event mc_group: what the network holds; the *)
(* session keys are re-derived here with Aes.tla from the GenAppKey and the  *)
(* encrypted McKey, per TS005 / LoRaWAN 1.0.x), then one heard frame per     *)
(* rxc_listen call.                                                          *)
EXTENDS Mac, Codec, Json, IOUtils, TLCExt

Rec == ndJsonDeserialize(IOEnv.TRACE)

VARIABLES l,
          grp,    \* the group: [on, g, addr, nwk, app, next, max] (next, max: <<hi16, lo16>>)
          dls     \* payloads delivered to the application and not taken yet (the device keeps at most 4)
vars == <<l, grp, dls>>

Chk(name, exp, obs) ==
    IF exp = obs THEN TRUE
    ELSE PrintT(<<"MISMATCH", l, name, "expected", exp, "observed", obs>>) /\ FALSE
ChkT(name, cond) ==
    IF cond THEN TRUE ELSE PrintT(<<"MISMATCH", l, name, "expected", TRUE, "observed", FALSE>>) /\ FALSE

NoGroup == [on |-> FALSE, g |-> 0, addr |-> <<>>, nwk |-> <<>>, app |-> <<>>, next |-> <<0, 0>>, max |-> <<0, 0>>]
McZero16 == <<0, 0, 0, 0, 0, 0, 0, 0, 0, 0, 0, 0, 0, 0, 0, 0>>

Block(tag, addr) == <<tag>> \o addr \o <<0, 0, 0, 0, 0, 0, 0, 0, 0, 0, 0>>

\* TS005 section 4 / LoRaWAN 1.0.x: McRootKey = aes128_encrypt(GenAppKey, 0x00 | pad16), McKEKey =
\* aes128_encrypt(McRootKey, 0x00 | pad16), McKey = aes128_encrypt(McKEKey, McKey_encrypted),
\* McAppSKey = aes128_encrypt(McKey, 0x01 | McAddr | pad16), McNetSKey = aes128_encrypt(McKey, 0x02 | McAddr | pad16)
McKeyOf(genAppKey, keyEnc) == Encrypt(Encrypt(Encrypt(genAppKey, McZero16), McZero16), keyEnc)
McAppSKeyOf(genAppKey, keyEnc, addr) == Encrypt(McKeyOf(genAppKey, keyEnc), Block(1, addr))
McNetSKeyOf(genAppKey, keyEnc, addr) == Encrypt(McKeyOf(genAppKey, keyEnc), Block(2, addr))

U32Lt(a, b) == a[1] < b[1] \/ (a[1] = b[1] /\ a[2] < b[2])
U32Inc(c) == IF c = <<65535, 65535>> THEN c ELSE IF c[2] = 65535 THEN <<c[1] + 1, 0>> ELSE <<c[1], c[2] + 1>>
\* the smallest counter >= next whose low half is the wire counter (<<>> if there is none below 2^32)
Rebuild(next, wire) ==
    IF wire >= next[2] THEN <<next[1], wire>>
    ELSE IF next[1] < 65535 THEN <<next[1] + 1, wire>> ELSE <<>>

McPorts == 201..205
PushDl(q, d) == IF Len(q) >= 4 THEN q ELSE Append(q, d)
RECURSIVE Rev(_)
Rev(s) == IF s = <<>> THEN <<>> ELSE Rev(Tail(s)) \o <<s[1]>>

\* ---------------------------------------------------------------- events
\* (frames are independent observations within a history: a failed check is printed - the runner reports it with
\* the history - and validation goes on with the group state the SPECIFICATION prescribes; `Soft` never blocks)
Soft(ok) == IF ok THEN TRUE ELSE TRUE

EvGroup(e) ==
    /\ Soft(/\ Chk("McAppSKey = aes128_encrypt(McKey, 0x01 | McAddr | pad16)", McAppSKeyOf(e.genappkey, e.keyenc, e.addr), e.app)
            /\ Chk("McNetSKey = aes128_encrypt(McKey, 0x02 | McAddr | pad16)", McNetSKeyOf(e.genappkey, e.keyenc, e.addr), e.nwk))
    /\ grp' = [on |-> TRUE, g |-> e.g, addr |-> e.addr, nwk |-> e.nwk, app |-> e.app, next |-> e.min, max |-> e.max]
    /\ UNCHANGED dls

\* verdict on one heard frame: [kind: "other" | "accept" | "atmax" | "ignore", n, f]
Verdict(b) ==
    IF ~StructOk(b) \/ Fields(b).port \notin McPorts THEN [kind |-> "other", n |-> <<>>]
    ELSE LET f == Fields(b)
             n == IF grp.on /\ f.addr = grp.addr THEN Rebuild(grp.next, f.fcnt16) ELSE <<>>
             authentic == n # <<>> /\ MicOk(b, grp.nwk, n)
         IN IF authentic /\ U32Lt(n, grp.max) THEN [kind |-> "accept", n |-> n]
            ELSE IF authentic /\ n = grp.max THEN [kind |-> "atmax", n |-> n]
            ELSE [kind |-> "ignore", n |-> <<>>]

\* (a frame the device does not act upon is followed by the next listening call, which stays pending)
Heard(e) == Len(e.calls) >= 1 /\ e.calls[1].c = "rx_cont" /\ e.calls[1].out = "frame"

\* one heard frame per call
EvRxc(e) ==
    IF ~Heard(e) THEN UNCHANGED <<grp, dls>>
    ELSE
      LET b == e.calls[1].bytes
          v == Verdict(b)
          f == Fields(b) IN
      CASE v.kind = "accept" ->
             \* a frame of the group, fresh and inside the group's life time: accepted, exactly once
             /\ Soft(/\ Chk(<<"C05 (multicast) fresh authentic frame of the group is accepted", f.fcnt16>>, "Multicast", e.resp.k)
                     /\ Chk("C05 (multicast) response kind", "received", e.resp.mk)
                     /\ Chk("C05 (multicast) group", grp.g, e.resp.g)
                     /\ Chk("C05 (multicast) accepted counter (32 bits)", v.n, e.resp.cnt))
             /\ grp' = [grp EXCEPT !.next = U32Inc(v.n)]
             /\ dls' = PushDl(dls, [port |-> f.port, data |-> DecryptFrm(b, grp.nwk, grp.app, v.n)])
        [] v.kind = "atmax" ->
             \* the first counter beyond the life time: not accepted; the device may say that the group has expired
             /\ Soft(ChkT(<<"C05 (multicast) a frame at maxMcFCount is not accepted", e.resp.k>>,
                          e.resp.k = "Pending" \/ (e.resp.k = "Multicast" /\ e.resp.mk = "expired")))
             /\ UNCHANGED <<grp, dls>>
        [] v.kind = "ignore" ->
             \* replayed, stale, beyond the life time, under another address or with a MIC that does not verify
             /\ Soft(Chk(<<"C05 (multicast) a frame that is not fresh and authentic for the group is ignored", f.fcnt16, f.addr>>,
                         "Pending", e.resp.k))
             /\ UNCHANGED <<grp, dls>>
        [] OTHER -> UNCHANGED <<grp, dls>>

EvTakeDl(e) ==
    /\ Soft(Chk("C05 (multicast) delivered payloads", Rev(dls), [i \in 1..Len(e.got) |-> [port |-> e.got[i].port, data |-> e.got[i].data]]))
    /\ dls' = <<>> /\ UNCHANGED grp

Match(e) ==
    CASE e.ev = "reset" -> grp' = NoGroup /\ dls' = <<>>
      [] e.ev = "mc_group" -> EvGroup(e)
      [] e.ev = "a_rxc" -> EvRxc(e)
      [] e.ev = "take_dl" -> EvTakeDl(e)
      [] OTHER -> UNCHANGED <<grp, dls>>

Init == l = 1 /\ grp = NoGroup /\ dls = <<>>
Next == l <= Len(Rec) /\ l' = l + 1 /\ Match(Rec[l])
Spec == Init /\ [][Next]_vars

TraceAccepted ==
    IF TLCGet("stats").diameter = Len(Rec) + 1 THEN TRUE
    ELSE PrintT(<<"TRACE-REJECTED", "matched", TLCGet("stats").diameter - 1, "of", Len(Rec)>>) /\ FALSE
=============================================================================
