---------------------------- MODULE Sx127xWire ----------------------------
(* Register-level effect of each driver operation on the SX1276 / SX1272    *)
(* LoRa transceivers, written from the data sheets (SX1276/77/78/79:        *)
(* chapter 4.1, 5.4, 5.5 and the LoRa register table of chapter 6;          *)
(* SX1272/73: the corresponding chapters), the SX1276 errata note (2.1,     *)
(* 2.3) and Semtech's reference driver SWL2001 (sx127x.c).                  *)
(*                                                                          *)
(* The SX127x has no commands: a transaction is <<address|wnr, data...>>    *)
(* with auto-incrementing address (the FIFO at address 0 does not           *)
(* increment).  Drivers legitimately factor the same register update in     *)
(* different transactions (burst writes, shadow copies versus read-back),   *)
(* so an operation is specified by its EFFECT on the chip: the register     *)
(* fields it owns and the values they must hold afterwards, the bytes       *)
(* pushed into the FIFO and at which FIFO address, with every bit that is   *)
(* not owned left as it was.  X7Exec executes recorded transactions on a    *)
(* register file; X7EffectOk compares the outcome with an operation.        *)
EXTENDS WireBits

\* ------------------------------------------------------------------ register addresses (DS table 41 / 6.4)
RFifo == 0
ROpMode == 1
RFrfMsb == 6
RFrfMid == 7
RFrfLsb == 8
RPaConfig == 9
RPaRamp == 10
ROcp == 11
RLna == 12
RFifoAddrPtr == 13
RFifoTxBaseAddr == 14
RFifoRxBaseAddr == 15
RFifoRxCurrentAddr == 16
RIrqFlagsMask == 17
RIrqFlags == 18
RRxNbBytes == 19
RPktSnrValue == 25
RPktRssiValue == 26
RRssiValue == 27
RModemConfig1 == 29
RModemConfig2 == 30
RSymbTimeoutLsb == 31
RPreambleMsb == 32
RPreambleLsb == 33
RPayloadLength == 34
RMaxPayloadLength == 35
RModemConfig3 == 38          \* SX1276 only
RIfFreq1 == 47               \* SX1276 errata 2.3
RIfFreq2 == 48
RDetectOptimize == 49
RInvertIq == 51
RHighBwOptimize1 == 54       \* SX1276 errata 2.1
RDetectionThreshold == 55
RSyncWord == 57
RHighBwOptimize2 == 58
RInvertIq2 == 59
RDioMapping1 == 64
RDioMapping2 == 65
RVersion == 66
RPaDac1276 == 77             \* 0x4D
RPaDac1272 == 90             \* 0x5A

\* operating modes, RegOpMode bits 2..0; bit 7 = LongRangeMode (LoRa)
ModeSleep == 0
ModeStandby == 1
ModeTx == 3
ModeRxContinuous == 5
ModeRxSingle == 6
ModeCad == 7

\* ------------------------------------------------------------------ executing transactions on a register file
\* state: rf = tuple of 128 register values (index address + 1), fifo = <<pointer, byte>> for every byte pushed
\* into the FIFO, irqclr = bytes written to RegIrqFlags (write-1-to-clear), order = addresses written, in order
X7Start(rf) == [rf |-> rf, fifo |-> <<>>, irqclr |-> <<>>, order |-> <<>>]

RECURSIVE X7WriteBytes(_, _, _, _)
X7WriteBytes(st, addr, data, i) ==
    IF i > Len(data) THEN st
    ELSE LET b == data[i] IN
         IF addr = RFifo THEN
            LET p == st.rf[RFifoAddrPtr + 1] IN
            X7WriteBytes([st EXCEPT !.fifo = Append(@, <<p, b>>), !.rf = [@ EXCEPT ![RFifoAddrPtr + 1] = (p + 1) % 256],
                                    !.order = Append(@, RFifo)], addr, data, i + 1)
         ELSE LET a == (addr + i - 1) % 128 IN
              IF a = RIrqFlags THEN
                 X7WriteBytes([st EXCEPT !.irqclr = Append(@, b), !.rf = [@ EXCEPT ![a + 1] = @ & (255 - b)],
                                         !.order = Append(@, a)], addr, data, i + 1)
              ELSE IF a = ROpMode THEN
                 \* LongRangeMode (bit 7) "can be modified only in Sleep mode": it follows the written value only when
                 \* the chip is in sleep and the write keeps it there; otherwise the current bit is kept
                 LET cur == st.rf[ROpMode + 1]
                     v == IF cur % 8 = 0 /\ b % 8 = 0 THEN b ELSE (cur & 128) | (b & 127) IN
                 X7WriteBytes([st EXCEPT !.rf = [@ EXCEPT ![a + 1] = v], !.order = Append(@, a)], addr, data, i + 1)
              ELSE X7WriteBytes([st EXCEPT !.rf = [@ EXCEPT ![a + 1] = b], !.order = Append(@, a)], addr, data, i + 1)

X7Txn(st, t) ==
    IF Len(t) = 0 THEN st
    ELSE IF t[1] >= 128 THEN X7WriteBytes(st, t[1] - 128, SubSeq(t, 2, Len(t)), 1)
    ELSE IF t[1] = RFifo THEN [st EXCEPT !.rf = [@ EXCEPT ![RFifoAddrPtr + 1] = (@ + Len(t) - 1) % 256]]   \* FIFO read
    ELSE st                                                                                                \* register read

RECURSIVE X7ExecFrom(_, _, _)
X7ExecFrom(st, txns, i) == IF i > Len(txns) THEN st ELSE X7ExecFrom(X7Txn(st, txns[i]), txns, i + 1)
X7Exec(rf, txns) == X7ExecFrom(X7Start(rf), txns, 1)

\* ------------------------------------------------------------------ effects
\* An effect is a record
\*   own  : sequence of <<address, mask, value>>  - the field must hold value afterwards
\*   free : sequence of <<address, mask>>         - bits the operation may leave in any state (documented per use)
\*   fifo : the bytes that must have been pushed into the FIFO, or <<-1>> for "none may be pushed"
\*   base : FIFO address of the first pushed byte
\*   last : register that must be written last (-1 = no constraint): a mode switch must come after its set-up
Effect(own, free) == [own |-> own, free |-> free, fifo |-> <<-1>>, base |-> 0, last |-> -1]

RECURSIVE MaskAt(_, _, _)
MaskAt(list, addr, i) == IF i > Len(list) THEN 0 ELSE (IF list[i][1] = addr THEN list[i][2] ELSE 0) | MaskAt(list, addr, i + 1)
RECURSIVE ValAt(_, _, _)
ValAt(own, addr, i) == IF i > Len(own) THEN 0 ELSE (IF own[i][1] = addr THEN own[i][3] & own[i][2] ELSE 0) | ValAt(own, addr, i + 1)

\* registers whose content is not configuration: FIFO window, interrupt flags (write-1-to-clear), FIFO pointer
\* while the FIFO is accessed
VolatileRegs == {RFifo, RIrqFlags}

X7RegOk(eff, rf0, rf1, addr) ==
    LET own == MaskAt(eff.own, addr, 1)
        free == MaskAt(eff.free, addr, 1)
        keep == 255 - (own | free)
    IN /\ (rf1[addr + 1] & own) = ValAt(eff.own, addr, 1)
       /\ (rf1[addr + 1] & keep) = (rf0[addr + 1] & keep)

X7BadRegs(eff, rf0, rf1) == {a \in (0..127) \ VolatileRegs : ~X7RegOk(eff, rf0, rf1, a)}

X7FifoOk(eff, st) ==
    IF eff.fifo = <<-1>> THEN st.fifo = <<>>
    ELSE /\ Len(st.fifo) = Len(eff.fifo)
         /\ \A i \in 1..Len(eff.fifo) : st.fifo[i] = <<(eff.base + i - 1) % 256, eff.fifo[i]>>

X7LastOk(eff, st) == eff.last = -1 \/ (Len(st.order) > 0 /\ st.order[Len(st.order)] = eff.last)

X7EffectOk(eff, rf0, txns) ==
    LET st == X7Exec(rf0, txns) IN
    X7BadRegs(eff, rf0, st.rf) = {} /\ X7FifoOk(eff, st) /\ X7LastOk(eff, st)

\* diagnostics: what differs (register, before, after, owned mask, owned value)
X7Diff(eff, rf0, txns) ==
    LET st == X7Exec(rf0, txns) IN
    [regs |-> {<<a, rf0[a + 1], st.rf[a + 1], MaskAt(eff.own, a, 1), ValAt(eff.own, a, 1)>> : a \in X7BadRegs(eff, rf0, st.rf)},
     fifoOk |-> X7FifoOk(eff, st), lastOk |-> X7LastOk(eff, st)]

\* ------------------------------------------------------------------ operating mode
\* RegOpMode: bit 7 LongRangeMode = 1 (LoRa), bits 2..0 mode.  Bits 6..3 (AccessSharedReg, reserved,
\* LowFrequencyModeOn) select register pages and are not part of a mode change: free.
OpModeOwn(mode) == << <<ROpMode, 135, 128 + mode>> >>
OpModeFree == << <<ROpMode, 120>> >>
SetMode(mode) == [Effect(OpModeOwn(mode), OpModeFree) EXCEPT !.last = ROpMode]

\* ------------------------------------------------------------------ RF frequency (DS 4.1.4: Frf = Fstep * Frf(23:0), Fstep = 32 MHz / 2^19)
\* the reference (sx127x_convert_freq_in_hz_to_pll_step) rounds to the nearest step with the scaled step
\* 32e6 / 2^11 = 15625 Hz:  word = (f div 15625) * 2^8 + round((f mod 15625) * 2^8 / 15625)
\* (the text lives in PllCore.tla so that Apalache - PllApa.tla - checks the very same definition for every frequency)
Pll127 == INSTANCE PllCore
PllWord127(f) == Pll127!Word127(f)
\* the other reading of the data sheet formula: truncate f / Fstep
PllWord127Trunc(f) ==
    LET int == f \div 15625
        frac == f % 15625
    IN int * 256 + ((frac * 256) \div 15625)
FrfOwn(word) == << <<RFrfMsb, 255, (word \div 65536) % 256>>, <<RFrfMid, 255, Hi8(word)>>, <<RFrfLsb, 255, Lo8(word)>> >>
SetRfFrequency7(f) == Effect(FrfOwn(PllWord127(f)), <<>>)

\* ------------------------------------------------------------------ modulation parameters
\* bandwidth index 0..9 = 7.8 .. 500 kHz.  SX1276 RegModemConfig1[7:4] = 0..9; SX1272 supports 125/250/500 only: [7:6] = 0..2
BwSupported(chip, bw) == IF chip = "sx1272" THEN bw \in 7..9 ELSE bw \in 0..9
SfSupported(sf) == sf \in 6..12
\* detection optimise / threshold (DS 4.1.1.2): SF6 needs 0x05 / 0x0C, all others 0x03 / 0x0A
DetectOwn(sf) == << <<RDetectOptimize, 7, IF sf = 6 THEN 5 ELSE 3>>, <<RDetectionThreshold, 255, IF sf = 6 THEN 12 ELSE 10>> >>
ModParamsOwn(chip, sf, bw, crDen, ldro) ==
    (IF chip = "sx1272"
     THEN << <<RModemConfig1, 192, (bw - 7) * 64>>, <<RModemConfig1, 56, (crDen - 4) * 8>>, <<RModemConfig1, 1, ldro>>,
             <<RModemConfig2, 240, sf * 16>> >>
     ELSE << <<RModemConfig1, 240, bw * 16>>, <<RModemConfig1, 14, (crDen - 4) * 2>>,
             <<RModemConfig2, 240, sf * 16>>, <<RModemConfig3, 8, ldro * 8>> >>)
    \o DetectOwn(sf)

\* SX1276 errata 2.3 "Receiver Spurious Reception of a LoRa Signal": at 500 kHz AutomaticIFOn (0x31 bit 7) stays
\* set; otherwise it is cleared and RegIfFreq2/1 are programmed: 0x40 for 62.5..250 kHz, 0x44 for 10.4..41.7 kHz,
\* 0x48 for 7.8 kHz (with the RF frequency offset by the bandwidth for the bandwidths below 62.5 kHz).
Errata23Own(bw) ==
    IF bw = 9 THEN << <<RDetectOptimize, 128, 128>> >>
    ELSE << <<RDetectOptimize, 128, 0>>, <<RIfFreq1, 255, IF bw = 0 THEN 72 ELSE IF bw <= 5 THEN 68 ELSE 64>>, <<RIfFreq2, 255, 0>> >>
\* SX1276 errata 2.1 "Sensitivity Optimization with a 500 kHz Bandwidth": 0x36 = 0x02 and 0x3A = 0x64 (862..1020 MHz)
\* or 0x7F (410..525 MHz) at 500 kHz; 0x36 = 0x03 otherwise (0x3A is then selected by the chip)
Errata21Own(bw, fHz) ==
    IF bw = 9 /\ fHz >= 862000000 /\ fHz <= 1020000000 THEN << <<RHighBwOptimize1, 255, 2>>, <<RHighBwOptimize2, 255, 100>> >>
    ELSE IF bw = 9 /\ fHz >= 410000000 /\ fHz <= 525000000 THEN << <<RHighBwOptimize1, 255, 2>>, <<RHighBwOptimize2, 255, 127>> >>
    ELSE << <<RHighBwOptimize1, 255, 3>> >>
Errata21Free == << <<RHighBwOptimize1, 255>>, <<RHighBwOptimize2, 255>> >>
Errata23Free == << <<RDetectOptimize, 128>>, <<RIfFreq1, 255>>, <<RIfFreq2, 255>> >>

\* ------------------------------------------------------------------ packet parameters
\* preamble length registers; header mode and CRC bits: SX1276 RegModemConfig1[0] implicit, RegModemConfig2[2] CRC on;
\* SX1272 RegModemConfig1[2] implicit, [1] CRC on.  RegPayloadLength is the packet length in implicit-header mode.
PktParamsOwn(chip, pre, implicit, len, crc) ==
    << <<RPreambleMsb, 255, Hi8(pre)>>, <<RPreambleLsb, 255, Lo8(pre)>> >>
    \o (IF chip = "sx1272" THEN << <<RModemConfig1, 4, implicit * 4>>, <<RModemConfig1, 2, crc * 2>> >>
        ELSE << <<RModemConfig1, 1, implicit>>, <<RModemConfig2, 4, crc * 4>> >>)
    \o (IF implicit = 1 THEN << <<RPayloadLength, 255, len>> >> ELSE <<>>)
\* IQ inversion (DS register 0x33 / 0x3B and AN1200.24): bit 6 InvertIQ RX, bit 0 = 1 for NORMAL TX polarity,
\* bits 5..1 reserved 0x13; RegInvertIQ2 = 0x19 when inverted, 0x1D otherwise.  dir = "tx", "rx" or "both".
IqOwn(iq, dir) ==
    (IF dir \in {"rx", "both"} THEN << <<RInvertIq, 64, iq * 64>> >> ELSE <<>>)
    \o (IF dir \in {"tx", "both"} THEN << <<RInvertIq, 1, 1 - iq>> >> ELSE <<>>)
    \o << <<RInvertIq, 62, 38>>, <<RInvertIq2, 255, IF iq = 1 THEN 25 ELSE 29>> >>
\* the polarity bit of the direction that is not in use is a don't-care
IqFree(dir) == IF dir = "tx" THEN << <<RInvertIq, 64>> >> ELSE IF dir = "rx" THEN << <<RInvertIq, 1>> >> ELSE <<>>

\* ------------------------------------------------------------------ sync word, buffer base, FIFO
SyncWordOwn(sw8) == << <<RSyncWord, 255, sw8>> >>
\* the 16-bit (SX126x register) form 0xY4Z4 of a one-byte sync word 0xYZ; other 16-bit values have no one-byte form
SyncWord16Ok(sw16) == Hi8(sw16) % 16 = 4 /\ Lo8(sw16) % 16 = 4
SyncWord8Of(sw16) == (Hi8(sw16) \div 16) * 16 + (Lo8(sw16) \div 16)
BufferBaseOwn(tx, rx) == << <<RFifoTxBaseAddr, 255, tx>>, <<RFifoRxBaseAddr, 255, rx>> >>
\* loading a payload: the FIFO pointer is set to the TX base address, the bytes are pushed, RegPayloadLength = length
WritePayload(base, data) ==
    [Effect(<< <<RPayloadLength, 255, Len(data)>> >>, << <<RFifoAddrPtr, 255>> >>) EXCEPT !.fifo = data, !.base = base]

\* ------------------------------------------------------------------ PA configuration and TX parameters (DS 5.4.2, 5.4.3)
\* RegPaConfig: bit 7 PaSelect (1 = PA_BOOST), SX1276 bits 6..4 MaxPower, bits 3..0 OutputPower.
\* RegPaDac bits 2..0: 0x07 = +20 dBm option on PA_BOOST, 0x04 = default.  RegPaRamp bits 3..0 ramp code.
\*   SX1276 RFO:      Pout = Pmax - (15 - OutputPower), Pmax = 10.8 + 0.6 * MaxPower
\*   PA_BOOST:        Pout = 17 - (15 - OutputPower)            (+3 dB with the +20 dBm option)
\*   SX1272 RFO:      Pout = -1 + OutputPower
PaOwn(chip, boost, is20, pwr, ramp) ==
    LET padac == IF chip = "sx1272" THEN RPaDac1272 ELSE RPaDac1276 IN
    << <<RPaConfig, 128, boost * 128>>, <<padac, 7, IF is20 = 1 THEN 7 ELSE 4>>, <<RPaRamp, 15, ramp>> >>
    \o (IF boost = 1 THEN << <<RPaConfig, 15, IF is20 = 1 THEN pwr - 5 ELSE pwr - 2>> >>
        ELSE IF chip = "sx1272" THEN << <<RPaConfig, 15, pwr + 1>> >>
        ELSE IF pwr > 0 THEN << <<RPaConfig, 112, 112>>, <<RPaConfig, 15, pwr>> >>
        ELSE << <<RPaConfig, 112, 0>>, <<RPaConfig, 15, pwr + 4>> >>)
\* MaxPower is unused with PA_BOOST (and does not exist on the SX1272): free
PaFree(chip, boost) == IF boost = 1 \/ chip = "sx1272" THEN << <<RPaConfig, 112>> >> ELSE <<>>
\* legal request range of a PA path
PaMin(chip, boost) == IF boost = 1 THEN 2 ELSE IF chip = "sx1272" THEN -1 ELSE -4
PaMax(chip, boost) == IF boost = 1 THEN 20 ELSE 14
Ramp40us7 == 9
Ramp250us7 == 4
\* complete TX power programming for a request: clamp into the path's range; above +17 dBm PA_BOOST needs the +20 dBm option
TxPowerOwn(chip, boost, dbm, ramp) ==
    LET p == Clamp(dbm, PaMin(chip, boost), PaMax(chip, boost))
        is20 == IF boost = 1 /\ p > 17 THEN 1 ELSE 0
    IN PaOwn(chip, boost, is20, p, ramp)

\* ------------------------------------------------------------------ interrupts
\* RegIrqFlagsMask: a 1 masks the interrupt.  bit 7 RxTimeout, 6 RxDone, 5 PayloadCrcError, 4 ValidHeader, 3 TxDone,
\* 2 CadDone, 1 FhssChangeChannel, 0 CadDetected.  RegDioMapping1 bits 7..6 DIO0: 00 RxDone, 01 TxDone, 10 CadDone;
\* bits 5..4 DIO1: 00 RxTimeout.
IrqUnmaskedNeeded(mode) ==
    CASE mode = "tx" -> 8
      [] mode = "rx" -> 128 + 64
      [] mode = "cad" -> 4 + 1
      [] OTHER -> 0
Dio0For(mode) == CASE mode = "tx" -> 64 [] mode = "rx" -> 0 [] mode = "cad" -> 128 [] OTHER -> 192
\* interrupts needed by the mode are unmasked (value 0 in the mask register); which further ones are unmasked is free
IrqParamsEffect(mode) ==
    Effect(<< <<RIrqFlagsMask, IrqUnmaskedNeeded(mode), 0>>, <<RDioMapping1, 192, Dio0For(mode)>> >>
           \o (IF mode = "rx" THEN << <<RDioMapping1, 48, 0>> >> ELSE <<>>),
           << <<RIrqFlagsMask, 255 - IrqUnmaskedNeeded(mode)>>, <<RDioMapping1, 15>> >>
           \o (IF mode = "rx" THEN <<>> ELSE << <<RDioMapping1, 48>> >>))

\* ------------------------------------------------------------------ symbol-count RX timeout (DS 4.1.5: SymbTimeout(9:0))
MaxSymbTimeout7 == 1023
SymbTimeoutOwn(n) == << <<RModemConfig2, 3, (n \div 256) % 4>>, <<RSymbTimeoutLsb, 255, Lo8(n)>> >>


\* ------------------------------------------------------------------ reference-driver specific pieces
\* bandwidth in Hz as the reference rounds it (errata 2.3 RF offset for bandwidths below 62.5 kHz)
BwHzRef == <<7812, 10417, 15625, 20833, 31250, 41667, 62500, 125000, 250000, 500000>>
\* the reference's generic interrupt mask (bit 0 TxDone, 1 RxDone, 4 HeaderValid, 6 CrcError, 7 CadDone, 8 CadDetected,
\* 9 Timeout; 0x7FF = all) mapped onto RegIrqFlagsMask (1 = masked)
IrqMaskReg7(m) ==
    IF (m & 2047) = 2047 THEN 0
    ELSE 255 - ((IF (m & 1) # 0 THEN 8 ELSE 0) + (IF (m & 2) # 0 THEN 64 ELSE 0) + (IF (m & 64) # 0 THEN 32 ELSE 0)
                + (IF (m & 16) # 0 THEN 16 ELSE 0) + (IF (m & 128) # 0 THEN 4 ELSE 0) + (IF (m & 256) # 0 THEN 1 ELSE 0)
                + (IF (m & 512) # 0 THEN 128 ELSE 0))
DioFree == << <<RDioMapping1, 255>>, <<RDioMapping2, 255>> >>

(* ======================================================================== *)
(* Decode operators (property C17)                                          *)
(* ======================================================================== *)
FrfWordOf(rf) == (rf[RFrfMsb + 1] * 256 + rf[RFrfMid + 1]) * 256 + rf[RFrfLsb + 1]
\* Frf = word * 32e6 / 2^19 = word * 15625 / 256 Hz.  Error in units of 1/256 Hz: word*15625 - f*256,
\* with word = q*256 + r, f = a*15625 + b  =>  (q - a) * 4000000 + r*15625 - b*256
FreqErrNum127(word, f) ==
    LET q == word \div 256
        r == word % 256
        a == f \div 15625
        b == f % 15625
    IN IF AbsI(q - a) > 100 THEN (IF q > a THEN 2000000000 ELSE -2000000000)
       ELSE (q - a) * 4000000 + r * 15625 - b * 256
\* within one synthesiser step (61.04 Hz): property C17 says "under 62 Hz"
FreqWithin62Hz127(word, f) == AbsI(FreqErrNum127(word, f)) < 62 * 256

\* output power in 1/10 dB of the PA registers (formulas above)
PaDecode10(chip, paConfig, paDac) ==
    LET boost == paConfig \div 128
        maxp == (paConfig \div 16) % 8
        op == paConfig % 16
        is20 == (paDac % 8) = 7
    IN IF boost = 1 THEN (IF is20 THEN 10 * (5 + op) ELSE 10 * (2 + op))
       ELSE IF chip = "sx1272" THEN 10 * (op - 1)
       ELSE 108 + 6 * maxp - 10 * (15 - op)

SymbDecode7(rf) == (rf[RModemConfig2 + 1] % 4) * 256 + rf[RSymbTimeoutLsb + 1]

\* packet SNR in 1/4 dB (two's complement), RSSI offsets (DS 5.5.5): -157 HF port (above 525 MHz region: > 779 MHz band),
\* -164 LF port, SX1272 -139
SnrQuarterDb7(raw) == FromByte(raw)
RssiOffset7(chip, fHz) == IF chip = "sx1272" THEN -139 ELSE IF fHz > 525000000 THEN -157 ELSE -164

\* ------------------------------------------------------------------ known answers
ASSUME PllWord127(868100000) = 14222950           \* 0xD90666
ASSUME PllWord127(434000000) = 7110656            \* 0x6C8000, the reset value of RegFrf
ASSUME FreqWithin62Hz127(PllWord127(868100000), 868100000) /\ ~FreqWithin62Hz127(PllWord127(868100000) + 2, 868100000)
ASSUME PaDecode10("sx1276", 143, 132) = 170 /\ PaDecode10("sx1276", 143, 135) = 200      \* 0x8F: boost, OutputPower 15
ASSUME PaDecode10("sx1276", 126, 132) = 140 /\ PaDecode10("sx1276", 0, 132) = -42        \* RFO MaxPower 7 / 0
ASSUME PaDecode10("sx1272", 15, 132) = 140 /\ PaDecode10("sx1272", 0, 132) = -10
ASSUME SyncWord16Ok(13380) /\ SyncWord8Of(13380) = 52 /\ ~SyncWord16Ok(13381)
=============================================================================
