------------------------------ MODULE Regions ------------------------------
(* LoRaWAN regional parameters (RP002-1.0.x / RP 1.0.2rB) for the nine      *)
(* regions lora-rs supports, written as tables and formulas.               *)
(* "Defined data rates" are the LoRa data rates the end-device supports    *)
(* (what the network is told); FSK / LR-FHSS rates are not in scope.       *)
(* Entries marked DISPUTED are places where my reading of the Regional     *)
(* Parameters and the device's table differ and no copy of the document is *)
(* available to adjudicate: the specification then takes the reading that  *)
(* makes the check laxer (DESIGN §7.1, Appendix D).                        *)
EXTENDS Integers, Sequences, FiniteSets

RegionNames == {"AS923_1", "AS923_2", "AS923_3", "AS923_4", "AU915", "EU868", "EU433", "IN865", "US915"}
IsFixed(r) == r \in {"US915", "AU915"}
IsAS923(r) == r \in {"AS923_1", "AS923_2", "AS923_3", "AS923_4"}

None == -1

\* ---- data rates: index 0..14 -> <<sf, bandwidth Hz, max MACPayload (M)>> or <<>>
DrEU == << <<12, 125000, 59>>, <<11, 125000, 59>>, <<10, 125000, 59>>, <<9, 125000, 123>>,
           <<8, 125000, 250>>, <<7, 125000, 250>>, <<>>, <<>>, <<>>, <<>>, <<>>, <<>>, <<>>, <<>>, <<>> >>
\* DISPUTED: EU433 DR2 max payload (RP: 59, device: 123) - device value kept
DrEU433 == << <<12, 125000, 59>>, <<11, 125000, 59>>, <<10, 125000, 123>>, <<9, 125000, 123>>,
              <<8, 125000, 250>>, <<7, 125000, 250>>, <<7, 250000, 250>>, <<>>, <<>>, <<>>, <<>>, <<>>, <<>>, <<>>, <<>> >>
DrAS == DrEU433
DrUS == << <<10, 125000, 19>>, <<9, 125000, 61>>, <<8, 125000, 133>>, <<7, 125000, 250>>, <<8, 500000, 250>>,
           <<>>, <<>>, <<>>,
           <<12, 500000, 61>>, <<11, 500000, 137>>, <<10, 500000, 250>>, <<9, 500000, 250>>, <<8, 500000, 250>>,
           <<7, 500000, 250>>, <<>> >>
DrAU == << <<12, 125000, 59>>, <<11, 125000, 59>>, <<10, 125000, 59>>, <<9, 125000, 123>>, <<8, 125000, 250>>,
           <<7, 125000, 250>>, <<8, 500000, 250>>, <<>>,
           <<12, 500000, 61>>, <<11, 500000, 137>>, <<10, 500000, 250>>, <<9, 500000, 250>>, <<8, 500000, 250>>,
           <<7, 500000, 250>>, <<>> >>

DrTable(r) ==
    CASE r = "EU868" -> DrEU
      [] r = "IN865" -> DrEU
      [] r = "EU433" -> DrEU433
      [] IsAS923(r) -> DrAS
      [] r = "US915" -> DrUS
      [] r = "AU915" -> DrAU

DrDefined(r, d) == d \in 0..14 /\ DrTable(r)[d + 1] # <<>>
DrSf(r, d) == DrTable(r)[d + 1][1]
DrBw(r, d) == DrTable(r)[d + 1][2]
DrMaxPayload(r, d) == DrTable(r)[d + 1][3]
DefinedDrs(r) == {d \in 0..14 : DrDefined(r, d)}
\* next lower defined data rate, or None
LowerDr(r, d) ==
    LET below == {x \in DefinedDrs(r) : x < d}
    IN IF below = {} THEN None ELSE CHOOSE x \in below : \A y \in below : y <= x
DefaultDr(r) == 0
\* data rates that may be used for uplinks (US915/AU915 define DR8..13 for downlinks only)
UplinkDr(r, d) == DrDefined(r, d) /\ (r = "US915" => d <= 4) /\ (r = "AU915" => d <= 6)

\* ---- TX power: dBm EIRP commanded by TXPower index, or None if the index is not in the table
\* DISPUTED: EU433 max EIRP (RP 12.15 dBm, device 16) - device value kept (laxer bound)
MaxEirp(r) == IF r \in {"EU868", "EU433"} \/ IsAS923(r) THEN 16 ELSE 30
MaxTxPowerIdx(r) ==
    CASE r = "EU868" -> 7 [] r = "EU433" -> 5 [] r = "IN865" -> 10 [] IsAS923(r) -> 7 [] OTHER -> 14
\* US915: conducted power additionally limited to 21 dBm
TxPowerDbm(r, idx) ==
    IF idx \notin 0..MaxTxPowerIdx(r) THEN None
    ELSE LET p == MaxEirp(r) - 2 * idx IN IF r = "US915" /\ p > 21 THEN 21 ELSE p
\* the power a transmission may use before board limits: default (index 0) or the commanded level
DefaultTxPower(r) == TxPowerDbm(r, 0)

\* ---- receive windows
MaxRx1Offset(r) ==
    CASE r \in {"EU868", "EU433", "AU915"} -> 5 [] r = "US915" -> 3 [] OTHER -> 7
Rx2DefaultDr(r) ==
    CASE r \in {"EU868", "EU433"} -> 0 [] r = "IN865" -> 2 [] IsAS923(r) -> 2 [] OTHER -> 8
Rx2DefaultFreq(r) ==
    CASE r = "EU868" -> 869525000 [] r = "EU433" -> 434665000 [] r = "IN865" -> 866550000
      [] r = "AS923_1" -> 923200000 [] r = "AS923_2" -> 921400000 [] r = "AS923_3" -> 916600000
      [] r = "AS923_4" -> 917300000 [] OTHER -> 923300000

MinOf(a, b) == IF a <= b THEN a ELSE b
MaxOf(a, b) == IF a >= b THEN a ELSE b
Clamp(x, lo, hi) == MaxOf(lo, MinOf(hi, x))

\* RX1 data rate for (uplink data rate, RX1DROffset): the set of acceptable values.
\* AS923 / IN865 offsets 6 and 7 mean -1 and -2.
\* DISPUTED: RP says MIN(5, ...) for AS923 and has irregular entries for IN865 at offsets 6-7;
\* the device caps at DR7.  Both readings are accepted at those entries.
Rx1DrSet(r, ul, off) ==
    CASE r \in {"EU868", "EU433"} -> {MaxOf(0, ul - off)}
      [] IsAS923(r) \/ r = "IN865" ->
            IF off < 6 THEN {MaxOf(0, ul - off)}
            ELSE {MinOf(5, ul + off - 5), MinOf(7, ul + off - 5)}
                 \cup (IF r = "IN865" /\ ul = 5 THEN {5, 7} ELSE {})
      [] r = "US915" ->
            IF ul \in 0..4 THEN {Clamp(10 + ul - off, 8, 13)}
            ELSE IF ul \in 5..6 THEN {Clamp(5 + ul - off, 8, 11)} ELSE {8}
      [] r = "AU915" ->
            IF ul \in 0..6 THEN {Clamp(8 + ul - off, 8, 13)}
            ELSE IF ul = 7 THEN {IF off = 0 THEN 9 ELSE 8} ELSE {8}

\* ---- frequencies
FreqValid(r, f) ==
    CASE r = "EU868" -> f >= 863000000 /\ f <= 870000000
      [] r = "EU433" -> f >= 433050000 /\ f <= 434790000
      [] r = "IN865" -> f >= 865000000 /\ f <= 867000000
      [] r = "AS923_4" -> f >= 917000000 /\ f <= 920000000
      [] IsAS923(r) -> f >= 915000000 /\ f <= 928000000
      [] r = "US915" -> f >= 902000000 /\ f <= 928000000
      [] r = "AU915" -> f >= 915000000 /\ f <= 928000000

AS923Offset(r) ==
    CASE r = "AS923_1" -> 0 [] r = "AS923_2" -> 1800000 [] r = "AS923_3" -> 6600000 [] r = "AS923_4" -> 5900000
\* default (join) channels of the dynamic plans; they are read-only
JoinFreqs(r) ==
    CASE r = "EU868" -> <<868100000, 868300000, 868500000>>
      [] r = "EU433" -> <<433175000, 433375000, 433575000>>
      [] r = "IN865" -> <<865062500, 865402500, 865985000>>
      [] IsAS923(r) -> <<923200000 - AS923Offset(r), 923400000 - AS923Offset(r)>>
      [] OTHER -> <<>>
NumJoinChannels(r) == Len(JoinFreqs(r))

\* fixed plans: 64 x 125 kHz + 8 x 500 kHz uplink channels, 8 downlink channels
FixedUplinkFreq(r, ch) ==
    IF r = "US915" THEN (IF ch < 64 THEN 902300000 + 200000 * ch ELSE 903000000 + 1600000 * (ch - 64))
    ELSE (IF ch < 64 THEN 915200000 + 200000 * ch ELSE 915900000 + 1600000 * (ch - 64))
FixedDownlinkFreq(r, ch) == 923300000 + 600000 * (ch % 8)
\* channel bandwidth class of a fixed-plan channel
FixedChannelBw(ch) == IF ch < 64 THEN 125000 ELSE 500000
\* data rates a JoinRequest may use on a fixed-plan channel (RP 1.0.2: DR0; RP002: AU915 DR2 / DR6)
FixedJoinDrs(r, ch) ==
    IF r = "US915" THEN (IF ch < 64 THEN {0} ELSE {4})
    ELSE (IF ch < 64 THEN {0, 2} ELSE {6})

\* LinkADRReq ChMaskCntl values with a defined meaning
ChMaskCntlDefined(r, c) == IF IsFixed(r) THEN c \in (0..4) \cup (5..7) ELSE c \in {0, 6}
=============================================================================
