---------------------------- MODULE CodecTrace ----------------------------
(* Trace validation of the lorawan-encoding frame builders and parsers     *)
(* (lora-rs) against Codec.tla.  Every event is one call of the real API   *)
(* with its arguments and complete result; events are independent.         *)
EXTENDS Codec, Json, IOUtils, TLCExt

Rec == ndJsonDeserialize(IOEnv.TRACE)

VARIABLE l
vars == <<l>>

Chk(name, exp, obs) ==
    IF exp = obs THEN TRUE
    ELSE PrintT(<<"MISMATCH", l, name, "expected", exp, "observed", obs>>) /\ FALSE

B2I(b) == IF b THEN 1 ELSE 0

\* ------------------------------------------------------------ builders (C01)
BuildDataOk(e) ==
    LET d == e.d IN
    IF DataForbidden(d) \/ d.buflen < DataLen(d) THEN Chk("build_data refused", 0, e.ok)
    ELSE IF DataDontCare(d) /\ e.ok = 0 THEN TRUE
    ELSE /\ Chk("build_data accepted", 1, e.ok)
         /\ Chk("build_data bytes", BuildDataBytes(d), e.out)

BuildJrOk(e) ==
    IF e.buflen < 23 THEN Chk("build_jr refused", 0, e.ok)
    ELSE /\ Chk("build_jr accepted", 1, e.ok)
         /\ Chk("build_jr bytes", JoinRequestBytes(e.join_eui, e.dev_eui, e.dev_nonce, e.key), e.out)

CfBytes(t, cf) == IF t = 0 THEN cf \o <<0>> ELSE IF t = 1 THEN cf \o <<0, 0, 0, 0, 0, 0, 1>> ELSE <<>>

\* The server wraps the join accept with AES-decrypt; since AES is a bijection the wire bytes are
\* correct iff applying AES-encrypt to them gives the plaintext (MHDR stays clear).
BuildJaOk(e) ==
    LET cfl == CfBytes(e.cftype, e.cf)
        need == IF e.cftype >= 0 THEN 33 ELSE 17 IN
    IF e.buflen < need THEN Chk("build_ja refused", 0, e.ok)
    ELSE /\ Chk("build_ja accepted", 1, e.ok)
         /\ Chk("build_ja length", need, Len(e.out))
         /\ Chk("build_ja bytes",
                JoinAcceptPlain(e.join_nonce, e.net_id, e.dev_addr, e.dl, e.rxdelay, cfl, e.key),
                EcbEncryptTail(e.key, e.out))

\* ------------------------------------------------------------ parsers (C02)
\* top-level classification by MHDR and structure
ParseClass(b) ==
    IF Len(b) = 0 THEN "err"
    ELSE IF MajorOf(b[1]) # 0 THEN "err"
    ELSE LET t == MTypeOf(b[1]) IN
         IF t = 0 THEN (IF Len(b) = 23 THEN "jr" ELSE "err")
         ELSE IF t = 1 THEN (IF Len(b) \in {17, 33} THEN "ja" ELSE "err")
         ELSE IF t \in 2..5 THEN (IF StructOk(b) THEN "data" ELSE "err")
         ELSE "err"

DataFieldsOk(tag, b, r) ==
    LET f == Fields(b) IN
    /\ Chk(<<tag, "mtype">>, f.mtype, r.mtype)
    /\ Chk(<<tag, "uplink">>, B2I(IsUplinkMType(f.mtype)), r.uplink)
    /\ Chk(<<tag, "confirmed">>, B2I(f.mtype \in {4, 5}), r.confirmed)
    /\ Chk(<<tag, "addr">>, f.addr, r.addr)
    /\ Chk(<<tag, "fctrl">>, f.fctrl, r.fctrl)
    /\ Chk(<<tag, "adr">>, f.adr, r.adr)
    /\ Chk(<<tag, "adrackreq">>, f.adrackreq, r.adrackreq)
    /\ Chk(<<tag, "ack">>, f.ack, r.ack)
    /\ Chk(<<tag, "fpending">>, f.fpending, r.fpending)
    /\ Chk(<<tag, "foptslen">>, Len(f.fopts), r.foptslen)
    /\ Chk(<<tag, "fcnt16">>, f.fcnt16, r.fcnt16)
    /\ Chk(<<tag, "fopts">>, f.fopts, r.fopts)
    /\ Chk(<<tag, "port">>, f.port, r.port)
    /\ Chk(<<tag, "mic">>, f.mic, r.mic)

ParseOk(e) ==
    LET c == ParseClass(e.bytes) IN
    /\ Chk("parse class", c, e.cls)
    /\ IF c = "data" /\ e.cls = "data" THEN DataFieldsOk("parse", e.bytes, e.r)
       ELSE IF c = "jr" /\ e.cls = "jr" THEN
            /\ Chk("jr join_eui", SubSeq(e.bytes, 2, 9), e.r.join_eui)
            /\ Chk("jr dev_eui", SubSeq(e.bytes, 10, 17), e.r.dev_eui)
            /\ Chk("jr dev_nonce", SubSeq(e.bytes, 18, 19), e.r.dev_nonce)
            /\ Chk("jr mic", SubSeq(e.bytes, 20, 23), e.r.mic)
       ELSE TRUE

\* EncryptedDataPayload::parse on its own (same structural rule)
ParseDataOk(e) ==
    /\ Chk("parse_data ok", B2I(StructOk(e.bytes)), e.ok)
    /\ IF StructOk(e.bytes) /\ e.ok = 1 THEN DataFieldsOk("parse_data", e.bytes, e.r) ELSE TRUE

\* validate_mic of a structurally valid data frame
MicEvOk(e) == Chk("validate_mic", B2I(MicOk(e.bytes, e.key, e.fcnt)), e.ok)

JrMicOk(e) ==
    Chk("jr validate_mic",
        B2I(Take4(Cmac(e.key, SubSeq(e.bytes, 1, 19))) = SubSeq(e.bytes, 20, 23)), e.ok)

\* check_mic_and_decrypt_in_place(buf, nwk, app?, fcnt)
DecodeOk(e) ==
    LET b == e.bytes
        sok == StructOk(b)
        f == Fields(b)
        needApp == sok /\ f.port > 0 /\ Len(f.frm) > 0
        auth == sok /\ MicOk(b, e.nwk, e.fcnt)
        good == auth /\ (~needApp \/ e.app # <<>>) IN
    /\ Chk("decode authentic", B2I(good), e.ok)
    /\ IF good /\ e.ok = 1 THEN
          /\ DataFieldsOk("decode", b, e.r)
          /\ Chk("decode plaintext", DecryptFrm(b, e.nwk, e.app, e.fcnt), e.r.frm)
          /\ Chk("decode frmkind", IF f.port < 0 THEN "none" ELSE IF f.port = 0 THEN "mac" ELSE "data", e.r.frmkind)
          /\ Chk("decode buffer", DecryptedBytes(b, e.nwk, e.app, e.fcnt), e.after)
       ELSE IF ~good /\ e.ok = 0 THEN Chk("decode failure leaves buffer untouched", b, e.after)
       ELSE TRUE

\* decrypt_in_place twice (no MIC check): first gives the plaintext image, second restores the input
Decrypt2Ok(e) ==
    LET b == e.bytes
        sok == StructOk(b)
        f == Fields(b)
        key == IF sok /\ f.port = 0 THEN e.nwk ELSE e.app
        can == sok /\ (Len(f.frm) = 0 \/ key # <<>>) IN
    /\ Chk("decrypt ok", B2I(can), e.ok)
    /\ IF can /\ e.ok = 1 THEN
          /\ Chk("decrypt image", DecryptedBytes(b, e.nwk, e.app, e.fcnt), e.after1)
          /\ Chk("decrypt twice restores", b, e.after2)
       ELSE IF ~can /\ e.ok = 0 THEN Chk("decrypt failure leaves buffer untouched", b, e.after1)
       ELSE TRUE

\* DecryptedJoinAcceptPayload::check_mic_and_decrypt_in_place + accessors + key derivation
JaDecodeOk(e) ==
    LET b == e.bytes
        sok == JoinAcceptStructOk(b)
        plain == JoinAcceptDecrypted(b, e.key)
        good == sok /\ JoinAcceptMicOk(plain, e.key) IN
    /\ Chk("ja authentic", B2I(good), e.ok)
    /\ IF good /\ e.ok = 1 THEN
          LET f == JoinAcceptFields(plain) IN
          /\ Chk("ja join_nonce", f.joinNonce, e.r.join_nonce)
          /\ Chk("ja net_id", f.netId, e.r.net_id)
          /\ Chk("ja dev_addr", f.devAddr, e.r.dev_addr)
          /\ Chk("ja dl", f.dlSettings, e.r.dl)
          /\ Chk("ja rxdelay", f.rxDelay, e.r.rxdelay)
          /\ Chk("ja cflist type", IF f.cflist = <<>> THEN -1 ELSE IF f.cflist[16] \in {0, 1} THEN f.cflist[16] ELSE -1, e.r.cftype)
          /\ Chk("ja cflist", IF f.cflist = <<>> THEN <<>> ELSE IF f.cflist[16] = 0 THEN SubSeq(f.cflist, 1, 15)
                               ELSE IF f.cflist[16] = 1 THEN SubSeq(f.cflist, 1, 9) ELSE <<>>, e.r.cf)
          /\ Chk("ja nwkskey", DeriveNwkSKey(e.key, f.joinNonce, f.netId, e.dev_nonce), e.r.nwkskey)
          /\ Chk("ja appskey", DeriveAppSKey(e.key, f.joinNonce, f.netId, e.dev_nonce), e.r.appskey)
          /\ Chk("ja buffer", plain, e.after)
       ELSE TRUE

Match(e) ==
    CASE e.ev = "build_data" -> BuildDataOk(e)
      [] e.ev = "build_jr" -> BuildJrOk(e)
      [] e.ev = "build_ja" -> BuildJaOk(e)
      [] e.ev = "parse" -> ParseOk(e)
      [] e.ev = "parse_data" -> ParseDataOk(e)
      [] e.ev = "mic" -> MicEvOk(e)
      [] e.ev = "jr_mic" -> JrMicOk(e)
      [] e.ev = "decode" -> DecodeOk(e)
      [] e.ev = "decrypt2" -> Decrypt2Ok(e)
      [] e.ev = "ja_decode" -> JaDecodeOk(e)
      [] OTHER -> Chk("unknown event", "", e.ev)

Init == l = 1
\* independent observations: report every mismatch, keep going
Next == l <= Len(Rec) /\ IF Match(Rec[l]) THEN l' = l + 1 ELSE l' = l + 1
Spec == Init /\ [][Next]_vars

Accepted ==
    IF TLCGet("stats").diameter = Len(Rec) + 1 THEN TRUE
    ELSE PrintT(<<"TRACE-REJECTED", "matched", TLCGet("stats").diameter - 1, "of", Len(Rec)>>) /\ FALSE
=============================================================================
