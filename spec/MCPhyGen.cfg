SPECIFICATION Spec
CONSTANTS
  PrintEdges = TRUE
VIEW PView
CONSTRAINT Short
CHECK_DEADLOCK FALSE
