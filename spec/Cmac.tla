------------------------------- MODULE Cmac -------------------------------
(* AES-CMAC, RFC 4493, over byte sequences; built on Aes.tla.              *)
EXTENDS Aes, SequencesExt

Zero16 == <<0, 0, 0, 0, 0, 0, 0, 0, 0, 0, 0, 0, 0, 0, 0, 0>>

\* multiplication by x in GF(2^128): shift the 128-bit big-endian string left by one bit
Dbl(b) ==
    LET s(i) == ((b[i] * 2) % 256) + (IF i < 16 THEN b[i + 1] \div 128 ELSE 0)
        last == IF b[1] >= 128 THEN s(16) ^^ 135 ELSE s(16)
    IN << s(1), s(2), s(3), s(4), s(5), s(6), s(7), s(8),
          s(9), s(10), s(11), s(12), s(13), s(14), s(15), last >>

\* a partial block padded with 10*
Pad16(p) ==
    LET n == Len(p)
        g(i) == IF i <= n THEN p[i] ELSE IF i = n + 1 THEN 128 ELSE 0
    IN << g(1), g(2), g(3), g(4), g(5), g(6), g(7), g(8),
          g(9), g(10), g(11), g(12), g(13), g(14), g(15), g(16) >>

\* i-th 16-byte block of msg (no LET here: TLC's constant pre-processing loops on a LET inside an
\* operator that is applied within a RECURSIVE operator)
Blk(msg, i) ==
    << msg[16 * i - 15], msg[16 * i - 14], msg[16 * i - 13], msg[16 * i - 12],
       msg[16 * i - 11], msg[16 * i - 10], msg[16 * i - 9], msg[16 * i - 8],
       msg[16 * i - 7], msg[16 * i - 6], msg[16 * i - 5], msg[16 * i - 4],
       msg[16 * i - 3], msg[16 * i - 2], msg[16 * i - 1], msg[16 * i] >>

\* CBC chaining over the first k complete blocks, as a left fold (SequencesExt!FoldLeft)
CbcChain(rk, msg, k) ==
    FoldLeft(LAMBDA acc, i : EncryptRK(rk, Xor16(acc, Blk(msg, i))), Zero16, [i \in 1..k |-> i])

\* full 16-byte tag
CmacRK(rk, msg) ==
    LET L  == EncryptRK(rk, Zero16)
        K1 == Dbl(L)
        K2 == Dbl(K1)
        len == Len(msg)
        n  == IF len = 0 THEN 1 ELSE (len + 15) \div 16
        complete == len > 0 /\ len % 16 = 0
        last == IF complete THEN Xor16(Blk(msg, n), K1)
                ELSE Xor16(Pad16(SubSeq(msg, 16 * (n - 1) + 1, len)), K2)
    IN EncryptRK(rk, Xor16(CbcChain(rk, msg, n - 1), last))

Cmac(key, msg) == CmacRK(RoundKeys(key), msg)

\* RFC 4493 section 4 test vectors (key 2b7e1516...), message lengths 0, 16, 40, 64
RfcKey == <<43, 126, 21, 22, 40, 174, 210, 166, 171, 247, 21, 136, 9, 207, 79, 60>>
RfcMsg == <<107, 193, 190, 226, 46, 64, 159, 150, 233, 61, 126, 17, 115, 147, 23, 42,
            174, 45, 138, 87, 30, 3, 172, 156, 158, 183, 111, 172, 69, 175, 142, 81,
            48, 200, 28, 70, 163, 92, 228, 17, 229, 251, 193, 25, 26, 10, 82, 239,
            246, 159, 36, 69, 223, 79, 155, 23, 173, 43, 65, 123, 230, 108, 55, 16>>
ASSUME Cmac(RfcKey, <<>>) = <<187, 29, 105, 41, 233, 89, 55, 40, 127, 163, 125, 18, 155, 117, 103, 70>>
ASSUME Cmac(RfcKey, SubSeq(RfcMsg, 1, 16)) = <<7, 10, 22, 180, 107, 77, 65, 68, 247, 155, 221, 157, 208, 74, 40, 124>>
ASSUME Cmac(RfcKey, SubSeq(RfcMsg, 1, 40)) = <<223, 166, 103, 71, 222, 154, 230, 48, 48, 202, 50, 97, 20, 151, 200, 39>>
ASSUME Cmac(RfcKey, RfcMsg) = <<81, 240, 190, 191, 126, 59, 157, 146, 252, 73, 116, 23, 121, 54, 60, 254>>
=============================================================================
