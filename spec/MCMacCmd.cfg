SPECIFICATION Spec
CONSTANTS
  WireMod = 16
  MaxGap = 4
  HiMax = 3
  AdrLimit = 64
  AdrDelay = 32
  Region = "EU868"
  MaxDown = 2
INVARIANTS InvalidNeverFullyAcked RejectedChangedNothing AcceptedAdrIsTransmittable PendingWellFormed StickyUntilNextDownlink JoinChannelsReadOnly ParamsLegal
CONSTRAINT Bound
CHECK_DEADLOCK FALSE
