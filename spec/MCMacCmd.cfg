SPECIFICATION Spec
CONSTANTS
  WireMod = 65536
  MaxGap = 16384
  HiMax = 65535
  AdrLimit = 64
  AdrDelay = 32
  Region = "EU868"
  MaxDown = 2
INVARIANTS InvalidNeverFullyAcked RejectedChangedNothing AcceptedAdrIsTransmittable PendingWellFormed StickyUntilNextDownlink JoinChannelsReadOnly ParamsLegal
CONSTRAINT Bound
CHECK_DEADLOCK FALSE
