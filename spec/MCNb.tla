-------------------------------- MODULE MCNb --------------------------------
(* The non-blocking front-end (lorawan-device nb_device: the four-state      *)
(* machine Idle / SendingData / WaitingForRxWindow / WaitingForRx) at the     *)
(* design level, and the source of event sequences replayed into the real    *)
(* nb device.                                                                *)
(*                                                                           *)
(* The machine is driven by an application and a radio that may do ANYTHING  *)
(* the API lets them do, in any order: send (the radio answers done, txing   *)
(* or with an error), join, the transmit-done event, the timer (the radio    *)
(* accepts or refuses what the machine then asks of it), an authentic fresh  *)
(* downlink, a frame that is not accepted, an oversize frame, a JoinAccept,  *)
(* stray radio events, and set_datarate between a transmission and its       *)
(* windows.  Every (state, event) pair has a defined outcome (the actions    *)
(* are total), the MAC effects are the operators of Mac.tla.                 *)
(*                                                                           *)
(* Design properties: the counters of the uplinks handed to the radio never  *)
(* repeat and never wrap (C06), a device is joined only by an accepted       *)
(* JoinAccept (C11), whenever the machine is idle the counter of the last    *)
(* frame on air is consumed, the windows opened are the ones bound when the  *)
(* uplink was sent (C10), and - liveness, under weak fairness of the timer   *)
(* with a radio that accepts its requests - every receive procedure returns  *)
(* to Idle (C04).                                                            *)
(*                                                                           *)
(* `hist` (hidden from the fingerprint by VIEW) records the event sequence   *)
(* of each generated successor: one behaviour per TRANSITION.  vlib/mcnb.py  *)
(* replays the maximal ones on the real nb device (`vh nbwalk seqs=`);       *)
(* MacTrace.tla judges every recorded event.                                 *)
EXTENDS Mac, TLC, Json

CONSTANTS StartUps,     \* initial uplink counters to explore
          PrintEdges,
          MaxLen        \* bound on the length of the replayed sequences

VARIABLES m,        \* MAC state (Mac.tla)
          st,       \* "idle" | "sending" | "waitwin" | "waitrx"
          w,        \* window (1, 2) in waitwin / waitrx
          isJoin,   \* the procedure in progress is a join
          bound,    \* <<uplink data rate, RX1 offset, RX2 data rate>> in force when the uplink was prepared
          used,     \* the same triple as used for the last window opened (C10: must equal `bound`)
          sent,     \* counters of the data uplinks accepted by the radio
          expired,  \* the session's counter space was reported exhausted
          byAccept, \* the session in force was established by an accepted JoinAccept (or installed: ABP)
          hist
nvars == <<m, st, w, isJoin, bound, used, sent, expired, byAccept, hist>>
NView == <<m, st, w, isJoin, bound, used, sent, expired, byAccept>>

StartUpsDef == {<<0, 0>>, <<1, 2>>}
StartUpsGen == {<<0, 0>>}
Key == <<1, 1, 1, 1, 1, 1, 1, 1, 1, 1, 1, 1, 1, 1, 1, 1>>
M0(c) == [AfterAbp(InitMac("EU868", 14, 0), Key, Key, <<1, 2, 3, 4>>) EXCEPT !.sess.up = c]
Binding(mm) == <<mm.cfg.dr, mm.cfg.rx1off, Rx2Dr(mm)>>

Init == /\ \E c \in StartUps : m = M0(c)
        /\ st = "idle" /\ w = 0 /\ isJoin = FALSE /\ bound = <<>> /\ used = <<>> /\ sent = <<>>
        /\ expired = FALSE /\ byAccept = TRUE /\ hist = <<>>

Log(ev) ==
    /\ hist' = Append(hist, ev)
    /\ (PrintEdges => PrintT(<<"REPLAY", ToJson(hist')>>))

Same == UNCHANGED <<m, st, w, isJoin, bound, used, sent, expired, byAccept>>
DownOk == IF m.sess.down = <<>> THEN TRUE ELSE CntLt(m.sess.down, CntMax)
NextDown == IF m.sess.down = <<>> THEN <<0, 0>> ELSE CntInc(m.sess.down)
Frame(conf) == [n |-> NextDown, confirmed |-> conf, fopts |-> <<>>, port |-> 5, payload |-> <<1, 2>>, classA |-> TRUE]

\* ---- requests of the application
\* send: refused outside Idle and when not joined; otherwise the frame is prepared and handed to the radio, which
\* transmits it at once (done), starts transmitting (txing) or fails (err: nothing went on air)
Send(radio) ==
    /\ Log(IF radio = "done" THEN "send" ELSE IF radio = "txing" THEN "send_txing" ELSE "send_err")
    \* (after the counter space was reported exhausted the property no longer constrains the device)
    /\ IF st # "idle" \/ ~Joined(m) \/ expired THEN Same
       ELSE LET m1 == AfterSendPrepare(m, FALSE) IN
            /\ m' = m1 /\ UNCHANGED <<used, expired, byAccept>>
            /\ IF radio = "err" THEN UNCHANGED <<st, w, isJoin, bound, sent>>
               ELSE /\ sent' = Append(sent, m.sess.up) /\ isJoin' = FALSE /\ bound' = Binding(m1)
                    /\ st' = IF radio = "done" THEN "waitwin" ELSE "sending"
                    /\ w' = IF radio = "done" THEN 1 ELSE w

\* join: refused outside Idle; the previous session is gone as soon as the request is prepared
Join ==
    /\ Log("join")
    /\ IF st # "idle" THEN Same
       ELSE /\ m' = AfterJoinReq(m, 7, <<9>>)
            /\ st' = "waitwin" /\ w' = 1 /\ isJoin' = TRUE /\ bound' = Binding(m) /\ byAccept' = FALSE
            \* (C06 speaks of one session: the previous one ends here, with its counters)
            /\ sent' = <<>> /\ expired' = FALSE /\ UNCHANGED used

\* ---- the radio
TxDone ==
    /\ Log("txdone")
    /\ IF st = "sending" THEN st' = "waitwin" /\ w' = 1 /\ UNCHANGED <<m, isJoin, bound, used, sent, expired, byAccept>>
       ELSE Same

\* the timer fires and the radio accepts what the machine then asks of it (open the window / cancel the reception)
Timeout ==
    /\ Log("timeout")
    /\ CASE st = "waitwin" -> st' = "waitrx" /\ used' = bound /\ UNCHANGED <<m, w, isJoin, bound, sent, expired, byAccept>>
         [] st = "waitrx" /\ w = 1 -> st' = "waitwin" /\ w' = 2 /\ UNCHANGED <<m, isJoin, bound, used, sent, expired, byAccept>>
         [] st = "waitrx" /\ w = 2 ->
              /\ m' = AfterRx2Complete(m) /\ st' = "idle"
              /\ expired' = (expired \/ (Joined(m) /\ SessionExpired(m)))
              /\ UNCHANGED <<w, isJoin, bound, used, sent, byAccept>>
         [] OTHER -> Same

\* ... or refuses it: the machine stays where it is
TimeoutFault == Log("timeout_fault") /\ Same

\* an authentic, fresh, confirmed data downlink
RxValid ==
    /\ Log("rx_valid")
    /\ IF st = "waitrx" /\ Joined(m) /\ DownOk
       THEN /\ m' = AfterRxAccepted(m, Frame(TRUE), <<>>, 0) /\ st' = "idle"
            /\ expired' = (expired \/ SessionExpired(m))
            /\ UNCHANGED <<w, isJoin, bound, used, sent, byAccept>>
       ELSE Same

\* a frame that is not accepted (broken MIC): nothing changes, the window stays open
RxJunk == Log("rx_junk") /\ Same

\* a data frame longer than the window's data rate allows: ends the procedure as a time-out would
RxOversize ==
    /\ Log("rx_oversize")
    /\ IF st = "waitrx" /\ Joined(m)
       THEN /\ m' = AfterRx2Complete(m) /\ st' = "idle" /\ expired' = (expired \/ SessionExpired(m))
            /\ UNCHANGED <<w, isJoin, bound, used, sent, byAccept>>
       ELSE Same

\* an authentic JoinAccept: accepted only while joining
RxJa ==
    /\ Log("rx_ja")
    /\ IF st = "waitrx" /\ m.act = "joining"
       THEN /\ m' = AfterJoinAccept(m, [devAddr |-> <<1, 2, 3, 4>>, dlSettings |-> 0, rxDelay |-> 1, cflist |-> <<>>], Key, Key)
            /\ st' = "idle" /\ byAccept' = TRUE
            /\ UNCHANGED <<w, isJoin, bound, used, sent, expired>>
       ELSE Same

\* stray radio events (a response other than the one awaited; a radio failure): reported, nothing changes
Noise(n) == Log(IF n = 0 THEN "noise0" ELSE "noise2") /\ Same

\* the application changes the data rate (possibly between a transmission and its windows)
SetDr(d) ==
    /\ Log(IF d = 0 THEN "setdr_lo" ELSE "setdr_hi")
    /\ m' = AfterSetDr(m, d) /\ UNCHANGED <<st, w, isJoin, bound, used, sent, expired, byAccept>>

Next == (\E r \in {"done", "txing", "err"} : Send(r)) \/ Join \/ TxDone \/ Timeout \/ TimeoutFault
        \/ RxValid \/ RxJunk \/ RxOversize \/ RxJa \/ Noise(0) \/ Noise(2) \/ SetDr(0) \/ SetDr(3)
Spec == Init /\ [][Next]_nvars

\* ---- design properties
CountersStrictlyIncrease == \A i \in 1..(Len(sent) - 1) : CntLt(sent[i], sent[i + 1])
\* idle after a data uplink: its counter is consumed (unless the counter space ended, or a join replaced the session)
IdleMeansConsumed ==
    st = "idle" /\ sent # <<>> /\ ~expired /\ Joined(m) /\ ~isJoin => CntLt(sent[Len(sent)], m.sess.up)
NeverWraps == [][Joined(m) /\ Joined(m') /\ m.sess.nwk = m'.sess.nwk /\ ~(st = "waitrx" /\ isJoin) => ~CntLt(m'.sess.up, m.sess.up)]_nvars
JoinedOnlyByAccept == Joined(m) => byAccept
\* C10: whatever the application did in between, a window is opened with the parameters bound at transmission
WindowsBoundAtTx == st = "waitrx" => used = bound
\* only Idle accepts a request: a procedure in progress is never replaced
StateSane == /\ st \in {"idle", "sending", "waitwin", "waitrx"} /\ (st \in {"waitwin", "waitrx"} => w \in {1, 2})

Short == Len(hist) <= MaxLen /\ Len(sent) <= 2

\* ---- liveness: with a timer that keeps firing and a radio that accepts its requests, every receive procedure ends
LiveSpec == Init /\ [][Next]_nvars /\ WF_nvars(Timeout)
ProcedureReturns == (st \in {"waitwin", "waitrx"}) ~> (st = "idle")
=============================================================================
