------------------------------ MODULE MacTrace ------------------------------
(* Trace validation of the real lorawan-device front-ends (nb state machine  *)
(* and async procedure) against Mac.tla, Regions.tla and Codec.tla.          *)
(*                                                                           *)
(* One trace = a concatenation of histories, each starting with a `reset`    *)
(* event.  Every event is one public call of the device (nb: one             *)
(* handle_event; async: one join/send/rxc_listen with the list of radio and  *)
(* timer calls it made) together with its response and the projected state   *)
(* afterwards.  Whether a received frame is authentic, fresh and well formed *)
(* is decided here by Codec.tla - never by the implementation.               *)
EXTENDS Mac, Codec, Json, IOUtils, TLCExt

Rec == ndJsonDeserialize(IOEnv.TRACE)
\* open known findings (deviation signatures) that may be matched instead of the intended behaviour
Allowed == IF "KNOWN" \in DOMAIN IOEnv THEN JsonDeserialize(IOEnv.KNOWN) ELSE <<>>

VARIABLES l,     \* next trace line
          m,     \* MAC state (Mac.tla)
          fe,    \* front-end state
          ck     \* checkpoints <<m, fe>> of the current history (forked continuations, C09)
vars == <<l, m, fe, ck>>

Chk(name, exp, obs) ==
    IF exp = obs THEN TRUE
    ELSE PrintT(<<"MISMATCH", l, name, "expected", exp, "observed", obs>>) /\ FALSE
IsAllowed(sig) == \E i \in 1..Len(Allowed) : Allowed[i] = sig
\* a listed known finding matched at this line (the runner turns it into a KNOWN-FINDING line)
Known(sig, detail) == PrintT(<<"KNOWN", l, sig, detail>>)

ChkT(name, cond) ==
    IF cond THEN TRUE ELSE PrintT(<<"MISMATCH", l, name, "expected", TRUE, "observed", FALSE>>) /\ FALSE

B2I(b) == IF b THEN 1 ELSE 0
Pair(c) == c

\* ---------------------------------------------------------------- front-end state
IdleFe(e) ==
    [front |-> e.front, classc |-> e.classc = 1, lead |-> e.lead, buffer |-> e.buffer,
     offset |-> e.offset, duration |-> e.duration,
     nb |-> "idle", isJoin |-> FALSE, rx1set |-> {}, rx2 |-> RfOf("EU868", 0, 0), w |-> 0, t |-> 0,
     d1 |-> 0, d2 |-> 0, dls |-> <<>>]

\* ---------------------------------------------------------------- projections
RfObs(rf) == [freq |-> rf.freq, sf |-> rf.sf, bw |-> rf.bw, maxlen |-> rf.maxlen]

SnapOk(mm, e) ==
    LET s == e.snap
        ss == e.sess
        r == mm.region
    IN /\ Chk("snap.act", mm.act, s.act)
       /\ Chk("snap.devnonce", mm.devNonce, s.devnonce)
       /\ Chk("snap.dr", mm.cfg.dr, s.dr)
       /\ Chk("snap.txp", mm.cfg.txp, s.txp)
       /\ Chk("snap.rx1off", mm.cfg.rx1off, s.rx1off)
       /\ Chk("snap.rx2dr", mm.cfg.rx2dr, s.rx2dr)
       /\ Chk("snap.rx2f", mm.cfg.rx2f, s.rx2f)
       /\ Chk("snap.rx1delay", mm.cfg.rx1delay, s.rx1delay)
       /\ Chk("snap.adr", B2I(mm.cfg.adr), s.adr)
       /\ Chk("snap.mask", MaskView(r, mm.plan.mask), MaskView(r, s.mask))
       /\ IF IsFixed(r) THEN TRUE
          ELSE \A i \in 1..16 :
                  Chk(<<"snap.chan", i - 1>>,
                      IF mm.plan.chan[i] = NoChan THEN <<>> ELSE <<ChanUl(mm.plan, i - 1), ChanDl(mm.plan, i - 1)>>,
                      IF s.chan[i] = <<>> THEN <<>>
                      ELSE <<s.chan[i][1], IF s.chan[i][2] = -1 THEN s.chan[i][1] ELSE s.chan[i][2]>>)
       /\ Chk("sess.has", B2I(Joined(mm)), ss.has)
       /\ IF ~Joined(mm) THEN TRUE
          ELSE /\ Chk("sess.nwk", mm.sess.nwk, ss.nwk)
               /\ Chk("sess.app", mm.sess.app, ss.app)
               /\ Chk("sess.addr", mm.sess.addr, ss.addr)
               /\ Chk("sess.fcnt_up", mm.sess.up, ss.up)
               /\ Chk("sess.fcnt_down", mm.sess.down, ss.down)
               /\ Chk("sess.adr_ack_cnt", mm.sess.adrCnt, ss.adrcnt)
               /\ Chk("sess.ack_owed", B2I(mm.sess.ackOwed), ss.ackowed)
               /\ Chk("sess.confirmed", B2I(mm.sess.confirmed), ss.confirmed)
               /\ Chk("sess.pending", mm.sess.pending, ss.pending)

\* ---------------------------------------------------------------- received frames
\* zero the payload of DevStatusAns (its content is not constrained by the properties)
RECURSIVE NormAns(_)
NormAns(ans) ==
    IF ans = <<>> THEN <<>>
    ELSE (IF ans[1][1] = 6 THEN <<<<6, <<0, 0>>>>>> ELSE <<ans[1]>>) \o NormAns(Tail(ans))
Normalize(pending) == Flatten(NormAns(ParseUp(pending)))

\* Walk the requests of an accepted Class A downlink, taking each request's status from the
\* observed answers `ans` (sequence of <<cid, payload>>) while they last, otherwise from the
\* specification's own rule.  Result: [m, sts, ok].
RECURSIVE FoldObs(_, _, _, _)
FoldObs(mm, reqs, ans, acc) ==
    IF reqs = <<>> THEN [m |-> mm, sts |-> acc, ok |-> TRUE]
    ELSE
      LET q == reqs[1]
          k == Len(AnswerCids(mm.region, q))
          avail == IF Len(ans) < k THEN Len(ans) ELSE k
          hasStatus == q.kind \in {"adr", "rxparam", "newch", "dlch"} /\ k > 0
          st == IF hasStatus /\ avail >= 1 /\ Len(ans[1][2]) >= 1 THEN ans[1][2][1] ELSE StatusOf(mm, q)
          invalidOk == IF hasStatus /\ Invalid(mm, q) /\ st = FullAck(q)
                       THEN ChkT(<<"C08 unambiguously invalid request answered with full acceptance", q>>, FALSE)
                       ELSE TRUE
          m2 == IF Accepted(q, st) THEN Effect(mm, q) ELSE mm
          rest == FoldObs(m2, Tail(reqs), SubSeq(ans, avail + 1, Len(ans)), acc \o <<st>>)
      IN [m |-> rest.m, sts |-> rest.sts, ok |-> invalidOk /\ rest.ok]

\* Judge a received data frame for a joined device.
\* Result: [kind: "rejected" | "oversize" | "accepted", v: verdict record]
NoVerdict == [n |-> <<>>, confirmed |-> FALSE, fopts |-> <<>>, port |-> -1, payload |-> <<>>, classA |-> FALSE]
Judge(mm, b, maxlen, classA) ==
    IF ~StructOk(b) THEN [kind |-> "rejected", v |-> NoVerdict]
    ELSE IF Len(b) > maxlen + 5 THEN [kind |-> "oversize", v |-> NoVerdict]
    ELSE LET f == Fields(b)
             n == NextFcnt(mm.sess.down, f.fcnt16)
         IN IF n = <<>> THEN [kind |-> "rejected", v |-> NoVerdict]
            ELSE IF ~MicOk(b, mm.sess.nwk, n) THEN [kind |-> "rejected", v |-> NoVerdict]
            ELSE [kind |-> "accepted",
                  v |-> [n |-> n, confirmed |-> f.mtype \in {4, 5}, fopts |-> f.fopts, port |-> f.port,
                         payload |-> DecryptFrm(b, mm.sess.nwk, mm.sess.app, n), classA |-> classA]]

\* Handle one received frame.  pendingObs: the pending answers observed after the call (to read the
\* device's answer bits).  Result: [m, resp, cnt, deliver (seq of [port,data]), ok]
JoinAcceptOf(mm, b) ==
    LET plain == JoinAcceptDecrypted(b, mm.appKey)
        f == JoinAcceptFields(plain)
    IN [ja |-> [devAddr |-> f.devAddr, dlSettings |-> f.dlSettings, rxDelay |-> f.rxDelay, cflist |-> f.cflist],
        nwk |-> DeriveNwkSKey(mm.appKey, f.joinNonce, f.netId, LE16(mm.devNonce)),
        app |-> DeriveAppSKey(mm.appKey, f.joinNonce, f.netId, LE16(mm.devNonce))]

NotCert == [cid |-> -2, arg |-> <<>>]
HandleFrame(mm, b, maxlen, classA, pendingObs) ==
    IF mm.act = "unjoined" THEN [m |-> mm, resp |-> "NoUpdate", cnt |-> <<>>, deliver |-> <<>>, ok |-> TRUE, cert |-> NotCert]
    ELSE IF mm.act = "joining" THEN
         IF classA /\ JoinAcceptOk(b, mm.appKey)
         THEN LET j == JoinAcceptOf(mm, b)
              IN [m |-> AfterJoinAccept(mm, j.ja, j.nwk, j.app), resp |-> "JoinSuccess", cnt |-> <<>>,
                  deliver |-> <<>>, ok |-> TRUE, cert |-> NotCert]
         ELSE [m |-> mm, resp |-> IF classA THEN "NoUpdate" ELSE "ErrMac", cnt |-> <<>>, deliver |-> <<>>, ok |-> TRUE, cert |-> NotCert]
    ELSE
      LET j == Judge(mm, b, maxlen, classA) IN
      IF j.kind = "rejected" THEN [m |-> mm, resp |-> "NoUpdate", cnt |-> <<>>, deliver |-> <<>>, ok |-> TRUE, cert |-> NotCert]
      ELSE IF j.kind = "oversize"
           THEN [m |-> AfterRx2Complete(mm), resp |-> "Oversize", cnt |-> <<>>, deliver |-> <<>>, ok |-> TRUE, cert |-> NotCert]
      ELSE
        LET v == j.v
            reqs == DownRequests(v)
            base == [mm EXCEPT !.sess.down = v.n, !.sess.adrCnt = AdrZero,
                               !.sess.pending = IF classA THEN <<>> ELSE mm.sess.pending]
            fo == FoldObs(base, reqs, ParseUp(pendingObs), <<>>)
            m3 == AfterRxAccepted(mm, v, fo.sts, 0)
        IN [m |-> m3, resp |-> RxAcceptedResp(mm), cnt |-> v.n,
            deliver |-> IF Delivered(mm, v) THEN <<[port |-> v.port, data |-> v.payload]>> ELSE <<>>,
            ok |-> fo.ok,
            \* the certification command it carried for a build with the handler (cid -2: not a certification frame)
            cert |-> IF SessionExpired(mm) THEN NotCert ELSE CertOf(mm, v)]

\* pending answers compared modulo the DevStatusAns payload
PendingOk(name, mm, e) == Chk(name, Normalize(mm.sess.pending), Normalize(e.sess.pending))
\* the state with the observed pending bytes (so that the field-by-field snapshot comparison
\* does not repeat the DevStatusAns difference)
WithObsPending(mm, e) == IF Joined(mm) THEN [mm EXCEPT !.sess.pending = e.sess.pending] ELSE mm

\* ---------------------------------------------------------------- transmissions
DrsOfRf(r, rf) == {d \in DefinedDrs(r) : DrSf(r, d) = rf.sf /\ DrBw(r, d) = rf.bw}

\* Check a tx call against the state `mm` (already prepared) and return the acceptable RX1 configs.
TxCands(mm, isJoin, c) ==
    {x \in TxChoices(mm, isJoin) : x.freq = c.rf.freq /\ x.dr \in DrsOfRf(mm.region, c.rf)}

TxRadioOk(mm, isJoin, c) ==
    /\ ChkT(<<"C09 tx on a channel that is defined, enabled, in band, with a legal data rate", c.rf>>,
            TxCands(mm, isJoin, c) # {})
    /\ ChkT(<<"C09 tx frequency in band", c.rf.freq>>, FreqValid(mm.region, c.rf.freq))
    /\ ChkT(<<"C09 tx power", c.pw, "max", MaxTxPower(mm, isJoin)>>, c.pw <= MaxTxPower(mm, isJoin))
    /\ Chk("tx coding rate", 5, c.rf.cr)

Rx1Set(mm, isJoin, c) == UNION {Rx1RfSet(mm, x.dr, x.rx1f) : x \in TxCands(mm, isJoin, c)}

\* uplink frame bytes against the header fields Mac.tla prescribes (mm = state BEFORE SendPrepare)
UplinkBytesOk(mm, port, data, confirmed, b) ==
    LET u == UplinkFields(mm, port, confirmed) IN
    /\ ChkT("uplink is a structurally valid data frame", StructOk(b))
    /\ LET f == Fields(b) IN
       /\ Chk("C12 uplink mtype", u.mtype, f.mtype)
       /\ Chk("C12 uplink devaddr", u.addr, f.addr)
       /\ Chk("C12 uplink ADR bit", u.adr, f.adr)
       /\ Chk("C12 uplink ADRACKReq bit", u.adrackreq, f.adrackreq)
       /\ Chk("C12 uplink ACK bit", u.ack, f.ack)
       /\ Chk("uplink FCtrl bit 4 (class B) clear", 0, (f.fctrl \div 16) % 2)
       /\ Chk("C06 uplink wire counter", u.fcnt[2], f.fcnt16)
       /\ Chk("C08 uplink FOpts = pending answers", Normalize(u.fopts), Normalize(f.fopts))
       /\ Chk("uplink port", port, f.port)
       /\ ChkT("C06 uplink MIC under the full 32-bit counter", MicOk(b, mm.sess.nwk, u.fcnt))
       /\ IF port = 0
          THEN Chk("C08 port-0 payload = pending answers", Normalize(u.macPayload),
                   Normalize(DecryptFrm(b, mm.sess.nwk, mm.sess.app, u.fcnt)))
          ELSE Chk("uplink payload", data, DecryptFrm(b, mm.sess.nwk, mm.sess.app, u.fcnt))

JoinBytesOk(args, devNonce, b) ==
    Chk("C11 join request bytes", JoinRequestBytes(args.appeui, args.deveui, LE16(devNonce), args.appkey), b)

\* ---------------------------------------------------------------- events common to both front-ends
\* a history may start from an installed session (its fields are taken as the initial condition)
SessOf(ss) == [nwk |-> ss.nwk, app |-> ss.app, addr |-> ss.addr, up |-> ss.up, down |-> ss.down,
               adrCnt |-> ss.adrcnt, pending |-> ss.pending, ackOwed |-> ss.ackowed = 1, confirmed |-> ss.confirmed = 1]
\* (the recorder built with the device's certification handler says so in the reset event)
CertBuild(e) == "cert" \in DOMAIN e /\ e.cert = 1
\* the join bias the device was configured with (fixed plans; one try when set through set_join_bias)
JwOf(e) == IF "bias_sb" \in DOMAIN e /\ e.bias_sb > 0
           THEN [sb |-> e.bias_sb, max |-> IF e.bias_retries <= 1 THEN 1 ELSE e.bias_retries, n |-> 0, was |-> FALSE]
           ELSE [sb |-> 0, max |-> 0, n |-> 0, was |-> FALSE]
EvReset(e) ==
    /\ m' = IF e.seeded = 1 /\ e.sess.has = 1
            THEN [InitMac(e.region, e.maxpw, e.gain) EXCEPT !.act = "joined", !.sess = SessOf(e.sess), !.cert = CertBuild(e), !.jw = JwOf(e)]
            ELSE [InitMac(e.region, e.maxpw, e.gain) EXCEPT !.cert = CertBuild(e), !.jw = JwOf(e)]
    /\ fe' = IdleFe(e)
    /\ SnapOk(m', e)

EvAbp(e) ==
    /\ m' = AfterAbp(m, e.nwk, e.app, e.addr)
    /\ UNCHANGED fe
    /\ SnapOk(m', e)

EvSetDr(e) == m' = AfterSetDr(m, e.dr) /\ UNCHANGED fe /\ SnapOk(m', e)
EvSetAdr(e) == m' = AfterSetAdr(m, e.on = 1) /\ UNCHANGED fe /\ SnapOk(m', e)

\* delivered payloads come out newest first (the device pops from the end of its queue)
RECURSIVE Rev(_)
Rev(s) == IF s = <<>> THEN <<>> ELSE Rev(Tail(s)) \o <<s[1]>>
EvTakeDl(e) ==
    /\ Chk("C05 delivered payloads", Rev(fe.dls), [i \in 1..Len(e.got) |-> [port |-> e.got[i].port, data |-> e.got[i].data]])
    /\ fe' = [fe EXCEPT !.dls = <<>>]
    /\ UNCHANGED m
    /\ SnapOk(m, e)

\* C20: a session serialised and deserialised at this point is equal in every field
EvSerde(e) ==
    /\ Chk("C20 session present", B2I(Joined(m)), IF e.ok = 0 THEN 0 ELSE 1)
    /\ Chk("C20 document deserialises", TRUE, e.ok \in {0, 1})
    /\ UNCHANGED <<m, fe>>
    /\ SnapOk(m, e)

\* C20: a (possibly malformed) session document is installed: refused with an error (ok = 0: nothing changes)
\* or accepted (ok = 1): the session it describes becomes the initial condition of what follows - every later
\* operation is still held to the specification, in particular it must not panic.
EvSetSession(e) ==
    /\ Chk("C20 deserialisation does not panic", TRUE, e.ok \in {0, 1})
    /\ m' = IF e.ok = 1 /\ e.sess.has = 1 THEN [m EXCEPT !.act = "joined", !.devNonce = None, !.appKey = NoKey, !.sess = SessOf(e.sess)] ELSE m
    /\ UNCHANGED fe
    /\ SnapOk(m', e)

\* queue of delivered downlinks is bounded by the device (D = 4): oldest entries are kept, a push on
\* a full queue is dropped
PushDl(q, d) == IF d = <<>> THEN q ELSE IF Len(q) >= 4 THEN q ELSE q \o d

\* ---------------------------------------------------------------- nb front-end
Delay1(mm, isJoin) == Rx1Delay(mm, isJoin)
Delay2(mm, isJoin) == Rx2Delay(mm, isJoin)

NbErrState(e, s) == Chk("nb response", "ErrState", e.resp.k) /\ Chk("nb state error", s, e.resp.s)

\* A transmission is possible from this state: for a data uplink some channel is defined, enabled and usable with
\* the data rate in force (C04 / C09: when none is, send() must say so - it cannot transmit legally and must not
\* search for ever); for a join request the data rate in force is one the region defines.
CanTx(mm, isJoin) ==
    IF isJoin THEN TxChoices(mm, TRUE) # {} ELSE CanTransmitData(mm.region, mm.plan, mm.cfg.dr)
\* KNOWN FINDING (open, the remainder of S3): a join request while the configured data rate is one the region does
\* not define (the application's set_datarate accepts any value) panics in the dynamic plans.  The history ends there.
StuckKnown(mm, isJoin, e) ==
    isJoin /\ e.resp.k \in {"Hang", "Panic"} /\ e.calls = <<>> /\ ~CanTx(mm, TRUE) /\ IsAllowed("join-undefined-datarate-panic")

\* send() with application data on port 0 (reserved for MAC commands), or with a payload that does not fit a
\* 255-byte frame next to the queued MAC answers: no frame can be built, the call is refused and changes nothing
Misuse(mm, e) ==
    /\ e.args.kind = "send" /\ Joined(mm)
    /\ \/ (e.args.port = 0 /\ Len(e.args.data) > 0)
       \/ 13 + (IF e.args.port = 0 THEN 0 ELSE Len(mm.sess.pending)) + Len(e.args.data) >= 256
\* a send() that cannot go ahead (misuse, or no usable channel): refused with an error, no radio call, nothing changes
\* (While the fixed plans' join bias may still be in force a data uplink goes out at the join data rate on the preferred
\* sub-band whatever data rate is configured: if the configured one has no usable channel the device transmits as long as
\* the bias really is in force and refuses once it is not - the one step the snapshot does not show.  Both are accepted:
\* a transmission is then judged against Mac!TxChoices like any other, a refusal as a refusal.)
Refused(mm, m1, isJoin, e) ==
    ~isJoin /\ (Misuse(mm, e) \/ (~CanTx(m1, FALSE) /\ (~m1.jw.was \/ TxChoices(m1, FALSE) = {} \/ e.calls = <<>>)))
RefusedOk(mm, m1, e, what) ==
    /\ Chk(<<what, IF Misuse(mm, e) THEN "C04 send() misuse is refused with an error" ELSE "C04/C09 no usable channel: send() is refused with an error",
             mm.region, m1.cfg.dr>>, "ErrMac", e.resp.k)
    /\ Chk(<<what, "no radio call">>, <<>>, e.calls)

\* join / send request in Idle
NbRequest(e) ==
    LET isJoin == e.kind = "join"
        a == e.args IN
    IF fe.nb # "idle" THEN
        /\ Chk("nb response", "ErrState", e.resp.k)
        /\ Chk("nb no radio call", <<>>, e.calls)
        /\ UNCHANGED <<m, fe>> /\ SnapOk(m, e)
    ELSE IF ~isJoin /\ ~Joined(m) THEN
        /\ Chk("nb response", "ErrMac", e.resp.k)
        /\ Chk("nb no radio call", <<>>, e.calls)
        /\ UNCHANGED <<m, fe>> /\ SnapOk(m, e)
    ELSE
      LET devNonce == IF isJoin THEN (IF Len(e.draws.list) > 0 THEN e.draws.list[1][2] ELSE 0) ELSE -1
          m1 == IF isJoin THEN AfterJoinReq(m, devNonce, a.appkey) ELSE AfterSendPrepare(m, a.confirmed = 1)
      IN
      IF StuckKnown(m1, isJoin, e) THEN
         /\ Known("join-undefined-datarate-panic", <<m.region, e.resp.k, m1.cfg.dr>>) /\ m' = m1 /\ UNCHANGED fe
      ELSE IF Refused(m, m1, isJoin, e) THEN
         /\ RefusedOk(m, m1, e, "nb") /\ UNCHANGED <<m, fe>> /\ SnapOk(m, e)
      ELSE
         /\ Chk("nb one tx call", 1, Len(e.calls))
         /\ LET c == e.calls[1] IN
            /\ Chk("nb tx call", "tx", c.c)
            /\ TxRadioOk(m1, isJoin, c)
            /\ IF isJoin THEN JoinBytesOk(a, devNonce, c.bytes)
               ELSE UplinkBytesOk(m, a.port, a.data, a.confirmed = 1, c.bytes)
            /\ m' = m1
            /\ LET d1 == Delay1(m1, isJoin)
                   d2 == Delay2(m1, isJoin)
                   bound == [fe EXCEPT !.isJoin = isJoin, !.rx1set = Rx1Set(m1, isJoin, c), !.rx2 = Rx2Rf(m1),
                                       !.d1 = d1, !.d2 = d2]
                   cntv == IF isJoin THEN <<0, devNonce>> ELSE m.sess.up
               IN CASE c.out = "done" ->
                         /\ fe' = [bound EXCEPT !.nb = "waitwin", !.w = 1, !.t = d1 + c.ts + fe.offset]
                         /\ Chk("nb response", "TimeoutRequest", e.resp.k)
                         /\ Chk("C10 nb RX1 time", d1 + c.ts + fe.offset, e.resp.v)
                    [] c.out = "txing" ->
                         /\ fe' = [bound EXCEPT !.nb = "sending"]
                         /\ Chk("nb response", "UplinkSending", e.resp.k)
                         /\ Chk("nb uplink counter reported", cntv, e.resp.cnt)
                    [] c.out = "err" -> fe' = fe /\ Chk("nb response", "ErrRadio", e.resp.k)
                    [] OTHER -> fe' = fe /\ Chk("nb response", "ErrState", e.resp.k)
         /\ SnapOk(m', e)

NbTxDone(e) ==
    IF fe.nb = "sending" THEN
        /\ fe' = [fe EXCEPT !.nb = "waitwin", !.w = 1, !.t = fe.d1 + e.args.ts + fe.offset]
        /\ Chk("nb response", "TimeoutRequest", e.resp.k)
        /\ Chk("C10 nb RX1 time", fe.d1 + e.args.ts + fe.offset, e.resp.v)
        /\ UNCHANGED m /\ SnapOk(m, e)
    ELSE
        /\ Chk("nb response", IF fe.nb = "waitrx" THEN "NoUpdate" ELSE "ErrState", e.resp.k)
        /\ UNCHANGED <<m, fe>> /\ SnapOk(m, e)

NbTimeout(e) ==
    CASE fe.nb \in {"idle", "sending"} ->
            /\ Chk("nb response", "NoUpdate", e.resp.k)
            /\ Chk("nb no radio call", <<>>, e.calls)
            /\ UNCHANGED <<m, fe>> /\ SnapOk(m, e)
      [] fe.nb = "waitwin" ->
            /\ Chk("nb one radio call", 1, Len(e.calls))
            /\ LET c == e.calls[1] IN
               /\ Chk("nb rx request", "rxreq", c.c)
               /\ IF fe.w = 1
                  THEN ChkT(<<"C10 RX1 window", RfObs(c.rf), "allowed", fe.rx1set>>, RfObs(c.rf) \in fe.rx1set)
                  ELSE Chk("C10 RX2 window", fe.rx2, RfObs(c.rf))
               /\ Chk("rx coding rate", 5, c.rf.cr)
               /\ IF c.out = "ok" THEN
                     LET between == fe.d2 - fe.d1
                         close == IF fe.w = 1
                                  THEN fe.t + (IF between > fe.duration THEN fe.duration ELSE between)
                                  ELSE fe.t + fe.duration
                     IN /\ fe' = [fe EXCEPT !.nb = "waitrx", !.rx2 = fe.rx2,
                                            !.rx1set = IF fe.w = 1 THEN {RfObs(c.rf)} ELSE fe.rx1set]
                        /\ Chk("nb response", "TimeoutRequest", e.resp.k)
                        /\ Chk("nb window close time", close, e.resp.v)
                  ELSE fe' = fe /\ Chk("nb response", "ErrRadio", e.resp.k)
            /\ UNCHANGED m /\ SnapOk(m, e)
      [] fe.nb = "waitrx" ->
            /\ Chk("nb one radio call", 1, Len(e.calls))
            /\ Chk("nb cancel rx", "cancel", e.calls[1].c)
            /\ IF e.calls[1].out # "ok" THEN
                  /\ Chk("nb response", "ErrRadio", e.resp.k) /\ UNCHANGED <<m, fe>> /\ SnapOk(m, e)
               ELSE IF fe.w = 1 THEN
                  /\ fe' = [fe EXCEPT !.nb = "waitwin", !.w = 2, !.t = fe.t + (fe.d2 - fe.d1)]
                  /\ Chk("nb response", "TimeoutRequest", e.resp.k)
                  /\ Chk("C10 nb RX2 time", fe.t + (fe.d2 - fe.d1), e.resp.v)
                  /\ UNCHANGED m /\ SnapOk(m, e)
               ELSE
                  /\ Chk("nb response", Rx2CompleteResp(m), e.resp.k)
                  /\ m' = AfterRx2Complete(m)
                  /\ fe' = [fe EXCEPT !.nb = "idle"]
                  /\ SnapOk(m', e)

WindowMaxLen(f) == IF f.w = 1 THEN (CHOOSE x \in f.rx1set : TRUE).maxlen ELSE f.rx2.maxlen

NbRx(e) ==
    IF fe.nb # "waitrx" THEN
        /\ Chk("nb response", "ErrState", e.resp.k) /\ UNCHANGED <<m, fe>> /\ SnapOk(m, e)
    ELSE
      LET h == HandleFrame(m, e.frame.bytes, WindowMaxLen(fe), TRUE, e.sess.pending) IN
      /\ h.ok
      /\ IF h.resp = "Oversize"
         THEN \* may end the procedure as a timeout (or be ignored like any rejected frame)
              IF e.resp.k = "NoUpdate" THEN UNCHANGED <<m, fe>> /\ SnapOk(m, e)
              ELSE /\ Chk("C07 oversize frame ends the procedure as a timeout", Rx2CompleteResp(m), e.resp.k)
                   /\ m' = AfterRx2Complete(m) /\ fe' = [fe EXCEPT !.nb = "idle"] /\ SnapOk(m', e)
         \* certification build: a certification frame whose command the handler does not act upon is accepted
         \* (counters advance) but reported as nothing received; the window stays open
         ELSE IF h.cert.cid = -1
         THEN /\ Chk("certification frame without an effective command: reported as no update", "NoUpdate", e.resp.k)
              /\ m' = WithObsPending(h.m, e) /\ UNCHANGED fe /\ SnapOk(m', e)
         ELSE /\ Chk("C05/C07 response to received frame", h.resp, e.resp.k)
              /\ IF h.resp = "DownlinkReceived" THEN Chk("C05 accepted counter", h.cnt, e.resp.cnt) ELSE TRUE
              /\ PendingOk("C08 answers queued", h.m, e)
              /\ m' = WithObsPending(h.m, e)
              /\ fe' = [fe EXCEPT !.nb = IF h.resp = "NoUpdate" THEN "waitrx" ELSE "idle",
                                  !.dls = PushDl(fe.dls, h.deliver)]
              /\ SnapOk(m', e)

NbNoise(e) ==
    /\ UNCHANGED <<m, fe>>
    /\ SnapOk(m, e)
    /\ CASE e.args.n = 1 ->
              \* a send request outside Idle is refused; in Idle it is a real request (not generated)
              IF fe.nb = "idle" THEN TRUE ELSE Chk("nb response", "ErrState", e.resp.k)
         [] e.args.n = 0 ->
              \* a radio response other than the transmit completion while transmitting is reported, not fatal
              IF fe.nb = "waitrx" THEN Chk("nb response", "NoUpdate", e.resp.k)
              ELSE Chk("nb response", "ErrState", e.resp.k)
         [] OTHER ->
              IF fe.nb \in {"waitrx", "sending"} THEN Chk("nb response", "ErrRadio", e.resp.k)
              ELSE Chk("nb response", "ErrState", e.resp.k)

NbStateCode(s) == CASE s = "idle" -> 0 [] s = "sending" -> 1 [] s = "waitwin" -> 2 [] s = "waitrx" -> 3

EvNb(e) ==
    /\ CASE e.kind \in {"join", "send"} -> NbRequest(e)
         [] e.kind = "txdone" -> NbTxDone(e)
         [] e.kind = "timeout" -> NbTimeout(e)
         [] e.kind = "rx" -> NbRx(e)
         [] e.kind = "noise" -> NbNoise(e)
    /\ Chk("nb state machine state", NbStateCode(fe'.nb), e.st)

\* ---------------------------------------------------------------- async front-end
\* The procedure is replayed call by call.  s: [m, pc, i (next call), ms, resp, cnt, dls, ok, isJoin, rx1set]
RxcRf(mm) == Rx2Rf(mm)
Lead(x) == x

AResp(s, r) == [s EXCEPT !.pc = "end", !.resp = r]

\* expected final pending answers are compared at the end (the answers of at most one Class A frame)
RECURSIVE ARun(_, _, _)
ARun(s, calls, pendingObs) ==
    IF s.pc \in {"end", "rx2done"} \/ ~s.ok THEN s
    ELSE IF s.i > Len(calls) THEN [s EXCEPT !.ok = ChkT(<<"async: procedure stops early at", s.pc>>, FALSE)]
    ELSE
      LET c == calls[s.i]
          n == [s EXCEPT !.i = s.i + 1]
          bad(what) == [s EXCEPT !.ok = ChkT(<<"async call order: at", s.pc, "expected", what, "observed", c.c>>, FALSE)]
          \* C06: once the frame is on air its counter is consumed, also when the procedure aborts
          abortM == IF s.sent /\ ~s.isJoin THEN AfterAbort(s.m, s.m0.sess.up) ELSE s.m
          radioErr == AResp([n EXCEPT !.m = abortM], "ErrRadio")
          dur(w) == (IF w = 1 THEN Delay1(s.m0, s.isJoin) ELSE Delay2(s.m0, s.isJoin)) + s.ms - s.lead
          \* a received frame in a Class A window
          classA(b, maxlen, nextpc) ==
              LET h == HandleFrame(s.m, b, maxlen, TRUE, pendingObs)
                  \* an oversize frame may end the procedure as a timeout, or be ignored like any
                  \* rejected frame; which one happened shows in whether the procedure goes on
                  ends == nextpc = "wc2" \/ Len(calls) <= s.i + 1
              IN
              IF h.resp = "Oversize"
              THEN IF ends THEN [n EXCEPT !.m = h.m, !.pending = Rx2CompleteResp(s.m), !.pc = nextpc, !.ok = h.ok]
                   ELSE [n EXCEPT !.pc = nextpc]
              \* certification build, FPort 224 (what the handler does with each command):
              \* nothing to report: the frame is accepted (counters) but the procedure goes on as after a time-out
              ELSE IF h.cert.cid = -1 THEN [n EXCEPT !.m = h.m, !.pc = nextpc, !.ok = h.ok]
              \* LinkCheckReq: a LinkCheckReq MAC command is queued for the next uplink; the procedure ends as a time-out
              ELSE IF h.cert.cid = 32
                   THEN LET mq == [h.m EXCEPT !.sess.pending = IF Len(@) < 15 THEN Append(@, 2) ELSE @] IN
                        [n EXCEPT !.m = AfterRx2Complete(mq), !.pending = Rx2CompleteResp(mq), !.pc = nextpc, !.ok = h.ok]
              \* EchoPayloadReq / RxAppCntReq / DutVersionsReq: the answer is transmitted at once, on FPort 224
              ELSE IF h.cert.cid \in {8, 9, 127}
                   THEN [n EXCEPT !.m = h.m, !.pc = "certtx", !.certPl = CertAnswer(h.cert, h.cnt), !.certNext = nextpc, !.ok = h.ok]
              ELSE [n EXCEPT !.m = h.m, !.pending = IF h.resp = "NoUpdate" THEN "" ELSE h.resp, !.cnt = h.cnt,
                             !.dls = PushDl(s.dls, h.deliver), !.pc = nextpc, !.ok = h.ok]
          \* window_complete: class C re-arms RXC (with the parameters now in force), else low power
          wc(nextpc) ==
              IF s.classc
              THEN IF c.c # "setup_rx" THEN bad("setup_rx(RXC)")
                   ELSE IF c.out # "ok" THEN radioErr
                   ELSE [n EXCEPT !.pc = nextpc,
                                  !.ok = /\ Chk("C10 class C listens with RX2 parameters", RxcRf(s.m), RfObs(c.rf))
                                         /\ Chk("RXC mode", "continuous", c.mode)]
              ELSE IF c.c # "low_power" THEN bad("low_power")
                   ELSE IF c.out # "ok" THEN radioErr ELSE [n EXCEPT !.pc = nextpc]
          finish(nextpc) ==   \* after window_complete: return the response of the window, or go on
              IF s.pending = "" THEN nextpc
              ELSE "end"
      IN
      ARun(
        CASE s.pc = "tx" ->
               IF c.c # "tx" THEN bad("tx")
               ELSE LET okr == TxRadioOk(s.m, s.isJoin, c) IN
                    IF c.out # "done" THEN [radioErr EXCEPT !.ok = okr, !.txBytes = c.bytes]
                    ELSE [n EXCEPT !.pc = "treset", !.ms = c.ts, !.ok = okr, !.txBytes = c.bytes,
                                   !.rx1set = Rx1Set(s.m, s.isJoin, c), !.rx2 = Rx2Rf(s.m), !.sent = TRUE]
          [] s.pc = "treset" -> IF c.c # "timer_reset" THEN bad("timer_reset") ELSE [n EXCEPT !.pc = "bw1"]
          [] s.pc = "certtx" ->
               \* the certification answer: an ordinary unconfirmed uplink on FPort 224 with the next counter, on a
               \* legal channel / data rate / power, carrying the pending MAC answers; then the procedure ends as a time-out
               IF c.c # "tx" THEN bad("tx (certification answer)")
               ELSE LET mp == AfterSendPrepare(s.m, FALSE)
                        okr == TxRadioOk(mp, FALSE, c) /\ UplinkBytesOk(s.m, CertPort, s.certPl, FALSE, c.bytes) IN
                    IF c.out # "done" THEN [AResp([n EXCEPT !.m = mp], "ErrRadio") EXCEPT !.ok = okr]
                    ELSE [n EXCEPT !.m = AfterRx2Complete(mp), !.pending = Rx2CompleteResp(mp), !.pc = s.certNext, !.ok = okr]
          [] s.pc \in {"bw1", "bw2"} ->
               LET w == IF s.pc = "bw1" THEN 1 ELSE 2 IN
               IF s.classc
               THEN IF c.c # "setup_rx" THEN bad("setup_rx(RXC)")
                    ELSE IF c.out # "ok" THEN radioErr
                    ELSE [n EXCEPT !.pc = IF w = 1 THEN "rxc1" ELSE "rxc2",
                                   !.ok = /\ Chk("C10 class C listens with RX2 parameters", RxcRf(s.m), RfObs(c.rf))
                                          /\ Chk("RXC mode", "continuous", c.mode)]
               ELSE IF c.c # "low_power" THEN bad("low_power")
                    ELSE IF c.out # "ok" THEN radioErr ELSE [n EXCEPT !.pc = IF w = 1 THEN "at1" ELSE "at2"]
          [] s.pc \in {"rxc1", "rxc2"} ->
               LET w == IF s.pc = "rxc1" THEN 1 ELSE 2 IN
               IF c.c # "rx_cont" THEN bad("rx_cont")
               ELSE IF c.out = "frame"
                    THEN LET h == HandleFrame(s.m, c.bytes, RxcRf(s.m).maxlen, FALSE, pendingObs) IN
                         IF h.resp = "ErrMac" THEN AResp(n, "ErrMac")
                         ELSE IF h.resp = "Oversize" THEN n      \* not accepted: no effect (C07)
                         ELSE [n EXCEPT !.m = h.m, !.dls = PushDl(s.dls, h.deliver), !.ok = h.ok]
                    ELSE [n EXCEPT !.pc = IF w = 1 THEN "at1" ELSE "at2"]
          [] s.pc \in {"at1", "at2"} ->
               LET w == IF s.pc = "at1" THEN 1 ELSE 2 IN
               IF c.c # "at" THEN bad("at")
               ELSE [n EXCEPT !.pc = IF w = 1 THEN "rx1setup" ELSE "rx2setup",
                              !.ok = Chk(<<"C10 async window start time", w>>, dur(w), c.ms)]
          [] s.pc \in {"rx1setup", "rx2setup"} ->
               LET w == IF s.pc = "rx1setup" THEN 1 ELSE 2 IN
               IF c.c # "setup_rx" THEN bad("setup_rx")
               ELSE LET okw == /\ IF w = 1
                                  THEN ChkT(<<"C10 RX1 window", RfObs(c.rf), "allowed", s.rx1set>>, RfObs(c.rf) \in s.rx1set)
                                  ELSE Chk("C10 RX2 window", s.rx2, RfObs(c.rf))
                               /\ Chk("rx window mode", "single", c.mode)
                               /\ Chk("rx window buffer", s.buffer, c.ms)
                               /\ Chk("rx coding rate", 5, c.rf.cr)
                    IN IF c.out # "ok" THEN [radioErr EXCEPT !.ok = okw]
                       ELSE [n EXCEPT !.pc = IF w = 1 THEN "rx1listen" ELSE "rx2listen", !.ok = okw,
                                      !.winlen = c.rf.maxlen]
          [] s.pc \in {"rx1listen", "rx2listen"} ->
               LET w == IF s.pc = "rx1listen" THEN 1 ELSE 2
                   nextpc == IF w = 1 THEN "wc1" ELSE "wc2" IN
               IF c.c # "rx_single" THEN bad("rx_single")
               ELSE IF c.out = "err" THEN radioErr
               ELSE IF c.out = "timeout" THEN [n EXCEPT !.pc = nextpc]
               ELSE classA(c.bytes, s.winlen, nextpc)
          [] s.pc = "wc1" -> LET x == wc("bw2") IN IF x.pc = "bw2" THEN [x EXCEPT !.pc = finish("bw2")] ELSE x
          [] s.pc = "wc2" -> LET x == wc("rx2done") IN IF x.pc = "rx2done" THEN [x EXCEPT !.pc = finish("rx2done")] ELSE x
          [] OTHER -> bad("nothing"),
        calls, pendingObs)

\* final outcome of a finished async procedure
AFinal(s) ==
    IF s.resp # "" THEN s                                             \* radio / mac error
    ELSE IF s.pending # "" THEN [s EXCEPT !.resp = s.pending]
    ELSE [s EXCEPT !.resp = Rx2CompleteResp(s.m), !.m = AfterRx2Complete(s.m)]

EvAProc(e) ==
    LET a == e.args
        isJoin == a.kind = "join" IN
    IF ~isJoin /\ ~Joined(m) THEN
        /\ Chk("async response", "ErrMac", e.resp.k) /\ Chk("async no radio call", <<>>, e.calls)
        /\ UNCHANGED <<m, fe>> /\ SnapOk(m, e)
    ELSE
      LET devNonce == IF isJoin THEN (IF Len(e.draws.list) > 0 THEN e.draws.list[1][2] ELSE 0) ELSE -1
          m1 == IF isJoin THEN AfterJoinReq(m, devNonce, a.appkey) ELSE AfterSendPrepare(m, a.confirmed = 1)
          s0 == [m |-> m1, m0 |-> m1, pc |-> "tx", i |-> 1, ms |-> 0, resp |-> "", pending |-> "", cnt |-> <<>>,
                 dls |-> fe.dls, ok |-> TRUE, isJoin |-> isJoin, rx1set |-> {}, rx2 |-> fe.rx2, winlen |-> 0,
                 classc |-> fe.classc, lead |-> fe.lead, buffer |-> fe.buffer, sent |-> FALSE,
                 txBytes |-> <<>>, certPl |-> <<>>, certNext |-> ""]
          s1 == ARun(s0, e.calls, e.sess.pending)
          sF == AFinal(s1)
      IN
      IF StuckKnown(m1, isJoin, e) THEN
         /\ Known("join-undefined-datarate-panic", <<m.region, e.resp.k, m1.cfg.dr>>) /\ m' = m1 /\ UNCHANGED fe
      ELSE IF Refused(m, m1, isJoin, e) THEN
         /\ RefusedOk(m, m1, e, "async") /\ UNCHANGED <<m, fe>> /\ SnapOk(m, e)
      ELSE
         /\ s1.ok
         /\ ChkT(<<"async: all calls consumed", s1.i - 1, Len(e.calls)>>, s1.i - 1 = Len(e.calls))
         /\ ChkT(<<"async: procedure complete, stopped at", s1.pc>>, s1.pc \in {"end", "rx2done"})
         /\ IF isJoin THEN JoinBytesOk(a, devNonce, s1.txBytes)
            ELSE UplinkBytesOk(m, a.port, a.data, a.confirmed = 1, s1.txBytes)
         /\ Chk("async response", sF.resp, e.resp.k)
         /\ IF sF.resp = "DownlinkReceived" THEN Chk("C05 accepted counter", sF.cnt, e.resp.cnt) ELSE TRUE
         /\ PendingOk("C08 answers queued", sF.m, e)
         /\ m' = WithObsPending(sF.m, e)
         /\ fe' = [fe EXCEPT !.dls = sF.dls]
         /\ SnapOk(m', e)

\* rxc_listen outside a procedure: frames until one is accepted, then Pending (future dropped)
RECURSIVE RxcRun(_, _, _)
RxcRun(s, calls, i) ==
    IF i > Len(calls) \/ s.resp # "" THEN s
    ELSE LET c == calls[i] IN
         IF c.c # "rx_cont" THEN [s EXCEPT !.ok = ChkT(<<"rxc_listen call", c.c>>, FALSE)]
         ELSE IF c.out = "err" THEN [s EXCEPT !.resp = "ErrRadio"]
         ELSE IF c.out = "pending" THEN [s EXCEPT !.resp = "Pending"]
         ELSE LET h == HandleFrame(s.m, c.bytes, RxcRf(s.m).maxlen, FALSE, <<>>) IN
              IF h.resp = "Oversize" THEN RxcRun(s, calls, i + 1)      \* not accepted: no effect, keep listening
              \* (certification frame without an effective command: accepted, nothing reported, keeps listening)
              ELSE IF h.cert.cid = -1 THEN RxcRun([s EXCEPT !.m = h.m, !.ok = s.ok /\ h.ok], calls, i + 1)
              ELSE RxcRun([s EXCEPT !.m = h.m, !.dls = PushDl(s.dls, h.deliver), !.ok = s.ok /\ h.ok, !.cnt = h.cnt,
                                    !.resp = IF h.resp = "NoUpdate" THEN "" ELSE h.resp], calls, i + 1)

EvARxc(e) ==
    LET s == RxcRun([m |-> m, dls |-> fe.dls, ok |-> TRUE, resp |-> "", cnt |-> <<>>], e.calls, 1) IN
    /\ s.ok
    /\ Chk("rxc_listen response", IF s.resp = "" THEN "Pending" ELSE s.resp, e.resp.k)
    /\ IF s.resp = "DownlinkReceived" THEN Chk("C05 accepted counter", s.cnt, e.resp.cnt) ELSE TRUE
    /\ m' = s.m
    /\ fe' = [fe EXCEPT !.dls = s.dls]
    /\ SnapOk(m', e)

\* ---------------------------------------------------------------- dispatch
Match(e) ==
    CASE e.ev = "reset" -> EvReset(e)
      [] e.ev = "abp" -> EvAbp(e)
      [] e.ev = "set_dr" -> EvSetDr(e)
      [] e.ev = "set_adr" -> EvSetAdr(e)
      [] e.ev = "take_dl" -> EvTakeDl(e)
      [] e.ev = "serde" -> EvSerde(e)
      [] e.ev = "set_session" -> EvSetSession(e)
      [] e.ev = "nb" -> EvNb(e)
      [] e.ev = "a_proc" -> EvAProc(e)
      [] e.ev = "a_rxc" -> EvARxc(e)
      [] e.ev = "checkpoint" -> UNCHANGED <<m, fe>>
      \* a forked continuation: the harness re-created the device, re-executed the history prefix silently
      \* and now continues from that point with a different RNG draw
      [] e.ev = "restore" -> m' = ck[e.id][1] /\ fe' = ck[e.id][2] /\ SnapOk(m', e)
      \* the recorder's watchdog: a call into the device did not return and made no random draws (the draw budget
      \* turns a spinning channel selection into a Hang response; this is the same without draws)
      [] e.ev = "watchdog" -> ChkT(<<"C04 every call returns (watchdog)", e.resp.s>>, FALSE) /\ UNCHANGED <<m, fe>>
      [] OTHER -> Chk("unknown event", "", e.ev) /\ UNCHANGED <<m, fe>>

Init == l = 1 /\ ck = <<>> /\ m = InitMac("EU868", 14, 0)
        /\ fe = IdleFe([front |-> "nb", classc |-> 0, lead |-> 0, buffer |-> 0, offset |-> 0, duration |-> 0])
Next == /\ l <= Len(Rec) /\ Match(Rec[l]) /\ l' = l + 1
        /\ ck' = IF Rec[l].ev = "reset" THEN <<>>
                 ELSE IF Rec[l].ev = "checkpoint" THEN Append(ck, <<m, fe>>) ELSE ck
Spec == Init /\ [][Next]_vars

TraceAccepted ==
    IF TLCGet("stats").diameter = Len(Rec) + 1 THEN TRUE
    ELSE PrintT(<<"TRACE-REJECTED", "matched", TLCGet("stats").diameter - 1, "of", Len(Rec)>>) /\ FALSE
=============================================================================
