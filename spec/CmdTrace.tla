------------------------------ MODULE CmdTrace ------------------------------
(* Trace validation of the MAC-command iterators, payload views, creators,   *)
(* build_mac_commands, the frame parsers' totality and the identifier / key  *)
(* text forms of lorawan-encoding (lora-rs) against MacCmds.tla (C03, C19).  *)
(* Every event is one call (or one batch of independent calls) of the real   *)
(* API with its arguments and complete result; events are independent and    *)
(* mismatches are "soft": each deviating event is printed, validation goes   *)
(* on.  A panic or a non-terminating iteration is part of the result and     *)
(* no rule below accepts it.                                                 *)
(*                                                                           *)
(* Known findings: a deviation listed (by its signature) in the JSON file    *)
(* named by the environment variable KNOWN is accepted in exactly the form   *)
(* described at its definition below and reported as a <<"KNOWN", ...>> tuple.*)
EXTENDS MacCmds, Codec, Json, IOUtils, TLCExt

Rec == ndJsonDeserialize(IOEnv.TRACE)
Allowed == IF "KNOWN" \in DOMAIN IOEnv THEN JsonDeserialize(IOEnv.KNOWN) ELSE <<>>

VARIABLE l
vars == <<l>>

Chk(name, exp, obs) ==
    IF exp = obs THEN TRUE
    ELSE PrintT(<<"MISMATCH", l, name, "expected", exp, "observed", obs>>) /\ FALSE
Fail(name, detail) == PrintT(<<"MISMATCH", l, name, "expected", "-", "observed", detail>>) /\ FALSE
IsAllowed(sig) == \E i \in 1..Len(Allowed) : Allowed[i] = sig
Known(sig, detail) == PrintT(<<"KNOWN", l, sig, detail>>)
B2I(b) == IF b THEN 1 ELSE 0

\* ---- signatures of the known deviations this module can follow
SigSeconds  == "DeviceTimeAns.seconds-byte-order"            \* accessor reads the 4 octets big-endian
SigPush     == "McGroupStatusAnsCreator.push-unchecked"       \* group id >= 4 / fifth record not refused
SigNewLen   == "McGroupStatusAnsPayload.new-length"           \* new() keeps 5n octets instead of 1 + 5n
SigSign     == "FromStr-accepts-sign"                         \* "+" followed by 2n-1 digits is accepted
SigIdHeader == "McGroupSetupReqCreator.mc_group_id_header-unmasked"   \* id >= 4 written into the RFU bits
SigEcho     == "EchoIncPayloadAnsCreator.payload-overlong-panics"     \* more than 241 octets: panic

\* ======================================================================= C03: iterators
\* out = Items(set, in), or the other reading of the disputed McClass{C,B}SessionAns entry (MacCmds!ItemsAccepted)
ItemsVerdict(set, in, out) == IF ItemsAccepted(set, in, out) THEN "ok" ELSE "bad"
ItemsOk(tag, set, in, out) ==
    IF ItemsAccepted(set, in, out) THEN TRUE
    ELSE Chk(<<tag, set, in>>, Items(set, in), out)

NameOfItem(set, it) ==
    IF it[1] = 0 THEN "" ELSE IF LenTab(set)[it[2] + 1] = NoCmd THEN "?" ELSE CmdByCid(set, it[2]).name

ItemsEvOk(e) ==
    /\ Chk(<<"items panics", e.set, e.in>>, <<>>, e.panics)
    /\ Chk(<<"items terminates", e.set, e.in>>, 0, e.nonterm)
    \* the property's own statement about the yielded list (independent of the tables) ...
    /\ Chk(<<"items well-formed", e.set, e.in, e.out>>, TRUE, WellFormed(e.out, e.in))
    \* ... and the exact expected list
    /\ ItemsOk("items", e.set, e.in, e.out)
    /\ Chk(<<"items variant names", e.set, e.in>>, [k \in 1..Len(e.out) |-> NameOfItem(e.set, e.out[k])], e.names)
    /\ Chk(<<"items bytes are the input prefix", e.set, e.in>>, SubSeq(e.in, 1, SumLens(e.out, Len(e.out))), e.cat)

\* short strings, run-length encoded over the last octet; -1 stands for "the last octet"
DecodeLast(o, j) ==
    IF o = <<>> THEN o
    ELSE LET last == o[Len(o)] IN
         IF last[1] = 1 /\ last[2] = -1 THEN SubSeq(o, 1, Len(o) - 1) \o << <<1, j, last[3]>> >>
         ELSE IF last[1] = 0 /\ last[3] = -1 THEN SubSeq(o, 1, Len(o) - 1) \o << <<0, last[2], j>> >>
         ELSE o
RunOk(set, base, lo, hi, o) ==
    IF \A j \in lo..hi : ItemsAccepted(set, base \o <<j>>, DecodeLast(o, j)) THEN TRUE
    ELSE \A j \in lo..hi : Chk(<<"short string", set, base \o <<j>>>>, Items(set, base \o <<j>>), DecodeLast(o, j))
RowsOk(e, run(_, _, _, _)) ==
    \A r \in 1..Len(e.rows) :
        LET mid  == e.rows[r][1]
            runs == e.rows[r][2]
            base == IF mid < 0 THEN e.prefix ELSE e.prefix \o <<mid>> IN
        /\ Chk(<<"runs cover 0..255", e.prefix, mid>>, 0, runs[1][1])
        /\ \A k \in 1..Len(runs) :
              run(base, runs[k][1], IF k < Len(runs) THEN runs[k + 1][1] - 1 ELSE 255, runs[k][2])
ExhOk(e) ==
    /\ Chk(<<"short strings: panics", e.set, e.prefix, e.first_panic>>, 0, e.panics)
    /\ Chk(<<"short strings: terminates", e.set, e.prefix>>, 0, e.nonterm)
    /\ RowsOk(e, LAMBDA base, lo, hi, o : RunOk(e.set, base, lo, hi, o))

\* ======================================================================= C03: frame parsers
\* classification by lorawan::parser::parse: 0 error, 1 JoinRequest, 2 JoinAccept, 3 data frame
JoinRequestStructOk(b) == Len(b) = 23 /\ MajorOf(b[1]) = 0 /\ MTypeOf(b[1]) = 0
ParseCls(b) ==
    IF Len(b) = 0 THEN 0
    ELSE IF MajorOf(b[1]) # 0 THEN 0
    ELSE LET t == MTypeOf(b[1]) IN
         IF t = 0 THEN (IF Len(b) = 23 THEN 1 ELSE 0)
         ELSE IF t = 1 THEN (IF Len(b) \in {17, 33} THEN 2 ELSE 0)
         ELSE IF t \in 2..5 THEN (IF StructOk(b) THEN 3 ELSE 0)
         ELSE 0
FrameClasses(b) ==
    <<ParseCls(b), B2I(StructOk(b)), B2I(Len(b) > 0 /\ JoinRequestStructOk(b)), B2I(Len(b) > 0 /\ JoinAcceptStructOk(b))>>
FrameOk(e) ==
    /\ Chk(<<"frame panics", e.bytes>>, <<>>, e.panics)
    /\ Chk(<<"frame classes", e.bytes>>, FrameClasses(e.bytes), <<e.cls, e.data_ok, e.jr_ok, e.ja_ok>>)
FexhOk(e) ==
    /\ Chk(<<"short frames: panics", e.prefix, e.first_panic>>, 0, e.panics)
    /\ RowsOk(e, LAMBDA base, lo, hi, o :
                   \A j \in lo..hi : Chk(<<"short frame", base \o <<j>>>>, FrameClasses(base \o <<j>>), o))

\* ======================================================================= C03: payload constructors
\* XPayload::new(data): a value or an error; a value must be a view of exactly one whole payload at the
\* start of `data` (per the command's length rule) on which every accessor is callable.
\* Refusing data that is longer than a fixed-length payload is allowed (the library demands equality).
WholePayloadLen(c, in, fixedTTS) == PayloadLenAt(c.len, <<c.cid>> \o in, 1, fixedTTS)   \* -1: too short
\* n = length of the whole payload at the start of e.in (-1: none)
PayloadNewGood(e, c, n) ==
    /\ e.panics = <<>>
    /\ n < 0 => e.ok = 0
    /\ (n >= 0 /\ e.ok = 0) => Len(e.in) > n
    /\ (n >= 0 /\ e.ok = 1) => (e.bytes = SubSeq(e.in, 1, n) /\ e.plen = n)
PayloadNewReport(e, c, n) ==
    /\ Chk(<<"payload_new panics", e.set, e.name, e.in>>, <<>>, e.panics)
    /\ IF n < 0 THEN Chk(<<"payload_new refuses short data", e.set, e.name, e.in>>, 0, e.ok)
       ELSE IF e.ok = 0 THEN
            \* refusal of exactly one whole payload is a defect; of longer data it is the documented contract
            Chk(<<"payload_new accepts a whole payload", e.set, e.name, e.in>>, TRUE, Len(e.in) > n)
       ELSE /\ Chk(<<"payload_new view", e.set, e.name, e.in>>, SubSeq(e.in, 1, n), e.bytes)
            /\ Chk(<<"payload_new len()", e.set, e.name, e.in>>, n, e.plen)
\* as built: McGroupStatusAnsPayload::new demands and keeps 5n octets (the status octet is not counted), so
\* the view lacks its last octet, and for n = 0 it is empty and every accessor panics
NewLenDeviation(e) ==
    /\ e.name = "McGroupStatusAns" /\ Len(e.in) >= 1
    /\ LET m == 5 * PopCount4(e.in[1] % 16) IN
       /\ e.ok = B2I(Len(e.in) >= m)
       /\ e.ok = 1 => IF m = 0 THEN e.plen = -1 /\ e.panics # <<>> ELSE e.bytes = SubSeq(e.in, 1, m) /\ e.panics = <<>>
       /\ e.ok = 0 => e.panics = <<>>
PayloadNewOk(e) ==
    LET c == CmdByName(e.set, e.name)
        n == WholePayloadLen(c, e.in, FALSE) IN
    IF PayloadNewGood(e, c, n) THEN TRUE
    \* disputed entry: the unconditional reading of TimeToStart is accepted as well
    ELSE IF c.len = CondTTS /\ PayloadNewGood(e, c, WholePayloadLen(c, e.in, TRUE)) THEN TRUE
    ELSE IF IsAllowed(SigNewLen) /\ NewLenDeviation(e) THEN Known(SigNewLen, <<e.in, e.ok, e.bytes, Len(e.panics)>>)
    ELSE PayloadNewReport(e, c, n)

\* ======================================================================= C19: accessors
U24(f) == f.kind = "u" /\ f.w = 3
\* the value of a field in the form the recorder logs it (24-bit integers as their 3 wire octets)
Logged(f, p) == IF U24(f) THEN LEBytes(FieldGet(f, p), 3) ELSE FieldGet(f, p)

FieldOk(c, p, k, obs) ==
    IF ~HasField(c, k) THEN Fail(<<"accessor bound to a field the layout does not have", c.name, k>>, obs)
    ELSE LET f == FieldOf(c, k)
             exp == Logged(f, p) IN
         IF exp = obs THEN TRUE
         ELSE IF c.name = "DeviceTimeAns" /\ k = "Seconds" /\ IsAllowed(SigSeconds)
                 /\ obs = <<p[1] * 256 + p[2], p[3] * 256 + p[4]>>
              THEN Known(SigSeconds, <<p, obs>>)
         ELSE Chk(<<"field", c.name, k, p>>, exp, obs)

DerivedNames == {"ChEnabled", "MaxDutyCycleF32", "FrequencyHz", "FreqHz", "DrRangeOk", "MaxEirpDbm", "Nanos", "Ack",
                 "AdrEnable", "PeriodicitySec", "FrameTypeOverride", "McKey", "Groups"}
G(c, p, n) == FieldGet(FieldOf(c, n), p)
McBlock(tag, addr) == <<tag>> \o addr \o <<0, 0, 0, 0, 0, 0, 0, 0, 0, 0, 0>>
DerivedOk(c, p, k, obs) ==
    IF k \notin DerivedNames THEN Fail(<<"unknown derived value", c.name, k>>, obs)
    ELSE CASE k = "ChEnabled" -> Chk(<<"derived", c.name, k, p>>, ChEnabled(G(c, p, "ChMask")), obs)
           [] k = "MaxDutyCycleF32" -> Chk(<<"derived", c.name, k, p>>, DutyCycleF32(G(c, p, "MaxDCycle")), obs)
           [] k = "FrequencyHz" -> Chk(<<"derived", c.name, k, p>>, FreqHz(G(c, p, "Frequency")), obs)
           [] k = "FreqHz" -> Chk(<<"derived", c.name, k, p>>, FreqHz(G(c, p, "Freq")), obs)
           [] k = "DrRangeOk" -> Chk(<<"derived", c.name, k, p>>, B2I(G(c, p, "MaxDR") >= G(c, p, "MinDR")), obs)
           [] k = "MaxEirpDbm" -> Chk(<<"derived", c.name, k, p>>, MaxEirpDbm[G(c, p, "MaxEIRP") + 1], obs)
           [] k = "Nanos" -> Chk(<<"derived", c.name, k, p>>, NanosOfFrac(G(c, p, "FracSecond")), obs)
           \* RFU bits are to be ignored by a receiver; when they are not 0 either answer is accepted here
           [] k = "Ack" -> IF RfuZero(c, p) THEN Chk(<<"derived", c.name, k, p>>, B2I(AllAck(c, p)), obs) ELSE obs \in {0, 1}
           [] k = "AdrEnable" -> Chk(<<"derived", c.name, k, p>>, AdrOf(G(c, p, "ADR")), obs)
           [] k = "PeriodicitySec" -> Chk(<<"derived", c.name, k, p>>, PeriodicityOf(G(c, p, "Periodicity")), obs)
           [] k = "FrameTypeOverride" -> Chk(<<"derived", c.name, k, p>>, FrameTypeOf(G(c, p, "FrameType")), obs)
           [] k = "Groups" -> Chk(<<"derived", c.name, k, p>>, GroupRecords(p), obs)
           \* TS005: McKey = aes128_encrypt(McKEKey, McKey_encrypted);
           \*        McAppSKey = aes128_encrypt(McKey, 0x01 | McAddr | pad16), McNetSKey = ... 0x02 ...
           [] k = "McKey" ->
                LET key  == Encrypt(obs.kek, G(c, p, "McKeyEncrypted"))
                    addr == G(c, p, "McAddr") IN
                /\ Chk(<<"derived", c.name, "McKey", p>>, key, obs.key)
                /\ Chk(<<"derived", c.name, "McAppSKey", p>>, Encrypt(key, McBlock(1, addr)), obs.app)
                /\ Chk(<<"derived", c.name, "McNetSKey", p>>, Encrypt(key, McBlock(2, addr)), obs.net)
                /\ Chk(<<"derived", c.name, "session", p>>,
                       <<G(c, p, "McGroupID"), addr, Encrypt(key, McBlock(1, addr)), Encrypt(key, McBlock(2, addr)),
                         G(c, p, "minMcFCount"), G(c, p, "maxMcFCount")>>,
                       <<obs.sess_gid, obs.sess_addr, obs.sess_app, obs.sess_net, obs.sess_min, obs.sess_max>>)

ParseFieldsOk(e) ==
    /\ Chk(<<"parse panics", e.set, e.in>>, <<>>, e.panics)
    /\ ItemsOk("parse framing", e.set, e.in, e.out)
    /\ Chk(<<"parse found", e.set, e.in>>, B2I(e.out # <<>> /\ e.out[1][1] = 1), e.found)
    /\ IF e.found = 1 /\ e.out # <<>> /\ e.out[1][1] = 1 /\ LenTab(e.set)[e.out[1][2] + 1] # NoCmd
          /\ ItemsVerdict(e.set, e.in, e.out) # "bad"
       THEN LET c == CmdByCid(e.set, e.out[1][2])
                p == SubSeq(e.in, 2, e.out[1][3]) IN
            /\ Chk(<<"parse cid", e.set, e.in>>, c.cid, e.c.cid)
            /\ Chk(<<"parse variant", e.set, e.in>>, c.name, e.c.name)
            /\ Chk(<<"parse payload bytes", e.set, e.in>>, p, e.c.payload)
            /\ Chk(<<"parse len()", e.set, e.in>>, Len(p), e.c.plen)
            /\ \A k \in DOMAIN e.c.f : FieldOk(c, p, k, e.c.f[k])
            /\ \A k \in DOMAIN e.c.d : DerivedOk(c, p, k, e.c.d[k])
       ELSE TRUE

\* ======================================================================= C19: creators
\* One setter call [f, v, r]: r = 1 accepted, 0 refused, 2 panicked.  An argument the field can hold must be
\* accepted and must change exactly that field; any other argument must be refused (nothing changes) or be
\* truncated to the field (only that field changes).  A panic is never acceptable.
Good(p) == [ok |-> TRUE, p |-> p]
Bad(p, what, detail) == IF PrintT(<<"MISMATCH", l, what, "expected", "-", "observed", detail>>) THEN [ok |-> FALSE, p |-> p] ELSE [ok |-> FALSE, p |-> p]
Follow(sig, detail, p) == IF Known(sig, detail) THEN [ok |-> TRUE, p |-> p] ELSE [ok |-> TRUE, p |-> p]

ArgVal(f, v) == IF U24(f) THEN LEInt(v, 0, 3) ELSE v
BitSet(x, g) == (x \div Pow2(g)) % 2 = 1
OrBit(x, g) == IF BitSet(x, g) THEN x ELSE x + Pow2(g)

GenericStep(c, p, s, obsPayload) ==
    LET f == FieldOf(c, s.f)
        a == ArgVal(f, s.v) IN
    IF c.name = "McGroupSetupReq" /\ s.f = "McGroupID" /\ a >= 4 /\ s.r = 1 /\ IsAllowed(SigIdHeader)
       /\ Len(obsPayload) >= 1 /\ obsPayload[1] = a          \* (the built octet shows which of the two happened)
    THEN Follow(SigIdHeader, <<a>>, <<a>> \o Tail(p))          \* the whole McGroupIDHeader octet is overwritten
    ELSE IF s.r = 2 THEN Bad(p, <<"setter panicked", c.name, s.f>>, s.v)
    ELSE IF InRange(f, a) THEN
        (IF s.r = 1 THEN Good(FieldPut(f, p, a)) ELSE Bad(p, <<"admissible value refused", c.name, s.f>>, s.v))
    ELSE IF s.r = 0 THEN Good(p)
    ELSE Good(FieldPut(f, p, Trunc(f, a)))

NanosStep(c, p, s) ==
    LET f == FieldOf(c, "FracSecond")
        steps == FracStepsOfNanos(s.v) IN
    IF s.r = 2 THEN Bad(p, <<"setter panicked", c.name, s.f>>, s.v)
    ELSE IF NanosBelowOneSecond(s.v) THEN
        (IF s.r = 1 THEN Good(FieldPut(f, p, steps)) ELSE Bad(p, <<"admissible value refused", c.name, s.f>>, s.v))
    ELSE IF s.r = 0 THEN Good(p)
    ELSE Good(FieldPut(f, p, steps % 256))

EchoStep(c, p, s) ==
    IF Len(s.v) <= EchoMax THEN
        (IF s.r = 1 THEN Good(EchoInc(s.v)) ELSE Bad(p, <<"admissible echo payload not accepted", c.name, s.r>>, Len(s.v)))
    ELSE IF s.r = 0 THEN Good(p)
    ELSE IF s.r = 1 THEN Good(EchoInc(SubSeq(s.v, 1, EchoMax)))
    ELSE IF IsAllowed(SigEcho) THEN Follow(SigEcho, <<Len(s.v)>>, p)
    ELSE Bad(p, <<"setter panicked", c.name, s.f>>, Len(s.v))

ReqGroupStep(c, p, s) ==
    LET f == FieldOf(c, "ReqGroupMask")
        cur == FieldGet(f, p) IN
    IF s.r = 2 THEN Bad(p, <<"setter panicked", c.name, s.f>>, s.v)
    ELSE IF s.v \in 0..(MaxGroups - 1) THEN
        (IF s.r = 1 THEN Good(FieldPut(f, p, OrBit(cur, s.v))) ELSE Bad(p, <<"admissible value refused", c.name, s.f>>, s.v))
    ELSE IF s.r = 0 THEN Good(p)
    ELSE Good(FieldPut(f, p, OrBit(cur, s.v % MaxGroups)))

\* the encrypted key cannot be computed here (no inverse cipher in Aes.tla): the field is taken from the
\* observed bytes and must encrypt to the key that was set (TS005: McKey = aes128_encrypt(McKEKey, McKey_encrypted))
McKeyStep(c, p, s, obsPayload) ==
    LET f == FieldOf(c, "McKeyEncrypted") IN
    IF s.r # 1 THEN Bad(p, <<"McKey setter failed", c.name, s.r>>, s.r)
    ELSE IF Len(obsPayload) # c.len THEN Good(p)
    ELSE LET enc == FieldGet(f, obsPayload) IN
         IF Encrypt(s.v.kek, enc) = s.v.key THEN Good(FieldPut(f, p, enc))
         ELSE Bad(p, <<"McKey_encrypted does not decrypt to the key", c.name>>, enc)

\* p = <<status>> \o group records
PushStep(c, p, s) ==
    LET g      == s.v.g
        nrec   == (Len(p) - 1) \div 5
        mask   == p[1] % 16
        fresh  == g \in 0..(MaxGroups - 1) /\ ~BitSet(mask, g)
        add(x) == <<OrBit(p[1], x)>> \o Tail(p) \o <<x>> \o s.v.addr IN
    IF fresh /\ nrec < MaxGroups THEN
        (IF s.r = 1 THEN Good(add(g)) ELSE Bad(p, <<"admissible group record not accepted", c.name, s.r>>, s.v))
    ELSE IF g \in 0..(MaxGroups - 1) /\ nrec < MaxGroups THEN
        \* the same group twice: not an out-of-range value; only a panic is ruled out
        (IF s.r = 2 THEN Bad(p, <<"setter panicked", c.name, s.f>>, s.v)
         ELSE IF s.r = 0 THEN Good(p) ELSE Good(<<p[1]>> \o Tail(p) \o <<g>> \o s.v.addr))
    ELSE IF s.r = 0 THEN Good(p)
    ELSE IF s.r = 1 /\ nrec < MaxGroups /\ ~BitSet(mask, g % MaxGroups) /\ ~IsAllowed(SigPush)
         THEN Good(add(g % MaxGroups))                              \* accepted: truncated to the 2-bit id
    ELSE IF IsAllowed(SigPush) THEN
        \* as built: 1 << g is or-ed into the status octet before any check (shift overflow for g >= 8),
        \* the record is stored with the raw id; a fifth record runs past the buffer after the status was changed
        (IF g >= 8 /\ s.r = 2 THEN Follow(SigPush, <<"shift overflow", g>>, p)
         ELSE IF g < 8 /\ nrec >= MaxGroups /\ s.r = 2 THEN Follow(SigPush, <<"fifth record", g>>, <<OrBit(p[1], g)>> \o Tail(p))
         ELSE IF g < 8 /\ nrec < MaxGroups /\ s.r = 1 THEN Follow(SigPush, <<"status bit outside the mask", g>>, add(g))
         ELSE Bad(p, <<"out-of-range group record", c.name, s.r>>, s.v))
    ELSE Bad(p, <<"out-of-range group record neither refused nor truncated", c.name, s.r>>, s.v)

Step(c, p, s, obsPayload) ==
    CASE s.f = "Nanos" -> NanosStep(c, p, s)
      [] s.f = "EchoOf" -> EchoStep(c, p, s)
      [] s.f = "ReqGroup" -> ReqGroupStep(c, p, s)
      [] s.f = "McKey" -> McKeyStep(c, p, s, obsPayload)
      [] s.f = "Push" -> PushStep(c, p, s)
      [] OTHER -> IF HasField(c, s.f) THEN GenericStep(c, p, s, obsPayload)
                  ELSE Bad(p, <<"setter bound to a field the layout does not have", c.name, s.f>>, s.f)

RECURSIVE Fold(_, _, _, _, _)
Fold(c, sets, k, st, obsPayload) ==
    IF k > Len(sets) \/ ~st.ok THEN st
    ELSE Fold(c, sets, k + 1, Step(c, st.p, sets[k], obsPayload), obsPayload)

\* the state of a new creator: all-zero payload (a CondTTS answer without error bits carries TimeToStart),
\* McGroupStatusAns: the status octet, no record; EchoPayloadAns: no payload yet
InitialPayload(c) == IF c.len >= 0 THEN Zeros(c.len) ELSE IF c.len = GroupMask THEN <<0>>
                     ELSE IF c.len = CondTTS THEN <<0, 0, 0, 0>> ELSE <<>>
Built(c, sets, obsPayload) == Fold(c, sets, 1, Good(InitialPayload(c)), obsPayload)
NPanicked(sets) == Cardinality({k \in 1..Len(sets) : sets[k].r = 2})

BuildOk(e) ==
    IF ~HasName(e.set, e.name) THEN Fail(<<"creator of a command the set does not have", e.set, e.name>>, e.name)
    ELSE
    LET c == CmdByName(e.set, e.name)
        st == Built(c, e.sets, IF Len(e.bytes) > 0 THEN Tail(e.bytes) ELSE <<>>) IN
    /\ st.ok
    /\ Chk(<<"build bytes", e.set, e.name, e.sets>>, <<c.cid>> \o st.p, e.bytes)
    /\ Chk(<<"build len()", e.set, e.name>>, Len(e.bytes), e.clen)
    /\ Chk(<<"build SerializableMacCommand view", e.set, e.name>>, <<e.bytes, Len(e.bytes) - 1>>, <<e.tbytes, e.tlen>>)
    /\ Chk(<<"build panics", e.set, e.name, e.panics>>, NPanicked(e.sets), Len(e.panics))

\* ---- build_mac_commands(cmds, buffer): Ok(total) with the concatenation written iff it fits
RECURSIVE StreamFold(_, _, _, _, _)
\* acc = [ok, bytes]; the observed stream (when written) provides the segment each McKey is checked on
StreamFold(e, k, acc, pos, written) ==
    IF k > Len(e.cmds) \/ ~acc.ok THEN acc
    ELSE LET c  == CmdByName(e.set, e.cmds[k].name)
             probe == Built(c, e.cmds[k].sets, <<>>)           \* length does not depend on the key octets
             n  == 1 + Len(probe.p)
             seg == IF written /\ pos + n <= Len(e.bytes) THEN SubSeq(e.bytes, pos + 2, pos + n) ELSE <<>>
             st == Built(c, e.cmds[k].sets, seg) IN
         StreamFold(e, k + 1, [ok |-> st.ok, bytes |-> acc.bytes \o <<c.cid>> \o st.p, lens |-> Append(acc.lens, n)],
                    pos + n, written)
StreamOk(e) ==
    LET r == StreamFold(e, 1, [ok |-> TRUE, bytes |-> <<>>, lens |-> <<>>], 0, e.ok = 1)
        exp == r.bytes
        \* a stream parses back to the same sequence when every command but the last delimits itself
        \* (the "rest of the frame" commands of TS009 are one-per-frame by design) and the last is not empty
        rule(k) == CmdByName(e.set, e.cmds[k].name).len
        delimited == /\ \A k \in 1..(Len(e.cmds) - 1) : rule(k) # RestMin1
                     /\ Len(e.cmds) > 0 => (rule(Len(e.cmds)) = RestMin1 => r.lens[Len(e.cmds)] >= 2) IN
    /\ r.ok
    /\ Chk(<<"stream panics", e.set>>, <<>>, e.panics)
    /\ Chk(<<"mac_commands_len", e.set, e.cmds>>, Len(exp), e.total)
    /\ Chk(<<"build_mac_commands accepted iff it fits", e.set, Len(exp), e.buflen>>, B2I(Len(exp) <= e.buflen), e.ok)
    /\ IF e.ok = 1 /\ Len(exp) <= e.buflen THEN
          /\ Chk(<<"stream length", e.set>>, Len(exp), e.n)
          /\ Chk(<<"stream bytes", e.set, e.cmds>>, exp, e.bytes)
          /\ Chk(<<"stream leaves the rest of the buffer untouched", e.set>>,
                 exp \o [i \in 1..(e.buflen - Len(exp)) |-> 165], e.after)
          \* parsing the built stream gives back the same sequence of whole commands
          /\ ItemsOk("stream parses back", e.set, e.bytes, e.out)
          /\ IF delimited
             THEN Chk(<<"stream parses back to the same commands", e.set>>, [k \in 1..Len(e.cmds) |-> e.cmds[k].name], e.names)
             ELSE TRUE
       ELSE IF e.ok = 0 THEN Chk(<<"refused stream leaves the buffer untouched", e.set>>, [i \in 1..e.buflen |-> 165], e.after)
       ELSE TRUE

\* ======================================================================= C19: text forms
TextOk(e) ==
    /\ Chk(<<"text panics", e.type>>, <<>>, e.panics)
    /\ \A i \in 1..Len(e.wires) :
          /\ Chk(<<"Display", e.type, e.wires[i]>>, DisplayOf(e.type, e.wires[i]), e.disps[i])
          /\ Chk(<<"FromStr(Display)", e.type, e.wires[i]>>, <<1, e.wires[i]>>, <<e.backok[i], e.backs[i]>>)

SignedForm(t, s) ==      \* "+" and 2n-1 hexadecimal digits, for the integer-backed identifier types
    /\ TextTypes[t].order = "lsb" /\ t \notin {"KeysDevEui", "KeysAppEui"}
    /\ Len(s) = 2 * TextTypes[t].n /\ s[1] = 43 /\ \A i \in 2..Len(s) : IsHexChar(s[i])
FromStrOk(e) ==
    /\ Chk(<<"fromstr panics", e.type>>, <<>>, e.panics)
    /\ \A i \in 1..Len(e.strs) :
          LET s == e.strs[i] IN
          IF TextValid(e.type, s) THEN Chk(<<"FromStr", e.type, s>>, <<1, FromStrOf(e.type, s)>>, <<e.oks[i], e.wires[i]>>)
          ELSE IF e.oks[i] = 0 THEN TRUE
          ELSE IF IsAllowed(SigSign) /\ SignedForm(e.type, s) /\ e.oks[i] = 1
                  /\ e.wires[i] = FromStrOf(e.type, <<48>> \o Tail(s))
               THEN Known(SigSign, <<e.type, s>>)
          ELSE Chk(<<"FromStr refuses a malformed string", e.type, s>>, 0, e.oks[i])

\* =======================================================================
Match(e) ==
    CASE e.ev = "items" -> ItemsEvOk(e)
      [] e.ev = "exh" -> ExhOk(e)
      [] e.ev = "fexh" -> FexhOk(e)
      [] e.ev = "frame" -> FrameOk(e)
      [] e.ev = "payload_new" -> PayloadNewOk(e)
      [] e.ev = "parse_fields" -> ParseFieldsOk(e)
      [] e.ev = "build" -> BuildOk(e)
      [] e.ev = "stream" -> StreamOk(e)
      [] e.ev = "text" -> TextOk(e)
      [] e.ev = "fromstr" -> FromStrOk(e)
      [] OTHER -> Fail("unknown event", e.ev)

Init == l = 1
\* independent observations: report every mismatch, keep going
Next == l <= Len(Rec) /\ IF Match(Rec[l]) THEN l' = l + 1 ELSE l' = l + 1
Spec == Init /\ [][Next]_vars

TraceAccepted ==
    IF TLCGet("stats").diameter = Len(Rec) + 1 THEN TRUE
    ELSE PrintT(<<"TRACE-REJECTED", "matched", TLCGet("stats").diameter - 1, "of", Len(Rec)>>) /\ FALSE
=============================================================================
