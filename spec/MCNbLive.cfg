SPECIFICATION LiveSpec
CONSTANTS
  WireMod = 4
  MaxGap = 2
  HiMax = 1
  AdrLimit = 2
  AdrDelay = 1
  StartUps <- StartUpsDef
  PrintEdges = FALSE
  MaxLen = 6
VIEW NView
PROPERTY ProcedureReturns
CONSTRAINT Short
CHECK_DEADLOCK FALSE
