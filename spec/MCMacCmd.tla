------------------------------ MODULE MCMacCmd ------------------------------
(* C08 / C04 at the design level: every sequence of up to MaxDown accepted     *)
(* Class A downlinks, each carrying up to two MAC-command requests from an     *)
(* alphabet that includes reserved and out-of-range field values, interleaved  *)
(* with uplinks, on the real EU868 / US915 tables.  The device answers with    *)
(* the specification's own (natural) status bits.                              *)
EXTENDS Mac, TLC

CONSTANTS Region, MaxDown

VARIABLES m,        \* MAC state
          nDown,    \* accepted downlinks so far
          owed,     \* ghost: sticky answer CIDs owed since the last accepted Class A downlink
          lastReqs, lastSts, pre   \* ghost: the last downlink, its statuses, the state before it
mcvars == <<m, nDown, owed, lastReqs, lastSts, pre>>

Key == <<1, 1, 1, 1, 1, 1, 1, 1, 1, 1, 1, 1, 1, 1, 1, 1>>
M0 == AfterAbp(InitMac(Region, 14, 0), Key, Key, <<1, 2, 3, 4>>)

AdrCmd(dr, pw, cntl, mask) == [dr |-> dr, pw |-> pw, chmask |-> mask, cntl |-> cntl, nbtrans |-> 1]
Fixed == IsFixed(Region)
InBand == IF Fixed THEN 923300000 ELSE IF Region = "EU868" THEN 867100000 ELSE 865200000
OutBand == 100

AdrAlphabet ==
    {[kind |-> "adr", cmds |-> <<AdrCmd(d, p, c, k)>>] :
        d \in {5, 7, 15}, p \in {15, 14}, c \in {0, 6, 3}, k \in {<<7, 0>>, <<0, 0>>, <<8, 0>>}}
    \cup {[kind |-> "adr", cmds |-> <<AdrCmd(15, 15, c1, <<0, 0>>), AdrCmd(d, 15, c2, <<8, 0>>)>>] :
             c1 \in {0, 3}, c2 \in {0, 6}, d \in {5, 15}}
OtherAlphabet ==
    {[kind |-> "rxparam", off |-> o, dr |-> d, freq |-> f] : o \in {5, 6}, d \in {0, 7}, f \in {InBand, OutBand}}
    \cup {[kind |-> "timing", del |-> d] : d \in {0, 5}}
    \cup {[kind |-> "devstatus"]}
    \cup (IF Fixed THEN {} ELSE
          {[kind |-> "newch", idx |-> i, freq |-> f, dmin |-> r[1], dmax |-> r[2]] :
               i \in {0, 3, 16}, f \in {0, InBand, 900000000}, r \in {<<0, 5>>, <<0, 7>>}}
          \cup {[kind |-> "dlch", idx |-> i, freq |-> f] : i \in {0, 3, 16}, f \in {InBand + 200000, OutBand}})
Alphabet == AdrAlphabet \cup OtherAlphabet
\* LinkADRReq requests combined with another request in one downlink
PairAdr == {[kind |-> "adr", cmds |-> <<AdrCmd(5, 15, c, k)>>] : c \in {0, 3}, k \in {<<8, 0>>, <<0, 0>>}}

NextDown == IF m.sess.down = <<>> THEN <<0, 0>> ELSE CntInc(m.sess.down)
StickyOf(reqs) == {c \in {5, 8, 10} : \E i \in 1..Len(reqs) : c \in {AnswerCids(Region, reqs[i])[j] : j \in 1..Len(AnswerCids(Region, reqs[i]))}}

Init == m = M0 /\ nDown = 0 /\ owed = {} /\ lastReqs = <<>> /\ lastSts = <<>> /\ pre = M0

\* an accepted Class A downlink with requests reqs (as the last event of an uplink's receive procedure)
Downlink(reqs) ==
    LET m1 == AfterSendPrepare(m, FALSE)
        base == [m1 EXCEPT !.sess.down = NextDown, !.sess.adrCnt = AdrZero, !.sess.pending = <<>>]
        sts == NaturalStatuses(base, reqs)
        v == [n |-> NextDown, confirmed |-> FALSE, fopts |-> <<>>, port |-> -1, payload |-> <<>>, classA |-> TRUE]
        m2 == FoldRequests(base, reqs, sts)
        q == Queue(<<>>, AnswersFor(Region, reqs, sts, 0), 0)
    IN /\ nDown < MaxDown /\ ~SessionExpired(m)
       /\ m' = [m2 EXCEPT !.sess.pending = q.pending, !.sess.up = CntInc(m.sess.up)]
       /\ nDown' = nDown + 1
       /\ owed' = StickyOf(reqs)
       /\ lastReqs' = reqs /\ lastSts' = sts /\ pre' = base

\* an uplink without an answer: answers go out, sticky ones stay
Uplink ==
    /\ ~SessionExpired(m)
    /\ m' = AfterRx2Complete(AfterSendPrepare(m, FALSE))
    /\ UNCHANGED <<nDown, owed, lastReqs, lastSts, pre>>

Next == (\E a \in Alphabet : Downlink(<<a>>))
        \/ (\E a \in PairAdr, b \in OtherAlphabet : Downlink(<<a, b>>) \/ Downlink(<<b, a>>))
        \/ Uplink
Spec == Init /\ [][Next]_mcvars

\* at most MaxDown downlinks and a few uplinks between them
Bound == m.sess.up[1] = 0 /\ m.sess.up[2] <= MaxDown + 2

\* --- properties
\* requests on the closed invalid list are never answered with full acceptance
InvalidNeverFullyAcked ==
    \A i \in 1..Len(lastReqs) :
        LET mi == FoldRequests(pre, SubSeq(lastReqs, 1, i - 1), SubSeq(lastSts, 1, i - 1))
        IN Invalid(mi, lastReqs[i]) => lastSts[i] # FullAck(lastReqs[i])
\* a rejected request changed nothing; an accepted one changed exactly what Effect prescribes
RejectedChangedNothing ==
    \A i \in 1..Len(lastReqs) :
        LET mi == FoldRequests(pre, SubSeq(lastReqs, 1, i - 1), SubSeq(lastSts, 1, i - 1))
            mj == FoldRequests(pre, SubSeq(lastReqs, 1, i), SubSeq(lastSts, 1, i))
        IN ~Accepted(lastReqs[i], lastSts[i]) => mj = mi
\* an accepted LinkADRReq block leaves a plan on which the commanded data rate can be transmitted
AcceptedAdrIsTransmittable ==
    \A i \in 1..Len(lastReqs) :
        LET mj == FoldRequests(pre, SubSeq(lastReqs, 1, i), SubSeq(lastSts, 1, i))
        IN lastReqs[i].kind = "adr" /\ lastSts[i] = 7 => CanTransmitData(Region, mj.plan, mj.cfg.dr)
\* pending answers: whole commands, at most 15 bytes, sticky ones present until the next accepted downlink
PendingWellFormed ==
    /\ Len(m.sess.pending) <= 15
    /\ \A i \in 1..Len(ParseUp(m.sess.pending)) : ParseUp(m.sess.pending)[i][1] # -1
StickyUntilNextDownlink ==
    \A c \in owed : \E i \in 1..Len(ParseUp(m.sess.pending)) : ParseUp(m.sess.pending)[i][1] = c
\* the default (join) channels are read-only
JoinChannelsReadOnly ==
    Fixed \/ \A i \in 1..NumJoinChannels(Region) : m.plan.chan[i][1] = JoinFreqs(Region)[i]
\* negotiated parameters stay within the regional limits
ParamsLegal ==
    /\ DrDefined(Region, m.cfg.dr) /\ UplinkDr(Region, m.cfg.dr)
    /\ m.cfg.rx1off <= MaxRx1Offset(Region)
    /\ (m.cfg.rx2dr = None \/ DrDefined(Region, m.cfg.rx2dr))
    /\ (m.cfg.rx2f = None \/ FreqValid(Region, m.cfg.rx2f))
    /\ m.cfg.rx1delay \in {1000 * d : d \in 1..15}
\* C04 / C09 (open finding S3): the device can always transmit.  EXPECTED TO BE VIOLATED in the dynamic plans:
\* NewChannelReq(freq 0) on the last enabled channel; checked only by MCStuck.cfg to produce the witness.
CanAlwaysTransmit == CanTransmitData(Region, m.plan, m.cfg.dr)
=============================================================================
