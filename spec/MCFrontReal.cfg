SPECIFICATION Spec
CONSTANTS
  WireMod = 65536
  MaxGap = 16384
  HiMax = 65535
  AdrLimit = 64
  AdrDelay = 32
  StartUps <- StartUpsReal
  ClassC = TRUE
INVARIANTS CountersStrictlyIncrease IdleMeansConsumed
PROPERTY NeverWraps
CONSTRAINT BoundReal
CHECK_DEADLOCK FALSE
