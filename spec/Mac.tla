-------------------------------- MODULE Mac --------------------------------
(* The LoRaWAN 1.0.x Class A/C end-device MAC as lora-rs structures it:     *)
(* one operator per entry point the device front-ends call                  *)
(* (join request, send, received frame, end of RX2, JoinAccept, setters).   *)
(* The operators are pure functions on a state record `m`, so that the same *)
(* definitions serve (a) the model-checking modules, which wrap them in      *)
(* actions over small constants, and (b) the trace specifications, which    *)
(* hold every observed call of the implementation to them.                  *)
(*                                                                          *)
(* This module states the INTENDED behaviour (DESIGN Appendix B).           *)
(* Frames are handled one layer up (MacFrames.tla) - here a downlink is     *)
(* already a verdict: rejected / oversize / accepted(N, confirmed, FOpts,   *)
(* port, plaintext).                                                        *)
EXTENDS Regions

CONSTANTS WireMod,      \* size of the on-air counter space (65536; small in model checking)
          MaxGap,       \* MAX_FCNT_GAP (16384)
          HiMax,        \* highest value of the counter's high half (65535)
          AdrLimit,     \* ADR_ACK_LIMIT (64)
          AdrDelay      \* ADR_ACK_DELAY (32)

\* ------------------------------------------------------------------ 32-bit counters <<hi, lo>>
CntMax == <<HiMax, WireMod - 1>>
CntZero == <<0, 0>>
CntInc(c) == IF c[2] = WireMod - 1 THEN <<c[1] + 1, 0>> ELSE <<c[1], c[2] + 1>>
CntLt(a, b) == a[1] < b[1] \/ (a[1] = b[1] /\ a[2] < b[2])
\* ADR_ACK_CNT: an unsigned 32-bit value as <<hi16, lo16>> (a persisted session may carry any value), incremented
\* with saturation; AdrLimit + AdrDelay < 65536
AdrZero == <<0, 0>>
AdrInc(c) == IF c = <<65535, 65535>> THEN c ELSE IF c[2] = 65535 THEN <<c[1] + 1, 0>> ELSE <<c[1], c[2] + 1>>
AdrGe(c, n) == c[1] > 0 \/ c[2] >= n
AdrVal(c) == c[1] * 65536 + c[2]           \* only where the value is known to be small (model checking)
\* (c - AdrLimit) % AdrDelay = 0, evaluated without leaving the 32-bit integers
AdrOnStep(c) == ((c[1] % AdrDelay) * (65536 % AdrDelay) + c[2] + AdrDelay - (AdrLimit % AdrDelay)) % AdrDelay = 0

\* The unique counter N with N == wire (mod WireMod) and last < N <= last + MaxGap (N <= CntMax),
\* or <<>> when there is none.  Before the first downlink of a session any wire value is taken
\* at face value.  (MaxGap < WireMod makes N unique.)
\* The text of the operator lives in FcntCore.tla so that Apalache (FcntApa.tla) checks the very same definition
\* with the real constants for all inputs.
FC == INSTANCE FcntCore
NextFcnt(last, wire) == FC!Reconstruct(WireMod, MaxGap, HiMax, last, wire)

\* ------------------------------------------------------------------ channel masks (9 bytes, 72 bits)
Pow2(n) == 2 ^ n
MaskBit(mask, ch) == (mask[(ch \div 8) + 1] \div Pow2(ch % 8)) % 2 = 1
SetBank(mask, i, v) == [mask EXCEPT ![i + 1] = v]
SetBit(mask, ch, on) ==
    LET b == mask[(ch \div 8) + 1]
        has == (b \div Pow2(ch % 8)) % 2 = 1
    IN IF on = has THEN mask
       ELSE [mask EXCEPT ![(ch \div 8) + 1] = IF on THEN b + Pow2(ch % 8) ELSE b - Pow2(ch % 8)]
AllOnes9 == <<255, 255, 255, 255, 255, 255, 255, 255, 255>>
BankOf(bit) == IF bit THEN 255 ELSE 0
BitOf(byte, i) == (byte \div Pow2(i)) % 2 = 1

\* ------------------------------------------------------------------ channel plans
\* dynamic plan: chan[i+1] = <<>> (undefined) or <<ul, dl, drmin, drmax>> (dl = None: same as ul)
NoChan == <<>>
ChanDefined(plan, i) == plan.chan[i + 1] # NoChan
ChanUl(plan, i) == plan.chan[i + 1][1]
ChanDl(plan, i) == IF plan.chan[i + 1][2] = None THEN plan.chan[i + 1][1] ELSE plan.chan[i + 1][2]
UsableDyn(plan) == {i \in 0..15 : ChanDefined(plan, i) /\ MaskBit(plan.mask, i)}
\* fixed plan: channels of the bandwidth class of data rate d that are enabled
UsableFixed(r, mask, d) ==
    IF ~DrDefined(r, d) THEN {}
    ELSE {c \in 0..71 : MaskBit(mask, c) /\ FixedChannelBw(c) = (IF DrBw(r, d) = 500000 THEN 500000 ELSE 125000)}

InitPlan(r) ==
    IF IsFixed(r) THEN [chan |-> [i \in 1..16 |-> NoChan], mask |-> AllOnes9]
    ELSE [chan |-> [i \in 1..16 |-> IF i <= NumJoinChannels(r)
                                    THEN <<JoinFreqs(r)[i], None, IF IsAS923(r) THEN 2 ELSE 0, 5>> ELSE NoChan],
          mask |-> AllOnes9]

\* a data transmission is possible from this plan at data rate d
CanTransmitData(r, plan, d) ==
    IF IsFixed(r) THEN UsableFixed(r, plan.mask, d) # {} ELSE DrDefined(r, d) /\ UsableDyn(plan) # {}

\* ------------------------------------------------------------------ state
InitCfg(r) == [dr |-> DefaultDr(r), txp |-> None, rx1off |-> 0, rx2dr |-> None, rx2f |-> None,
               rx1delay |-> 1000, adr |-> TRUE]
NoKey == <<>>
EmptySess == [nwk |-> NoKey, app |-> NoKey, addr |-> <<0, 0, 0, 0>>, up |-> CntZero, down |-> <<>>,
              adrCnt |-> AdrZero, pending |-> <<>>, ackOwed |-> FALSE, confirmed |-> FALSE]
NewSess(nwk, app, addr) == [EmptySess EXCEPT !.nwk = nwk, !.app = app, !.addr = addr]

InitMac(r, maxpw, gain) ==
    [region |-> r, act |-> "unjoined", devNonce |-> None, appKey |-> NoKey,
     sess |-> EmptySess, cfg |-> InitCfg(r), plan |-> InitPlan(r), maxpw |-> maxpw, gain |-> gain,
     \* optional build: certification-protocol handler compiled in; frame type override it can set
     \* (-1 none, 0 all uplinks unconfirmed, 1 all uplinks confirmed)
     cert |-> FALSE, ovr |-> -1,
     \* fixed plans, join bias (a preferred sub-band sb for the first `max` join attempts, 0: none): n counts the
     \* attempts and the data uplinks sent under the bias since the last channel mask was received; `was`: the
     \* uplink being prepared may go out under the bias
     jw |-> [sb |-> 0, max |-> 0, n |-> 0, was |-> FALSE]]

Joined(m) == m.act = "joined"

\* ------------------------------------------------------------------ MAC commands (downlink set)
\* length of the payload of a downlink command, None for an unknown CID
DownLen(cid) ==
    CASE cid = 2 -> 2 [] cid = 3 -> 4 [] cid = 4 -> 1 [] cid = 5 -> 4 [] cid = 6 -> 0 [] cid = 7 -> 5
      [] cid = 8 -> 1 [] cid = 9 -> 1 [] cid = 10 -> 4 [] cid = 13 -> 5 [] OTHER -> None
\* payload length of the answers the device produces
AnsLen(cid) == CASE cid = 3 -> 1 [] cid = 5 -> 1 [] cid = 6 -> 2 [] cid = 7 -> 1 [] cid = 8 -> 0 [] cid = 10 -> 1
StickyCid(cid) == cid \in {5, 8, 10}

\* the leading well-formed prefix of a command stream as a sequence of <<cid, payload>>
RECURSIVE ParseDown(_)
ParseDown(s) ==
    IF Len(s) = 0 THEN <<>>
    ELSE IF DownLen(s[1]) = None \/ Len(s) < 1 + DownLen(s[1]) THEN <<>>
    ELSE <<<<s[1], SubSeq(s, 2, 1 + DownLen(s[1]))>>>> \o ParseDown(SubSeq(s, 2 + DownLen(s[1]), Len(s)))

\* uplink answers in a pending buffer, as a sequence of <<cid, payload>> (whole commands only)
UpLen(cid) ==
    CASE cid = 2 -> 0 [] cid = 3 -> 1 [] cid = 4 -> 0 [] cid = 5 -> 1 [] cid = 6 -> 2 [] cid = 7 -> 1
      [] cid = 8 -> 0 [] cid = 9 -> 0 [] cid = 10 -> 1 [] cid = 13 -> 0 [] OTHER -> None
RECURSIVE ParseUp(_)
ParseUp(s) ==
    IF Len(s) = 0 THEN <<>>
    ELSE IF UpLen(s[1]) = None \/ Len(s) < 1 + UpLen(s[1]) THEN <<<<-1, s>>>>      \* malformed tail
    ELSE <<<<s[1], SubSeq(s, 2, 1 + UpLen(s[1]))>>>> \o ParseUp(SubSeq(s, 2 + UpLen(s[1]), Len(s)))

RECURSIVE Flatten(_)
Flatten(cmds) == IF cmds = <<>> THEN <<>> ELSE <<cmds[1][1]>> \o cmds[1][2] \o Flatten(Tail(cmds))

Sticky(pending) == Flatten(SelectSeq(ParseUp(pending), LAMBDA c : StickyCid(c[1])))

Freq24(p, i) == (p[i] + 256 * p[i + 1] + 65536 * p[i + 2]) * 100

\* --- requests, decoded.  A LinkADRReq block is one request.
\* kinds: "adr" [cmds: seq of [dr, pw, chmask (2 bytes), cntl, nbtrans]], "rxparam" [off, dr, freq],
\*        "devstatus", "newch" [idx, freq, dmin, dmax], "timing" [del], "dlch" [idx, freq], "none"
AdrFields(p) == [dr |-> p[1] \div 16, pw |-> p[1] % 16, chmask |-> <<p[2], p[3]>>,
                 cntl |-> (p[4] \div 16) % 8, nbtrans |-> p[4] % 16]

RECURSIVE Requests(_)
Requests(cmds) ==
    IF cmds = <<>> THEN <<>>
    ELSE LET c == cmds[1] IN
      IF c[1] = 3 THEN
         \* gather the maximal run of LinkADRReq
         LET run == CHOOSE k \in 1..Len(cmds) :
                        /\ \A j \in 1..k : cmds[j][1] = 3
                        /\ (k = Len(cmds) \/ cmds[k + 1][1] # 3)
         IN <<[kind |-> "adr", cmds |-> [j \in 1..run |-> AdrFields(cmds[j][2])]]>>
            \o Requests(SubSeq(cmds, run + 1, Len(cmds)))
      ELSE (CASE c[1] = 5 -> <<[kind |-> "rxparam", off |-> (c[2][1] \div 16) % 8, dr |-> c[2][1] % 16,
                                freq |-> Freq24(c[2], 2)]>>
              [] c[1] = 6 -> <<[kind |-> "devstatus"]>>
              [] c[1] = 7 -> <<[kind |-> "newch", idx |-> c[2][1], freq |-> Freq24(c[2], 2),
                                dmin |-> c[2][5] % 16, dmax |-> c[2][5] \div 16]>>
              [] c[1] = 8 -> <<[kind |-> "timing", del |-> c[2][1] % 16]>>
              [] c[1] = 10 -> <<[kind |-> "dlch", idx |-> c[2][1], freq |-> Freq24(c[2], 2)]>>
              [] OTHER -> <<>>)
           \o Requests(Tail(cmds))

\* the answer CIDs a request produces, in order (fixed plans ignore NewChannelReq / DlChannelReq)
AnswerCids(r, q) ==
    CASE q.kind = "adr" -> [j \in 1..Len(q.cmds) |-> 3]
      [] q.kind = "rxparam" -> <<5>>
      [] q.kind = "devstatus" -> <<6>>
      [] q.kind = "newch" -> IF IsFixed(r) THEN <<>> ELSE <<7>>
      [] q.kind = "timing" -> <<8>>
      [] q.kind = "dlch" -> IF IsFixed(r) THEN <<>> ELSE <<10>>

\* --- LinkADRReq block on a scratch copy of the current mask
ApplyChMask(r, mask, a) ==
    IF IsFixed(r) THEN
       (CASE a.cntl \in 0..3 -> SetBank(SetBank(mask, 2 * a.cntl, a.chmask[1]), 2 * a.cntl + 1, a.chmask[2])
          [] a.cntl = 4 -> SetBank(mask, 8, a.chmask[1])
          [] a.cntl = 5 -> [i \in 1..9 |-> IF i <= 8 THEN BankOf(BitOf(a.chmask[1], i - 1)) ELSE a.chmask[1]]
          [] a.cntl = 6 -> [i \in 1..9 |-> IF i <= 8 THEN 255 ELSE a.chmask[1]]
          [] a.cntl = 7 -> [i \in 1..9 |-> IF i <= 8 THEN 0 ELSE a.chmask[1]]
          [] OTHER -> mask)
    ELSE
       (CASE a.cntl = 0 -> SetBank(SetBank(mask, 0, a.chmask[1]), 1, a.chmask[2])
          [] a.cntl = 6 -> SetBank(SetBank(mask, 0, 255), 1, 255)
          [] OTHER -> mask)

RECURSIVE FoldMask(_, _, _)
FoldMask(r, mask, cmds) ==
    IF cmds = <<>> THEN mask ELSE FoldMask(r, ApplyChMask(r, mask, cmds[1]), Tail(cmds))

\* the parts of a mask that carry meaning in region r (dynamic plans have 16 channels)
MaskView(r, mask) == IF IsFixed(r) THEN mask ELSE <<mask[1], mask[2]>>

AdrOutcome(m, q) ==
    LET r == m.region
        last == q.cmds[Len(q.cmds)]
        cntlOk == \A j \in 1..Len(q.cmds) : ChMaskCntlDefined(r, q.cmds[j].cntl)
        mask == FoldMask(r, m.plan.mask, q.cmds)
        drOk == last.dr = 15 \/ UplinkDr(r, last.dr)
        newDr == IF last.dr = 15 THEN m.cfg.dr ELSE last.dr
        pwOk == last.pw = 15 \/ TxPowerDbm(r, last.pw) # None
        newPw == IF last.pw = 15 THEN m.cfg.txp ELSE TxPowerDbm(r, last.pw)
        usable == IF IsFixed(r)
                  \* (the data rate in force may itself be undefined - the application can set any value -: then no
                  \* mask is usable)
                  THEN drOk /\ DrDefined(r, newDr) /\ (IF DrBw(r, newDr) = 500000
                                THEN \E c \in 64..71 : MaskBit(mask, c)
                                ELSE Cardinality({c \in 0..63 : MaskBit(mask, c)}) >= 2)
                  ELSE \E i \in 0..15 : MaskBit(mask, i) /\ ChanDefined(m.plan, i)
        maskOk == cntlOk /\ usable
    IN [maskOk |-> maskOk, drOk |-> drOk, pwOk |-> pwOk, mask |-> mask, dr |-> newDr, txp |-> newPw,
        \* unambiguously invalid (DESIGN 7.3): must not be answered with full acceptance
        invalid |-> ~cntlOk \/ ~drOk \/ ~pwOk \/ ~usable]

\* natural (intended) status byte of each request kind, and its effect when fully accepted
StatusOf(m, q) ==
    LET r == m.region IN
    CASE q.kind = "adr" ->
           LET o == AdrOutcome(m, q)
           IN (IF o.maskOk THEN 1 ELSE 0) + (IF o.drOk THEN 2 ELSE 0) + (IF o.pwOk THEN 4 ELSE 0)
      [] q.kind = "rxparam" ->
           (IF FreqValid(r, q.freq) THEN 1 ELSE 0)
           + (IF q.dr = 15 \/ DrDefined(r, q.dr) THEN 2 ELSE 0)
           + (IF q.off <= MaxRx1Offset(r) THEN 4 ELSE 0)
      [] q.kind = "newch" ->
           IF q.idx < NumJoinChannels(r) \/ q.idx >= 16 THEN 0
           ELSE IF q.freq = 0 THEN 3
           ELSE (IF FreqValid(r, q.freq) THEN 1 ELSE 0)
                + (IF q.dmin <= q.dmax /\ \A d \in q.dmin..q.dmax : DrDefined(r, d) THEN 2 ELSE 0)
      [] q.kind = "dlch" ->
           (IF FreqValid(r, q.freq) THEN 1 ELSE 0)
           + (IF q.idx < 16 /\ ChanDefined(m.plan, q.idx) /\ MaskBit(m.plan.mask, q.idx) THEN 2 ELSE 0)
      [] OTHER -> 0

FullAck(q) == CASE q.kind = "adr" -> 7 [] q.kind = "rxparam" -> 7 [] q.kind = "newch" -> 3
                [] q.kind = "dlch" -> 3 [] OTHER -> 0

\* requests that the regional rules make unambiguously invalid (closed list, DESIGN 7.3)
Invalid(m, q) ==
    LET r == m.region IN
    CASE q.kind = "adr" -> AdrOutcome(m, q).invalid
      [] q.kind = "rxparam" -> ~FreqValid(r, q.freq) \/ (q.dr # 15 /\ ~DrDefined(r, q.dr)) \/ q.off > MaxRx1Offset(r)
      [] q.kind = "newch" -> \/ q.idx < NumJoinChannels(r) \/ q.idx >= 16
                            \/ (q.freq # 0 /\ (~FreqValid(r, q.freq) \/ q.dmin > q.dmax
                                               \/ \E d \in q.dmin..q.dmax : ~DrDefined(r, d)))
      [] q.kind = "dlch" -> ~FreqValid(r, q.freq) \/ q.idx >= 16 \/ ~ChanDefined(m.plan, q.idx)
      [] OTHER -> FALSE

\* the state after a request that was answered with full acceptance
Effect(m, q) ==
    CASE q.kind = "adr" ->
           LET o == AdrOutcome(m, q)
           \* (fixed plans: a channel mask from the network ends the join bias)
           IN [m EXCEPT !.cfg.dr = o.dr, !.cfg.txp = o.txp, !.plan.mask = o.mask,
                        !.jw.n = IF IsFixed(m.region) THEN 0 ELSE @]
      [] q.kind = "rxparam" ->
           [m EXCEPT !.cfg.rx1off = q.off, !.cfg.rx2dr = IF q.dr = 15 THEN m.cfg.rx2dr ELSE q.dr, !.cfg.rx2f = q.freq]
      [] q.kind = "timing" -> [m EXCEPT !.cfg.rx1delay = 1000 * (IF q.del = 0 THEN 1 ELSE q.del)]
      [] q.kind = "newch" ->
           IF IsFixed(m.region) THEN m
           ELSE IF q.freq = 0
                THEN [m EXCEPT !.plan.chan[q.idx + 1] = NoChan, !.plan.mask = SetBit(m.plan.mask, q.idx, FALSE)]
                ELSE [m EXCEPT !.plan.chan[q.idx + 1] = <<q.freq, None, q.dmin, q.dmax>>,
                               !.plan.mask = SetBit(m.plan.mask, q.idx, TRUE)]
      [] q.kind = "dlch" ->
           IF IsFixed(m.region) THEN m
           ELSE [m EXCEPT !.plan.chan[q.idx + 1][2] = IF q.freq = m.plan.chan[q.idx + 1][1] THEN None ELSE q.freq]
      [] OTHER -> m

\* Does request q change state when answered with status st?  ("timing" has no status: always.)
Accepted(q, st) == q.kind = "timing" \/ (q.kind \in {"adr", "rxparam", "newch", "dlch"} /\ st = FullAck(q))

\* ------------------------------------------------------------------ answers
\* Append answers while they fit in 15 bytes; once one does not fit, it and all later are dropped.
\* `ans` is a sequence of <<cid, payload>>; result: [pending, n] (n = number of answers queued)
RECURSIVE Queue(_, _, _)
Queue(pending, ans, n) ==
    IF ans = <<>> THEN [pending |-> pending, n |-> n]
    ELSE IF Len(pending) + 1 + Len(ans[1][2]) <= 15
         THEN Queue(pending \o <<ans[1][1]>> \o ans[1][2], Tail(ans), n + 1)
         ELSE [pending |-> pending, n |-> n]

\* ------------------------------------------------------------------ uplinks
\* header fields of the next data uplink and the state after preparing it
AdrAckReq(m) == m.cfg.adr /\ AdrGe(m.sess.adrCnt, AdrLimit) /\ LowerDr(m.region, m.cfg.dr) # None

\* the frame type an uplink really gets (TS009 TxFramesCtrlReq may override the application's choice)
EffConfirmed(m, confirmed) == IF m.ovr = -1 THEN confirmed ELSE m.ovr = 1
UplinkFields(m, port, confirmed) ==
    [mtype |-> IF EffConfirmed(m, confirmed) THEN 4 ELSE 2,
     addr |-> m.sess.addr,
     adr |-> IF m.cfg.adr THEN 1 ELSE 0,
     adrackreq |-> IF AdrAckReq(m) THEN 1 ELSE 0,
     ack |-> IF m.sess.ackOwed THEN 1 ELSE 0,
     fcnt |-> m.sess.up,
     fopts |-> IF port = 0 THEN <<>> ELSE m.sess.pending,
     port |-> port,
     macPayload |-> IF port = 0 THEN m.sess.pending ELSE <<>>]

\* The join bias of the fixed plans is still in force for data uplinks: a preferred sub-band was configured with
\* several tries, the device joined before they were used up and has not received a channel mask since (CFList or
\* accepted LinkADRReq).  Such an uplink may go out on the preferred sub-band at the join data rate instead of the
\* configured one, and counts as a try.  (The device may also have dropped the bias earlier - when the channel it
\* drew there is masked off - which no observation distinguishes: "maybe".)
BiasMaybe(m) == IsFixed(m.region) /\ m.jw.sb > 0 /\ 0 < m.jw.n /\ m.jw.n < m.jw.max
AfterSendPrepare(m, confirmed) ==
    [m EXCEPT !.sess.ackOwed = FALSE, !.sess.confirmed = EffConfirmed(m, confirmed), !.sess.pending = Sticky(m.sess.pending),
              !.jw = IF BiasMaybe(m) THEN [m.jw EXCEPT !.n = @ + 1, !.was = TRUE] ELSE [m.jw EXCEPT !.was = FALSE]]

\* ------------------------------------------------------------------ end of the receive procedure
SessionExpired(m) == m.sess.up = CntMax

Rx2CompleteResp(m) ==
    IF m.act = "joining" THEN "NoJoinAccept"
    ELSE IF m.act = "unjoined" THEN "NoUpdate"
    ELSE IF SessionExpired(m) THEN "SessionExpired"
    ELSE IF m.sess.confirmed THEN "NoAck" ELSE "RxComplete"

AfterRx2Complete(m) ==
    IF ~Joined(m) \/ SessionExpired(m) THEN m
    ELSE LET c == IF m.cfg.adr THEN AdrInc(m.sess.adrCnt) ELSE m.sess.adrCnt
             step == m.cfg.adr /\ AdrGe(c, AdrLimit + AdrDelay) /\ AdrOnStep(c)
                     /\ LowerDr(m.region, m.cfg.dr) # None
         IN [m EXCEPT !.sess.up = CntInc(m.sess.up),
                      !.sess.adrCnt = c,
                      !.cfg.dr = IF step THEN LowerDr(m.region, m.cfg.dr) ELSE m.cfg.dr]

\* The receive procedure of a transmitted uplink is aborted (radio fault): the counter of the frame on
\* air is consumed unless a reception already did so; when the counter space is exhausted the session
\* ends (the expiry cannot be reported through the aborted call).  up0: counter of that uplink.
AfterAbort(m, up0) ==
    IF ~Joined(m) \/ m.sess.up # up0 THEN m
    ELSE IF SessionExpired(m) THEN [m EXCEPT !.act = "unjoined", !.sess = EmptySess]
    ELSE AfterRx2Complete(m)

\* ------------------------------------------------------------------ accepted downlink
\* Fold the requests of one command stream.  `sts` gives the status byte for each request
\* (from the specification itself in model checking, from the observed answers in trace validation).
RECURSIVE FoldRequests(_, _, _)
FoldRequests(m, reqs, sts) ==
    IF reqs = <<>> THEN m
    ELSE FoldRequests(IF Accepted(reqs[1], sts[1]) THEN Effect(m, reqs[1]) ELSE m, Tail(reqs), Tail(sts))

\* natural statuses, computed request by request on the evolving state
RECURSIVE NaturalStatuses(_, _)
NaturalStatuses(m, reqs) ==
    IF reqs = <<>> THEN <<>>
    ELSE LET st == StatusOf(m, reqs[1])
         IN <<st>> \o NaturalStatuses(IF Accepted(reqs[1], st) THEN Effect(m, reqs[1]) ELSE m, Tail(reqs))

\* answers for requests with given statuses (DevStatusAns payload: battery 255, margin byte `margin`)
RECURSIVE AnswersFor(_, _, _, _)
AnswersFor(r, reqs, sts, margin) ==
    IF reqs = <<>> THEN <<>>
    ELSE LET q == reqs[1]
             a == CASE q.kind = "adr" -> [j \in 1..Len(q.cmds) |-> <<3, <<sts[1]>>>>]
                    [] q.kind = "rxparam" -> <<<<5, <<sts[1]>>>>>>
                    [] q.kind = "devstatus" -> <<<<6, <<255, margin>>>>>>
                    [] q.kind = "newch" -> IF IsFixed(r) THEN <<>> ELSE <<<<7, <<sts[1]>>>>>>
                    [] q.kind = "timing" -> <<<<8, <<>>>>>>
                    [] q.kind = "dlch" -> IF IsFixed(r) THEN <<>> ELSE <<<<10, <<sts[1]>>>>>>
                    [] OTHER -> <<>>
         IN a \o AnswersFor(r, Tail(reqs), Tail(sts), margin)

\* ------------------------------------------------------------------ certification protocol (TS009, FPort 224)
\* Only in a build with the handler compiled in (m.cert).  The command of an FPort-224 payload the handler acts
\* upon: commands are taken in order (lengths: 1, 2, 9, 32, 127 no payload; 4, 6 one octet; 7, 8 the rest of the
\* frame, at least one octet); a command with a reserved value (AdrBitChangeReq > 1, TxPeriodicityChangeReq > 10,
\* TxFramesCtrlReq > 2) is passed over; an unknown CID or a truncated command ends the walk.  cid -1: none.
CertPort == 224
NoCert == [cid |-> -1, arg |-> <<>>]
RECURSIVE CertCommand(_)
CertCommand(p) ==
    IF p = <<>> THEN NoCert
    ELSE LET c == p[1] IN
         CASE c \in {1, 2, 9, 32, 127} -> [cid |-> c, arg |-> <<>>]
           [] c = 8 -> IF Len(p) >= 2 THEN [cid |-> 8, arg |-> SubSeq(p, 2, Len(p))] ELSE NoCert
           [] c = 7 -> IF Len(p) >= 2 /\ p[2] <= 2 THEN [cid |-> 7, arg |-> <<p[2]>>] ELSE NoCert
           [] c \in {4, 6} -> IF Len(p) < 2 THEN NoCert
                              ELSE IF p[2] <= (IF c = 4 THEN 1 ELSE 10) THEN [cid |-> c, arg |-> <<p[2]>>]
                              ELSE CertCommand(SubSeq(p, 3, Len(p)))
           [] OTHER -> NoCert
\* is the verdict v a certification frame for m, and which command does it carry
IsCert(m, v) == m.cert /\ v.port = CertPort
CertOf(m, v) == IF IsCert(m, v) THEN CertCommand(v.payload) ELSE [cid |-> -2, arg |-> <<>>]
\* the FRMPayload of the uplink the handler prepares in answer (n = counter of the downlink that carried the request)
CertAnswer(cmd, n) ==
    CASE cmd.cid = 8 -> <<8>> \o [i \in 1..(IF Len(cmd.arg) > 241 THEN 241 ELSE Len(cmd.arg)) |-> (cmd.arg[i] + 1) % 256]
      [] cmd.cid = 9 -> <<9, n[2] % 256, n[2] \div 256>>
      [] cmd.cid = 127 -> <<127, 0, 0, 0, 1, 1, 0, 4, 0, 2, 1, 0, 4>>
      [] OTHER -> <<>>
\* state effect of the command itself (ADR bit, frame type override); everything else has none
CertEffect(m, cmd) ==
    CASE cmd.cid = 4 -> [m EXCEPT !.cfg.adr = cmd.arg[1] = 1]
      [] cmd.cid = 7 -> IF cmd.arg[1] = 0 THEN m ELSE [m EXCEPT !.ovr = cmd.arg[1] - 1]
      [] OTHER -> m

\* v: [n (counter), confirmed (BOOL), fopts (bytes), port (-1 none), payload (plaintext bytes), classA (BOOL)]
\* sts: statuses of Requests(ParseDown(fopts)) followed by those of the port-0 payload's requests
DownRequests(v) ==
    IF ~v.classA THEN <<>>
    ELSE Requests(ParseDown(v.fopts)) \o (IF v.port = 0 THEN Requests(ParseDown(v.payload)) ELSE <<>>)

AfterRxAccepted(m, v, sts, margin) ==
    LET reqs == DownRequests(v)
        m1 == [m EXCEPT !.sess.down = v.n, !.sess.adrCnt = AdrZero,
                        !.sess.pending = IF v.classA THEN <<>> ELSE m.sess.pending]
        m2 == FoldRequests(m1, reqs, sts)
        q  == Queue(m2.sess.pending, AnswersFor(m.region, reqs, sts, margin), 0)
        m3 == [m2 EXCEPT !.sess.pending = q.pending,
                         !.sess.ackOwed = m.sess.ackOwed \/ v.confirmed]
        m4 == IF SessionExpired(m) THEN m3 ELSE [m3 EXCEPT !.sess.up = CntInc(m.sess.up)]
    IN IF SessionExpired(m) THEN m4 ELSE CertEffect(m4, CertOf(m, v))

RxAcceptedResp(m) == IF SessionExpired(m) THEN "SessionExpired" ELSE "DownlinkReceived"
\* the application payload is delivered iff the frame carries a port > 0 (and the session is alive)
\* (a certification frame reaches the application only when its command is one the handler does not answer itself)
Delivered(m, v) == ~SessionExpired(m) /\ v.port > 0 /\ (IsCert(m, v) => CertOf(m, v).cid \in {4, 7})

\* ------------------------------------------------------------------ join
AfterJoinReq(m, devNonce, appKey) ==
    [m EXCEPT !.act = "joining", !.devNonce = devNonce, !.appKey = appKey, !.sess = EmptySess,
              !.jw = [@ EXCEPT !.n = IF m.jw.sb > 0 /\ m.jw.n < m.jw.max THEN m.jw.n + 1 ELSE m.jw.n, !.was = FALSE]]

\* ja: [devAddr, dlSettings, rxDelay, cflist (16 bytes or <<>>)], keys derived by the caller
CfListApplied(r, plan, cflist) ==
    IF cflist = <<>> THEN plan
    ELSE IF cflist[16] = 0 /\ ~IsFixed(r) THEN
         LET J == NumJoinChannels(r)
             f(n) == Freq24(cflist, 3 * n + 1)
             newChan == [i \in 1..16 |->
                            IF i - 1 >= J /\ i - 1 < J + 5
                            THEN (LET fr == f(i - 1 - J) IN
                                  IF fr = 0 THEN NoChan
                                  ELSE IF FreqValid(r, fr) THEN <<fr, None, 0, 5>>
                                  ELSE plan.chan[i])
                            ELSE plan.chan[i]]
         IN [plan EXCEPT !.chan = newChan]
    ELSE IF cflist[16] = 1 /\ IsFixed(r) THEN
         LET mask == SubSeq(cflist, 1, 9)
         IN IF \E c \in 0..71 : MaskBit(mask, c) THEN [plan EXCEPT !.mask = mask] ELSE plan
    ELSE plan

\* a fixed plan's CFList (type 1) that enables at least one channel (an all-zero mask is ignored)
CfListMaskGiven(r, cflist) ==
    IsFixed(r) /\ cflist # <<>> /\ cflist[16] = 1 /\ \E c \in 0..71 : MaskBit(SubSeq(cflist, 1, 9), c)

AfterJoinAccept(m, ja, nwk, app) ==
    LET r == m.region
        off == (ja.dlSettings \div 16) % 8
        rx2 == ja.dlSettings % 16
        del == ja.rxDelay % 16
    IN [m EXCEPT !.act = "joined", !.devNonce = None, !.appKey = NoKey,
                 !.sess = NewSess(nwk, app, ja.devAddr), !.ovr = -1,
                 !.cfg.rx1delay = 1000 * (IF del = 0 THEN 1 ELSE del),
                 !.cfg.rx1off = IF off <= MaxRx1Offset(r) THEN off ELSE m.cfg.rx1off,
                 !.cfg.rx2dr = IF DrDefined(r, rx2) THEN rx2 ELSE m.cfg.rx2dr,
                 !.plan = CfListApplied(r, m.plan, ja.cflist),
                 \* (fixed plans: a channel mask in the CFList ends the join bias)
                 \* (also when it repeats the mask in force: what ends the bias is that the network sent a usable mask)
                 !.jw.n = IF CfListMaskGiven(r, ja.cflist) THEN 0 ELSE @]

\* ------------------------------------------------------------------ application setters
AfterSetAdr(m, on) == [m EXCEPT !.cfg.adr = on, !.sess.adrCnt = IF on \/ ~Joined(m) THEN m.sess.adrCnt ELSE AdrZero]
AfterSetDr(m, d) == [m EXCEPT !.cfg.dr = d]
AfterAbp(m, nwk, app, addr) == [m EXCEPT !.act = "joined", !.devNonce = None, !.appKey = NoKey,
                                          !.sess = NewSess(nwk, app, addr), !.ovr = -1]

\* ------------------------------------------------------------------ radio parameters of a transmission
\* the channels / data rates a transmission may use:  set of [freq, dr, rx1f]
TxChoices(m, isJoin) ==
    LET r == m.region IN
    IF IsFixed(r) THEN
       IF isJoin THEN {[freq |-> FixedUplinkFreq(r, c), dr |-> d, rx1f |-> FixedDownlinkFreq(r, c)] :
                          <<c, d>> \in {x \in (0..71) \X (0..14) : x[2] \in FixedJoinDrs(r, x[1])}}
       \* data: the configured data rate on an enabled channel of its bandwidth class - or, while the join bias may
       \* still be in force, an enabled 125 kHz channel of the preferred sub-band at the join data rate
       ELSE {[freq |-> FixedUplinkFreq(r, x[1]), dr |-> x[2], rx1f |-> FixedDownlinkFreq(r, x[1])] :
                 x \in {y \in (0..71) \X DefinedDrs(r) :
                           /\ MaskBit(m.plan.mask, y[1]) /\ FixedChannelBw(y[1]) = DrBw(r, y[2])
                           /\ \/ y[2] = m.cfg.dr
                              \/ (m.jw.was /\ y[1] \div 8 = m.jw.sb - 1 /\ y[2] \in FixedJoinDrs(r, y[1]))}}
    ELSE IF ~DrDefined(r, m.cfg.dr) THEN {}
    ELSE {[freq |-> ChanUl(m.plan, i), dr |-> m.cfg.dr, rx1f |-> ChanDl(m.plan, i)] :
             i \in (IF isJoin THEN 0..(NumJoinChannels(r) - 1) ELSE UsableDyn(m.plan))}

\* upper bound of the conducted power
MaxTxPower(m, isJoin) ==
    LET base == MinOf(m.maxpw, MaxEirp(m.region) - m.gain)
    IN IF isJoin \/ m.cfg.txp = None THEN base ELSE MinOf(base, m.cfg.txp)

\* receive windows bound to a transmission that used data rate txdr and downlink frequency rx1f
RfOf(r, freq, d) == [freq |-> freq, sf |-> DrSf(r, d), bw |-> DrBw(r, d), maxlen |-> DrMaxPayload(r, d)]
Rx2Dr(m) == IF m.cfg.rx2dr = None THEN Rx2DefaultDr(m.region) ELSE m.cfg.rx2dr
Rx2Freq(m) == IF m.cfg.rx2f = None THEN Rx2DefaultFreq(m.region) ELSE m.cfg.rx2f
Rx2Rf(m) == RfOf(m.region, Rx2Freq(m), Rx2Dr(m))
\* RX1: the regional table; a table entry the device does not support falls back to the RX2 default
Rx1RfSet(m, txdr, rx1f) ==
    {RfOf(m.region, rx1f, IF DrDefined(m.region, d) THEN d ELSE Rx2DefaultDr(m.region)) :
        d \in Rx1DrSet(m.region, txdr, m.cfg.rx1off)}
Rx1Delay(m, isJoin) == IF isJoin THEN 5000 ELSE m.cfg.rx1delay
Rx2Delay(m, isJoin) == IF isJoin THEN 6000 ELSE m.cfg.rx1delay + 1000
=============================================================================
