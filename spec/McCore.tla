------------------------------- MODULE McCore -------------------------------
(* The counter rule of a multicast group (TS005, C05 read for a multicast    *)
(* session), with the size of the wire counter as a parameter so that the    *)
(* SAME text is used by McTrace.tla (trace validation with the real 16-bit   *)
(* wire counter) and by MCMc.tla (exhaustive model checking over a 2-bit     *)
(* one).  Counters are pairs <<hi, lo>> with lo in 0..wm-1 and hi in 0..hm.  *)
EXTENDS Integers, Sequences

\* @type: (Seq(Int), Seq(Int)) => Bool;
Lt(a, b) == a[1] < b[1] \/ (a[1] = b[1] /\ a[2] < b[2])
\* the counter after c (saturating at the top of the range)
\* @type: (Int, Int, Seq(Int)) => Seq(Int);
Inc(wm, hm, c) == IF c = <<hm, wm - 1>> THEN c ELSE IF c[2] = wm - 1 THEN <<c[1] + 1, 0>> ELSE <<c[1], c[2] + 1>>
\* the smallest counter >= next whose low half is the wire counter (<<>> if there is none in the range)
\* @type: (Int, Int, Seq(Int), Int) => Seq(Int);
Rebuild(wm, hm, next, wire) ==
    IF wire >= next[2] THEN <<next[1], wire>>
    ELSE IF next[1] < hm THEN <<next[1] + 1, wire>> ELSE <<>>

\* The verdict on a frame that carries the group's address: Auth(n) says whether the frame's MIC verifies under the
\* group's key for the full counter n.  [kind: "accept" | "atmax" | "ignore", n]
\* @type: (Int, Int, Seq(Int), Seq(Int), Int, (Seq(Int)) => Bool) => { kind: Str, n: Seq(Int) };
Judge(wm, hm, next, max, wire, Auth(_)) ==
    LET n == Rebuild(wm, hm, next, wire)
        authentic == n # <<>> /\ Auth(n)
    IN IF authentic /\ Lt(n, max) THEN [kind |-> "accept", n |-> n]
       ELSE IF authentic /\ n = max THEN [kind |-> "atmax", n |-> n]
       ELSE [kind |-> "ignore", n |-> <<>>]
=============================================================================
