---------------------------- MODULE Sx126xWire ----------------------------
(* SPI transactions of the SX1261 / SX1262 / STM32WL sub-GHz radio, per     *)
(* operation, written from the data sheet DS.SX1261-2 (command set of       *)
(* chapter 13, register table 12-1, known limitations of chapter 15) and    *)
(* from Semtech's reference driver SWL2001 (sx126x.c, ral_sx126x.c).        *)
(*                                                                          *)
(* A transaction is the sequence of ALL bytes clocked out on MOSI during    *)
(* one chip-select assertion: opcode, parameters, and one 0x00 (NOP) for    *)
(* every byte clocked while the chip answers.  (The repository's own        *)
(* comparison tests canonicalise a transaction as "written bytes with       *)
(* trailing NOPs trimmed + total bytes clocked", which is the same          *)
(* information.)  An operation is a sequence of transactions.               *)
(*                                                                          *)
(* Inverse (decode) operators used by property C17 are at the end.          *)
EXTENDS WireBits

\* ------------------------------------------------------------------ opcodes (DS table 11-1 .. 11-5)
OpSetSleep == 132                  \* 0x84
OpSetStandby == 128                \* 0x80
OpSetTx == 131                     \* 0x83
OpSetRx == 130                     \* 0x82
OpStopTimerOnPreamble == 159       \* 0x9F
OpSetRxDutyCycle == 148            \* 0x94
OpSetCad == 197                    \* 0xC5
OpSetTxContinuousWave == 209       \* 0xD1
OpSetRegulatorMode == 150          \* 0x96
OpCalibrate == 137                 \* 0x89
OpCalibrateImage == 152            \* 0x98
OpSetPaConfig == 149               \* 0x95
OpWriteRegister == 13              \* 0x0D
OpReadRegister == 29               \* 0x1D
OpWriteBuffer == 14                \* 0x0E
OpReadBuffer == 30                 \* 0x1E
OpSetDioIrqParams == 8             \* 0x08
OpGetIrqStatus == 18               \* 0x12
OpClearIrqStatus == 2              \* 0x02
OpSetDio2AsRfSwitchCtrl == 157     \* 0x9D
OpSetRfFrequency == 134            \* 0x86
OpSetPacketType == 138             \* 0x8A
OpSetTxParams == 142               \* 0x8E
OpSetModulationParams == 139       \* 0x8B
OpSetPacketParams == 140           \* 0x8C
OpSetCadParams == 136              \* 0x88
OpSetBufferBaseAddress == 143      \* 0x8F
OpSetLoRaSymbNumTimeout == 160     \* 0xA0
OpGetStatus == 192                 \* 0xC0
OpGetRxBufferStatus == 19          \* 0x13
OpGetPacketStatus == 20            \* 0x14
OpGetRssiInst == 21                \* 0x15

\* ------------------------------------------------------------------ registers (DS table 12-1 and chapter 15)
RegLoRaSyncWord == 1856            \* 0x0740 (MSB), 0x0741 (LSB)
RegIqPolarity == 1846              \* 0x0736
RegTxModulation == 2185            \* 0x0889
RegTxClampConfig == 2264           \* 0x08D8
RegRxGain == 2220                  \* 0x08AC
RegRtcControl == 2306              \* 0x0902
RegEventMask == 2372               \* 0x0944
RegSynchTimeout == 1798            \* 0x0706
RegPayloadLength == 1794           \* 0x0702
RegRetentionList == 671            \* 0x029F

\* ------------------------------------------------------------------ framing
WriteReg(addr, data) == <<OpWriteRegister, Hi8(addr), Lo8(addr)>> \o data
\* ReadRegister: opcode, address, one NOP for the status byte, then one NOP per data byte
ReadReg(addr, n) == <<OpReadRegister, Hi8(addr), Lo8(addr), 0>> \o Zeros(n)
\* a read-modify-write of one register whose prior content is `prior'
Rmw(addr, prior, new) == << ReadReg(addr, 1), WriteReg(addr, <<new>>) >>

\* ------------------------------------------------------------------ operating modes (DS 13.1)
\* sleepConfig: bit 2 = warm start (configuration retention), bit 0 = wake-up on RTC timeout
SetSleep(warm) == << <<OpSetSleep, IF warm THEN 4 ELSE 0>> >>
\* 0 = STDBY_RC, 1 = STDBY_XOSC
SetStandby(cfg) == << <<OpSetStandby, cfg>> >>
\* timeout in RTC steps (15.625 us), 24 bit; Rx: 0 = single mode without timeout, 0xFFFFFF = continuous
SetTx(timeout) == << <<OpSetTx>> \o BE24(timeout) >>
SetRx(timeout) == << <<OpSetRx>> \o BE24(timeout) >>
RxContinuousTimeout == 16777215
SetRxDutyCycle(rxTime, sleepTime) == << <<OpSetRxDutyCycle>> \o BE24(rxTime) \o BE24(sleepTime) >>
StopTimerOnPreamble(enable) == << <<OpStopTimerOnPreamble, enable>> >>
SetCad == << <<OpSetCad>> >>
SetTxContinuousWave == << <<OpSetTxContinuousWave>> >>
GetStatus == << <<OpGetStatus, 0>> >>          \* also the wake-up access after sleep

\* ------------------------------------------------------------------ RF frequency (DS 13.4.1)
\* RF frequency = RfFreq * Fxtal / 2^25, Fxtal = 32 MHz.  The reference computes the word without
\* 64-bit arithmetic (sx126x_convert_freq_in_hz_to_pll_step): with the scaled step
\* 32e6 / 2^11 = 15625 Hz,   word = (f div 15625) * 2^14 + round((f mod 15625) * 2^14 / 15625).
PllStepScaled126 == 15625
\* (the text lives in PllCore.tla so that Apalache - PllApa.tla - checks the very same definition for every frequency)
Pll126 == INSTANCE PllCore
PllWord126(f) == Pll126!Word126(f)
SetRfFrequencyWord(word) == <<OpSetRfFrequency>> \o BE32(word)
SetRfFrequency(f) == << SetRfFrequencyWord(PllWord126(f)) >>

\* ------------------------------------------------------------------ modulation parameters (DS 13.4.5, table 13-47..50)
\* bandwidth index 0..9 = 7.8, 10.4, 15.6, 20.8, 31.25, 41.7, 62.5, 125, 250, 500 kHz
BwCode126 == <<0, 8, 1, 9, 2, 10, 3, 4, 5, 6>>
\* SF 5..12 is written as is; coding rate 4/5..4/8 as 1..4; LDRO 0/1
SetModulationParamsCmd(sf, bw, crDen, ldro) == <<OpSetModulationParams, sf, BwCode126[bw + 1], crDen - 4, ldro>>

\* DS 15.1 "Modulation Quality with 500 kHz LoRa Bandwidth": before any packet transmission bit 2 of
\* register 0x0889 shall be 0 for LoRa BW 500 kHz and 1 for any other bandwidth
TxModulationWorkaround(bw, prior) ==
    Rmw(RegTxModulation, prior, IF bw = 9 THEN ClrBits(prior, 4) ELSE SetBits(prior, 4))
SetModulationParams(sf, bw, crDen, ldro, priorTxModulation) ==
    << SetModulationParamsCmd(sf, bw, crDen, ldro) >> \o TxModulationWorkaround(bw, priorTxModulation)

\* ------------------------------------------------------------------ packet parameters (DS 13.4.6, table 13-66..71)
\* preamble 16 bit, header 0 = explicit (variable length) / 1 = implicit, payload length, CRC 0/1, IQ 0 = standard / 1 = inverted
SetPacketParamsCmd(pre, implicit, len, crc, iq) == <<OpSetPacketParams, Hi8(pre), Lo8(pre), implicit, len, crc, iq>>
\* DS 15.4 "Optimizing the Inverted IQ Operation": bit 2 of register 0x0736 = 0 with inverted IQ, 1 with standard IQ
IqPolarityWorkaround(iq, prior) ==
    Rmw(RegIqPolarity, prior, IF iq = 1 THEN ClrBits(prior, 4) ELSE SetBits(prior, 4))
SetPacketParams(pre, implicit, len, crc, iq, priorIqPolarity) ==
    << SetPacketParamsCmd(pre, implicit, len, crc, iq) >> \o IqPolarityWorkaround(iq, priorIqPolarity)

\* ------------------------------------------------------------------ sync word (DS 6.1.1.? / register 0x0740-0x0741)
\* The two registers hold the sync word nibbles in their high nibbles; the reference keeps the low
\* nibbles (reset 0x14 0x24) by read-modify-write of the pair:
SyncWordBytes(sw8, prior) == << (prior[1] & 15) + (sw8 & 240), (prior[2] & 15) + ((sw8 & 15) * 16) >>
SetLoRaSyncWordRmw(sw8, prior) == << ReadReg(RegLoRaSyncWord, 2), WriteReg(RegLoRaSyncWord, SyncWordBytes(sw8, prior)) >>
\* writing the 16-bit register form directly
SetLoRaSyncWord16(sw16) == << WriteReg(RegLoRaSyncWord, BE16(sw16)) >>
SyncWordReset == <<20, 36>>        \* 0x14 0x24
\* the 16-bit form of a legacy one-byte sync word on a chip whose low nibbles hold the reset value
SyncWord16Of(sw8) == LET b == SyncWordBytes(sw8, SyncWordReset) IN b[1] * 256 + b[2]

\* ------------------------------------------------------------------ data buffer (DS 13.2.3, 13.4.8)
SetBufferBaseAddress(tx, rx) == << <<OpSetBufferBaseAddress, tx, rx>> >>
WriteBuffer(off, data) == << <<OpWriteBuffer, off>> \o data >>
\* ReadBuffer: opcode, offset, one NOP (status), then one NOP per byte
ReadBuffer(off, n) == << <<OpReadBuffer, off, 0>> \o Zeros(n) >>
GetRxBufferStatus == << <<OpGetRxBufferStatus, 0, 0, 0>> >>
GetPacketStatus == << <<OpGetPacketStatus, 0, 0, 0, 0>> >>
GetRssiInst == << <<OpGetRssiInst, 0, 0>> >>

\* ------------------------------------------------------------------ PA and TX parameters (DS 13.1.14, 13.4.4)
\* deviceSel 0 = SX1262 (high-power PA), 1 = SX1261 (low-power PA); paLut is reserved and always 0x01
SetPaConfig(duty, hpMax, deviceSel, paLut) == << <<OpSetPaConfig, duty, hpMax, deviceSel, paLut>> >>
\* power in dBm as a two's complement byte; ramp time code 0..7 = 10, 20, 40, 80, 200, 800, 1700, 3400 us
SetTxParams(power, ramp) == << <<OpSetTxParams, ToByte(power), ramp>> >>
Ramp40us == 2
Ramp200us == 4
\* DS 15.2 "Better Resistance of the SX1262 Tx to Antenna Mismatch": bits 4..1 of 0x08D8 set to 1111
TxClampWorkaround(prior) == Rmw(RegTxClampConfig, prior, SetBits(prior, 30))

\* DS table 13-21 "PA Operating Modes with Optimal Settings": rows <<output dBm, paDutyCycle, hpMax, value in SetTxParams>>
PaRows1262 == << <<14, 2, 2, 22>>, <<17, 2, 3, 22>>, <<20, 3, 5, 22>>, <<22, 4, 7, 22>> >>
PaRows1261 == << <<10, 1, 0, 13>>, <<14, 4, 0, 14>>, <<15, 6, 0, 14>> >>
\* STM32WL high-power PA as characterised by ST (RM0453 / STM32CubeWL SUBGRF_SetTxParams): identical except that the
\* +14 dBm row is reached with SetTxParams +14.  The two sources disagree on that row; for the STM32WL both readings
\* are accepted (DESIGN 7.1), for the discrete SX1262 only the data sheet.
PaRowsStm32wlHp == << <<14, 2, 2, 14>>, <<17, 2, 3, 22>>, <<20, 3, 5, 22>>, <<22, 4, 7, 22>> >>
\* SetTxParams range: -17..+14 (low-power PA), -9..+22 (high-power PA) in 1 dB steps
TxParamMin(deviceSel) == IF deviceSel = 1 THEN -17 ELSE -9
TxParamMax(deviceSel) == IF deviceSel = 1 THEN 14 ELSE 22
\* deviceSel of the chip variants
DeviceSel(chip) == IF chip = "sx1261" \/ chip = "stm32wl-lp" THEN 1 ELSE 0
\* the admissible PA tables of a chip variant
PaTables(chip) ==
    IF DeviceSel(chip) = 1 THEN {PaRows1261}
    ELSE IF chip = "stm32wl-hp" THEN {PaRows1262, PaRowsStm32wlHp}
    ELSE {PaRows1262}
\* chip power range of a PA: from the lowest SetTxParams value up to the highest row
ChipMinDbm(deviceSel) == IF deviceSel = 1 THEN -17 ELSE -9
ChipMaxDbm(deviceSel) == IF deviceSel = 1 THEN 15 ELSE 22
\* the optimal row for a target: the lowest row whose nominal power reaches the target
PaRowFor(rows, dbm) ==
    rows[CHOOSE i \in 1..Len(rows) : rows[i][1] >= dbm /\ \A j \in 1..(i - 1) : rows[j][1] < dbm]
\* complete TX power programming for a requested power with a given table: TX clamp (high-power PA only), PA
\* config, TX params; powers between the optimal settings lower SetTxParams by the shortfall (1 dB per step)
SetTxPowerWith(rows, ds, dbm, ramp, priorTxClamp) ==
    LET target == Clamp(dbm, ChipMinDbm(ds), ChipMaxDbm(ds))
        row == PaRowFor(rows, target)
        txp == row[4] - (row[1] - target)
    IN (IF ds = 0 THEN TxClampWorkaround(priorTxClamp) ELSE <<>>)
       \o SetPaConfig(row[2], row[3], ds, 1) \o SetTxParams(txp, ramp)
\* the set of admissible transaction lists
SetTxPower(chip, dbm, ramp, priorTxClamp) ==
    {SetTxPowerWith(rows, DeviceSel(chip), dbm, ramp, priorTxClamp) : rows \in PaTables(chip)}

\* ------------------------------------------------------------------ interrupts (DS 13.3)
IrqTxDone == 1
IrqRxDone == 2
IrqPreambleDetected == 4
IrqSyncWordValid == 8
IrqHeaderValid == 16
IrqHeaderErr == 32
IrqCrcErr == 64
IrqCadDone == 128
IrqCadDetected == 256
IrqTimeout == 512
SetDioIrqParams(irq, dio1, dio2, dio3) == << <<OpSetDioIrqParams>> \o BE16(irq) \o BE16(dio1) \o BE16(dio2) \o BE16(dio3) >>
ClearIrqStatus(mask) == << <<OpClearIrqStatus>> \o BE16(mask) >>
GetIrqStatus == << <<OpGetIrqStatus, 0, 0, 0>> >>
\* interrupts a radio mode cannot do without (mode: "tx", "rx", "cad")
IrqNeeded(mode) ==
    CASE mode = "tx" -> IrqTxDone + IrqTimeout
      [] mode = "rx" -> IrqRxDone + IrqTimeout + IrqCrcErr + IrqHeaderErr + IrqPreambleDetected + IrqHeaderValid
      [] mode = "cad" -> IrqCadDone + IrqCadDetected
      [] OTHER -> 0

\* ------------------------------------------------------------------ symbol-count RX timeout (DS 13.4.9 and SWL2001)
\* The number of symbols is held as mantissa * 2^(2*exponent + 1) (5-bit mantissa, 3-bit exponent) in
\* register 0x0706; SetLoRaSymbNumTimeout carries the same value as one byte.  The reference
\* (sx126x_set_lora_symb_nb_timeout) rounds the request up to the next representable value:
MaxLoRaSymbNumTimeout == 248
RECURSIVE NormMantExp(_, _)
NormMantExp(mant, exp) == IF mant > 31 THEN NormMantExp((mant + 3) \div 4, exp + 1) ELSE <<mant, exp>>
SymbMantExp(n) == NormMantExp((MinI(n, MaxLoRaSymbNumTimeout) + 1) \div 2, 0)
SymbTimeoutByte(n) == LET me == SymbMantExp(n) IN (me[1] * 2^(2 * me[2] + 1)) % 256
SymbTimeoutReg(n) == LET me == SymbMantExp(n) IN me[2] + me[1] * 8
SetLoRaSymbNumTimeout(n) ==
    << <<OpSetLoRaSymbNumTimeout, SymbTimeoutByte(n)>> >>
    \o (IF n > 0 THEN << WriteReg(RegSynchTimeout, <<SymbTimeoutReg(n)>>) >> ELSE <<>>)

\* ------------------------------------------------------------------ receive / CAD start
\* RX gain register: 0x94 power saving, 0x96 boosted (DS 9.6)
SetRxGain(boosted) == << WriteReg(RegRxGain, <<IF boosted = 1 THEN 150 ELSE 148>>) >>
\* cadSymbolNum code 0..4 = 1, 2, 4, 8, 16 symbols; exit mode 0 = CAD_ONLY, 1 = CAD_RX; timeout 24 bit
SetCadParams(symCode, detPeak, detMin, exitMode, timeout) ==
    << <<OpSetCadParams, symCode, detPeak, detMin, exitMode>> \o BE24(timeout) >>
\* complete receive start: stop the RX timer on preamble detection, symbol timeout, gain, SetRx
RxStart(mode, n, boosted, rxTime, sleepTime) ==
    StopTimerOnPreamble(1)
    \o SetLoRaSymbNumTimeout(IF mode = "single" THEN n ELSE 0)
    \o SetRxGain(boosted)
    \o (CASE mode = "single" -> SetRx(0)
          [] mode = "continuous" -> SetRx(RxContinuousTimeout)
          [] OTHER -> SetRxDutyCycle(rxTime, sleepTime))
\* CAD start with the settings of Semtech's CAD guide for 8 symbols: detPeak = SF + 13, detMin = 10
CadStart(sf, boosted) == SetRxGain(boosted) \o SetCadParams(3, sf + 13, 10, 0, 0) \o SetCad

\* DS 15.3 "Implicit Header Mode Timeout Behavior": after RxDone stop the RTC and clear the timeout event
StopRtcWorkaround(priorEventMask) ==
    << WriteReg(RegRtcControl, <<0>>) >> \o Rmw(RegEventMask, priorEventMask, SetBits(priorEventMask, 2))

\* ------------------------------------------------------------------ image calibration (DS 9.2.1, table 9-2)
CalibrateImage(f1, f2) == << <<OpCalibrateImage, f1, f2>> >>
\* <<band low MHz, band high MHz, freq1, freq2>>
CalBands == << <<430, 440, 107, 111>>, <<470, 510, 117, 129>>, <<779, 787, 193, 197>>,
               <<863, 870, 215, 219>>, <<902, 928, 225, 233>> >>
CalBandOf(fHz) == {i \in 1..Len(CalBands) : CalBands[i][1] * 1000000 <= fHz /\ fHz <= CalBands[i][2] * 1000000}
\* the reference's helper for arbitrary bands: floor / ceil in 4 MHz steps
CalImageInMhz(m1, m2) == CalibrateImage(m1 \div 4, (m2 + 3) \div 4)

\* ------------------------------------------------------------------ start-up pieces
SetPacketType(t) == << <<OpSetPacketType, t>> >>            \* 0 = GFSK, 1 = LoRa
SetDio2AsRfSwitchCtrl(enable) == << <<OpSetDio2AsRfSwitchCtrl, enable>> >>
SetRegulatorMode(m) == << <<OpSetRegulatorMode, m>> >>      \* 0 = LDO, 1 = DC-DC + LDO
\* TCXO supplied from DIO3 (DS 13.3.6): voltage code 0..7 = 1.6, 1.7, 1.8, 2.2, 2.4, 2.7, 3.0, 3.3 V, start-up delay in
\* RTC steps of 15.625 us (24 bit).  After the TCXO is declared the calibration has to be run again (Calibrate, DS 13.1.12:
\* bit 0 RC64k, 1 RC13M, 2 PLL, 3 ADC pulse, 4 ADC bulk N, 5 ADC bulk P, 6 image) and the XOSC_START_ERR flag raised at
\* power-up without a running TCXO is cleared with ClearDeviceErrors (DS 13.6.2: opcode and two NOP bytes).
OpSetDio3AsTcxoCtrl == 151         \* 0x97
OpClearDeviceErrors == 7           \* 0x07
SetDio3AsTcxoCtrl(voltage, delay) == << <<OpSetDio3AsTcxoCtrl, voltage>> \o BE24(delay) >>
Calibrate(mask) == << <<OpCalibrate, mask>> >>
CalibrateAll == 127
ClearDeviceErrors == << <<OpClearDeviceErrors, 0, 0>> >>
\* ClearDeviceErrors takes no parameters: every byte after the opcode is a NOP that only clocks a status byte out, and
\* the chip's state does not depend on how many of them the host clocks.  A transaction that differs from the data
\* sheet frame only by surplus trailing NOPs is therefore the same command for the chip.  (The repository's test
\* canonicalisation - trimmed written bytes + total length - would tell the two apart; this relaxation is applied to
\* this parameterless command only and is reported in the evidence.)
IsClearDeviceErrors(t) == Len(t) >= 3 /\ t[1] = OpClearDeviceErrors /\ \A i \in 2..Len(t) : t[i] = 0
\* board constant of lora-phy for the TCXO start-up delay: 10 ms = 640 RTC steps
TcxoDelay10ms == 640
\* retention list (register 0x029F: count, then up to four 16-bit addresses): add one register
RetentionRead == ReadReg(RegRetentionList, 9)
RetentionHas(list, addr) ==
    \E i \in 0..(MinI(list[1], 4) - 1) : list[2 + 2 * i] = Hi8(addr) /\ list[3 + 2 * i] = Lo8(addr)
RetentionAdded(list, addr) ==
    [list EXCEPT ![1] = list[1] + 1, ![2 + 2 * list[1]] = Hi8(addr), ![3 + 2 * list[1]] = Lo8(addr)]
AddToRetentionList(list, addr) ==
    << RetentionRead >> \o
    (IF RetentionHas(list, addr) \/ list[1] >= 4 THEN <<>> ELSE << WriteReg(RegRetentionList, RetentionAdded(list, addr)) >>)

\* ------------------------------------------------------------------ fetching a packet (transactions only; semantics in RxFetch)
FetchTxns(implicit, reportedLen, configuredLen, off) ==
    GetRxBufferStatus
    \o (IF implicit = 1 THEN << ReadReg(RegPayloadLength, 1) >> ELSE <<>>)
    \o ReadBuffer(off, IF implicit = 1 THEN configuredLen ELSE reportedLen)

(* ======================================================================== *)
(* Decode operators (property C17): what the chip does with the bytes.      *)
(* ======================================================================== *)

\* the 32-bit word of a SetRfFrequency transaction as <<q, r>> with word = q * 16384 + r, r < 16384
\* (the word itself is below 2^31 for every frequency up to 1020 MHz)
RfWordOf(txn) == ((txn[2] * 256 + txn[3]) * 256 + txn[4]) * 256 + txn[5]
IsSetRfFrequency(txn) == Len(txn) = 5 /\ txn[1] = OpSetRfFrequency

\* RF frequency of a word: word * 32e6 / 2^25 = word * 15625 / 16384 Hz.
\* FreqErrNum(word, f) = word * 15625 - f * 16384, i.e. the error in units of 1/16384 Hz, computed
\* without leaving 32 bits: word = q*16384 + r, f = a*15625 + b  =>  (q - a) * 256000000 + r*15625 - b*16384
FreqErrNum126(word, f) ==
    LET q == word \div 16384
        r == word % 16384
        a == f \div 15625
        b == f % 15625
    IN IF AbsI(q - a) > 1 THEN (IF q > a THEN 2000000000 ELSE -2000000000)
       ELSE (q - a) * 256000000 + r * 15625 - b * 16384
\* nearest synthesiser step: |error| <= half a step = 15625/2 (in 1/16384 Hz), which is below 1 Hz
FreqNearest126(word, f) == 2 * AbsI(FreqErrNum126(word, f)) <= 15625
FreqWithin1Hz126(word, f) == AbsI(FreqErrNum126(word, f)) < 16384

\* output power of a (SetPaConfig, SetTxParams) pair by a PA table: the row's nominal power minus the
\* number of 1 dB steps SetTxParams stays below the row's value; -1000 = not a row of the table / out of range
PaDecodeWith(rows, deviceSel, duty, hpMax, txParam) ==
    LET hit == {i \in 1..Len(rows) : rows[i][2] = duty /\ rows[i][3] = hpMax}
    IN IF hit = {} \/ txParam < TxParamMin(deviceSel) \/ txParam > TxParamMax(deviceSel) THEN -1000
       ELSE LET row == rows[CHOOSE i \in hit : TRUE] IN
            IF txParam > row[4] THEN -1000 ELSE row[1] - (row[4] - txParam)
\* the set of readings over the admissible tables of the chip variant
PaDecode(chip, duty, hpMax, txParam) == {PaDecodeWith(rows, DeviceSel(chip), duty, hpMax, txParam) : rows \in PaTables(chip)}

\* number of symbols of the receive timeout programmed by (SetLoRaSymbNumTimeout byte, register 0x0706)
SymbDecodeReg(reg) == (reg \div 8) * 2^(2 * (reg % 8) + 1)

\* packet status (DS 13.5.3): RssiPkt -> -RssiPkt/2 dBm, SnrPkt (two's complement) -> SnrPkt/4 dB.
\* Returned in units of 1/4 dB so that no rounding is built into the oracle.
RssiQuarterDb126(raw) == -2 * raw
SnrQuarterDb126(raw) == FromByte(raw)

\* ------------------------------------------------------------------ known answers (checked by TLC at start-up)
\* 868.1 MHz -> 0x36419999+1 (DESIGN 8: `86 36 41 99 9A`), 915 MHz, 433 MHz
ASSUME SetRfFrequency(868100000) = << <<134, 54, 65, 153, 154>> >>
ASSUME PllWord126(32000000) = 33554432
ASSUME SymbTimeoutByte(8) = 8 /\ SymbTimeoutReg(8) = 32
ASSUME SymbTimeoutByte(248) = 248 /\ SymbTimeoutReg(248) = 249 /\ SymbDecodeReg(249) = 248
ASSUME SymbTimeoutByte(100) = 104 /\ SymbDecodeReg(SymbTimeoutReg(100)) = 104
ASSUME SyncWord16Of(52) = 13380 /\ SyncWord16Of(18) = 5156       \* 0x34 -> 0x3444, 0x12 -> 0x1424
ASSUME PaDecode("sx1262", 4, 7, 22) = {22} /\ PaDecode("sx1262", 2, 2, 22) = {14} /\ PaDecode("sx1261", 1, 0, 13) = {10} /\ PaDecode("sx1261", 1, 0, -14) = {-17}
ASSUME PaDecode("stm32wl-hp", 2, 2, 14) = {6, 14} /\ PaDecode("sx1262", 2, 2, 14) = {6}
ASSUME FreqNearest126(PllWord126(868100000), 868100000) /\ ~FreqNearest126(PllWord126(868100000) + 1, 868100000)
=============================================================================
