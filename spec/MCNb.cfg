SPECIFICATION Spec
CONSTANTS
  WireMod = 4
  MaxGap = 2
  HiMax = 1
  AdrLimit = 2
  AdrDelay = 1
  StartUps <- StartUpsDef
  PrintEdges = FALSE
  MaxLen = 9
VIEW NView
INVARIANTS CountersStrictlyIncrease IdleMeansConsumed JoinedOnlyByAccept WindowsBoundAtTx StateSane
PROPERTY NeverWraps
CONSTRAINT Short
CHECK_DEADLOCK FALSE
