------------------------------- MODULE MCFcnt -------------------------------
(* C05 at the design level: replay protection with a 16-bit wire counter.    *)
(* A network has sent frames with 32-bit counters; an adversary delivers     *)
(* any of them in any order, any number of times (replay, reorder), frames   *)
(* far in the future, and forgeries.  The device reconstructs the counter    *)
(* with Mac!NextFcnt and accepts iff the MIC (bound to the full counter)     *)
(* verifies.  Checked exhaustively over a scaled-down counter space.         *)
EXTENDS Mac, TLC

VARIABLES last,      \* counter of the last accepted downlink, <<>> before the first
          accepted   \* sequence of accepted counters (history; hidden by the VIEW)
mcvars == <<last, accepted>>

Val(c) == c[1] * WireMod + c[2]
AllCounters == {<<h, w>> : h \in 0..HiMax, w \in 0..(WireMod - 1)}

\* Declarative freshness (the property): last < n <= last + MaxGap, any n for the first frame
\* (the first frame is taken at face value, so only counters of the first epoch can verify).
Fresh(l, n) == IF l = <<>> THEN n[1] = 0 ELSE Val(l) < Val(n) /\ Val(n) <= Val(l) + MaxGap

\* an authentic frame carrying counter n: its MIC verifies exactly under counter n
DeviceAccepts(l, n) == NextFcnt(l, n[2]) = n

Init == last = <<>> /\ accepted = <<>>

DeliverAuthentic(n) ==
    IF DeviceAccepts(last, n)
    THEN last' = n /\ accepted' = Append(accepted, n)
    ELSE UNCHANGED mcvars

\* a forged frame (wrong key) never verifies, whatever its wire counter
DeliverForged == UNCHANGED mcvars

Next == (\E n \in AllCounters : DeliverAuthentic(n)) \/ DeliverForged
Spec == Init /\ [][Next]_mcvars

\* --- properties
AcceptIffFresh == \A n \in AllCounters : DeviceAccepts(last, n) <=> Fresh(last, n)
StrictlyIncreasing == \A i \in 1..(Len(accepted) - 1) : CntLt(accepted[i], accepted[i + 1])
NoDoubleAccept == \A i, j \in 1..Len(accepted) : i # j => accepted[i] # accepted[j]
\* the reconstruction is unique: at most one 32-bit counter matches a wire value
UniqueReconstruction ==
    \A w \in 0..(WireMod - 1) : Cardinality({n \in AllCounters : n[2] = w /\ Fresh(last, n)}) <= 1
NeverBackwards == [][last # <<>> /\ last' # last => CntLt(last, last')]_mcvars
LastIsLastAccepted == accepted # <<>> => last = accepted[Len(accepted)]

View == last
Bound == Len(accepted) <= 6
=============================================================================
