-------------------------------- MODULE MCAdr --------------------------------
(* C12 at the design level: header bits of every uplink and the ADR back-off *)
(* follow the session history.  The MAC operators of Mac.tla are driven by   *)
(* all interleavings of uplinks (confirmed or not, answered or not),         *)
(* accepted / confirmed / rejected / Class C downlinks, ADR toggles and      *)
(* data-rate overrides; ghost variables restate the property independently   *)
(* of the MAC's own counters.  AdrLimit/AdrDelay are scaled down.            *)
EXTENDS Mac, TLC

CONSTANTS Region, DrChoices

VARIABLES m,          \* MAC state (joined session)
          silent,     \* ghost: uplinks completed without an accepted downlink while ADR is on
          confOwed,   \* ghost: an accepted confirmed downlink has not been acknowledged yet
          hdr,        \* header bits of the uplink prepared last (<<>> before the first)
          exp,        \* what the property demands for that uplink
          drAuto      \* ghost: the data rate the property predicts
mcvars == <<m, silent, confOwed, hdr, exp, drAuto>>

Key == <<1, 1, 1, 1, 1, 1, 1, 1, 1, 1, 1, 1, 1, 1, 1, 1>>
M0 == AfterAbp(InitMac(Region, 14, 0), Key, Key, <<1, 2, 3, 4>>)

Init == /\ m = M0 /\ silent = 0 /\ confOwed = FALSE /\ hdr = <<>> /\ exp = <<>> /\ drAuto = M0.cfg.dr

\* the property's view of the next uplink's header
Expected(confirmed) ==
    [mtype |-> IF confirmed THEN 4 ELSE 2, addr |-> <<1, 2, 3, 4>>,
     adr |-> IF m.cfg.adr THEN 1 ELSE 0,
     adrackreq |-> IF m.cfg.adr /\ silent >= AdrLimit /\ LowerDr(Region, drAuto) # None THEN 1 ELSE 0,
     ack |-> IF confOwed THEN 1 ELSE 0]
Observed(u) == [mtype |-> u.mtype, addr |-> u.addr, adr |-> u.adr, adrackreq |-> u.adrackreq, ack |-> u.ack]

NoCmds(n, conf, classA) == [n |-> n, confirmed |-> conf, fopts |-> <<>>, port |-> -1, payload |-> <<>>, classA |-> classA]
NextDown == IF m.sess.down = <<>> THEN <<0, 0>> ELSE CntInc(m.sess.down)

\* ghost step of the data rate after a silent uplink
SilentStep(s, d) ==
    IF m.cfg.adr /\ s >= AdrLimit + AdrDelay /\ (s - AdrLimit) % AdrDelay = 0 /\ LowerDr(Region, d) # None
    THEN LowerDr(Region, d) ELSE d

\* an uplink whose receive windows stay silent
UplinkSilent(confirmed) ==
    LET u == UplinkFields(m, 1, confirmed)
        m1 == AfterSendPrepare(m, confirmed)
        s == IF m.cfg.adr THEN silent + 1 ELSE silent
    IN /\ ~SessionExpired(m)
       /\ hdr' = Observed(u) /\ exp' = Expected(confirmed)
       /\ m' = AfterRx2Complete(m1)
       /\ silent' = s
       /\ confOwed' = FALSE
       /\ drAuto' = SilentStep(s, drAuto)

\* an uplink answered by an accepted Class A downlink
UplinkAnswered(confirmed, confDown) ==
    LET u == UplinkFields(m, 1, confirmed)
        m1 == AfterSendPrepare(m, confirmed)
    IN /\ ~SessionExpired(m)
       /\ hdr' = Observed(u) /\ exp' = Expected(confirmed)
       /\ m' = AfterRxAccepted(m1, NoCmds(NextDown, confDown, TRUE), <<>>, 0)
       /\ silent' = 0
       /\ confOwed' = confDown
       /\ UNCHANGED drAuto

\* a Class C downlink outside a procedure
ClassCDown(confDown) ==
    /\ ~SessionExpired(m)
    /\ m' = AfterRxAccepted(m, NoCmds(NextDown, confDown, FALSE), <<>>, 0)
    /\ silent' = 0
    /\ confOwed' = (confOwed \/ confDown)
    /\ UNCHANGED <<hdr, exp, drAuto>>

SetAdr(on) ==
    /\ m' = AfterSetAdr(m, on)
    /\ silent' = IF on THEN silent ELSE 0
    /\ UNCHANGED <<confOwed, hdr, exp, drAuto>>

SetDr(d) ==
    /\ m' = AfterSetDr(m, d) /\ drAuto' = d
    /\ UNCHANGED <<silent, confOwed, hdr, exp>>

Next ==
    \/ \E c \in BOOLEAN : UplinkSilent(c)
    \/ \E c, d \in BOOLEAN : UplinkAnswered(c, d)
    \/ \E d \in BOOLEAN : ClassCDown(d)
    \/ \E b \in BOOLEAN : SetAdr(b)
    \/ \E d \in DrChoices : SetDr(d)
Spec == Init /\ [][Next]_mcvars

\* --- properties
HeaderBitsFollowHistory == hdr = exp
AdrCounterIsSilentUplinks == AdrVal(m.sess.adrCnt) = silent
DataRateOnlyStepsAtThresholds == m.cfg.dr = drAuto
AckOwedMatches == m.sess.ackOwed = confOwed
CounterNeverRewinds == [][~CntLt(m'.sess.up, m.sess.up)]_mcvars

Val2(c) == c[1] * WireMod + c[2]
Bound == silent <= AdrLimit + 3 * AdrDelay + 1 /\ Val2(m.sess.up) <= 9

\* --- the same exploration with the REAL constants (ADR_ACK_LIMIT 64, ADR_ACK_DELAY 32, 16-bit wire counter):
\* the frame counters themselves play no part in the header bits and the back-off, so they are hidden from the
\* fingerprint; the silent run is followed until every data rate of the region has been stepped through.
RealView == <<[m EXCEPT !.sess.up = CntZero, !.sess.down = <<>>], silent, confOwed, hdr, exp, drAuto>>
BoundReal == silent <= AdrLimit + 7 * AdrDelay + 1
=============================================================================
