SPECIFICATION Spec
CONSTANTS
  WM = 4
  HM = 1
  PrintEdges = TRUE
  MaxLen = 40
VIEW MView
INVARIANTS NextFollowsLast AcceptedInRange EmptySlotHasNoHistory
CONSTRAINT Short
CHECK_DEADLOCK FALSE
