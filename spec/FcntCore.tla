------------------------------ MODULE FcntCore ------------------------------
(* The downlink counter reconstruction, with its constants as parameters so *)
(* that the SAME text is used by Mac.tla (TLC: model checking over scaled   *)
(* constants, trace validation with the real ones) and by FcntApa.tla       *)
(* (Apalache: the acceptance property for ALL 2^32 x 2^16 inputs with the   *)
(* real constants, symbolically).                                           *)
EXTENDS Integers, Sequences

\* The unique counter N = <<hi, lo>> with N == wire (mod wm) and last < N <= last + mg (hi <= hm), or <<>> when
\* there is none.  Before the first downlink of a session (last = <<>>) any wire value is taken at face value.
\* @type: (Int, Int, Int, Seq(Int), Int) => Seq(Int);
Reconstruct(wm, mg, hm, last, wire) ==
    IF last = <<>> THEN <<0, wire>>
    ELSE IF wire > last[2] THEN
            (IF wire - last[2] <= mg THEN <<last[1], wire>> ELSE <<>>)
         ELSE IF last[1] < hm /\ (wm - last[2]) + wire <= mg THEN <<last[1] + 1, wire>>
         ELSE <<>>
=============================================================================
