SPECIFICATION Spec
CONSTANTS
  WireMod = 65536
  MaxGap = 16384
  HiMax = 65535
  AdrLimit = 64
  AdrDelay = 32
  Region = "AU915"
  DrChoices = {0, 6}
INVARIANTS HeaderBitsFollowHistory AdrCounterIsSilentUplinks DataRateOnlyStepsAtThresholds AckOwedMatches
PROPERTY CounterNeverRewinds
VIEW RealView
CONSTRAINT BoundReal
CHECK_DEADLOCK FALSE
