------------------------------ MODULE WireBits ------------------------------
(* Byte-level helpers shared by Sx126xWire.tla and Sx127xWire.tla.          *)
(* All values are non-negative integers below 2^31 (TLC integers are 32-bit *)
(* signed); & and | are the Java-overridden operators of Bitwise.           *)
EXTENDS Integers, Sequences, Bitwise

Byte == 0..255

Hi8(x) == (x \div 256) % 256
Lo8(x) == x % 256

\* two's complement byte of a signed value -128..127 and back
ToByte(x) == IF x < 0 THEN x + 256 ELSE x
FromByte(b) == IF b >= 128 THEN b - 256 ELSE b

\* replace the bits selected by mask with the corresponding bits of val
SetField(reg, mask, val) == (reg & (255 - mask)) | (val & mask)
SetBits(reg, mask) == reg | mask
ClrBits(reg, mask) == reg & (255 - mask)

\* a 32-bit quantity logged as <<hi16, lo16>>; only used for values < 2^31
U32(p) == p[1] * 65536 + p[2]

MinI(a, b) == IF a <= b THEN a ELSE b
MaxI(a, b) == IF a >= b THEN a ELSE b
Clamp(x, lo, hi) == MaxI(lo, MinI(x, hi))
AbsI(x) == IF x < 0 THEN -x ELSE x

Z16 == <<0, 0, 0, 0, 0, 0, 0, 0, 0, 0, 0, 0, 0, 0, 0, 0>>
Z64 == Z16 \o Z16 \o Z16 \o Z16
Z256 == Z64 \o Z64 \o Z64 \o Z64
\* n zero bytes, n <= 256 (bytes clocked out while the chip answers a read)
Zeros(n) == SubSeq(Z256, 1, n)

\* big-endian bytes
BE16(x) == <<Hi8(x), Lo8(x)>>
BE24(x) == <<(x \div 65536) % 256, Hi8(x), Lo8(x)>>
BE32(x) == <<(x \div 16777216) % 256, (x \div 65536) % 256, Hi8(x), Lo8(x)>>

\* concatenation of a sequence of sequences
RECURSIVE Flatten(_)
Flatten(ss) == IF ss = <<>> THEN <<>> ELSE Head(ss) \o Flatten(Tail(ss))
=============================================================================
