------------------------------- MODULE PllApa -------------------------------
(* C17 / C13, the part TLC can only sample: for EVERY frequency f (1 Hz grid) *)
(* of 137 MHz .. 1020 MHz the reference conversion yields the synthesiser     *)
(* word nearest to f (SX126x: error <= half a step = 0.477 Hz < 1 Hz; SX127x: *)
(* error <= half a step = 30.5 Hz < 62 Hz), the conversion is monotone, and   *)
(* it is periodic: word(f + 15625) = word(f) + 2^14 (resp. 2^8) - the         *)
(* relation that lets the trace check cover whole conversion periods instead  *)
(* of 8.8e8 points.  Checked by Apalache (SMT) symbolically.                  *)
EXTENDS Integers, PllCore

VARIABLE
    \* @type: Int;
    f

Init == f \in 137000000..1020000000
Next == UNCHANGED f

\* @type: Int => Int;
Abs(x) == IF x < 0 THEN -x ELSE x

\* error in units of 1/16384 Hz (SX126x) and 1/256 Hz (SX127x)
Err126 == Word126(f) * 15625 - f * 16384
Err127 == Word127(f) * 15625 - f * 256

Nearest126 == 2 * Abs(Err126) <= 15625          \* at most half a step
Within1Hz126 == Abs(Err126) < 16384
Nearest127 == 2 * Abs(Err127) <= 15625
Within62Hz127 == Abs(Err127) < 62 * 256
Periodic == Word126(f + 15625) = Word126(f) + 16384 /\ Word127(f + 15625) = Word127(f) + 256
Monotone == Word126(f + 1) >= Word126(f) /\ Word127(f + 1) >= Word127(f)
Fits == Word126(f) < 4294967296 /\ Word127(f) < 16777216

Inv == Nearest126 /\ Within1Hz126 /\ Nearest127 /\ Within62Hz127 /\ Periodic /\ Monotone /\ Fits
=============================================================================
