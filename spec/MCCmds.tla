------------------------------ MODULE MCCmds ------------------------------
(* Design-level checks of MacCmds.tla itself (no implementation involved):  *)
(* the tables are self-consistent, every fixed-length layout partitions its *)
(* payload, ParseCmd and BuildCmd are mutually inverse, and Items satisfies *)
(* the framing property WellFormed for every short string.  All checks are  *)
(* ASSUMEs, evaluated by TLC before the (trivial) behaviour is explored;    *)
(* a violated ASSUME means the SPECIFICATION is wrong (tool error).         *)
EXTENDS MacCmds

VARIABLE x
Init == x = 0
Next == x' = x
Spec == Init /\ [][Next]_x

SetSeq == <<"mac_up", "mac_down", "cert_up", "cert_down", "mc_up", "mc_down">>

\* --- tables: CIDs and names unique per set, lengths sane, unsupported CIDs disjoint
TableOk(set) ==
    LET cs == CmdsOf(set) IN
    /\ \A i, j \in 1..Len(cs) : i # j => cs[i].cid # cs[j].cid /\ cs[i].name # cs[j].name
    /\ \A i \in 1..Len(cs) : cs[i].cid \in 0..255 /\ cs[i].len \in {RestMin1, GroupMask, CondTTS} \cup (0..241)
    /\ \A u \in 1..Len(UnsupportedOf(set)) : LenTab(set)[UnsupportedOf(set)[u][1] + 1] = NoCmd
    /\ \A c \in 0..255 : (LenTab(set)[c + 1] # NoCmd) <=> (\E i \in 1..Len(cs) : cs[i].cid = c)
ASSUME \A s \in SetNames : TableOk(s)

\* --- every bit of a fixed-length payload belongs to exactly one layout field
Covers(f, o, t) ==
    IF f.kind \in {"u", "s", "rfu"}
    THEN o \in f.off..(f.off + f.w - 1) /\ (8 * (o - f.off) + t) \in f.sh..(f.sh + f.bits - 1)
    ELSE o \in f.off..(f.off + f.w - 1)
Tiles(c) ==
    \A o \in 0..(c.len - 1) : \A t \in 0..7 :
        Cardinality({k \in 1..Len(c.fields) : Covers(c.fields[k], o, t)}) = 1
FieldsInside(c) ==
    \A k \in 1..Len(AllFields(c)) :
        LET f == AllFields(c)[k] IN f.off >= 0 /\ f.off + f.w <= c.len /\ f.sh + f.bits <= 8 * f.w
ASSUME \A s \in SetNames : \A i \in 1..Len(CmdsOf(s)) :
          LET c == CmdsOf(s)[i] IN c.len >= 0 => Tiles(c) /\ FieldsInside(c)
\* field names unique within a command (views included)
ASSUME \A s \in SetNames : \A i \in 1..Len(CmdsOf(s)) :
          LET fs == AllFields(CmdsOf(s)[i]) IN
          \A a, b \in 1..Len(fs) : (a # b /\ fs[a].kind # "rfu" /\ fs[b].kind # "rfu") => fs[a].n # fs[b].n

\* --- ParseCmd(BuildCmd(v)) = v, RFU bits 0, for boundary values of every field
Lo(f) == CASE f.kind = "u" -> 0 [] f.kind = "s" -> 0 - Pow2(f.bits - 1) [] f.kind = "u32" -> <<0, 0>>
           [] f.kind = "bytes" -> [i \in 1..f.w |-> 0]
Hi(f) == CASE f.kind = "u" -> Pow2(f.bits) - 1 [] f.kind = "s" -> Pow2(f.bits - 1) - 1 [] f.kind = "u32" -> <<65535, 65535>>
           [] f.kind = "bytes" -> [i \in 1..f.w |-> 255]
Mid(f) == CASE f.kind = "u" -> (Pow2(f.bits) \div 3) [] f.kind = "s" -> -1 [] f.kind = "u32" -> <<4660, 22136>>
           [] f.kind = "bytes" -> [i \in 1..f.w |-> (17 * i) % 256]
RoundTrip(c, pick(_)) ==
    LET vals == [n \in FieldNames(c) |-> pick(FieldOf(c, n))]
        p == BuildPayload(c, vals) IN
    /\ Len(p) = c.len
    /\ ParseCmd(c, p) = vals
    /\ RfuZero(c, p)
    /\ BuildCmd(c, vals)[1] = c.cid
ASSUME \A s \in SetNames : \A i \in 1..Len(CmdsOf(s)) :
          LET c == CmdsOf(s)[i] IN
          c.len >= 0 => RoundTrip(c, Lo) /\ RoundTrip(c, Hi) /\ RoundTrip(c, Mid)
\* one field at its maximum, all others 0, leaves all others 0 (no field overlaps a neighbour)
ASSUME \A s \in SetNames : \A i \in 1..Len(CmdsOf(s)) :
          LET c == CmdsOf(s)[i] IN
          c.len >= 0 =>
            \A n \in FieldNames(c) :
               LET vals == [m \in FieldNames(c) |-> IF m = n THEN Hi(FieldOf(c, m)) ELSE Lo(FieldOf(c, m))]
               IN ParseCmd(c, BuildPayload(c, vals)) = vals
\* exhaustive for one-octet payloads: Build(Parse(p)) = p with the RFU bits cleared
ClearRfu(c, p) == PutAll(c.fields, 1, Zeros(c.len), ParseCmd(c, p))
ASSUME \A s \in SetNames : \A i \in 1..Len(CmdsOf(s)) :
          LET c == CmdsOf(s)[i] IN
          c.len = 1 => \A v \in 0..255 :
                         /\ ParseCmd(c, ClearRfu(c, <<v>>)) = ParseCmd(c, <<v>>)
                         /\ RfuZero(c, ClearRfu(c, <<v>>))
\* known layouts (LoRaWAN 1.0.3 examples worked by hand)
ASSUME BuildCmd(CmdByName("mac_down", "LinkADRReq"),
                [TXPower |-> 3, DataRate |-> 5, ChMask |-> <<199, 11>>, NbTrans |-> 7, ChMaskCntl |-> 3])
       = <<3, 83, 199, 11, 55>>
ASSUME BuildCmd(CmdByName("mac_up", "DevStatusAns"), [Battery |-> 254, Margin |-> -32]) = <<6, 254, 32>>
ASSUME BuildCmd(CmdByName("mac_down", "DeviceTimeAns"), [Seconds |-> <<258, 772>>, FracSecond |-> 128])
       = <<13, 4, 3, 2, 1, 128>>
ASSUME ParseCmd(CmdByName("mac_down", "RXParamSetupReq"), <<205, 18, 52, 86>>)
       = [RX2DataRate |-> 13, RX1DRoffset |-> 4, Frequency |-> 5649426]

\* --- Items is well formed for every short string over an alphabet that contains every CID of the set
Alphabet(set) == {CmdsOf(set)[i].cid : i \in 1..Len(CmdsOf(set))} \cup {0, 1, 4, 15, 16, 31, 255}
Strings(A, n) == UNION {[1..k -> A] : k \in 0..n}
ItemsLemma(set, b) ==
    /\ WellFormed(Items(set, b), b)
    /\ WellFormed(ItemsFixedTTS(set, b), b)
    /\ (set \notin {"mc_up"}) => Items(set, b) = ItemsFixedTTS(set, b)
ASSUME \A s \in SetNames : \A b \in Strings(Alphabet(s), 3) : ItemsLemma(s, b)
\* longer strings over a few interesting symbols (variable-length rules, fixed commands of length 4)
ASSUME \A b \in Strings({1, 3, 4, 5, 255}, 6) : ItemsLemma("mc_up", b) /\ ItemsLemma("mac_down", b)
ASSUME \A b \in Strings({7, 8, 9, 127}, 5) : ItemsLemma("cert_up", b) /\ ItemsLemma("cert_down", b)
\* hand-worked streams
ASSUME Items("mac_down", <<3, 83, 199, 11, 55, 6, 13, 1, 2>>) = << <<1, 3, 5>>, <<1, 6, 1>>, <<0, 1, 13>> >>
ASSUME Items("mac_up", <<2, 3, 7, 128>>) = << <<1, 2, 1>>, <<1, 3, 2>>, <<0, 0, 128>> >>
ASSUME Items("mc_up", <<1, 5, 0, 1, 2, 3, 4, 2, 5, 6, 7, 8, 3, 0>>) = << <<1, 1, 12>>, <<1, 3, 2>> >>
ASSUME Items("mc_up", <<1, 5, 0, 1, 2, 3, 4, 2, 5, 6, 7>>) = << <<0, 1, 1>> >>
ASSUME Items("cert_down", <<8, 1, 2, 3>>) = << <<1, 8, 4>> >> /\ Items("cert_down", <<8>>) = << <<0, 1, 8>> >>
ASSUME Items("mc_up", <<4, 16, 2, 1>>) = << <<1, 4, 2>>, <<1, 2, 2>> >>
       /\ ItemsFixedTTS("mc_up", <<4, 16, 2, 1>>) = << <<0, 1, 4>> >>

\* disputed entry: exactly the two readings are accepted
ASSUME ItemsAccepted("mc_up", <<4, 16, 2, 1>>, << <<1, 4, 2>>, <<1, 2, 2>> >>)
       /\ ItemsAccepted("mc_up", <<4, 16, 2, 1>>, << <<0, 1, 4>> >>)
       /\ ~ItemsAccepted("mc_up", <<4, 16, 2, 1>>, << <<1, 4, 3>>, <<0, 0, 1>> >>)
       /\ ~ItemsAccepted("mc_down", <<4, 16, 2, 1>>, << <<1, 4, 2>>, <<1, 2, 2>> >>)

\* --- derived values
ASSUME MaxEirpDbm[1] = 8 /\ MaxEirpDbm[16] = 36 /\ Len(MaxEirpDbm) = 16
ASSUME DutyCycleF32(0) = <<16256, 0>> /\ DutyCycleF32(1) = <<16128, 0>>      \* 1.0 = 0x3F800000, 0.5 = 0x3F000000
ASSUME FracStepsOfNanos(<<15258, 51711>>) = 255 /\ FracStepsOfNanos(<<15258, 51712>>) = 256
       /\ FracStepsOfNanos(<<0, 0>>) = 0 /\ FracStepsOfNanos(<<59, 39625>>) = 0 /\ FracStepsOfNanos(<<59, 39626>>) = 1
ASSUME NanosBelowOneSecond(<<15258, 51711>>) /\ ~NanosBelowOneSecond(<<15258, 51712>>)
ASSUME ChEnabled(<<4, 128>>) = <<0, 0, 1, 0, 0, 0, 0, 0, 0, 0, 0, 0, 0, 0, 0, 1>>

\* --- text forms
ASSUME DisplayOf("DevAddr", <<4, 3, 2, 1>>) = <<48, 49, 48, 50, 48, 51, 48, 52>>           \* "01020304"
ASSUME DisplayOf("AppKey", [i \in 1..16 |-> 16 * (i - 1) + (i - 1)]) =
       <<48, 48, 49, 49, 50, 50, 51, 51, 52, 52, 53, 53, 54, 54, 55, 55, 56, 56, 57, 57, 97, 97, 98, 98, 99, 99,
         100, 100, 101, 101, 102, 102>>                                                       \* "00112233...eeff"
ASSUME \A t \in DOMAIN TextTypes :
          LET w == [i \in 1..TextTypes[t].n |-> (37 * i + 200) % 256] IN
          /\ TextValid(t, DisplayOf(t, w))
          /\ FromStrOf(t, DisplayOf(t, w)) = w
ASSUME ~TextValid("DevAddr", <<43, 49, 50, 51, 52, 53, 54, 55>>)                              \* "+1234567"
ASSUME TextValid("DevNonce", <<65, 98, 67, 100>>) /\ FromStrOf("DevNonce", <<65, 98, 67, 100>>) = <<205, 171>>
=============================================================================
