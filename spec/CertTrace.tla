----------------------------- MODULE CertTrace -----------------------------
(* The device built with its certification-protocol handler (cargo feature  *)
(* `certification`, FPort 224, TS009) under C04 / C06: whatever TS009        *)
(* command - well-formed, malformed, unknown, several in one frame - an     *)
(* authentic downlink carries, in a receive window or (Class C) outside a   *)
(* procedure,                                                               *)
(*   - no call panics or hangs,                                             *)
(*   - every frame the device hands to the radio is a well-formed data      *)
(*     uplink whose MIC verifies under the session key and a frame counter  *)
(*     strictly greater than that of the previous one (this includes the    *)
(*     answers the handler transmits on its own: EchoPayloadAns,            *)
(*     RxAppCntAns, DutVersionsAns),                                        *)
(*   - and the device still transmits afterwards: a send request on the     *)
(*     joined device hands a frame to the radio.                            *)
(* What each certification command should DO is outside the listed          *)
(* properties; this module deliberately states only the clauses above.      *)
(* Trace: the MAC-family event format (reset / abp / nb / a_proc / a_rxc).  *)
EXTENDS Integers, Sequences, FiniteSets, Json, IOUtils, TLC, TLCExt, Codec

Rec == ndJsonDeserialize(IOEnv.TRACE)
Allowed == IF "KNOWN" \in DOMAIN IOEnv THEN JsonDeserialize(IOEnv.KNOWN) ELSE <<>>
IsAllowed(sig) == \E i \in 1..Len(Allowed) : Allowed[i] = sig

VARIABLES l,        \* next trace line
          lastUp,   \* wire counter of the last uplink handed to the radio in this history (-1: none yet)
          dead,     \* the history ended in a panic (a listed open finding or a violation): the rest is not judged
          prevSess  \* session snapshot after the previous event (keys for decrypting what the next one receives)
vars == <<l, lastUp, dead, prevSess>>

Chk(name, exp, obs) ==
    IF exp = obs THEN TRUE ELSE PrintT(<<"MISMATCH", l, name, "expected", exp, "observed", obs>>) /\ FALSE
ChkT(name, cond) ==
    IF cond THEN TRUE ELSE PrintT(<<"MISMATCH", l, name, "expected", TRUE, "observed", FALSE>>) /\ FALSE
Known(sig, detail) == PrintT(<<"KNOWN", l, sig, detail>>)

\* the last frame the event delivered to the device (nb: the event's frame; async: the last reception of the call list)
RxFrames(e) ==
    IF e.ev = "nb" THEN (IF "bytes" \in DOMAIN e.frame THEN <<e.frame.bytes>> ELSE <<>>)
    ELSE LET rx == SelectSeq(e.calls, LAMBDA c : "out" \in DOMAIN c /\ c.out = "frame") IN [i \in 1..Len(rx) |-> rx[i].bytes]
\* The certification command of an FPort-224 payload that the handler acts upon: commands are taken in order
\* (TS009 lengths: 1, 2, 9, 32, 127 no payload; 4, 6 one octet; 7, 8 the rest of the frame, at least one octet); a
\* command with a reserved value (AdrBitChangeReq > 1, TxPeriodicityChangeReq > 10, TxFramesCtrlReq > 2) is passed
\* over; an unknown CID or a truncated command ends the walk.  -1: none.
RECURSIVE Effective(_)
Effective(p) ==
    IF p = <<>> THEN -1
    ELSE LET c == p[1] IN
         CASE c \in {1, 2, 9, 32, 127} -> c
           [] c = 8 -> IF Len(p) >= 2 THEN 8 ELSE -1
           [] c = 7 -> IF Len(p) >= 2 /\ p[2] <= 2 THEN 7 ELSE -1
           [] c \in {4, 6} -> IF Len(p) < 2 THEN -1
                              ELSE IF p[2] <= (IF c = 4 THEN 1 ELSE 10) THEN c
                              ELSE Effective(SubSeq(p, 3, Len(p)))
           [] OTHER -> -1
CertCid(e, ps) ==
    LET fr == RxFrames(e) IN
    IF fr = <<>> \/ ps.has # 1 THEN -1
    ELSE LET b == fr[Len(fr)] IN
         IF ~StructOk(b) THEN -1
         ELSE LET f == Fields(b) IN
              IF f.port # 224 \/ Len(f.frm) = 0 THEN -1
              ELSE Effective(DecryptFrm(b, ps.nwk, ps.app, <<0, 0>>))

\* KNOWN FINDING (open, S33): the handler's device events (DutResetReq, DutJoinReq, TxPeriodicityChangeReq) and its
\* LinkCheckReq / prepared-uplink responses have no representation in the public response types: the conversion
\* panics (async send, async Class C listen) or is unimplemented!() (nb).  One signature per front-end and command.
FrontOf(e) == IF e.ev = "nb" THEN "nb" ELSE IF e.ev = "a_rxc" THEN "async-listen" ELSE "async-send"
PanicSig(e, cid) == "cert-response-unrepresentable:" \o FrontOf(e) \o ":cid" \o ToString(cid)

\* the tx calls of an event, in order
TxCalls(e) == SelectSeq(e.calls, LAMBDA c : c.c = "tx")

RECURSIVE TxOk(_, _, _, _)
\* returns the wire counter of the last frame, or -2 after a failed clause
TxOk(calls, i, last, nwk) ==
    IF i > Len(calls) THEN last
    ELSE LET b == calls[i].bytes IN
         IF ~ChkT(<<"cert: transmitted frame is a well-formed data uplink", b>>,
                  StructOk(b) /\ IsUplinkMType(MTypeOf(b[1]))) THEN -2
         ELSE LET f == Fields(b) IN
              IF ~ChkT(<<"C06 cert: uplink counter strictly greater than the previous one", last, f.fcnt16>>, f.fcnt16 > last) THEN -2
              ELSE IF ~ChkT(<<"C06 cert: MIC verifies under the session key and the counter on the wire", f.fcnt16>>,
                            MicOk(b, nwk, <<0, f.fcnt16>>)) THEN -2
              ELSE TxOk(calls, i + 1, f.fcnt16, nwk)

IsSendRequest(e) == (e.ev = "nb" /\ e.kind = "send") \/ (e.ev = "a_proc" /\ e.args.kind = "send")
Judged(e) == e.ev \in {"nb", "a_proc", "a_rxc"}

\* the clauses on one event; prev = session snapshot before the event.  Result: [ok, last, dead]
Judge(e, prev) ==
    IF e.resp.k \in {"Panic", "Hang"} THEN
        LET cid == CertCid(e, prev)
            known == e.resp.k = "Panic" /\ cid >= 0 /\ IsAllowed(PanicSig(e, cid))
        IN [ok |-> IF known THEN Known(PanicSig(e, cid), e.resp.s)
                   ELSE ChkT(<<"C04 cert: call returns (no panic, no hang)", e.ev, e.resp.k, e.resp.s, "cid", cid>>, FALSE),
            last |-> lastUp, dead |-> TRUE]
    ELSE LET tx == TxCalls(e)
             r == TxOk(tx, 1, lastUp, e.sess.nwk)
             still == IF IsSendRequest(e) /\ e.sess.has = 1 /\ e.resp.k \notin {"ErrMac", "ErrRadio", "ErrState"}
                      THEN ChkT(<<"C04 cert: the device still transmits (a send request hands a frame to the radio)", e.resp.k>>, Len(tx) >= 1)
                      ELSE TRUE
         IN [ok |-> still /\ r # -2, last |-> IF r = -2 THEN lastUp ELSE r, dead |-> FALSE]

Ev(e) ==
    IF e.ev = "reset" THEN lastUp' = -1 /\ dead' = FALSE /\ prevSess' = [has |-> 0]
    ELSE IF dead \/ ~Judged(e) THEN UNCHANGED <<lastUp, dead>> /\ prevSess' = (IF "sess" \in DOMAIN e THEN e.sess ELSE prevSess)
    ELSE LET j == Judge(e, prevSess) IN
         \* histories are independent: a violated clause is printed (the runner reports it with its history) and
         \* validation goes on
         /\ (IF j.ok THEN TRUE ELSE TRUE)
         /\ lastUp' = j.last /\ dead' = j.dead /\ prevSess' = e.sess

Init == l = 1 /\ lastUp = -1 /\ dead = FALSE /\ prevSess = [has |-> 0]
Next == l <= Len(Rec) /\ Ev(Rec[l]) /\ l' = l + 1
Spec == Init /\ [][Next]_vars

TraceAccepted ==
    IF TLCGet("stats").diameter = Len(Rec) + 1 THEN TRUE
    ELSE PrintT(<<"TRACE-REJECTED", "matched", TLCGet("stats").diameter - 1, "of", Len(Rec)>>) /\ FALSE
=============================================================================
