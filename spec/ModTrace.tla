----------------------------- MODULE ModTrace -----------------------------
(* Trace validation of lora-modulation / driver LDRO decisions against     *)
(* Modulation.tla.  Every event is an independent observation of the       *)
(* implementation (a pure function call); the trace is accepted when every *)
(* line is matched by the specification.                                   *)
EXTENDS Modulation, Json, IOUtils, TLC, TLCExt

Rec == ndJsonDeserialize(IOEnv.TRACE)

VARIABLE l
vars == <<l>>

Chk(name, exp, obs) ==
    IF exp = obs THEN TRUE
    ELSE PrintT(<<"MISMATCH", l, name, "expected", exp, "observed", obs>>) /\ FALSE

\* value of a run-length step function [[len0,val],...] at len
StepVal(steps, len) ==
    LET idx == CHOOSE i \in 1..Len(steps) :
                  /\ steps[i][1] <= len
                  /\ (i = Len(steps) \/ steps[i + 1][1] > len)
    IN steps[idx][2]

\* --- time on air: one event = one (sf,bw,cr,header,preamble) tuple, all 256 lengths
ToaOk(e) ==
    /\ \A len \in 0..255 :
          Chk(<<"toa", e.sf, e.bw, e.cr, e.h, e.pre, len>>,
              <<Toa(e.sf, e.bw, e.cr, e.h = 1, e.pre, len)>>, <<StepVal(e.steps, len)>>)
    /\ \A len \in 0..254 :     \* monotone in the payload length (checked on the observation)
          Chk(<<"toa-monotone", e.sf, e.bw, e.cr, e.h, e.pre, len>>,
              TRUE, StepVal(e.steps, len) <= StepVal(e.steps, len + 1))
    /\ Chk(<<"toa-panic", e.sf, e.bw>>, 0, e.panics)

\* --- LDRO: one event = one implementation's decision for one (sf,bw)
\* impl in {"calc", "sx126x", "sx1272", "sx1276", "lr1110"}; what in {"decision","written","prepared"}
\* supported = 0 : the chip refuses the pair (nothing to check).
\* The LDRO bit as programmed into the chip, decoded from the raw SPI writes:
\*  sx126x  SetModulationParams (0x8B) byte 5;  lr1110 SetModulationParam (0x020F) byte 6;
\*  sx1276  RegModemConfig3 (0x26|0x80) bit 3;  sx1272 RegModemConfig1 (0x1D|0x80) bit 0.
LastWith(txns, P(_)) ==
    LET idx == {i \in 1..Len(txns) : P(txns[i])}
    IN IF idx = {} THEN <<>> ELSE txns[CHOOSE i \in idx : \A j \in idx : j <= i]
LdroWritten(impl, txns) ==
    CASE impl = "sx126x" -> LET t == LastWith(txns, LAMBDA t : Len(t) = 5 /\ t[1] = 139) IN IF t = <<>> THEN -1 ELSE t[5]
      [] impl = "lr1110" -> LET t == LastWith(txns, LAMBDA t : Len(t) = 6 /\ t[1] = 2 /\ t[2] = 15) IN IF t = <<>> THEN -1 ELSE t[6]
      [] impl = "sx1276" -> LET t == LastWith(txns, LAMBDA t : Len(t) = 2 /\ t[1] = 166) IN IF t = <<>> THEN -1 ELSE (t[2] \div 8) % 2
      [] impl = "sx1272" -> LET t == LastWith(txns, LAMBDA t : Len(t) = 2 /\ t[1] = 157) IN IF t = <<>> THEN -1 ELSE t[2] % 2
      [] OTHER -> -1

\* "... and the drivers program the chip accordingly": whatever the decision (also for the one pair where the
\* nominal and the exact bandwidth disagree about the 16.38 ms rule), the bit written is the driver's own decision
WrittenIsDecisionOk(e) ==
    IF e.supported = 1 /\ e.what = "written" /\ "dec" \in DOMAIN e
    THEN Chk(<<"ldro written = the driver's own decision", e.impl, e.sf, e.bw>>, e.dec, LdroWritten(e.impl, e.txns))
    ELSE TRUE

LdroOk(e) ==
    /\ WrittenIsDecisionOk(e)
    /\ IF e.supported = 0 \/ LdroAmbiguous(e.sf, e.bw) THEN TRUE
       ELSE Chk(<<"ldro", e.impl, e.what, e.sf, e.bw>>, IF Ldro(e.sf, e.bw) THEN 1 ELSE 0,
             \* "written": the writes of set_modulation_params alone; "prepared": the writes of set_modulation_params
             \* followed by set_packet_params over a register file (the LAST write to the register that holds the
             \* bit decides what the chip ends up with)
             IF e.what \in {"written", "prepared"} THEN LdroWritten(e.impl, e.txns) ELSE e.ldro)

\* all implementations agree with each other on one (sf,bw) (covers the ambiguous pair too)
LdroAgreeOk(e) ==
    Chk(<<"ldro-agree", e.sf, e.bw, e.decisions>>, TRUE,
        \A i, j \in 1..Len(e.decisions) : e.decisions[i] = e.decisions[j])

Match(e) ==
    CASE e.ev = "toa" -> ToaOk(e)
      [] e.ev = "ldro" -> LdroOk(e)
      [] e.ev = "ldro_agree" -> LdroAgreeOk(e)
      [] OTHER -> Chk("unknown event", "", e.ev)

Init == l = 1
\* Events are independent observations: a mismatch is printed (and counted by the runner) and
\* validation continues with the next event, so one run reports every deviating input.
Next == l <= Len(Rec) /\ IF Match(Rec[l]) THEN l' = l + 1 ELSE l' = l + 1
Spec == Init /\ [][Next]_vars

Accepted ==
    IF TLCGet("stats").diameter = Len(Rec) + 1 THEN TRUE
    ELSE PrintT(<<"TRACE-REJECTED", "matched", TLCGet("stats").diameter - 1, "of", Len(Rec)>>) /\ FALSE
=============================================================================
