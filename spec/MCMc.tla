-------------------------------- MODULE MCMc --------------------------------
(* Design-level model of the multicast group table (TS005) over a scaled     *)
(* counter space: every order of set-up requests (a slot receives a group:   *)
(* address, key, minMcFCount, maxMcFCount; a group already there is          *)
(* replaced), delete requests and frames heard (address, key, full counter;  *)
(* the wire carries the low half only).  The acceptance rule is the operator *)
(* McTrace.tla holds the implementation to (McCore!Judge), instantiated with *)
(* a 2-bit wire counter and a 1-bit upper half, so that roll-overs of the    *)
(* wire counter and the top of the counter range are reached within a few    *)
(* steps.                                                                    *)
(*                                                                           *)
(* Checked here (the design): the arithmetic rule agrees with the            *)
(* declarative reading of C05 for a multicast session - a frame is accepted  *)
(* iff it belongs to the lowest slot that has its address, carries that      *)
(* group's key, and its counter n satisfies next <= n < maxMcFCount and      *)
(* n < next + WM (the wire counter identifies it); accepted counters of one  *)
(* incarnation of a slot strictly increase, lie in [min, max), and a frame   *)
(* changes no other slot.                                                    *)
(*                                                                           *)
(* `hist` (hidden from the fingerprint by VIEW) records the event sequence   *)
(* that reached each state; with PrintEdges one sequence per TRANSITION is   *)
(* printed and executed on the real device (`vh mcdata seqs=`), where        *)
(* McTrace.tla judges every frame and the verdict this model predicts is     *)
(* compared with what the device reported.                                   *)
EXTENDS Integers, Sequences, FiniteSets, TLC, Json

CONSTANTS WM,          \* size of the wire counter space (4)
          HM,          \* largest upper half (1): counters 0 .. (HM + 1) * WM - 1
          PrintEdges, MaxLen

Core == INSTANCE McCore
Top == (HM + 1) * WM - 1
Pair(n) == <<n \div WM, n % WM>>
Val(c) == c[1] * WM + c[2]

Slots == 0..1
Addrs == {"A", "B"}
Keys == {1, 2}
Ranges == {<<0, 3>>, <<2, Top>>, <<3, 3>>, <<WM - 1, WM + 2>>}      \* (minMcFCount, maxMcFCount)

None == [on |-> FALSE]
VARIABLES tab,     \* slot -> None | [on, addr, key, next, max, min]
          last,    \* slot -> last counter accepted by the present incarnation (-1: none yet)
          hist
vars == <<tab, last, hist>>

Lowest(a) == IF \E g \in Slots : tab[g].on /\ tab[g].addr = a
             THEN CHOOSE g \in Slots : tab[g].on /\ tab[g].addr = a /\ \A h \in Slots : (tab[h].on /\ tab[h].addr = a) => g <= h
             ELSE -1

\* the declarative reading
Ideal(a, k, n) ==
    LET g == Lowest(a) IN
    /\ g >= 0
    /\ tab[g].key = k
    /\ Val(tab[g].next) <= n /\ n < Val(tab[g].max)
    /\ n < Val(tab[g].next) + WM

Step(ev) == /\ hist' = Append(hist, ev)
            /\ (PrintEdges => PrintT(<<"REPLAY", ToJson(hist')>>))

Setup(g, a, k, r) ==
    /\ tab' = [tab EXCEPT ![g] = [on |-> TRUE, addr |-> a, key |-> k, next |-> Pair(r[1]), max |-> Pair(r[2]), min |-> r[1]]]
    /\ last' = [last EXCEPT ![g] = -1]
    /\ Step([e |-> "setup", g |-> g, a |-> a, k |-> k, min |-> r[1], max |-> r[2]])

Delete(g) ==
    /\ tab' = [tab EXCEPT ![g] = None]
    /\ last' = [last EXCEPT ![g] = -1]
    /\ Step([e |-> "delete", g |-> g, was |-> IF tab[g].on THEN 1 ELSE 0])

Frame(a, k, n) ==
    LET g == Lowest(a)
        Auth(c) == g >= 0 /\ tab[g].key = k /\ Val(c) = n
        v == IF g < 0 THEN [kind |-> "ignore", n |-> <<>>]
             ELSE Core!Judge(WM, HM, tab[g].next, tab[g].max, n % WM, Auth)
    IN /\ Assert((v.kind = "accept") = Ideal(a, k, n), <<"the counter rule disagrees with the declarative reading", a, k, n, tab>>)
       /\ IF v.kind = "accept"
          THEN /\ Assert(n > last[g] /\ n >= tab[g].min, <<"accepted counter does not increase within the incarnation", g, n, last>>)
               /\ tab' = [tab EXCEPT ![g].next = Core!Inc(WM, HM, v.n)]
               /\ last' = [last EXCEPT ![g] = n]
          ELSE UNCHANGED <<tab, last>>
       /\ Step([e |-> "frame", a |-> a, k |-> k, n |-> n, acc |-> IF v.kind = "accept" THEN 1 ELSE 0,
                g |-> IF v.kind = "accept" THEN g ELSE -1])

Init == tab = [g \in Slots |-> None] /\ last = [g \in Slots |-> -1] /\ hist = <<>>
Next == \/ \E g \in Slots, a \in Addrs, k \in Keys, r \in Ranges : Setup(g, a, k, r)
        \/ \E g \in Slots : Delete(g)
        \/ \E a \in Addrs, k \in Keys, n \in 0..Top : Frame(a, k, n)
Spec == Init /\ [][Next]_vars

\* ---- invariants
NextFollowsLast == \A g \in Slots : tab[g].on =>
                      /\ (last[g] = -1 => tab[g].next = Pair(tab[g].min))
                      /\ (last[g] >= 0 => Val(tab[g].next) = (IF last[g] = Top THEN Top ELSE last[g] + 1))
AcceptedInRange == \A g \in Slots : (tab[g].on /\ last[g] >= 0) => (tab[g].min <= last[g] /\ last[g] < Val(tab[g].max))
EmptySlotHasNoHistory == \A g \in Slots : ~tab[g].on => last[g] = -1

Short == Len(hist) <= MaxLen
MView == <<tab, last>>
=============================================================================
