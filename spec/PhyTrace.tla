------------------------------ MODULE PhyTrace ------------------------------
(* C14: the PHY driver (lora-phy `LoRa<Sx126x>`) and the radio chip never     *)
(* disagree about the radio's state.                                         *)
(*                                                                           *)
(* The trace is a concatenation of histories; each starts with a `new`       *)
(* event (power-on reset + LoRa::new) followed by one event per API call.    *)
(* An event carries the RAW bus events of the call (SPI transactions with    *)
(* written and read bytes, busy waits, interrupt waits, resets, RF switch)   *)
(* and the driver's bookkeeping afterwards.  This module owns a small        *)
(* abstract SX126x (datasheet DS.SX1261-2 sections 9, 13): which mode each   *)
(* command enters, what a sleeping chip accepts, which configuration         *)
(* survives which sleep, how interrupts end an operation.  The chip model is *)
(* stepped by DECODING THE BYTES that were really sent.                      *)
(*                                                                           *)
(* Exactly the four clauses of the property are checked:                     *)
(*  1 an operation invoked in the wrong mode is refused without bus traffic; *)
(*  2 the chip is never commanded while asleep without being woken first;    *)
(*  3 after a cold sleep / reset everything a transmission or reception      *)
(*    depends on is programmed again before it starts;                       *)
(*  4 after a failed or timed-out operation the chip is in standby and the   *)
(*    driver knows it.                                                       *)
EXTENDS Integers, Sequences, FiniteSets, Json, IOUtils, TLC, TLCExt

Rec == ndJsonDeserialize(IOEnv.TRACE)
Allowed == IF "KNOWN" \in DOMAIN IOEnv THEN JsonDeserialize(IOEnv.KNOWN) ELSE <<>>
IsAllowed(sig) == \E i \in 1..Len(Allowed) : Allowed[i] = sig

VARIABLES l,      \* next trace line
          cm,     \* chip mode
          prog,   \* configuration items valid since the last cold start
          taint   \* signature of an open finding already matched in this history ("" if none): driver and chip
                  \* are then known to be out of step and later clause 2/3 failures are its consequences
vars == <<l, cm, prog, taint>>

Chk(name, exp, obs) ==
    IF exp = obs THEN TRUE
    ELSE PrintT(<<"MISMATCH", l, name, "expected", exp, "observed", obs>>) /\ FALSE
ChkT(name, cond) ==
    IF cond THEN TRUE ELSE PrintT(<<"MISMATCH", l, name, "expected", TRUE, "observed", FALSE>>) /\ FALSE
Known(sig, detail) == PrintT(<<"KNOWN", l, sig, detail>>)
\* a clause violated while stepping the bus: a consequence of an already matched open finding, or a violation
Viol(s, name) == IF s.taint # "" /\ IsAllowed(s.taint) THEN Known(s.taint, <<"consequence", name>>) ELSE ChkT(name, FALSE)

\* ---------------------------------------------------------------- the abstract SX126x
Asleep(c) == c \in {"sleep_warm", "sleep_cold"}

\* configuration item programmed by a command (<<>> if none)
ItemOf(w) ==
    CASE w[1] = 138 -> {"pkttype"}                                   \* SetPacketType
      [] w[1] = 13 /\ Len(w) >= 3 /\ w[2] = 7 /\ w[3] = 64 -> {"sync"}   \* WriteRegister 0x0740
      [] w[1] = 150 -> {"regulator"}                                  \* SetRegulatorMode
      [] w[1] = 151 -> {"tcxo"}                                       \* SetDIO3AsTcxoCtrl
      [] w[1] = 143 -> {"bufbase"}                                    \* SetBufferBaseAddress
      [] w[1] = 139 -> {"modulation"}                                 \* SetModulationParams
      [] w[1] = 140 -> {"packet"}                                     \* SetPacketParams
      [] w[1] = 8 -> {"irq"}                                          \* SetDioIrqParams
      [] w[1] = 134 -> {"freq"}                                       \* SetRfFrequency
      [] w[1] = 149 -> {"paconfig"}                                   \* SetPaConfig
      [] w[1] = 142 -> {"txparams"}                                   \* SetTxParams
      [] OTHER -> {}

Base == {"pkttype", "regulator", "tcxo", "modulation", "freq"}
NeedTx == Base \cup {"sync", "bufbase", "packet", "irq", "paconfig", "txparams"}
NeedRx == Base \cup {"sync", "bufbase", "packet", "irq"}
NeedCad == Base \cup {"sync", "irq"}
NeedListen == Base

\* what an operation start requires, given the API call it belongs to
Needed(op, call) ==
    CASE op = 131 -> NeedTx
      [] op = 209 -> NeedTx \ {"packet", "sync", "bufbase"}
      [] op = 197 -> NeedCad
      [] op \in {130, 148} -> IF call = "listen" THEN NeedListen ELSE NeedRx
      [] OTHER -> {}

\* state after one bus event; s = [cm, prog, ok]
StepBus(s, b, call) ==
    IF b.t = "reset" THEN
        IF b.ok = 1 THEN [s EXCEPT !.cm = "stdby", !.prog = {}] ELSE s
    ELSE IF b.t # "spi" \/ b.ok = 0 THEN s           \* busy / irq waits, RF switch; a failed transfer reaches nothing
    ELSE
      LET w == b.w
          op == w[1] IN
      IF Asleep(s.cm) THEN
          \* clause 2: a sleeping chip may only be woken (GetStatus on NSS); anything else is lost or corrupts the wake-up
          IF op = 192 THEN [s EXCEPT !.cm = "stdby"]
          ELSE [s EXCEPT !.ok = Viol(s, <<"C14-2 chip commanded while asleep without wake-up", call, w>>)]
      ELSE
        CASE op = 132 ->                                                   \* SetSleep
                IF (w[2] \div 4) % 2 = 1 THEN [s EXCEPT !.cm = "sleep_warm"]
                ELSE [s EXCEPT !.cm = "sleep_cold", !.prog = {}]
          [] op = 128 -> [s EXCEPT !.cm = "stdby"]                          \* SetStandby
          [] op \in {131, 209, 197, 130, 148} ->                            \* SetTx / CW / SetCAD / SetRx / SetRxDutyCycle
                LET missing == Needed(op, call) \ s.prog
                    okc == IF missing = {} THEN TRUE
                           ELSE Viol(s, <<"C14-3 operation started without reprogramming after cold start", call, op, "missing", missing>>)
                    newcm == CASE op = 131 -> "tx" [] op = 209 -> "cw" [] op = 197 -> "cad"
                               [] op = 148 -> "rxdc"
                               [] OTHER -> IF w[2] = 255 /\ w[3] = 255 /\ w[4] = 255 THEN "rxc" ELSE "rx"
                IN [s EXCEPT !.cm = newcm, !.ok = s.ok /\ okc]
          [] op = 18 /\ Len(b.r) >= 3 ->                                     \* GetIrqStatus: the chip reports how the operation ended
                LET f == b.r[2] * 256 + b.r[3]
                    has(m) == (f \div m) % 2 = 1
                    done == CASE s.cm = "tx" -> has(1) \/ has(512)
                              [] s.cm = "rx" -> has(2) \/ has(512)
                              [] s.cm = "cad" -> has(128)
                              [] OTHER -> FALSE            \* continuous / duty-cycle reception goes on
                IN IF done THEN [s EXCEPT !.cm = "stdby"] ELSE s
          [] OTHER -> [s EXCEPT !.prog = s.prog \cup ItemOf(w)]

\* ---------------------------------------------------------------- the abstract SX1276 (datasheet sections 4.1, 6)
\* Registers keep their content in sleep (no cold/warm distinction); only a reset loses the configuration.
\* RegOpMode (0x01) bits 2..0 select the mode; the FIFO is not accessible in sleep mode.
Items127(addr, n) ==
    LET covers(a) == addr <= a /\ a < addr + n IN
    (IF covers(8) THEN {"freq"} ELSE {})                      \* RegFrfLsb completes a frequency update
    \cup (IF covers(9) THEN {"pa"} ELSE {})
    \cup (IF covers(14) THEN {"txbase"} ELSE {})
    \cup (IF covers(15) THEN {"rxbase"} ELSE {})
    \cup (IF covers(29) THEN {"modem1"} ELSE {})
    \cup (IF covers(30) THEN {"modem2"} ELSE {})
    \cup (IF covers(33) THEN {"preamble"} ELSE {})
    \cup (IF covers(34) THEN {"paylen"} ELSE {})
    \cup (IF covers(57) THEN {"sync"} ELSE {})
    \cup (IF covers(17) THEN {"irqmask"} ELSE {})
Base127 == {"freq", "modem1", "modem2", "sync"}
Needed127(mode, call) ==
    CASE mode = 3 -> IF call = "cw" THEN Base127 \cup {"pa"} ELSE Base127 \cup {"pa", "txbase", "preamble", "paylen", "irqmask"}
      [] mode \in {5, 6} -> IF call = "listen" THEN {"freq", "modem1"} ELSE Base127 \cup {"rxbase", "preamble", "irqmask"}
      [] mode = 7 -> Base127 \cup {"irqmask"}
      [] OTHER -> {}

StepBus127(s, b, call) ==
    IF b.t = "reset" THEN
        IF b.ok = 1 THEN [s EXCEPT !.cm = "stdby", !.prog = {}] ELSE s
    ELSE IF b.t # "spi" \/ b.ok = 0 THEN s
    ELSE
      LET w == b.w
          isWrite == w[1] >= 128
          addr == w[1] % 128
          n == IF isWrite THEN Len(w) - 1 ELSE Len(b.r) IN
      IF addr = 0 THEN        \* FIFO access
          IF s.cm = "sleep"
          THEN [s EXCEPT !.ok = Viol(s, <<"C14-2 FIFO accessed while the chip is asleep", call>>)]
          ELSE s
      ELSE IF isWrite /\ addr = 1 THEN       \* RegOpMode
          LET mode == w[2] % 8
              lora == w[2] >= 128
              missing == Needed127(mode, call) \ s.prog
              okc == IF mode \in {3, 5, 6, 7}
                     THEN /\ (IF missing = {} THEN TRUE
                              \* (former finding S37, repaired: continuous_wave() leaves the driver in mode Transmit and a
                              \* tx() straight after it used to be accepted although no payload length was ever programmed;
                              \* the signature is not in the list any more, so a recurrence is a violation)
                              ELSE IF s.cm = "cw" /\ call = "tx" /\ missing \subseteq {"paylen", "txbase"} /\ IsAllowed("tx-after-cw-unprepared")
                                   THEN Known("tx-after-cw-unprepared", <<"missing", missing>>)
                              ELSE Viol(s, <<"C14-3 operation started without reprogramming after reset", call, mode, "missing", missing>>))
                          /\ (IF lora THEN TRUE ELSE Viol(s, <<"C14-3 operation started outside LoRa mode", call, mode>>))
                     ELSE TRUE
              newcm == CASE mode = 0 -> "sleep" [] mode = 1 -> "stdby" [] mode = 3 -> (IF call = "cw" THEN "cw" ELSE "tx") [] mode = 5 -> "rxc"
                         [] mode = 6 -> "rx" [] mode = 7 -> "cad" [] OTHER -> "fs"
          IN [s EXCEPT !.cm = newcm, !.ok = s.ok /\ okc]
      ELSE IF ~isWrite /\ addr = 18 /\ Len(b.r) >= 1 THEN      \* RegIrqFlags read: how the operation ended
          LET f == b.r[1]
              has(m) == (f \div m) % 2 = 1
              done == CASE s.cm = "tx" -> has(8)
                        [] s.cm = "rx" -> has(64) \/ has(128)
                        [] s.cm = "cad" -> has(4)
                        [] OTHER -> FALSE
          IN IF done THEN [s EXCEPT !.cm = "stdby"] ELSE s
      ELSE IF isWrite THEN [s EXCEPT !.prog = s.prog \cup Items127(addr, n)]
      ELSE s

\* ---------------------------------------------------------------- the abstract LR1110 (user manual UM.LR1110, 2-4)
\* 16-bit opcodes; a command's response is read in a separate, read-only transaction (Stat1 first).  With no
\* response pending a read-only transaction returns Stat1, Stat2 and the 32-bit interrupt status.  In sleep mode
\* the chip only reacts to NSS going low (any transaction wakes it; a command sent that way is lost), the
\* configuration survives a sleep with retention (SetSleep bit 0) and is lost otherwise.
Op16(w) == w[1] * 256 + w[2]
IsReadOnly(w) == \A i \in 1..Len(w) : w[i] = 0
\* commands answered in the next read transaction
RespOps == {257, 269, 281, 282, 288, 293, 294, 262, 264, 266, 513, 514, 515, 516, 517, 560}
ItemOfLr(w) ==
    LET op == Op16(w) IN
    CASE op = 526 -> {"pkttype"}           \* 0x020E SetPktType
      [] op = 555 -> {"sync"}              \* 0x022B SetLoRaSyncWord
      [] op = 272 -> {"regulator"}         \* 0x0110 SetRegMode
      [] op = 279 -> {"tcxo"}              \* 0x0117 SetTcxoMode
      [] op = 274 -> {"rfswitch"}          \* 0x0112 SetDioAsRfSwitch
      [] op = 527 -> {"modulation"}        \* 0x020F SetModulationParam
      [] op = 528 -> {"packet"}            \* 0x0210 SetPktParam
      [] op = 275 -> {"irq"}               \* 0x0113 SetDioIrqParams
      [] op = 523 -> {"freq"}              \* 0x020B SetRfFrequency
      [] op = 533 -> {"paconfig"}          \* 0x0215 SetPaCfg
      [] op = 529 -> {"txparams"}          \* 0x0211 SetTxParams
      [] OTHER -> {}
\* the recorded board uses the DC-DC regulator, a TCXO and the DIOs as RF switch: all three are lost with the rest
BaseLr == {"pkttype", "regulator", "tcxo", "rfswitch", "modulation", "freq"}
NeededLr(op, call) ==
    CASE op = 522 -> BaseLr \cup {"sync", "packet", "irq", "paconfig", "txparams"}      \* SetTx
      [] op = 537 -> BaseLr \cup {"irq", "paconfig", "txparams"}                        \* SetTxCw
      [] op = 536 -> BaseLr \cup {"sync", "irq"}                                        \* SetCad
      [] op \in {521, 532} -> IF call = "listen" THEN BaseLr ELSE BaseLr \cup {"sync", "packet", "irq"}
      [] OTHER -> {}

StepBusLr(s, b, call) ==
    IF b.t = "reset" THEN
        IF b.ok = 1 THEN [s EXCEPT !.cm = "stdby", !.prog = {}, !.pend = FALSE] ELSE s
    ELSE IF b.t # "spi" \/ b.ok = 0 THEN s
    ELSE
      LET w == b.w IN
      IF Asleep(s.cm) THEN
          \* clause 2: only a transaction that sends no command may wake the chip
          IF IsReadOnly(w) THEN [s EXCEPT !.cm = "stdby", !.pend = FALSE]
          ELSE [s EXCEPT !.ok = Viol(s, <<"C14-2 chip commanded while asleep without wake-up", call, w>>)]
      ELSE IF IsReadOnly(w) THEN
          IF s.pend THEN [s EXCEPT !.pend = FALSE]                       \* the response of the previous command
          ELSE IF Len(b.r) >= 6 THEN                                      \* status: how the operation ended
              LET f == b.r[5] * 256 + b.r[6]
                  has(m) == (f \div m) % 2 = 1
                  \* the driver's documented assumption about this chip - the flags may already be cleared when the
                  \* status is read after the interrupt line fired, an all-zero word then means the transmission is
                  \* over - is taken as the chip's behaviour
                  f32 == ((b.r[3] * 256 + b.r[4]) * 256 + b.r[5]) * 256 + b.r[6]
                  done == CASE s.cm = "tx" -> has(4) \/ has(1024) \/ f32 = 0
                            [] s.cm = "rx" -> has(8) \/ has(1024)
                            [] s.cm = "cad" -> has(256)
                            [] OTHER -> FALSE
              IN IF done THEN [s EXCEPT !.cm = "stdby"] ELSE s
          ELSE s
      ELSE IF Len(w) < 2 THEN s
      ELSE
        LET op == Op16(w)
            s1 == [s EXCEPT !.pend = (op \in RespOps)] IN
        CASE op = 283 ->                                                   \* 0x011B SetSleep
                IF Len(w) >= 3 /\ w[3] % 2 = 1 THEN [s1 EXCEPT !.cm = "sleep_warm"]
                ELSE [s1 EXCEPT !.cm = "sleep_cold", !.prog = {}]
          [] op = 284 -> [s1 EXCEPT !.cm = "stdby"]                         \* 0x011C SetStandby
          [] op \in {522, 537, 536, 521, 532} ->                            \* SetTx / SetTxCw / SetCad / SetRx / SetRxDutyCycle
                LET missing == NeededLr(op, call) \ s.prog
                    okc == IF missing = {} THEN TRUE
                           ELSE Viol(s, <<"C14-3 operation started without reprogramming after cold start", call, op, "missing", missing>>)
                    newcm == CASE op = 522 -> "tx" [] op = 537 -> "cw" [] op = 536 -> "cad" [] op = 532 -> "rxdc"
                               [] OTHER -> IF Len(w) >= 5 /\ w[3] = 255 /\ w[4] = 255 /\ w[5] = 255 THEN "rxc" ELSE "rx"
                IN [s1 EXCEPT !.cm = newcm, !.ok = s.ok /\ okc]
          [] OTHER -> [s1 EXCEPT !.prog = s.prog \cup ItemOfLr(w)]

\* "sx1262-lw" / "sx1276-lw" / "lr1110-lw": the same chips driven through the LoRaWAN radio adapter (lorawan_radio.rs)
Is127(chip) == chip \in {"sx1276", "sx1276-lw", "sx1272", "sx1272-lw"}
IsLr(chip) == chip \in {"lr1110", "lr1110-lw"}
RECURSIVE RunBus(_, _, _, _, _)
RunBus(s, bus, i, call, chip) ==
    IF i > Len(bus) THEN s
    ELSE RunBus(IF Is127(chip) THEN StepBus127(s, bus[i], call)
                ELSE IF IsLr(chip) THEN StepBusLr(s, bus[i], call)
                ELSE StepBus(s, bus[i], call), bus, i + 1, call, chip)

\* ---------------------------------------------------------------- clauses on one API call
ModeGate(call) ==
    CASE call = "tx" -> {"transmit"}
      [] call \in {"start_rx", "complete_rx", "switch_ch"} -> {"rx_single", "rx_cont", "rx_duty"}
      [] call = "cad" -> {"cad"}
      \* adapter: rx_single / rx_continuous are start_rx + complete_rx on whatever setup_rx prepared
      [] call \in {"lw_rx_single", "lw_rx_cont"} -> {"rx_single", "rx_cont", "rx_duty"}
      [] OTHER -> {}
\* how a wrong-mode call may be refused (the adapter refuses with NoRxParams when setup_rx never succeeded)
RefusalErrs(call) == IF call \in {"lw_rx_single", "lw_rx_cont"} THEN {"InvalidRadioMode", "NoRxParams"} ELSE {"InvalidRadioMode"}
\* the operation failed or timed out (the adapter reports a reception time-out as an Ok value)
Failed(e) == e.res = "err" \/ e.timed_out = 1
\* an error during continuous reception leaves the decision to the caller (documented API contract)
ContRx(e) == e.call \in {"complete_rx", "lw_rx_cont", "lw_rx_single"} /\ e.pre_mode = "rx_cont"

\* refusals that happen before anything is attempted: the wrong-mode refusal, and any other error returned
\* without a single bus event that leaves the driver's belief as it was (e.g. the sx127x refusing duty-cycle
\* reception in start_rx): chip and driver are exactly where the previous call left them, so clause 4 has
\* nothing new to say about them
IsRefusal(e) == e.res = "err" /\ (e.err \in RefusalErrs(e.call) \/ (e.bus = <<>> /\ e.fault < 0 /\ e.mode = e.pre_mode))

\* the fault hit the very command that would have restored standby (a single fault cannot be survived there):
\* the transfer of the standby command itself, the BUSY wait that completes it (the command reached the chip but
\* the driver cannot know), or the RF switch being turned off after it
IsStandbyCmd(e, b) ==
    \/ (b.t = "spi" /\ ~Is127(e.chip) /\ ~IsLr(e.chip) /\ b.w[1] = 128)
    \/ (b.t = "spi" /\ IsLr(e.chip) /\ Len(b.w) >= 2 /\ b.w[1] = 1 /\ b.w[2] = 28)
    \/ (b.t = "spi" /\ Is127(e.chip) /\ b.w[1] = 129)
FaultOnStandbyCmd(e) ==
    e.fault >= 0 /\ e.fault + 1 <= Len(e.bus)
    /\ LET b == e.bus[e.fault + 1] IN
          \/ b.t = "rfoff"
          \/ IsStandbyCmd(e, b)
          \/ (b.t = "busy" /\ e.fault >= 1 /\ IsStandbyCmd(e, e.bus[e.fault]))

\* the injected fault came on top of an operation that had already failed on its own (it hit the clean-up
\* after the time-out / the refused packet): two failures, outside the single-fault quantifier (DESIGN 7.7).  A false belief of
\* standby is still never excused.
\* (the errors an injected bus fault itself surfaces as; any other error is the operation's own failure - a
\* time-out, a packet that does not fit the caller's buffer, an unsupported mode)
BusErrs == {"SPI", "Busy", "Irq", "Reset", "RfSwitchRx", "RfSwitchTx"}
SecondFailure(e) == e.fault >= 0 /\ (e.timed_out = 1 \/ (e.res = "err" /\ e.err \notin BusErrs))

\* the open finding S23 matches this call (injected bus fault, no standby / driver not reset)
S23(e, s) ==
    /\ Failed(e) /\ ~IsRefusal(e) /\ ~ContRx(e)
    /\ ~(s.cm = "stdby" /\ e.mode = "standby") /\ ~FaultOnStandbyCmd(e) /\ ~SecondFailure(e)
    /\ e.fault >= 0
    /\ IF e.mode = "standby" /\ s.cm # "stdby" THEN IsAllowed("phy-fault-false-standby:" \o e.call)
       ELSE IsAllowed("phy-fault-no-standby:" \o e.call)

CallOk(e, s) ==
    \* clause 1
    /\ IF ModeGate(e.call) # {} /\ e.pre_mode \notin ModeGate(e.call)
       THEN /\ ChkT(<<"C14-1 wrong-mode call refused", e.call, e.pre_mode, e.res, e.err>>, e.res = "err" /\ e.err \in RefusalErrs(e.call))
            /\ Chk(<<"C14-1 wrong-mode call made no bus traffic", e.call>>, <<>>, e.bus)
       ELSE TRUE
    \* clauses 2 and 3 were evaluated while stepping the bus
    /\ s.ok
    \* clause 4
    /\ IF Failed(e) /\ ~IsRefusal(e) /\ ~ContRx(e)
       THEN IF s.cm = "stdby" /\ e.mode = "standby" THEN TRUE
            \* whatever went wrong, the driver must not come out BELIEVING standby while the chip is somewhere else:
            \* that belief makes every later call skip the standby command.  Not excused by where the fault hit, and a
            \* finding of its own kind (S23 lists the calls that keep the mode they had or were about to enter; the
            \* false belief is listed per call under phy-fault-false-standby)
            ELSE IF e.mode = "standby" /\ s.cm # "stdby"
                 THEN IF e.fault >= 0 /\ IsAllowed("phy-fault-false-standby:" \o e.call)
                      THEN Known("phy-fault-false-standby:" \o e.call, <<e.err, "fault", e.fault, "chip", s.cm>>)
                      ELSE ChkT(<<"C14-4 after a failed operation the driver believes standby while the chip is not", e.call, e.err,
                                  "fault at", e.fault, "chip", s.cm>>, FALSE)
            ELSE IF FaultOnStandbyCmd(e) \/ SecondFailure(e) THEN TRUE
            \* KNOWN FINDING (open, DESIGN 9 S23): an injected bus fault (not a timeout / interrupt error, which the
            \* driver handles) returns without forcing standby; listed per API call
            ELSE IF e.fault >= 0 /\ IsAllowed("phy-fault-no-standby:" \o e.call)
                 THEN Known("phy-fault-no-standby:" \o e.call, <<e.err, "fault", e.fault, "chip", s.cm, "driver", e.mode>>)
                 ELSE ChkT(<<"C14-4 after a failed operation chip in standby and driver knows it", e.call, e.err,
                             "fault at", e.fault, "chip", s.cm, "driver", e.mode>>, FALSE)
       ELSE TRUE
    /\ Chk("no panic", FALSE, e.res = "panic")

Ev(e) ==
    IF e.skipped = 1 THEN UNCHANGED <<cm, prog, taint>>
    ELSE LET t0 == IF e.first = 1 THEN "" ELSE taint
             s0 == IF e.first = 1 THEN [cm |-> "stdby", prog |-> {}, ok |-> TRUE, taint |-> "", pend |-> FALSE]
                   ELSE [cm |-> cm, prog |-> prog, ok |-> TRUE, taint |-> t0, pend |-> FALSE]
             s == RunBus(s0, e.bus, 1, e.call, e.chip)
         IN \* histories are independent: a violated clause is printed (the runner reports it with the
            \* history) and validation continues with the chip model stepped by what was really sent
            /\ IF CallOk(e, s) THEN TRUE ELSE TRUE
            /\ cm' = s.cm /\ prog' = s.prog
            /\ taint' = IF S23(e, s) /\ e.mode = "standby" /\ s.cm # "stdby" THEN "phy-fault-false-standby:" \o e.call
                        ELSE IF S23(e, s) \/ (FaultOnStandbyCmd(e) /\ e.res = "err") THEN "phy-fault-no-standby:" \o e.call ELSE t0

Init == l = 1 /\ cm = "stdby" /\ prog = {} /\ taint = ""
Next == l <= Len(Rec) /\ Ev(Rec[l]) /\ l' = l + 1
Spec == Init /\ [][Next]_vars

TraceAccepted ==
    IF TLCGet("stats").diameter = Len(Rec) + 1 THEN TRUE
    ELSE PrintT(<<"TRACE-REJECTED", "matched", TLCGet("stats").diameter - 1, "of", Len(Rec)>>) /\ FALSE
=============================================================================
