------------------------------ MODULE PhyTrace ------------------------------
(* C14: the PHY driver (lora-phy `LoRa<Sx126x>`) and the radio chip never     *)
(* disagree about the radio's state.                                         *)
(*                                                                           *)
(* The trace is a concatenation of histories; each starts with a `new`       *)
(* event (power-on reset + LoRa::new) followed by one event per API call.    *)
(* An event carries the RAW bus events of the call (SPI transactions with    *)
(* written and read bytes, busy waits, interrupt waits, resets, RF switch)   *)
(* and the driver's bookkeeping afterwards.  This module owns a small        *)
(* abstract SX126x (datasheet DS.SX1261-2 sections 9, 13): which mode each   *)
(* command enters, what a sleeping chip accepts, which configuration         *)
(* survives which sleep, how interrupts end an operation.  The chip model is *)
(* stepped by DECODING THE BYTES that were really sent.                      *)
(*                                                                           *)
(* Exactly the four clauses of the property are checked:                     *)
(*  1 an operation invoked in the wrong mode is refused without bus traffic; *)
(*  2 the chip is never commanded while asleep without being woken first;    *)
(*  3 after a cold sleep / reset everything a transmission or reception      *)
(*    depends on is programmed again before it starts;                       *)
(*  4 after a failed or timed-out operation the chip is in standby and the   *)
(*    driver knows it.                                                       *)
EXTENDS Integers, Sequences, FiniteSets, Json, IOUtils, TLC, TLCExt

Rec == ndJsonDeserialize(IOEnv.TRACE)
Allowed == IF "KNOWN" \in DOMAIN IOEnv THEN JsonDeserialize(IOEnv.KNOWN) ELSE <<>>
IsAllowed(sig) == \E i \in 1..Len(Allowed) : Allowed[i] = sig

VARIABLES l,      \* next trace line
          cm,     \* chip mode
          prog    \* configuration items valid since the last cold start
vars == <<l, cm, prog>>

Chk(name, exp, obs) ==
    IF exp = obs THEN TRUE
    ELSE PrintT(<<"MISMATCH", l, name, "expected", exp, "observed", obs>>) /\ FALSE
ChkT(name, cond) ==
    IF cond THEN TRUE ELSE PrintT(<<"MISMATCH", l, name, "expected", TRUE, "observed", FALSE>>) /\ FALSE
Known(sig, detail) == PrintT(<<"KNOWN", l, sig, detail>>)

\* ---------------------------------------------------------------- the abstract SX126x
Asleep(c) == c \in {"sleep_warm", "sleep_cold"}

\* configuration item programmed by a command (<<>> if none)
ItemOf(w) ==
    CASE w[1] = 138 -> {"pkttype"}                                   \* SetPacketType
      [] w[1] = 13 /\ Len(w) >= 3 /\ w[2] = 7 /\ w[3] = 64 -> {"sync"}   \* WriteRegister 0x0740
      [] w[1] = 150 -> {"regulator"}                                  \* SetRegulatorMode
      [] w[1] = 151 -> {"tcxo"}                                       \* SetDIO3AsTcxoCtrl
      [] w[1] = 143 -> {"bufbase"}                                    \* SetBufferBaseAddress
      [] w[1] = 139 -> {"modulation"}                                 \* SetModulationParams
      [] w[1] = 140 -> {"packet"}                                     \* SetPacketParams
      [] w[1] = 8 -> {"irq"}                                          \* SetDioIrqParams
      [] w[1] = 134 -> {"freq"}                                       \* SetRfFrequency
      [] w[1] = 149 -> {"paconfig"}                                   \* SetPaConfig
      [] w[1] = 142 -> {"txparams"}                                   \* SetTxParams
      [] OTHER -> {}

Base == {"pkttype", "regulator", "tcxo", "modulation", "freq"}
NeedTx == Base \cup {"sync", "bufbase", "packet", "irq", "paconfig", "txparams"}
NeedRx == Base \cup {"sync", "bufbase", "packet", "irq"}
NeedCad == Base \cup {"sync", "irq"}
NeedListen == Base

\* what an operation start requires, given the API call it belongs to
Needed(op, call) ==
    CASE op = 131 -> NeedTx
      [] op = 209 -> NeedTx \ {"packet", "sync", "bufbase"}
      [] op = 197 -> NeedCad
      [] op \in {130, 148} -> IF call = "listen" THEN NeedListen ELSE NeedRx
      [] OTHER -> {}

\* state after one bus event; s = [cm, prog, ok]
StepBus(s, b, call) ==
    IF b.t = "reset" THEN
        IF b.ok = 1 THEN [s EXCEPT !.cm = "stdby", !.prog = {}] ELSE s
    ELSE IF b.t # "spi" \/ b.ok = 0 THEN s           \* busy / irq waits, RF switch; a failed transfer reaches nothing
    ELSE
      LET w == b.w
          op == w[1] IN
      IF Asleep(s.cm) THEN
          \* clause 2: a sleeping chip may only be woken (GetStatus on NSS); anything else is lost or corrupts the wake-up
          IF op = 192 THEN [s EXCEPT !.cm = "stdby"]
          ELSE [s EXCEPT !.ok = ChkT(<<"C14-2 chip commanded while asleep without wake-up", call, w>>, FALSE)]
      ELSE
        CASE op = 132 ->                                                   \* SetSleep
                IF (w[2] \div 4) % 2 = 1 THEN [s EXCEPT !.cm = "sleep_warm"]
                ELSE [s EXCEPT !.cm = "sleep_cold", !.prog = {}]
          [] op = 128 -> [s EXCEPT !.cm = "stdby"]                          \* SetStandby
          [] op \in {131, 209, 197, 130, 148} ->                            \* SetTx / CW / SetCAD / SetRx / SetRxDutyCycle
                LET missing == Needed(op, call) \ s.prog
                    okc == ChkT(<<"C14-3 operation started without reprogramming after cold start", call, op, "missing", missing>>,
                                missing = {})
                    newcm == CASE op = 131 -> "tx" [] op = 209 -> "cw" [] op = 197 -> "cad"
                               [] op = 148 -> "rxdc"
                               [] OTHER -> IF w[2] = 255 /\ w[3] = 255 /\ w[4] = 255 THEN "rxc" ELSE "rx"
                IN [s EXCEPT !.cm = newcm, !.ok = s.ok /\ okc]
          [] op = 18 /\ Len(b.r) >= 3 ->                                     \* GetIrqStatus: the chip reports how the operation ended
                LET f == b.r[2] * 256 + b.r[3]
                    has(m) == (f \div m) % 2 = 1
                    done == CASE s.cm = "tx" -> has(1) \/ has(512)
                              [] s.cm = "rx" -> has(2) \/ has(512)
                              [] s.cm = "cad" -> has(128)
                              [] OTHER -> FALSE            \* continuous / duty-cycle reception goes on
                IN IF done THEN [s EXCEPT !.cm = "stdby"] ELSE s
          [] OTHER -> [s EXCEPT !.prog = s.prog \cup ItemOf(w)]

RECURSIVE RunBus(_, _, _, _)
RunBus(s, bus, i, call) == IF i > Len(bus) THEN s ELSE RunBus(StepBus(s, bus[i], call), bus, i + 1, call)

\* ---------------------------------------------------------------- clauses on one API call
ModeGate(call) ==
    CASE call = "tx" -> {"transmit"}
      [] call \in {"start_rx", "complete_rx", "switch_ch"} -> {"rx_single", "rx_cont", "rx_duty"}
      [] call = "cad" -> {"cad"}
      [] OTHER -> {}

\* refusals that happen before anything is attempted
IsRefusal(e) == e.res = "err" /\ e.err \in {"InvalidRadioMode"}

\* the fault hit the very command that would have restored standby (a single fault cannot be survived there)
FaultOnStandbyCmd(e) ==
    e.fault >= 0 /\ e.fault + 1 <= Len(e.bus)
    /\ LET b == e.bus[e.fault + 1] IN (b.t = "spi" /\ b.w[1] = 128) \/ b.t = "rfoff"

CallOk(e, s) ==
    \* clause 1
    /\ IF ModeGate(e.call) # {} /\ e.pre_mode \notin ModeGate(e.call)
       THEN /\ Chk(<<"C14-1 wrong-mode call refused", e.call, e.pre_mode>>, "InvalidRadioMode", e.err)
            /\ Chk(<<"C14-1 wrong-mode call made no bus traffic", e.call>>, <<>>, e.bus)
       ELSE TRUE
    \* clauses 2 and 3 were evaluated while stepping the bus
    /\ s.ok
    \* clause 4
    /\ IF e.res = "err" /\ ~IsRefusal(e) /\ ~(e.call = "complete_rx" /\ e.pre_mode = "rx_cont")
       THEN IF s.cm = "stdby" /\ e.mode = "standby" THEN TRUE
            ELSE IF FaultOnStandbyCmd(e) THEN TRUE
            \* KNOWN FINDING (open, DESIGN 9 S23): an injected bus fault (not a timeout / interrupt error, which the
            \* driver handles) returns without forcing standby; listed per API call
            ELSE IF e.fault >= 0 /\ IsAllowed("phy-fault-no-standby:" \o e.call)
                 THEN Known("phy-fault-no-standby:" \o e.call, <<e.err, "fault", e.fault, "chip", s.cm, "driver", e.mode>>)
                 ELSE ChkT(<<"C14-4 after a failed operation chip in standby and driver knows it", e.call, e.err,
                             "fault at", e.fault, "chip", s.cm, "driver", e.mode>>, FALSE)
       ELSE TRUE
    /\ Chk("no panic", FALSE, e.res = "panic")

Ev(e) ==
    IF e.skipped = 1 THEN UNCHANGED <<cm, prog>>
    ELSE LET s0 == IF e.first = 1 THEN [cm |-> "stdby", prog |-> {}, ok |-> TRUE] ELSE [cm |-> cm, prog |-> prog, ok |-> TRUE]
             s == RunBus(s0, e.bus, 1, e.call)
         IN \* histories are independent: a violated clause is printed (the runner reports it with the
            \* history) and validation continues with the chip model stepped by what was really sent
            /\ IF CallOk(e, s) THEN TRUE ELSE TRUE
            /\ cm' = s.cm /\ prog' = s.prog

Init == l = 1 /\ cm = "stdby" /\ prog = {}
Next == l <= Len(Rec) /\ Ev(Rec[l]) /\ l' = l + 1
Spec == Init /\ [][Next]_vars

TraceAccepted ==
    IF TLCGet("stats").diameter = Len(Rec) + 1 THEN TRUE
    ELSE PrintT(<<"TRACE-REJECTED", "matched", TLCGet("stats").diameter - 1, "of", Len(Rec)>>) /\ FALSE
=============================================================================
