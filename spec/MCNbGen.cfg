SPECIFICATION Spec
CONSTANTS
  WireMod = 65536
  MaxGap = 16384
  HiMax = 65535
  AdrLimit = 64
  AdrDelay = 32
  StartUps <- StartUpsGen
  PrintEdges = TRUE
  MaxLen = 6
VIEW NView
CONSTRAINT Short
CHECK_DEADLOCK FALSE
