------------------------------ MODULE MacCmds ------------------------------
(* MAC-command sets, stream framing and field layouts, written from the     *)
(* standards and independent of lora-rs:                                    *)
(*   LoRaWAN 1.0.3 section 5 (MAC commands, Class A/C),                     *)
(*   TS009-1.0.0 LoRaWAN Certification Protocol (FPort 224),                *)
(*   TS005-1.0.0 Remote Multicast Setup (FPort 200).                        *)
(*                                                                          *)
(* Six command sets:  mac_up / mac_down, cert_up / cert_down,               *)
(* mc_up / mc_down ("up" = transmitted by the end-device).                  *)
(*                                                                          *)
(* A command is  CID (1 octet) | payload.  For every command the table      *)
(* gives the payload length (fixed, or a variable-length rule) and the      *)
(* FIELD LAYOUT of the payload: for each field its octet offset, the width  *)
(* of the little-endian integer it lives in, its shift and bit width, and   *)
(* its signedness.  FieldGet / FieldPut (and from them ParseCmd / BuildCmd) *)
(* are derived from the layout only, so ParseCmd(BuildCmd(v)) = v holds by  *)
(* construction (checked for all tables by MCCmds.tla), and an              *)
(* implementation's builder and parser are each compared with the layout    *)
(* separately.                                                              *)
(*                                                                          *)
(* Conventions: octets are 0..255; payload offsets are 0-based as in the    *)
(* standards' tables (sequences are 1-based, hence the "+ 1"); multi-octet  *)
(* integers are little-endian (LoRaWAN 1.0.3 section 1.1); 32-bit values    *)
(* are <<hi16, lo16>> pairs (TLC integers are 32-bit signed); RFU bits are  *)
(* written as 0 by a builder and ignored by a parser.                       *)
(*                                                                          *)
(* The identifiers of commands and fields are the standards' names, except  *)
(* where the library's enum variant is spelled differently; then the        *)
(* variant's spelling is used as the identifier (it is what the recorder    *)
(* logs) and the standard's name is given in a comment.                     *)
EXTENDS Integers, Sequences, FiniteSets, TLC

SetNames == {"mac_up", "mac_down", "cert_up", "cert_down", "mc_up", "mc_down"}

\* ------------------------------------------------------------------ field descriptors
\* kind: "u"     unsigned bit field:  ((LE integer of w octets at off) >> sh) mod 2^bits
\*       "s"     the same bits read as a two's complement number of `bits` bits
\*       "u32"   w = 4, little-endian, value <<hi16, lo16>>
\*       "bytes" w raw octets in wire order
\*       "rest"  all octets from off to the end of the payload (variable-length commands)
\*       "rfu"   reserved bits (0 when built, ignored when parsed)
Fld(n, off, w, sh, bits, kind) == [n |-> n, off |-> off, w |-> w, sh |-> sh, bits |-> bits, kind |-> kind]
Oct(n, off)            == Fld(n, off, 1, 0, 8, "u")
Bitf(n, off, sh, bits) == Fld(n, off, 1, sh, bits, "u")
Sgn(n, off, sh, bits)  == Fld(n, off, 1, sh, bits, "s")
Rfu(off, sh, bits)     == Fld("RFU", off, 1, sh, bits, "rfu")
U16le(n, off)          == Fld(n, off, 2, 0, 16, "u")
U24le(n, off)          == Fld(n, off, 3, 0, 24, "u")
U32le(n, off)          == Fld(n, off, 4, 0, 32, "u32")
Raw(n, off, w)         == Fld(n, off, w, 0, 8 * w, "bytes")
Rest(n, off)           == Fld(n, off, 0, 0, 0, "rest")

\* payload length rules (len >= 0 is a fixed length)
RestMin1   == -2   \* the payload is the rest of the stream, at least one octet
GroupMask  == -3   \* TS005 McGroupStatusAns: 1 + 5 * (number of bits set in Status[3:0])
CondTTS    == -4   \* TS005 McClass{C,B}SessionAns (DISPUTED, see McUpCmds): 1 if an error bit of Status is set,
                   \* else 1 + 3  --  or always 1 + 3; both readings are accepted
NoCmd      == -1   \* CID not defined for the set

\* fields: the layout proper (a partition of the payload bits, checked by MCCmds!Tiles)
\* views : whole-octet groups of fields that the standards name as one field (DLsettings, Redundancy,
\*         DrRange, the three version words); they overlap `fields` and are not part of the partition
Cmd(cid, name, len, fields, views) == [cid |-> cid, name |-> name, len |-> len, fields |-> fields, views |-> views]
Cmd0(cid, name) == Cmd(cid, name, 0, <<>>, <<>>)

\* ------------------------------------------------------------------ LoRaWAN 1.0.3 section 5
\* Commands transmitted by the network server (Table 4, "transmitted by gateway").
MacDownCmds == <<
    Cmd(2, "LinkCheckAns", 2, <<Oct("Margin", 0), Oct("GwCnt", 1)>>, <<>>),
    \* DataRate_TXPower | ChMask (16 bits, bit k = channel k+1 of the bank) | Redundancy
    Cmd(3, "LinkADRReq", 4,
        <<Bitf("TXPower", 0, 0, 4), Bitf("DataRate", 0, 4, 4), Raw("ChMask", 1, 2),
          Bitf("NbTrans", 3, 0, 4), Bitf("ChMaskCntl", 3, 4, 3), Rfu(3, 7, 1)>>,
        <<Oct("Redundancy", 3)>>),
    Cmd(4, "DutyCycleReq", 1, <<Bitf("MaxDCycle", 0, 0, 4), Rfu(0, 4, 4)>>, <<>>),
    Cmd(5, "RXParamSetupReq", 4,
        <<Bitf("RX2DataRate", 0, 0, 4), Bitf("RX1DRoffset", 0, 4, 3), Rfu(0, 7, 1), U24le("Frequency", 1)>>,
        <<Oct("DLsettings", 0)>>),
    Cmd0(6, "DevStatusReq"),
    Cmd(7, "NewChannelReq", 5,
        <<Oct("ChIndex", 0), U24le("Freq", 1), Bitf("MinDR", 4, 0, 4), Bitf("MaxDR", 4, 4, 4)>>,
        <<Oct("DrRange", 4)>>),
    Cmd(8, "RXTimingSetupReq", 1, <<Bitf("Del", 0, 0, 4), Rfu(0, 4, 4)>>, <<>>),
    \* LoRaWAN: TxParamSetupReq
    Cmd(9, "TXParamSetupReq", 1,
        <<Bitf("MaxEIRP", 0, 0, 4), Bitf("UplinkDwellTime", 0, 4, 1), Bitf("DownlinkDwellTime", 0, 5, 1), Rfu(0, 6, 2)>>,
        <<>>),
    Cmd(10, "DlChannelReq", 4, <<Oct("ChIndex", 0), U24le("Freq", 1)>>, <<>>),
    \* seconds since the GPS epoch (32 bits, little-endian) | fractional second in 1/256 s
    Cmd(13, "DeviceTimeAns", 5, <<U32le("Seconds", 0), Oct("FracSecond", 4)>>, <<>>) >>

\* Commands transmitted by the end-device.
MacUpCmds == <<
    Cmd0(2, "LinkCheckReq"),
    Cmd(3, "LinkADRAns", 1,
        <<Bitf("ChannelMaskACK", 0, 0, 1), Bitf("DataRateACK", 0, 1, 1), Bitf("PowerACK", 0, 2, 1), Rfu(0, 3, 5)>>, <<>>),
    Cmd0(4, "DutyCycleAns"),
    Cmd(5, "RXParamSetupAns", 1,
        <<Bitf("ChannelACK", 0, 0, 1), Bitf("RX2DataRateACK", 0, 1, 1), Bitf("RX1DRoffsetACK", 0, 2, 1), Rfu(0, 3, 5)>>, <<>>),
    \* Margin: 6-bit signed integer, -32..31
    Cmd(6, "DevStatusAns", 2, <<Oct("Battery", 0), Sgn("Margin", 1, 0, 6), Rfu(1, 6, 2)>>, <<>>),
    Cmd(7, "NewChannelAns", 1,
        <<Bitf("ChannelFrequencyOK", 0, 0, 1), Bitf("DataRateRangeOK", 0, 1, 1), Rfu(0, 2, 6)>>, <<>>),
    Cmd0(8, "RXTimingSetupAns"),
    Cmd0(9, "TXParamSetupAns"),       \* LoRaWAN: TxParamSetupAns
    Cmd(10, "DlChannelAns", 1,
        <<Bitf("ChannelFrequencyOK", 0, 0, 1), Bitf("UplinkFrequencyExists", 0, 1, 1), Rfu(0, 2, 6)>>, <<>>),
    Cmd0(13, "DeviceTimeReq") >>

\* Defined by LoRaWAN 1.0.3 but outside the library's scope (Class B, section 12; proprietary 0x80..0xFF):
\* the library is expected to report these CIDs as unknown.  <<cid, name, payload length>>
MacDownUnsupported == << <<16, "PingSlotInfoAns", 0>>, <<17, "PingSlotChannelReq", 4>>,
                         <<18, "BeaconTimingAns", 3>>, <<19, "BeaconFreqReq", 3>> >>
MacUpUnsupported   == << <<16, "PingSlotInfoReq", 1>>, <<17, "PingSlotChannelAns", 1>>,
                         <<18, "BeaconTimingReq", 0>>, <<19, "BeaconFreqAns", 1>> >>

\* ------------------------------------------------------------------ TS009 certification protocol
\* One command per frame (FRMPayload = CID | payload), which is why the payload of EchoPayloadReq/Ans
\* has no length field: it is the rest of the frame.  The library calls them EchoIncPayloadReq/Ans.
\* TS009 defines TxFramesCtrlReq as CID | FrameType (1 octet); the library documents it as a
\* "variable length payload without any size indication" that consumes the rest of the frame with
\* FrameType in the first octet.  This module models what the library documents (the standard leaves
\* trailing octets of a one-command frame open).
CertDownCmds == <<
    Cmd0(1, "DutResetReq"),
    Cmd0(2, "DutJoinReq"),
    Cmd(4, "AdrBitChangeReq", 1, <<Oct("ADR", 0)>>, <<>>),
    Cmd(6, "TxPeriodicityChangeReq", 1, <<Oct("Periodicity", 0)>>, <<>>),
    Cmd(7, "TxFramesCtrlReq", RestMin1, <<Oct("FrameType", 0), Rest("Trailing", 1)>>, <<>>),
    Cmd(8, "EchoIncPayloadReq", RestMin1, <<Rest("Payload", 0)>>, <<>>),
    Cmd0(9, "RxAppCntReq"),
    Cmd0(32, "LinkCheckReq"),
    Cmd0(127, "DutVersionsReq") >>

CertUpCmds == <<
    Cmd(8, "EchoIncPayloadAns", RestMin1, <<Rest("Payload", 0)>>, <<>>),
    Cmd(9, "RxAppCntAns", 2, <<U16le("RxAppCnt", 0)>>, <<>>),
    Cmd(127, "DutVersionsAns", 12,
        <<Raw("FwVersion", 0, 4), Raw("LrwanVersion", 4, 4), Raw("LrwanRpVersion", 8, 4)>>,
        <<Raw("Versions", 0, 12)>>) >>

\* TS009 commands the library does not implement (expected: unknown CID).
CertDownUnsupported == << <<0, "PackageVersionReq", 0>>, <<3, "SwitchClassReq", 1>>,
                          <<5, "RegionalDutyCycleCtrlReq", 1>>, <<10, "RxAppCntResetReq", 0>>,
                          <<33, "DeviceTimeReq", 0>>, <<34, "PingSlotInfoReq", 1>>,
                          <<125, "TxCwReq", 6>>, <<126, "DutFPort224DisableReq", 0>> >>
CertUpUnsupported   == << <<0, "PackageVersionAns", 2>> >>

\* ------------------------------------------------------------------ TS005 remote multicast setup
McDownCmds == <<
    Cmd0(0, "PackageVersionReq"),
    Cmd(1, "McGroupStatusReq", 1, <<Bitf("ReqGroupMask", 0, 0, 4), Rfu(0, 4, 4)>>, <<>>),
    \* McGroupIDHeader | McAddr | McKey_encrypted | minMcFCount | maxMcFCount
    Cmd(2, "McGroupSetupReq", 29,
        <<Bitf("McGroupID", 0, 0, 2), Rfu(0, 2, 6), Raw("McAddr", 1, 4), Raw("McKeyEncrypted", 5, 16),
          U32le("minMcFCount", 21), U32le("maxMcFCount", 25)>>, <<>>),
    Cmd(3, "McGroupDeleteReq", 1, <<Bitf("McGroupID", 0, 0, 2), Rfu(0, 2, 6)>>, <<>>),
    \* McGroupIDHeader | SessionTime | SessionTimeOut | DLFrequ | DR
    Cmd(4, "McClassCSessionReq", 10,
        <<Bitf("McGroupID", 0, 0, 2), Rfu(0, 2, 6), U32le("SessionTime", 1), Bitf("TimeOut", 5, 0, 4), Rfu(5, 4, 4),
          U24le("DLFrequ", 6), Oct("DR", 9)>>, <<>>),
    \* McGroupIDHeader | SessionTime | TimeOutPeriodicity | DLFrequ | DR
    Cmd(5, "McClassBSessionReq", 10,
        <<Bitf("McGroupID", 0, 0, 2), Rfu(0, 2, 6), U32le("SessionTime", 1), Bitf("TimeOut", 5, 0, 4),
          Bitf("Periodicity", 5, 4, 3), Rfu(5, 7, 1), U24le("DLFrequ", 6), Oct("DR", 9)>>, <<>>) >>

\* McGroupStatusAns: Status (RFU:1 | NbTotalGroups:3 | AnsGroupMask:4) followed by one
\* (McGroupID:1 | McAddr:4) record per bit set in AnsGroupMask.
\* DISPUTED ENTRY (DESIGN 7.1) - McClass{C,B}SessionAns (CID 0x04 / 0x05 of the uplink set):
\* Status&McGroupID | TimeToStart.  As recalled, TS005 marks TimeToStart as conditional (present only
\* when no error bit of the status is set; this is also what Semtech's LoRaMac-node emits): rule CondTTS.
\* The library frames a fixed 4-octet payload.  No copy of TS005 is available in this environment to
\* adjudicate, so BOTH readings are accepted: a yielded item list is correct when it equals Items under
\* the conditional reading or under the unconditional one (ItemsAccepted below); the same holds for
\* the payload constructors.  Whatever the library does today is thereby pinned: a change to anything
\* other than one of the two readings is reported.
McUpCmds == <<
    Cmd(0, "PackageVersionAns", 2, <<Oct("PackageIdentifier", 0), Oct("PackageVersion", 1)>>, <<>>),
    Cmd(1, "McGroupStatusAns", GroupMask,
        <<Bitf("AnsGroupMask", 0, 0, 4), Bitf("NbTotalGroups", 0, 4, 3), Rfu(0, 7, 1), Rest("Groups", 1)>>, <<>>),
    Cmd(2, "McGroupSetupAns", 1, <<Bitf("McGroupID", 0, 0, 2), Bitf("IDerror", 0, 2, 1), Rfu(0, 3, 5)>>, <<>>),
    Cmd(3, "McGroupDeleteAns", 1,
        <<Bitf("McGroupID", 0, 0, 2), Bitf("McGroupUndefined", 0, 2, 1), Rfu(0, 3, 5)>>, <<>>),
    Cmd(4, "McClassCSessionAns", CondTTS,
        <<Bitf("McGroupID", 0, 0, 2), Bitf("DRerror", 0, 2, 1), Bitf("FreqError", 0, 3, 1),
          Bitf("McGroupUndefined", 0, 4, 1), Rfu(0, 5, 3), Rest("TimeToStart", 1)>>, <<>>),
    Cmd(5, "McClassBSessionAns", CondTTS,
        <<Bitf("McGroupID", 0, 0, 2), Bitf("DRerror", 0, 2, 1), Bitf("FreqError", 0, 3, 1),
          Bitf("McGroupUndefined", 0, 4, 1), Rfu(0, 5, 3), Rest("TimeToStart", 1)>>, <<>>) >>

CmdsOf(set) ==
    CASE set = "mac_up" -> MacUpCmds
      [] set = "mac_down" -> MacDownCmds
      [] set = "cert_up" -> CertUpCmds
      [] set = "cert_down" -> CertDownCmds
      [] set = "mc_up" -> McUpCmds
      [] set = "mc_down" -> McDownCmds

UnsupportedOf(set) ==
    CASE set = "mac_up" -> MacUpUnsupported
      [] set = "mac_down" -> MacDownUnsupported
      [] set = "cert_up" -> CertUpUnsupported
      [] set = "cert_down" -> CertDownUnsupported
      [] OTHER -> <<>>

\* ------------------------------------------------------------------ tables indexed by CID
\* index of the command with this CID in the list (0 = CID not in the set)
IndexIn(cmds, cid) ==
    LET S == {k \in 1..Len(cmds) : cmds[k].cid = cid} IN IF S = {} THEN 0 ELSE CHOOSE k \in S : TRUE

MkLenTab(cmds) == [c \in 1..256 |-> LET k == IndexIn(cmds, c - 1) IN IF k = 0 THEN NoCmd ELSE cmds[k].len]
\* zero-arity constant definitions: TLC evaluates them once
MacUpLen    == TLCEval(MkLenTab(MacUpCmds))
MacDownLen  == TLCEval(MkLenTab(MacDownCmds))
CertUpLen   == TLCEval(MkLenTab(CertUpCmds))
CertDownLen == TLCEval(MkLenTab(CertDownCmds))
McUpLen     == TLCEval(MkLenTab(McUpCmds))
McDownLen   == TLCEval(MkLenTab(McDownCmds))

\* LenTab(set)[cid + 1] = payload length rule of the CID in the set
LenTab(set) ==
    CASE set = "mac_up" -> MacUpLen
      [] set = "mac_down" -> MacDownLen
      [] set = "cert_up" -> CertUpLen
      [] set = "cert_down" -> CertDownLen
      [] set = "mc_up" -> McUpLen
      [] set = "mc_down" -> McDownLen

CmdByCid(set, cid) == LET cmds == CmdsOf(set) IN cmds[IndexIn(cmds, cid)]
CmdByName(set, name) ==
    LET cmds == CmdsOf(set) IN cmds[CHOOSE k \in 1..Len(cmds) : cmds[k].name = name]
HasName(set, name) == \E k \in 1..Len(CmdsOf(set)) : CmdsOf(set)[k].name = name

\* ------------------------------------------------------------------ stream framing
PopCount4(x) == (x % 2) + ((x \div 2) % 2) + ((x \div 4) % 2) + ((x \div 8) % 2)

\* Payload length of the command whose CID is at index i of b (1-based), given its rule;
\* -1 = the stream ends inside the command.  `fixedTTS` selects the unconditional reading of CondTTS.
PayloadLenAt(rule, b, i, fixedTTS) ==
    LET avail == Len(b) - i IN      \* octets after the CID
    IF rule >= 0 THEN (IF avail < rule THEN -1 ELSE rule)
    ELSE IF rule = RestMin1 THEN (IF avail < 1 THEN -1 ELSE avail)
    ELSE IF rule = GroupMask THEN
        (IF avail < 1 THEN -1
         ELSE LET n == 1 + 5 * PopCount4(b[i + 1] % 16) IN IF avail < n THEN -1 ELSE n)
    ELSE \* CondTTS
        (IF fixedTTS THEN (IF avail < 4 THEN -1 ELSE 4)
         ELSE IF avail < 1 THEN -1
         ELSE LET n == IF (b[i + 1] \div 4) % 8 # 0 THEN 1 ELSE 4 IN IF avail < n THEN -1 ELSE n)

\* Items: the sequence a command-stream iterator must yield.
\*   <<1, cid, n>>      a whole command occupying n octets (CID included)
\*   <<0, 0, cid>>      error: CID not defined for the set
\*   <<0, 1, cid>>      error: the stream ends inside the command with this CID
\* An error is the last element (the iterator is fused: nothing follows an error).
RECURSIVE ItemsFrom(_, _, _, _)
ItemsFrom(tab, b, i, fixedTTS) ==
    IF i > Len(b) THEN <<>>
    ELSE LET cid  == b[i]
             rule == tab[cid + 1] IN
         IF rule = NoCmd THEN << <<0, 0, cid>> >>
         ELSE LET n == PayloadLenAt(rule, b, i, fixedTTS) IN
              IF n < 0 THEN << <<0, 1, cid>> >>
              ELSE << <<1, cid, 1 + n>> >> \o ItemsFrom(tab, b, i + 1 + n, fixedTTS)

Items(set, b)         == ItemsFrom(LenTab(set), b, 1, FALSE)
\* the reading in which TimeToStart of McClass{C,B}SessionAns is always present
ItemsFixedTTS(set, b) == ItemsFrom(LenTab(set), b, 1, TRUE)
\* What an implementation may yield: the list of one of the two readings of the disputed entry, applied
\* to the whole stream (for every set other than mc_up the two coincide, MCCmds!ItemsLemma).
ItemsAccepted(set, b, out) == out = Items(set, b) \/ (set = "mc_up" /\ out = ItemsFixedTTS(set, b))

\* The property C03 states about any yielded list, independent of the tables:
\* only whole commands, lengths add up to a prefix of the input, CIDs are the octets at the
\* command boundaries, at most one error and it is last; after a clean end the input is used up.
RECURSIVE SumLens(_, _)
SumLens(items, k) == IF k = 0 THEN 0 ELSE SumLens(items, k - 1) + (IF items[k][1] = 1 THEN items[k][3] ELSE 0)
WellFormed(items, b) ==
    /\ \A k \in 1..Len(items) :
          /\ items[k][1] \in {0, 1}
          /\ items[k][1] = 0 => k = Len(items)
          /\ items[k][1] = 1 => /\ items[k][3] >= 1
                                /\ SumLens(items, k) <= Len(b)
                                /\ b[SumLens(items, k - 1) + 1] = items[k][2]
          /\ items[k][1] = 0 => /\ SumLens(items, k - 1) < Len(b)
                                /\ b[SumLens(items, k - 1) + 1] = items[k][3]
    /\ (Len(items) = 0 \/ items[Len(items)][1] = 1) => SumLens(items, Len(items)) = Len(b)

\* ------------------------------------------------------------------ field access
Pow2(n) == 2 ^ n
LEInt(p, off, w) ==
    IF w = 1 THEN p[off + 1]
    ELSE IF w = 2 THEN p[off + 1] + 256 * p[off + 2]
    ELSE p[off + 1] + 256 * p[off + 2] + 65536 * p[off + 3]
LEBytes(v, w) ==
    IF w = 1 THEN <<v % 256>>
    ELSE IF w = 2 THEN <<v % 256, (v \div 256) % 256>>
    ELSE <<v % 256, (v \div 256) % 256, (v \div 65536) % 256>>

SignExt(r, bits) == IF r >= Pow2(bits - 1) THEN r - Pow2(bits) ELSE r

FieldGet(f, p) ==
    CASE f.kind = "u" -> (LEInt(p, f.off, f.w) \div Pow2(f.sh)) % Pow2(f.bits)
      [] f.kind = "rfu" -> (LEInt(p, f.off, f.w) \div Pow2(f.sh)) % Pow2(f.bits)
      [] f.kind = "s" -> SignExt((LEInt(p, f.off, f.w) \div Pow2(f.sh)) % Pow2(f.bits), f.bits)
      [] f.kind = "u32" -> <<p[f.off + 3] + 256 * p[f.off + 4], p[f.off + 1] + 256 * p[f.off + 2]>>
      [] f.kind = "bytes" -> SubSeq(p, f.off + 1, f.off + f.w)
      [] f.kind = "rest" -> SubSeq(p, f.off + 1, Len(p))

\* the value a field can hold that an out-of-range argument is "truncated" to
Trunc(f, v) ==
    CASE f.kind \in {"u", "rfu"} -> v % Pow2(f.bits)
      [] f.kind = "s" -> SignExt(v % Pow2(f.bits), f.bits)
      [] OTHER -> v
InRange(f, v) ==
    CASE f.kind \in {"u", "rfu"} -> v \in 0..(Pow2(f.bits) - 1)
      [] f.kind = "s" -> v \in (0 - Pow2(f.bits - 1))..(Pow2(f.bits - 1) - 1)
      [] f.kind = "u32" -> Len(v) = 2 /\ v[1] \in 0..65535 /\ v[2] \in 0..65535
      [] f.kind = "bytes" -> Len(v) = f.w
      [] f.kind = "rest" -> TRUE

\* p with field f replaced by v (v in range); every other bit of p is preserved
FieldPut(f, p, v) ==
    CASE f.kind \in {"u", "s", "rfu"} ->
           LET old == LEInt(p, f.off, f.w)
               cur == (old \div Pow2(f.sh)) % Pow2(f.bits)
               new == old - cur * Pow2(f.sh) + (v % Pow2(f.bits)) * Pow2(f.sh)
           IN SubSeq(p, 1, f.off) \o LEBytes(new, f.w) \o SubSeq(p, f.off + f.w + 1, Len(p))
      [] f.kind = "u32" ->
           SubSeq(p, 1, f.off) \o <<v[2] % 256, v[2] \div 256, v[1] % 256, v[1] \div 256>>
           \o SubSeq(p, f.off + 5, Len(p))
      [] f.kind = "bytes" -> SubSeq(p, 1, f.off) \o v \o SubSeq(p, f.off + f.w + 1, Len(p))
      [] f.kind = "rest" -> SubSeq(p, 1, f.off) \o v

Zeros(n) == [i \in 1..n |-> 0]

\* field of a command (layout field or view) by name
AllFields(c) == c.fields \o c.views
HasField(c, n) == \E k \in 1..Len(AllFields(c)) : AllFields(c)[k].n = n /\ AllFields(c)[k].kind # "rfu"
FieldOf(c, n) == LET fs == AllFields(c) IN fs[CHOOSE k \in 1..Len(fs) : fs[k].n = n /\ fs[k].kind # "rfu"]
FieldNames(c) == {c.fields[k].n : k \in {j \in 1..Len(c.fields) : c.fields[j].kind # "rfu"}}

\* ParseCmd: payload -> [field name |-> value]
ParseCmd(c, p) == [n \in FieldNames(c) |-> FieldGet(FieldOf(c, n), p)]

\* BuildCmd: [field name |-> value] -> CID | payload, RFU bits 0 (fixed-length commands)
RECURSIVE PutAll(_, _, _, _)
PutAll(fs, k, p, vals) ==
    IF k > Len(fs) THEN p
    ELSE PutAll(fs, k + 1, IF fs[k].kind = "rfu" THEN p ELSE FieldPut(fs[k], p, vals[fs[k].n]), vals)
BuildPayload(c, vals) == PutAll(c.fields, 1, Zeros(c.len), vals)
BuildCmd(c, vals) == <<c.cid>> \o BuildPayload(c, vals)

\* ------------------------------------------------------------------ values derived from fields
\* (tables and formulas of the standards that the library exposes through accessors)

\* LoRaWAN 1.0.3 section 5.8, Table 18: coded MaxEIRP -> dBm
MaxEirpDbm == <<8, 10, 12, 13, 14, 16, 18, 20, 21, 24, 26, 27, 29, 30, 33, 36>>

\* aggregated duty cycle = 1 / 2^MaxDCycle; as an IEEE-754 single: sign 0, exponent 127 - n, mantissa 0,
\* i.e. bits = (127 - n) * 2^23, as <<hi16, lo16>>
DutyCycleF32(n) == <<(127 - n) * 128, 0>>

\* frequency fields are in units of 100 Hz
FreqHz(raw24) == raw24 * 100

\* DeviceTimeAns: fractional second in 1/256 s = 3 906 250 ns steps
NanosOfFrac(frac) == frac * 3906250
\* nanoseconds (32 bits as <<hi16, lo16>>) -> number of whole 1/256 s steps (may exceed 255)
\* 3906250 = 2 * 1953125; the halved value fits 31 bits
FracStepsOfNanos(ns) == (ns[1] * 32768 + ns[2] \div 2) \div 1953125
NanosBelowOneSecond(ns) == ns[1] < 15258 \/ (ns[1] = 15258 /\ ns[2] < 51712)    \* 10^9 = 15258 * 65536 + 51712

\* status octets: "all defined acknowledgement bits set"
AllAck(c, p) == \A k \in 1..Len(c.fields) : c.fields[k].kind = "u" => FieldGet(c.fields[k], p) = 1
RfuZero(c, p) == \A k \in 1..Len(c.fields) : c.fields[k].kind = "rfu" => FieldGet(c.fields[k], p) = 0

\* ChMask: channel k (0..15) is bit (k mod 8) of octet (k div 8)
ChEnabled(mask2) == [k \in 1..16 |-> (mask2[((k - 1) \div 8) + 1] \div Pow2((k - 1) % 8)) % 2]

\* TS009 TxPeriodicityChangeReq: 0 = default behaviour (-1), 1..10 -> seconds, else RFU (-2)
PeriodicitySeconds == <<5, 10, 20, 30, 40, 50, 60, 120, 240, 480>>
PeriodicityOf(v) == IF v = 0 THEN -1 ELSE IF v <= 10 THEN PeriodicitySeconds[v] ELSE -2
\* TS009 AdrBitChangeReq: 0 off, 1 on, else RFU (-2)
AdrOf(v) == IF v \in {0, 1} THEN v ELSE -2
\* TS009 TxFramesCtrlReq FrameType: 0 = no override (-1), 1 = unconfirmed (0), 2 = confirmed (1), else RFU (-2)
FrameTypeOf(v) == IF v = 0 THEN -1 ELSE IF v = 1 THEN 0 ELSE IF v = 2 THEN 1 ELSE -2
\* TS009 EchoPayloadAns: every octet of the request incremented by 1 modulo 256
EchoInc(data) == [i \in 1..Len(data) |-> (data[i] + 1) % 256]
\* largest echo payload: the largest application payload (242 octets) less the CID
EchoMax == 241

\* TS005 McGroupStatusAns group records
GroupRecords(p) == [k \in 1..((Len(p) - 1) \div 5) |-> <<p[5 * k - 3], SubSeq(p, 5 * k - 2, 5 * k + 1)>>]
MaxGroups == 4

\* ------------------------------------------------------------------ identifier / key text forms
\* Display: MSB-first lowercase hexadecimal of the logical value; FromStr: exactly 2n hexadecimal
\* digits (either case), nothing else.  order "lsb": the wire transmits the value LSB first
\* (identifiers, addresses, nonces); "msb": the octets are used in the order printed (keys).
TextTypes == [
    DevAddr |-> [n |-> 4, order |-> "lsb"], McAddr |-> [n |-> 4, order |-> "lsb"],
    DevEui |-> [n |-> 8, order |-> "lsb"], JoinEui |-> [n |-> 8, order |-> "lsb"],
    DevNonce |-> [n |-> 2, order |-> "lsb"], JoinNonce |-> [n |-> 3, order |-> "lsb"], NetId |-> [n |-> 3, order |-> "lsb"],
    KeysDevEui |-> [n |-> 8, order |-> "lsb"], KeysAppEui |-> [n |-> 8, order |-> "lsb"],
    AppKey |-> [n |-> 16, order |-> "msb"], NwkSKey |-> [n |-> 16, order |-> "msb"], AppSKey |-> [n |-> 16, order |-> "msb"],
    McRootKey |-> [n |-> 16, order |-> "msb"], McKEKey |-> [n |-> 16, order |-> "msb"], McNetSKey |-> [n |-> 16, order |-> "msb"],
    McAppSKey |-> [n |-> 16, order |-> "msb"], GenAppKey |-> [n |-> 16, order |-> "msb"], McKey |-> [n |-> 16, order |-> "msb"] ]

RevSeq(s) == [i \in 1..Len(s) |-> s[Len(s) + 1 - i]]
HexDigit(v) == IF v < 10 THEN 48 + v ELSE 87 + v           \* '0'..'9', 'a'..'f'
RECURSIVE HexOf(_)
HexOf(bs) == IF bs = <<>> THEN <<>> ELSE <<HexDigit(bs[1] \div 16), HexDigit(bs[1] % 16)>> \o HexOf(Tail(bs))
IsHexChar(c) == c \in 48..57 \/ c \in 97..102 \/ c \in 65..70
HexVal(c) == IF c \in 48..57 THEN c - 48 ELSE IF c \in 97..102 THEN c - 87 ELSE c - 55
UnHex(s) == [i \in 1..(Len(s) \div 2) |-> 16 * HexVal(s[2 * i - 1]) + HexVal(s[2 * i])]

MsbFirst(t, wire) == IF TextTypes[t].order = "lsb" THEN RevSeq(wire) ELSE wire
DisplayOf(t, wire) == HexOf(MsbFirst(t, wire))
TextValid(t, s) == Len(s) = 2 * TextTypes[t].n /\ \A i \in 1..Len(s) : IsHexChar(s[i])
\* wire value of a valid string
FromStrOf(t, s) == MsbFirst(t, UnHex(s))
=============================================================================
