------------------------------- MODULE PllCore -------------------------------
(* Frequency -> synthesiser word conversions of the two chip families, as the *)
(* reference driver computes them (no 64-bit arithmetic: the scaled step      *)
(* 32e6 / 2^11 = 15625 Hz).  One text for TLC (Sx126xWire / Sx127xWire: the   *)
(* oracle of C13 and C17) and for Apalache (PllApa: accuracy and periodicity  *)
(* for EVERY frequency of the chips' range, symbolically).                    *)
EXTENDS Integers

\* SX126x: RF frequency = word * 32e6 / 2^25
\* @type: Int => Int;
Word126(f) ==
    LET int == f \div 15625
        frac == f % 15625
    IN int * 16384 + ((frac * 16384 + 7812) \div 15625)

\* SX127x: RF frequency = word * 32e6 / 2^19
\* @type: Int => Int;
Word127(f) ==
    LET int == f \div 15625
        frac == f % 15625
    IN int * 256 + ((frac * 256 + 7812) \div 15625)
=============================================================================
