--------------------------- MODULE Modulation ---------------------------
(* LoRa modulation arithmetic: symbol time, low-data-rate optimisation,   *)
(* Semtech time-on-air formula (SX127x datasheet 4.1.1.6/4.1.1.7,         *)
(* AN1200.13), evaluated in exact integer arithmetic.                     *)
(* All intermediate values stay below 2^31 (TLC integers are 32-bit).     *)
EXTENDS Integers, Sequences

SFs == 5..12
\* bandwidth index 0..9 -> nominal Hz used by lora-modulation (Bandwidth::hz)
BwHz == <<7810, 10420, 15630, 20830, 31250, 41670, 62500, 125000, 250000, 500000>>
BWs == 0..9
\* exact bandwidths of the Semtech modems, as a rational num/den (Hz)
BwExactNum == <<15625, 31250, 15625, 62500, 31250, 125000, 62500, 125000, 250000, 500000>>
BwExactDen == <<2, 3, 1, 3, 1, 3, 1, 1, 1, 1>>
CRs == 5..8            \* coding-rate denominator 4/5 .. 4/8

Pow2(n) == 2^n

\* Symbol time in microseconds, truncated, from the nominal bandwidth:
\* 2^SF * 10^6 / BW  computed as 2^SF * 10^5 \div (BW \div 10) (BW is a multiple of 10).
TSymUs(sf, bw) == (Pow2(sf) * 100000) \div (BwHz[bw + 1] \div 10)

\* LDRO rule: on exactly when the symbol time is at least 16.38 ms.
\* Exact comparison 2^SF / BW >= 16.38e-3  <=>  2^SF * 100000 * den >= 1638 * num
LdroExact(sf, bw) == Pow2(sf) * 100000 * BwExactDen[bw + 1] >= 1638 * BwExactNum[bw + 1]
\* Where the two readings of "BW" disagree the decision is a documented don't-care
\* (only SF8 / 15.6 kHz); everywhere else the rule is unambiguous.
LdroNominal(sf, bw) == Pow2(sf) * 100000 >= 1638 * BwHz[bw + 1]
LdroAmbiguous(sf, bw) == LdroExact(sf, bw) # LdroNominal(sf, bw)
Ldro(sf, bw) == LdroExact(sf, bw)

CeilDiv(num, den) == -((-num) \div den)      \* den > 0, exact ceiling for any integer num
Max(a, b) == IF a >= b THEN a ELSE b

\* Number of payload symbols; h = 1 for explicit header, de from the symbol time in use.
PayloadSymbols(sf, cr, de, explicitHeader, len) ==
    LET ih  == IF explicitHeader THEN 0 ELSE 1
        num == 8 * len - 4 * sf + 28 + 16 - 20 * ih
        den == 4 * (sf - 2 * de)
    IN 8 + Max(CeilDiv(num, den), 0) * cr

\* Time on air in microseconds.  pre = -1 : preamble and sync word excluded.
Toa(sf, bw, cr, explicitHeader, pre, len) ==
    LET ts == TSymUs(sf, bw)
        de == IF ts >= 16380 THEN 1 ELSE 0
        n  == PayloadSymbols(sf, cr, de, explicitHeader, len)
    IN IF pre < 0 THEN ts * n
       ELSE ((4 * pre + 17 + 4 * n) * ts) \div 4

=============================================================================
