SPECIFICATION Spec
CONSTANTS
  WireMod = 65536
  MaxGap = 16384
  HiMax = 65535
  AdrLimit = 64
  AdrDelay = 32
  Region = "US915"
  MaxJoins = 2
  MaxDown = 1
  DlSet = {18, 127}
  DelSet = {0, 5}
  CfKinds = {"t1ok", "t1zero"}
VIEW JView
INVARIANTS Emit
CHECK_DEADLOCK FALSE
