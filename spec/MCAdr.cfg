SPECIFICATION Spec
CONSTANTS
  WireMod = 16
  MaxGap = 4
  HiMax = 3
  AdrLimit = 2
  AdrDelay = 1
  Region = "AU915"
  DrChoices = {0, 2, 6}
INVARIANTS HeaderBitsFollowHistory AdrCounterIsSilentUplinks DataRateOnlyStepsAtThresholds AckOwedMatches
PROPERTY CounterNeverRewinds
CONSTRAINT Bound
CHECK_DEADLOCK FALSE
