------------------------------ MODULE CmdCases ------------------------------
(* Spec-derived enumeration of framing cases for C03 (DESIGN section 6, C03   *)
(* driver 1): for each of the six command sets, every CID 0..255 x every     *)
(* truncation point of the command (per its length rule in MacCmds.tla,      *)
(* including every AnsGroupMask of McGroupStatusAns and both readings of the  *)
(* conditional TimeToStart) x {alone, followed by a valid command, followed   *)
(* by an unknown CID}.  A case is a template: a sequence of octets in which   *)
(* -1 stands for "any octet" (instantiated by the harness).  TLC writes the   *)
(* cases as JSON to the file named by the environment variable OUT.           *)
EXTENDS MacCmds, Json, IOUtils, SequencesExt

VARIABLE x
Init == x = 0
Next == x' = x
Spec == Init /\ [][Next]_x

RECURSIVE Wild(_)
Wild(n) == IF n = 0 THEN <<>> ELSE <<-1>> \o Wild(n - 1)
PrefixesFrom(s, lo) == {SubSeq(s, 1, t) : t \in lo..Len(s)}

FixedCmds(set) == {k \in 1..Len(CmdsOf(set)) : CmdsOf(set)[k].len >= 0}
MinFixed(set) == CHOOSE k \in FixedCmds(set) : \A j \in FixedCmds(set) : CmdsOf(set)[k].len <= CmdsOf(set)[j].len
MaxFixed(set) == CHOOSE k \in FixedCmds(set) : \A j \in FixedCmds(set) : CmdsOf(set)[k].len >= CmdsOf(set)[j].len
Whole(c) == <<c.cid>> \o Wild(c.len)
\* 255 is not a CID of any set (proprietary range)
ASSUME \A s \in SetNames : LenTab(s)[256] = NoCmd
SomeUnknown(set) == 255
Tails(set) == { <<>>, Whole(CmdsOf(set)[MinFixed(set)]), Whole(CmdsOf(set)[MaxFixed(set)]), <<SomeUnknown(set)>> }

Heads(set, cid) ==
    LET rule == LenTab(set)[cid + 1] IN
    IF rule = NoCmd THEN { <<cid>> }
    ELSE IF rule >= 0 THEN PrefixesFrom(<<cid>> \o Wild(rule), 1)
    ELSE IF rule = RestMin1 THEN { <<cid>> \o Wild(n) : n \in {0, 1, 2, 3, 5, 20, 100, 241, 254} }
    ELSE IF rule = GroupMask THEN
        UNION { PrefixesFrom(<<cid, hi * 16 + m>> \o Wild(5 * PopCount4(m)), 1) : hi \in {0, 7, 15}, m \in 0..15 }
    ELSE UNION { PrefixesFrom(<<cid, st>> \o Wild(3), 1) : st \in {0, 3, 4, 8, 16, 28, 32, 227, 255} }

Cases(set) ==
    LET tails == Tails(set) IN
    { <<>> } \cup UNION { { h \o t : h \in Heads(set, cid), t \in tails } : cid \in 0..255 }
AllCases == UNION { { [set |-> s, t |-> c] : c \in {d \in Cases(s) : Len(d) <= 255} } : s \in SetNames }

ASSUME JsonSerialize(IOEnv.OUT, SetToSeq(AllCases))
ASSUME PrintT(<<"INFO", "cases", Cardinality(AllCases)>>)
=============================================================================
