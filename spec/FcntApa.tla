------------------------------ MODULE FcntApa ------------------------------
(* C05, unbounded in the sense that matters: with the REAL constants        *)
(* (16-bit wire counter, MAX_FCNT_GAP 16384, 32-bit counters), for every    *)
(* last accepted counter (or none) and every candidate counter n, the       *)
(* device's reconstruction FcntCore!Reconstruct accepts n's wire value as n iff n  *)
(* is fresh: last < n <= last + MaxGap (first frame: n in the first epoch), *)
(* and the counter it reconstructs is always congruent to the wire value    *)
(* and inside the window.  Checked by Apalache (SMT) over all inputs at     *)
(* once; TLC checks the same operator exhaustively on scaled constants      *)
(* (MCFcnt) and against the implementation (FcntTrace, MacTrace).           *)
EXTENDS Integers, Sequences, FcntCore

WM == 65536
MG == 16384
HM == 65535

VARIABLES
    \* @type: Seq(Int);
    last,
    \* @type: Int;
    nhi,
    \* @type: Int;
    nlo,
    \* @type: Int;
    wire

\* @type: Seq(Int) => Int;
Val(c) == c[1] * WM + c[2]

Init ==
    /\ \E h \in 0..HM, l \in 0..(WM - 1), none \in BOOLEAN : last = IF none THEN <<>> ELSE <<h, l>>
    /\ nhi \in 0..HM /\ nlo \in 0..(WM - 1) /\ wire \in 0..(WM - 1)
Next == UNCHANGED <<last, nhi, nlo, wire>>

Fresh == IF last = <<>> THEN nhi = 0 ELSE Val(last) < Val(<<nhi, nlo>>) /\ Val(<<nhi, nlo>>) <= Val(last) + MG

\* an authentic frame with counter n = <<nhi, nlo>> is accepted (its MIC verifies under the reconstructed counter)
\* iff n is fresh
AcceptIffFresh == (Reconstruct(WM, MG, HM, last, nlo) = <<nhi, nlo>>) <=> Fresh

\* whatever arrives on the wire: the reconstruction is <<>> or a counter congruent to it inside the window
ReconstructionSound ==
    LET r == Reconstruct(WM, MG, HM, last, wire) IN
    r = <<>> \/ (/\ r[2] = wire /\ r[1] \in 0..HM
                 /\ (last = <<>> \/ (Val(last) < Val(r) /\ Val(r) <= Val(last) + MG)))
\* and it is complete: if some counter in the window is congruent to the wire value, it is found
ReconstructionComplete ==
    (last # <<>> /\ \E h \in 0..HM : Val(last) < h * WM + wire /\ h * WM + wire <= Val(last) + MG)
        => Reconstruct(WM, MG, HM, last, wire) # <<>>

Inv == AcceptIffFresh /\ ReconstructionSound /\ ReconstructionComplete
=============================================================================
