SPECIFICATION LiveSpec
CONSTANTS
  WireMod = 4
  MaxGap = 2
  HiMax = 1
  AdrLimit = 2
  AdrDelay = 1
  StartUps <- StartUpsDef
  ClassC = TRUE
PROPERTY ProcedureReturns
CONSTRAINT Bound
CHECK_DEADLOCK FALSE
