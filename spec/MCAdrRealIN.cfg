SPECIFICATION Spec
CONSTANTS
  WireMod = 65536
  MaxGap = 16384
  HiMax = 65535
  AdrLimit = 64
  AdrDelay = 32
  Region = "IN865"
  DrChoices = {0, 5, 7}
INVARIANTS HeaderBitsFollowHistory AdrCounterIsSilentUplinks DataRateOnlyStepsAtThresholds AckOwedMatches
PROPERTY CounterNeverRewinds
VIEW RealView
CONSTRAINT BoundReal
CHECK_DEADLOCK FALSE
