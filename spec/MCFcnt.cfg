SPECIFICATION Spec
CONSTANTS
  WireMod = 8
  MaxGap = 2
  HiMax = 3
  AdrLimit = 2
  AdrDelay = 1
INVARIANTS AcceptIffFresh StrictlyIncreasing NoDoubleAccept UniqueReconstruction LastIsLastAccepted
PROPERTY NeverBackwards
CONSTRAINT Bound
CHECK_DEADLOCK FALSE
