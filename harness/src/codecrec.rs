//! Recorder for the lorawan-encoding frame builders and parsers (C01, C02).
//! Every event is one call of the real API with its arguments and its complete result.
use crate::cli::{catch, Args, Shards};
use crate::trace::bytes;
use lorawan::creator::{DataFrame, JoinAccept, JoinRequest, Payload};
use lorawan::default_crypto::{DefaultCrypto, DefaultNetworkCrypto};
use lorawan::keys::{Crypto, AES128};
use lorawan::parser::{
    self, CfList, DataFrameType, DecryptedDataPayload, DecryptedJoinAcceptPayload, DevAddr, DevEui, DevNonce,
    EncryptedDataPayload, Frequency, FrmPayload, JoinEui, JoinNonce, JoinRequestPayload, NetId, PhyPayload,
};
use lorawan::types::{ChannelMask, DLSettings};
use rand::rngs::StdRng;
use rand::{Rng, SeedableRng};
use serde_json::{json, Value};
use std::num::NonZeroU8;

#[derive(Clone, Debug)]
pub struct Desc {
    pub mtype: u8,
    pub addr: [u8; 4],
    pub adr: bool,
    pub adrackreq: bool,
    pub ack: bool,
    pub fpending: bool,
    pub fcnt: u32,
    pub fopts: Vec<u8>,
    pub port: i32,
    pub frm: Vec<u8>,
    pub nwk: [u8; 16],
    pub app: Option<[u8; 16]>,
    pub buflen: usize,
    pub net_crypto: bool,
}

fn pair(v: u32) -> Value {
    json!([v >> 16, v & 0xFFFF])
}

impl Desc {
    pub fn to_json(&self) -> Value {
        json!({
            "mtype": self.mtype, "addr": bytes(&self.addr), "adr": self.adr as u8, "adrackreq": self.adrackreq as u8,
            "ack": self.ack as u8, "fpending": self.fpending as u8, "fcnt": pair(self.fcnt),
            "fopts": bytes(&self.fopts), "port": self.port, "frm": bytes(&self.frm),
            "nwk": bytes(&self.nwk), "app": self.app.map(|k| bytes(&k)).unwrap_or(json!([])),
            "buflen": self.buflen, "crypto": if self.net_crypto {"net"} else {"dev"},
        })
    }
    pub fn need(&self) -> usize {
        1 + 7 + self.fopts.len() + if self.port >= 0 { 1 + self.frm.len() } else { 0 } + 4
    }
}

fn frame_type(m: u8) -> DataFrameType {
    match m {
        2 => DataFrameType::UnconfirmedUp,
        3 => DataFrameType::UnconfirmedDown,
        4 => DataFrameType::ConfirmedUp,
        _ => DataFrameType::ConfirmedDown,
    }
}

/// The caller's buffer before a build: zeroed for even `salt`, otherwise holding left-over bytes (a reused
/// buffer).  What is built must not depend on it.
fn used_buffer(len: usize, salt: usize) -> Vec<u8> {
    if salt % 2 == 0 {
        vec![0u8; len]
    } else {
        (0..len).map(|i| 0xA5u8 ^ (i as u8).wrapping_mul(37) ^ salt as u8).collect()
    }
}

fn build_with<C: Crypto>(d: &Desc, nwk: &C, app: Option<&C>) -> Result<Vec<u8>, String> {
    let mut buf = used_buffer(d.buflen, d.frm.len() + d.fopts.len() + d.port.unsigned_abs() as usize);
    let payload = if d.port < 0 {
        Payload::None
    } else if d.port == 0 {
        Payload::MacCommands(&d.frm)
    } else {
        Payload::Data { f_port: NonZeroU8::new(d.port as u8).unwrap(), data: &d.frm }
    };
    let frame = DataFrame {
        frame_type: frame_type(d.mtype),
        dev_addr: DevAddr::from_wire_bytes(d.addr),
        adr: d.adr,
        adr_ack_req: d.adrackreq,
        ack: d.ack,
        f_pending: d.fpending,
        fcnt: d.fcnt,
        f_opts: &d.fopts,
        payload,
    };
    frame.build_into(&mut buf, nwk, app).map(|b| b.to_vec()).map_err(|e| format!("{e:?}"))
}

pub fn build(d: &Desc) -> Result<Result<Vec<u8>, String>, String> {
    catch(|| {
        if d.net_crypto {
            let n = DefaultNetworkCrypto::new(&AES128(d.nwk));
            let a = d.app.map(|k| DefaultNetworkCrypto::new(&AES128(k)));
            build_with(d, &n, a.as_ref())
        } else {
            let n = DefaultCrypto::new(&AES128(d.nwk));
            let a = d.app.map(|k| DefaultCrypto::new(&AES128(k)));
            build_with(d, &n, a.as_ref())
        }
    })
}

fn rnd_bytes(rng: &mut StdRng, n: usize) -> Vec<u8> {
    (0..n).map(|_| rng.r#gen()).collect()
}
fn rnd16(rng: &mut StdRng) -> [u8; 16] {
    let mut k = [0u8; 16];
    rng.fill(&mut k);
    k
}

const COUNTERS: [u32; 10] =
    [0, 1, 0xFFFF, 0x10000, 0x1FFFF, 0x7FFF_FFFF, 0x8000_0000, 0xFFFF_FFFE, 0xFFFF_FFFF, 0x0001_0001];
const PORTS: [i32; 6] = [-1, 0, 1, 223, 224, 255];

fn base(rng: &mut StdRng) -> Desc {
    let fcnt = if rng.gen_bool(0.5) { COUNTERS[rng.gen_range(0..COUNTERS.len())] } else { rng.r#gen() };
    Desc {
        mtype: rng.gen_range(2..=5),
        addr: rng.r#gen(),
        adr: rng.r#gen(),
        adrackreq: rng.r#gen(),
        ack: rng.r#gen(),
        fpending: rng.r#gen(),
        fcnt,
        fopts: vec![],
        port: 1,
        frm: vec![],
        nwk: rnd16(rng),
        app: Some(rnd16(rng)),
        buflen: 256,
        net_crypto: rng.r#gen(),
    }
}

/// The covering design of frame descriptions (DESIGN §6 C01).
pub fn descriptions(seed: u64, thorough: bool) -> Vec<Desc> {
    let mut rng = StdRng::seed_from_u64(seed ^ 0xC0DEC);
    let mut v = Vec::new();
    // 1. every payload length 0..242
    for len in 0..=242usize {
        let mut d = base(&mut rng);
        d.frm = rnd_bytes(&mut rng, len);
        if rng.gen_ratio(1, 4) {
            d.port = 0;
        } else {
            d.port = [1, 223, 224, 255, rng.gen_range(1..=255)][rng.gen_range(0..5)];
            let room = (242 - len).min(15);
            d.fopts = { let n = rng.gen_range(0..=room); rnd_bytes(&mut rng, n) };
        }
        v.push(d);
    }
    // 2. every frame type x every flag combination
    for mtype in 2..=5u8 {
        for flags in 0..16u8 {
            let mut d = base(&mut rng);
            d.mtype = mtype;
            d.adr = flags & 1 != 0;
            d.adrackreq = flags & 2 != 0;
            d.ack = flags & 4 != 0;
            d.fpending = flags & 8 != 0;
            d.frm = { let n = rng.gen_range(0..20); rnd_bytes(&mut rng, n) };
            d.fopts = { let n = rng.gen_range(0..=15); rnd_bytes(&mut rng, n) };
            v.push(d);
        }
    }
    // 3. FOpts lengths 0..15 with and without port, and the forbidden 16..20
    for fl in 0..=20usize {
        for port in [-1, 7] {
            let mut d = base(&mut rng);
            d.fopts = rnd_bytes(&mut rng, fl);
            d.port = port;
            d.frm = if port < 0 { vec![] } else { rnd_bytes(&mut rng, 3) };
            v.push(d);
        }
    }
    // 3b. FOpts far beyond the limit, around the sizes where a length kept in 8 bits (or in the 4-bit FOptsLen
    // field) wraps: still refused, whatever the buffer could hold
    for fl in [31usize, 32, 47, 240, 255, 256, 257, 260, 271, 272, 300, 511, 512, 520, 527] {
        for port in [-1, 7] {
            let mut d = base(&mut rng);
            d.fopts = rnd_bytes(&mut rng, fl);
            d.port = port;
            d.frm = if port < 0 { vec![] } else { rnd_bytes(&mut rng, 3) };
            d.buflen = 600;
            v.push(d);
        }
    }
    // 4. ports x payload sizes around block boundaries; FOpts with port 0 (forbidden)
    for port in PORTS {
        for len in [0usize, 1, 15, 16, 17, 32, 33] {
            let mut d = base(&mut rng);
            d.port = port;
            d.frm = if port < 0 { vec![] } else { rnd_bytes(&mut rng, len) };
            v.push(d.clone());
            if port == 0 {
                d.fopts = rnd_bytes(&mut rng, 1 + len % 15);
                v.push(d);
            }
        }
    }
    // 5. counters x frame types
    for c in COUNTERS {
        for mtype in 2..=5u8 {
            let mut d = base(&mut rng);
            d.fcnt = c;
            d.mtype = mtype;
            d.frm = rnd_bytes(&mut rng, 18);
            d.port = if mtype % 2 == 0 { 0 } else { 9 };
            v.push(d);
        }
    }
    // 6. missing application key; buffer sizes at the boundary
    for len in [0usize, 1, 40] {
        let mut d = base(&mut rng);
        d.app = None;
        d.port = 5;
        d.frm = rnd_bytes(&mut rng, len);
        v.push(d.clone());
        d.port = 0; // port 0 needs only the network key
        v.push(d.clone());
        d.port = -1;
        d.frm = vec![];
        v.push(d);
    }
    for _ in 0..12 {
        let mut d = base(&mut rng);
        d.frm = { let n = rng.gen_range(0..60); rnd_bytes(&mut rng, n) };
        d.fopts = { let n = rng.gen_range(0..=15); rnd_bytes(&mut rng, n) };
        let need = d.need();
        for bl in [0, 1, need - 1, need, need + 1] {
            let mut e = d.clone();
            e.buflen = bl;
            v.push(e);
        }
    }
    // 7. random fill
    let n = if thorough { 45_000 } else { 1_200 };
    for _ in 0..n {
        let mut d = base(&mut rng);
        d.port = if rng.gen_ratio(1, 6) { -1 } else if rng.gen_ratio(1, 5) { 0 } else { rng.gen_range(1..=255) };
        let len = if rng.gen_ratio(1, 3) { rng.gen_range(0..=242) } else { rng.gen_range(0..=40) };
        d.frm = if d.port < 0 { vec![] } else { rnd_bytes(&mut rng, len) };
        if d.port != 0 {
            let room = (242 - d.frm.len()).min(15);
            d.fopts = { let n = rng.gen_range(0..=room); rnd_bytes(&mut rng, n) };
        }
        if rng.gen_ratio(1, 40) {
            d.app = None;
        }
        v.push(d);
    }
    v
}

#[derive(Clone, Debug)]
pub struct JaDesc {
    pub join_nonce: [u8; 3],
    pub net_id: [u8; 3],
    pub dev_addr: [u8; 4],
    pub dl: u8,
    pub rxdelay: u8,
    pub cftype: i32,
    pub cf: Vec<u8>,
    pub key: [u8; 16],
    pub buflen: usize,
}

pub fn ja_descriptions(seed: u64, thorough: bool) -> Vec<JaDesc> {
    let mut rng = StdRng::seed_from_u64(seed ^ 0x1A);
    let mut v = Vec::new();
    let n = if thorough { 256 * 8 } else { 256 };
    for i in 0..n {
        let cftype = [-1, 0, 1][i % 3];
        let cf = match cftype {
            0 => rnd_bytes(&mut rng, 15),
            1 => rnd_bytes(&mut rng, 9),
            _ => vec![],
        };
        let need = if cftype >= 0 { 33 } else { 17 };
        v.push(JaDesc {
            join_nonce: rng.r#gen(),
            net_id: rng.r#gen(),
            dev_addr: rng.r#gen(),
            dl: (i % 256) as u8,
            rxdelay: ((i / 3) % 16) as u8,
            cftype,
            cf,
            key: rnd16(&mut rng),
            buflen: if i % 17 == 0 { need - 1 } else if i % 19 == 0 { need } else { 64 },
        });
    }
    v
}

pub fn build_ja(d: &JaDesc) -> Result<Result<Vec<u8>, String>, String> {
    catch(|| {
        let c_f_list = match d.cftype {
            0 => {
                let mut f = [Frequency::default(); 5];
                for (i, fr) in f.iter_mut().enumerate() {
                    *fr = Frequency::from_wire_bytes([d.cf[3 * i], d.cf[3 * i + 1], d.cf[3 * i + 2]]);
                }
                Some(CfList::DynamicChannel(f))
            }
            1 => Some(CfList::FixedChannel(ChannelMask::<9>::new_from_raw(&d.cf))),
            _ => None,
        };
        let ja = JoinAccept {
            join_nonce: JoinNonce::from_wire_bytes(d.join_nonce),
            net_id: NetId::from_wire_bytes(d.net_id),
            dev_addr: DevAddr::from_wire_bytes(d.dev_addr),
            dl_settings: DLSettings::new(d.dl),
            rx_delay: d.rxdelay,
            c_f_list,
        };
        let mut buf = used_buffer(d.buflen, d.key[0] as usize);
        let crypto = DefaultNetworkCrypto::new(&AES128(d.key));
        ja.build_into(&mut buf, &crypto).map(|b| b.to_vec()).map_err(|e| format!("{e:?}"))
    })
}

fn res_json(r: &Result<Result<Vec<u8>, String>, String>) -> (u8, Value, String) {
    match r {
        Ok(Ok(b)) => (1, bytes(b), String::new()),
        Ok(Err(e)) => (0, json!([]), e.clone()),
        Err(p) => (2, json!([]), format!("panic: {p}")),
    }
}

/// `vh codec_build` (C01)
pub fn codec_build(a: &Args) {
    let mut out = Shards::create(&a.out, "build", a.shards);
    for d in descriptions(a.seed, a.thorough) {
        let r = build(&d);
        let (ok, o, err) = res_json(&r);
        out.emit(&json!({"ev":"build_data","d":d.to_json(),"ok":ok,"out":o,"err":err}));
    }
    let mut rng = StdRng::seed_from_u64(a.seed ^ 0x17);
    for i in 0..(if a.thorough { 600 } else { 60 }) {
        let join_eui: [u8; 8] = rng.r#gen();
        let dev_eui: [u8; 8] = rng.r#gen();
        let dev_nonce: [u8; 2] = rng.r#gen();
        let key = rnd16(&mut rng);
        let buflen = [23usize, 22, 64, 0, 255][i % 5];
        let r = catch(|| {
            let jr = JoinRequest {
                join_eui: JoinEui::from_wire_bytes(join_eui),
                dev_eui: DevEui::from_wire_bytes(dev_eui),
                dev_nonce: DevNonce::from_wire_bytes(dev_nonce),
            };
            let mut buf = used_buffer(buflen, dev_nonce[0] as usize);
            let crypto = DefaultCrypto::new(&AES128(key));
            jr.build_into(&mut buf, &crypto).map(|b| b.to_vec()).map_err(|e| format!("{e:?}"))
        });
        let (ok, o, err) = res_json(&r);
        out.emit(&json!({"ev":"build_jr","join_eui":bytes(&join_eui),"dev_eui":bytes(&dev_eui),
            "dev_nonce":bytes(&dev_nonce),"key":bytes(&key),"buflen":buflen,"ok":ok,"out":o,"err":err}));
    }
    for d in ja_descriptions(a.seed, a.thorough) {
        let r = build_ja(&d);
        let (ok, o, err) = res_json(&r);
        out.emit(&json!({"ev":"build_ja","join_nonce":bytes(&d.join_nonce),"net_id":bytes(&d.net_id),
            "dev_addr":bytes(&d.dev_addr),"dl":d.dl,"rxdelay":d.rxdelay,"cftype":d.cftype,"cf":bytes(&d.cf),
            "key":bytes(&d.key),"buflen":d.buflen,"ok":ok,"out":o,"err":err}));
    }
    println!("events={}", out.finish());
}

// ------------------------------------------------------------------ parsing side (C02)

fn data_fields(frame_type: DataFrameType, fhdr: &parser::Fhdr<'_>, port: Option<u8>, mic: [u8; 4]) -> Value {
    let m = match frame_type {
        DataFrameType::UnconfirmedUp => 2,
        DataFrameType::UnconfirmedDown => 3,
        DataFrameType::ConfirmedUp => 4,
        DataFrameType::ConfirmedDown => 5,
    };
    let fc = fhdr.fctrl();
    json!({
        "mtype": m, "uplink": frame_type.is_uplink() as u8, "confirmed": frame_type.is_confirmed() as u8,
        "addr": bytes(fhdr.dev_addr().as_wire_bytes()), "fctrl": fc.raw_value(), "adr": fc.adr() as u8,
        "adrackreq": fc.adr_ack_req() as u8, "ack": fc.ack() as u8, "fpending": fc.f_pending() as u8,
        "foptslen": fc.f_opts_len(), "fcnt16": fhdr.fcnt(), "fopts": bytes(fhdr.f_opts()),
        "port": port.map(|p| p as i32).unwrap_or(-1), "mic": bytes(&mic),
    })
}

fn ev_parse(b: &[u8]) -> Value {
    let r = catch(|| match parser::parse(b) {
        Ok(PhyPayload::Data(d)) => {
            // exercise every accessor of the view
            let _ = (d.is_uplink(), d.is_confirmed(), d.as_bytes().len(), d.fhdr().mc_addr());
            ("data", data_fields(d.frame_type(), &d.fhdr(), d.f_port(), d.mic().0))
        }
        Ok(PhyPayload::JoinRequest(j)) => (
            "jr",
            json!({"join_eui": bytes(j.join_eui().as_wire_bytes()), "dev_eui": bytes(j.dev_eui().as_wire_bytes()),
                   "dev_nonce": bytes(j.dev_nonce().as_wire_bytes()), "mic": bytes(&j.mic().0)}),
        ),
        Ok(PhyPayload::JoinAccept(j)) => {
            let _ = j.as_bytes();
            ("ja", json!({}))
        }
        Err(e) => ("err", json!({"err": format!("{e:?}")})),
    });
    match r {
        Ok((cls, r)) => json!({"ev":"parse","bytes":bytes(b),"cls":cls,"r":r}),
        Err(p) => json!({"ev":"parse","bytes":bytes(b),"cls":"panic","r":{"err":p}}),
    }
}

fn ev_parse_data(b: &[u8]) -> Value {
    let r = catch(|| match EncryptedDataPayload::parse(b) {
        Ok(d) => (1, data_fields(d.frame_type(), &d.fhdr(), d.f_port(), d.mic().0)),
        Err(e) => (0, json!({"err": format!("{e:?}")})),
    });
    match r {
        Ok((ok, r)) => json!({"ev":"parse_data","bytes":bytes(b),"ok":ok,"r":r}),
        Err(p) => json!({"ev":"parse_data","bytes":bytes(b),"ok":2,"r":{"err":p}}),
    }
}

fn ev_mic(b: &[u8], key: &[u8; 16], fcnt: u32) -> Option<Value> {
    let r = catch(|| {
        EncryptedDataPayload::parse(b).ok().map(|d| d.validate_mic(&DefaultCrypto::new(&AES128(*key)), fcnt))
    });
    match r {
        Ok(Some(ok)) => Some(json!({"ev":"mic","bytes":bytes(b),"key":bytes(key),"fcnt":pair(fcnt),"ok":ok as u8})),
        Ok(None) => None,
        Err(p) => Some(json!({"ev":"mic","bytes":bytes(b),"key":bytes(key),"fcnt":pair(fcnt),"ok":2,"err":p})),
    }
}

fn ev_decode(b: &[u8], nwk: &[u8; 16], app: Option<&[u8; 16]>, fcnt: u32) -> Value {
    let mut buf = b.to_vec();
    let r = catch(|| {
        let n = DefaultCrypto::new(&AES128(*nwk));
        let a = app.map(|k| DefaultCrypto::new(&AES128(*k)));
        match DecryptedDataPayload::check_mic_and_decrypt_in_place(&mut buf, &n, a.as_ref(), fcnt) {
            Ok(d) => {
                let (kind, frm): (&str, Vec<u8>) = match d.frm_payload() {
                    FrmPayload::Data(x) => ("data", x.to_vec()),
                    FrmPayload::MacCommands(x) => ("mac", x.to_vec()),
                    FrmPayload::None => ("none", vec![]),
                };
                let mut f = data_fields(d.frame_type(), &d.fhdr(), d.f_port(), d.mic().0);
                f["frm"] = bytes(&frm);
                f["frmkind"] = json!(kind);
                (1, f)
            }
            Err(e) => (0, json!({"err": format!("{e:?}")})),
        }
    });
    let (ok, r) = match r {
        Ok(x) => x,
        Err(p) => (2, json!({"err": p})),
    };
    json!({"ev":"decode","bytes":bytes(b),"nwk":bytes(nwk),"app":app.map(|k| bytes(k)).unwrap_or(json!([])),
           "fcnt":pair(fcnt),"ok":ok,"r":r,"after":bytes(&buf)})
}

fn ev_decrypt2(b: &[u8], nwk: &[u8; 16], app: Option<&[u8; 16]>, fcnt: u32) -> Value {
    let mut buf = b.to_vec();
    let r = catch(|| {
        let n = DefaultCrypto::new(&AES128(*nwk));
        let a = app.map(|k| DefaultCrypto::new(&AES128(*k)));
        let ok1 = DecryptedDataPayload::decrypt_in_place(&mut buf, Some(&n), a.as_ref(), fcnt).is_ok();
        let after1 = buf.clone();
        let ok2 = DecryptedDataPayload::decrypt_in_place(&mut buf, Some(&n), a.as_ref(), fcnt).is_ok();
        (ok1 && ok2, after1)
    });
    let (ok, after1) = match r {
        Ok((ok, a1)) => (ok as u8, a1),
        Err(_) => (2, vec![]),
    };
    json!({"ev":"decrypt2","bytes":bytes(b),"nwk":bytes(nwk),"app":app.map(|k| bytes(k)).unwrap_or(json!([])),
           "fcnt":pair(fcnt),"ok":ok,"after1":bytes(&after1),"after2":bytes(&buf)})
}

fn ev_ja_decode(b: &[u8], key: &[u8; 16], dev_nonce: [u8; 2]) -> Value {
    let mut buf = b.to_vec();
    let r = catch(|| {
        let c = DefaultCrypto::new(&AES128(*key));
        match DecryptedJoinAcceptPayload::check_mic_and_decrypt_in_place(&mut buf, &c) {
            Ok(d) => {
                let (cftype, cf): (i32, Vec<u8>) = match d.c_f_list() {
                    Some(CfList::DynamicChannel(f)) => (0, f.iter().flat_map(|x| x.as_wire_bytes().to_vec()).collect()),
                    Some(CfList::FixedChannel(m)) => (1, m.as_ref().to_vec()),
                    None => (-1, vec![]),
                };
                let dn = DevNonce::from_wire_bytes(dev_nonce);
                let nwk = d.derive_nwkskey(dn, &c);
                let app = d.derive_appskey(dn, &c);
                let _ = (d.mic(), d.as_bytes().len());
                (1, json!({
                    "join_nonce": bytes(d.join_nonce().as_wire_bytes()), "net_id": bytes(d.net_id().as_wire_bytes()),
                    "dev_addr": bytes(d.dev_addr().as_wire_bytes()), "dl": d.dl_settings().raw_value(),
                    "rxdelay": d.rx_delay(), "cftype": cftype, "cf": bytes(&cf),
                    "nwkskey": bytes(nwk.as_ref()), "appskey": bytes(app.as_ref()),
                }))
            }
            Err(e) => (0, json!({"err": format!("{e:?}")})),
        }
    });
    let (ok, r) = match r {
        Ok(x) => x,
        Err(p) => (2, json!({"err": p})),
    };
    json!({"ev":"ja_decode","bytes":bytes(b),"key":bytes(key),"dev_nonce":bytes(&dev_nonce),"ok":ok,"r":r,
           "after":bytes(&buf)})
}

fn ev_jr_mic(b: &[u8], key: &[u8; 16]) -> Option<Value> {
    let r = catch(|| JoinRequestPayload::parse(b).ok().map(|j| j.validate_mic(&DefaultCrypto::new(&AES128(*key)))));
    match r {
        Ok(Some(ok)) => Some(json!({"ev":"jr_mic","bytes":bytes(b),"key":bytes(key),"ok":ok as u8})),
        Ok(None) => None,
        Err(_) => Some(json!({"ev":"jr_mic","bytes":bytes(b),"key":bytes(key),"ok":2})),
    }
}

fn mutate(rng: &mut StdRng, b: &[u8]) -> Vec<u8> {
    let mut m = b.to_vec();
    match rng.gen_range(0..8) {
        0 => m[0] ^= 1 << rng.gen_range(0..8),                       // MHDR
        1 if m.len() > 5 => m[5] ^= 1 << rng.gen_range(0..8),        // FCtrl / FOptsLen
        2 => {
            let k = rng.gen_range(1..=m.len().min(6));
            m.truncate(m.len() - k);
        }
        3 => m.extend({ let n = rng.gen_range(1..4); rnd_bytes(rng, n) }),
        4 => {
            let n = m.len();
            m[n - 1 - rng.gen_range(0..4.min(n))] ^= 1 << rng.gen_range(0..8); // MIC
        }
        5 if m.len() > 7 => m[rng.gen_range(6..8)] ^= 1 << rng.gen_range(0..8), // FCnt
        _ => {
            let i = rng.gen_range(0..m.len());
            m[i] ^= 1 << rng.gen_range(0..8);
            if rng.gen_bool(0.3) {
                let j = rng.gen_range(0..m.len());
                m[j] ^= 1 << rng.gen_range(0..8);
            }
        }
    }
    m
}

/// MICs that differ from the given one in structured ways a weak comparison could overlook: the same pattern XOR-ed
/// into two, three or all four octets (differences cancel under XOR), octets rotated / reversed / swapped (same
/// multiset), and +1 / -1 on two octets (same sum).
fn mic_near_misses(mic: [u8; 4]) -> Vec<[u8; 4]> {
    let mut v: Vec<[u8; 4]> = vec![];
    for pat in [0x01u8, 0x80, 0xff, 0x5a] {
        for mask in 1u8..16 {
            if mask.count_ones() < 2 {
                continue;
            }
            let mut m = mic;
            for (i, x) in m.iter_mut().enumerate() {
                if mask & (1 << i) != 0 {
                    *x ^= pat;
                }
            }
            v.push(m);
        }
    }
    v.push([mic[1], mic[2], mic[3], mic[0]]);
    v.push([mic[3], mic[0], mic[1], mic[2]]);
    v.push([mic[3], mic[2], mic[1], mic[0]]);
    v.push([mic[1], mic[0], mic[2], mic[3]]);
    for (i, j) in [(0usize, 1usize), (0, 2), (0, 3), (1, 2), (1, 3), (2, 3)] {
        let mut m = mic;
        m[i] = m[i].wrapping_add(1);
        m[j] = m[j].wrapping_sub(1);
        v.push(m);
    }
    v.retain(|m| *m != mic);
    v.sort();
    v.dedup();
    v
}

/// `vh codec_parse` (C02)
pub fn codec_parse(a: &Args) {
    let mut out = Shards::create(&a.out, "parse", a.shards);
    let mut rng = StdRng::seed_from_u64(a.seed ^ 0x9A55E);
    let descs = descriptions(a.seed, a.thorough);
    let stride = if a.thorough { 1 } else { 2 };
    for (i, d) in descs.iter().enumerate() {
        if i % stride != 0 && i > 400 {
            continue;
        }
        let Ok(Ok(b)) = build(d) else { continue };
        // round trip: the parsed description is the built description
        out.emit(&ev_parse(&b));
        let app = d.app.as_ref();
        out.emit(&ev_decode(&b, &d.nwk, app, d.fcnt));
        match i % 6 {
            0 => {
                out.emit(&ev_parse_data(&b));
                out.emit(&ev_decrypt2(&b, &d.nwk, app, d.fcnt));
            }
            1 => {
                // counters whose low half does / does not match the wire counter
                for c in [d.fcnt, d.fcnt.wrapping_add(1), d.fcnt ^ 0x0001_0000, d.fcnt ^ 0x8000_0000] {
                    if let Some(e) = ev_mic(&b, &d.nwk, c) {
                        out.emit(&e);
                    }
                }
                out.emit(&ev_decode(&b, &d.nwk, app, d.fcnt ^ 0x0001_0000));
            }
            2 => {
                let wrong = rnd16(&mut rng);
                out.emit(&ev_decode(&b, &wrong, app, d.fcnt));
                out.emit(&ev_decode(&b, &d.nwk, None, d.fcnt));
                out.emit(&ev_decrypt2(&b, &d.nwk, None, d.fcnt));
                if let Some(e) = ev_mic(&b, &wrong, d.fcnt) {
                    out.emit(&e);
                }
            }
            _ => {}
        }
        // the same frame with MHDR RFU bits set (a receiver ignores them; the MIC covers the MHDR octet as sent):
        // MIC recomputed from the primitives with the direction the MType gives
        if i % 16 == 9 && b.len() >= 12 {
            for rfu in [0x04u8, 0x08, 0x10, 0x1c] {
                let mut f = b.clone();
                f[0] |= rfu;
                let n = f.len();
                let dir = if matches!(f[0] >> 5, 2 | 4) { 0u8 } else { 1u8 };
                let mut b0 = [0u8; 16];
                b0[0] = 0x49;
                b0[5] = dir;
                b0[6..10].copy_from_slice(&f[1..5]);
                b0[10..14].copy_from_slice(&d.fcnt.to_le_bytes());
                b0[15] = (n - 4) as u8;
                let c = DefaultCrypto::new(&AES128(d.nwk));
                let mic = lorawan::keys::Crypto::calculate_mic(&c, &b0, &f[..n - 4]);
                f[n - 4..].copy_from_slice(&mic);
                if let Some(e) = ev_mic(&f, &d.nwk, d.fcnt) {
                    out.emit(&e);
                }
                out.emit(&ev_decode(&f, &d.nwk, app, d.fcnt));
            }
        }
        // forged MICs that a folding comparison (XOR, sum, multiset) would take for the right one
        if i % 16 == 5 && b.len() >= 12 {
            let n = b.len();
            let mic = [b[n - 4], b[n - 3], b[n - 2], b[n - 1]];
            for m4 in mic_near_misses(mic) {
                let mut f = b.clone();
                f[n - 4..].copy_from_slice(&m4);
                if let Some(e) = ev_mic(&f, &d.nwk, d.fcnt) {
                    out.emit(&e);
                }
                out.emit(&ev_decode(&f, &d.nwk, app, d.fcnt));
            }
        }
        // mutations of the valid frame
        for _ in 0..(if a.thorough { 3 } else { 2 }) {
            let m = mutate(&mut rng, &b);
            out.emit(&ev_parse(&m));
            out.emit(&ev_decode(&m, &d.nwk, app, d.fcnt));
            if rng.gen_ratio(1, 4) {
                out.emit(&ev_parse_data(&m));
                out.emit(&ev_decrypt2(&m, &d.nwk, app, d.fcnt));
            }
        }
    }
    // random byte strings of every length 0..255
    for rep in 0..(if a.thorough { 8 } else { 1 }) {
        for len in 0..=255usize {
            let mut b = rnd_bytes(&mut rng, len);
            if len > 0 && rep % 2 == 0 {
                // bias towards parseable MHDRs
                b[0] = (rng.gen_range(0..8u8) << 5) | if rng.gen_ratio(1, 8) { rng.gen_range(0..4) } else { 0 };
            }
            let nwk = rnd16(&mut rng);
            let app = rnd16(&mut rng);
            let fcnt: u32 = rng.r#gen();
            out.emit(&ev_parse(&b));
            out.emit(&ev_parse_data(&b));
            out.emit(&ev_decode(&b, &nwk, Some(&app), fcnt));
            if len % 4 == 0 {
                out.emit(&ev_decrypt2(&b, &nwk, Some(&app), fcnt));
            }
            if len == 17 || len == 33 || len % 16 == 1 {
                out.emit(&ev_ja_decode(&b, &nwk, rng.r#gen()));
            }
        }
    }
    // join accepts and join requests
    for (i, d) in ja_descriptions(a.seed, a.thorough).iter().enumerate() {
        let Ok(Ok(b)) = build_ja(d) else { continue };
        let dn: [u8; 2] = rng.r#gen();
        out.emit(&ev_parse(&b));
        out.emit(&ev_ja_decode(&b, &d.key, dn));
        if i % 8 == 1 {
            // JoinAccepts whose MIC (inside the encryption) is a near miss: decrypt as the device does, replace
            // the MIC, wrap again as a network server does
            let c = DefaultNetworkCrypto::new(&AES128(d.key));
            let mut plain = b.clone();
            for block in plain[1..].chunks_exact_mut(16) {
                lorawan::keys::Crypto::encrypt_block(&c, block);
            }
            let n = plain.len();
            let mic = [plain[n - 4], plain[n - 3], plain[n - 2], plain[n - 1]];
            for m4 in mic_near_misses(mic).into_iter().step_by(3) {
                let mut f = plain.clone();
                f[n - 4..].copy_from_slice(&m4);
                for block in f[1..].chunks_exact_mut(16) {
                    lorawan::keys::NetworkCrypto::decrypt_block(&c, block);
                }
                out.emit(&ev_ja_decode(&f, &d.key, dn));
            }
        }
        if i % 3 == 0 {
            out.emit(&ev_ja_decode(&b, &rnd16(&mut rng), dn));
            let m = mutate(&mut rng, &b);
            out.emit(&ev_ja_decode(&m, &d.key, dn));
            out.emit(&ev_parse(&m));
        }
    }
    for i in 0..(if a.thorough { 400 } else { 60 }) {
        let key = rnd16(&mut rng);
        let jr = JoinRequest {
            join_eui: JoinEui::from_wire_bytes(rng.r#gen()),
            dev_eui: DevEui::from_wire_bytes(rng.r#gen()),
            dev_nonce: DevNonce::from_wire_bytes(rng.r#gen()),
        };
        let mut buf = [0u8; 23];
        // (a builder that refuses or panics here is C01's business: build_jr events; nothing to parse then)
        let Ok(Ok(b)) = catch(|| jr.build_into(&mut buf, &DefaultCrypto::new(&AES128(key))).map(|b| b.to_vec())) else { continue };
        out.emit(&ev_parse(&b));
        if let Some(e) = ev_jr_mic(&b, &key) {
            out.emit(&e);
        }
        if i % 2 == 0 {
            let m = mutate(&mut rng, &b);
            out.emit(&ev_parse(&m));
            if let Some(e) = ev_jr_mic(&m, &key) {
                out.emit(&e);
            }
            if let Some(e) = ev_jr_mic(&b, &rnd16(&mut rng)) {
                out.emit(&e);
            }
        }
    }
    println!("events={}", out.finish());
}

// ------------------------------------------------------------------ replay of recorded events
fn jbytes(v: &Value) -> Vec<u8> {
    v.as_array().map(|a| a.iter().map(|x| x.as_u64().unwrap() as u8).collect()).unwrap_or_default()
}
fn jkey(v: &Value) -> Option<[u8; 16]> {
    let b = jbytes(v);
    if b.len() == 16 { Some(b.try_into().unwrap()) } else { None }
}
fn jfcnt(v: &Value) -> u32 {
    ((v[0].as_u64().unwrap() as u32) << 16) | v[1].as_u64().unwrap() as u32
}

/// `vh codec_replay in=FILE`: re-execute the API calls described by recorded events on the current tree.
pub fn codec_replay(a: &Args) {
    let mut out = Shards::create(&a.out, "replay", 1);
    let text = std::fs::read_to_string(a.get("in").expect("in=FILE")).unwrap();
    for line in text.lines() {
        let e: Value = serde_json::from_str(line).unwrap();
        let b = jbytes(&e["bytes"]);
        match e["ev"].as_str().unwrap() {
            "build_data" => {
                let d = &e["d"];
                let desc = Desc {
                    mtype: d["mtype"].as_u64().unwrap() as u8,
                    addr: jbytes(&d["addr"]).try_into().unwrap(),
                    adr: d["adr"] == 1,
                    adrackreq: d["adrackreq"] == 1,
                    ack: d["ack"] == 1,
                    fpending: d["fpending"] == 1,
                    fcnt: jfcnt(&d["fcnt"]),
                    fopts: jbytes(&d["fopts"]),
                    port: d["port"].as_i64().unwrap() as i32,
                    frm: jbytes(&d["frm"]),
                    nwk: jkey(&d["nwk"]).unwrap(),
                    app: jkey(&d["app"]),
                    buflen: d["buflen"].as_u64().unwrap() as usize,
                    net_crypto: d["crypto"] == "net",
                };
                let (ok, o, err) = res_json(&build(&desc));
                out.emit(&json!({"ev":"build_data","d":desc.to_json(),"ok":ok,"out":o,"err":err}));
            }
            "build_ja" => {
                let d = JaDesc {
                    join_nonce: jbytes(&e["join_nonce"]).try_into().unwrap(),
                    net_id: jbytes(&e["net_id"]).try_into().unwrap(),
                    dev_addr: jbytes(&e["dev_addr"]).try_into().unwrap(),
                    dl: e["dl"].as_u64().unwrap() as u8,
                    rxdelay: e["rxdelay"].as_u64().unwrap() as u8,
                    cftype: e["cftype"].as_i64().unwrap() as i32,
                    cf: jbytes(&e["cf"]),
                    key: jkey(&e["key"]).unwrap(),
                    buflen: e["buflen"].as_u64().unwrap() as usize,
                };
                let (ok, o, err) = res_json(&build_ja(&d));
                out.emit(&json!({"ev":"build_ja","join_nonce":bytes(&d.join_nonce),"net_id":bytes(&d.net_id),
                    "dev_addr":bytes(&d.dev_addr),"dl":d.dl,"rxdelay":d.rxdelay,"cftype":d.cftype,"cf":bytes(&d.cf),
                    "key":bytes(&d.key),"buflen":d.buflen,"ok":ok,"out":o,"err":err}));
            }
            "build_jr" => {
                let key = jkey(&e["key"]).unwrap();
                let buflen = e["buflen"].as_u64().unwrap() as usize;
                let (je, de, dn): ([u8; 8], [u8; 8], [u8; 2]) = (
                    jbytes(&e["join_eui"]).try_into().unwrap(),
                    jbytes(&e["dev_eui"]).try_into().unwrap(),
                    jbytes(&e["dev_nonce"]).try_into().unwrap(),
                );
                let r = catch(|| {
                    let jr = JoinRequest {
                        join_eui: JoinEui::from_wire_bytes(je),
                        dev_eui: DevEui::from_wire_bytes(de),
                        dev_nonce: DevNonce::from_wire_bytes(dn),
                    };
                    let mut buf = used_buffer(buflen, dn[0] as usize);
                    jr.build_into(&mut buf, &DefaultCrypto::new(&AES128(key))).map(|b| b.to_vec()).map_err(|e| format!("{e:?}"))
                });
                let (ok, o, err) = res_json(&r);
                out.emit(&json!({"ev":"build_jr","join_eui":bytes(&je),"dev_eui":bytes(&de),
                    "dev_nonce":bytes(&dn),"key":bytes(&key),"buflen":buflen,"ok":ok,"out":o,"err":err}));
            }
            "parse" => out.emit(&ev_parse(&b)),
            "parse_data" => out.emit(&ev_parse_data(&b)),
            "mic" => {
                if let Some(x) = ev_mic(&b, &jkey(&e["key"]).unwrap(), jfcnt(&e["fcnt"])) {
                    out.emit(&x)
                }
            }
            "jr_mic" => {
                if let Some(x) = ev_jr_mic(&b, &jkey(&e["key"]).unwrap()) {
                    out.emit(&x)
                }
            }
            "decode" => out.emit(&ev_decode(&b, &jkey(&e["nwk"]).unwrap(), jkey(&e["app"]).as_ref(), jfcnt(&e["fcnt"]))),
            "decrypt2" => {
                out.emit(&ev_decrypt2(&b, &jkey(&e["nwk"]).unwrap(), jkey(&e["app"]).as_ref(), jfcnt(&e["fcnt"])))
            }
            "ja_decode" => out.emit(&ev_ja_decode(
                &b,
                &jkey(&e["key"]).unwrap(),
                jbytes(&e["dev_nonce"]).try_into().unwrap(),
            )),
            other => eprintln!("cannot replay {other}"),
        }
    }
    println!("events={}", out.finish());
}
