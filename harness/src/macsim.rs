//! Scripted environment for driving the real lorawan-device front-ends:
//! a harness-owned RNG with a draw budget, scripted nb/async radios and timer that log
//! every call, and the projection of the device state into trace events.
//! Recorders and drivers only: no oracle logic.
use crate::trace::bytes;
use lorawan_device::async_device;
use lorawan_device::mac::{Session, VerifSnapshot};
use lorawan_device::nb_device;
use lorawan_device::async_device::radio::{RfConfig, RxConfig, RxMode, RxQuality, TxConfig};
use lorawan_device::RngCore;
use rand::rngs::StdRng;
use rand::{Rng, SeedableRng};
use serde_json::{json, Value};
use std::cell::RefCell;
use std::collections::VecDeque;
use std::rc::Rc;

pub const RNG_BUDGET: usize = 10_000;

#[derive(Clone, Debug)]
pub enum TxOut {
    Done(u32),
    Txing,
    Err,
    Idle,
}

#[derive(Clone, Debug)]
pub enum RxOut {
    Timeout,
    Frame(Vec<u8>, i8, String),
    Err,
}

#[derive(Clone, Debug)]
pub enum RxcOut {
    Pending,
    Frame(Vec<u8>, i8, String),
    Err,
}

pub struct Env {
    pub prng: StdRng,
    pub scripted_draws: VecDeque<u32>,
    pub draws: Vec<u32>,
    pub draw_count: usize,
    /// radio / timer calls made during the current API call
    pub calls: Vec<Value>,
    pub tx_out: TxOut,
    pub rx_single: VecDeque<RxOut>,
    pub rx_cont: VecDeque<RxcOut>,
    /// index (among the fallible radio calls of this API call) that fails
    pub fault_at: Option<usize>,
    pub fallible_seen: usize,
    // nb radio
    pub nb_rxreq_err: bool,
    pub nb_cancel_err: bool,
    // timings
    pub lead: u32,
    pub buffer: u32,
    pub offset: i32,
    pub duration: u32,
}

pub type EnvRef = Rc<RefCell<Env>>;

impl Env {
    pub fn new(seed: u64) -> EnvRef {
        Rc::new(RefCell::new(Env {
            prng: StdRng::seed_from_u64(seed),
            scripted_draws: VecDeque::new(),
            draws: vec![],
            draw_count: 0,
            calls: vec![],
            tx_out: TxOut::Done(0),
            rx_single: VecDeque::new(),
            rx_cont: VecDeque::new(),
            fault_at: None,
            fallible_seen: 0,
            nb_rxreq_err: false,
            nb_cancel_err: false,
            lead: 10,
            buffer: 10,
            offset: 0,
            duration: 100,
        }))
    }
    /// start of an API call
    pub fn begin(&mut self) {
        self.draws.clear();
        self.draw_count = 0;
        self.calls.clear();
        self.fallible_seen = 0;
    }
    fn faulted(&mut self) -> bool {
        let i = self.fallible_seen;
        self.fallible_seen += 1;
        self.fault_at == Some(i)
    }
}

pub struct SRng(pub EnvRef);

impl RngCore for SRng {
    fn next_u32(&mut self) -> u32 {
        let mut e = self.0.borrow_mut();
        e.draw_count += 1;
        if e.draw_count > RNG_BUDGET {
            drop(e);
            panic!("HANG: rng draw budget exhausted");
        }
        let v = match e.scripted_draws.pop_front() {
            Some(v) => v,
            None => e.prng.r#gen(),
        };
        if e.draws.len() < 64 {
            e.draws.push(v);
        }
        v
    }
    fn next_u64(&mut self) -> u64 {
        ((self.next_u32() as u64) << 32) | self.next_u32() as u64
    }
    fn fill_bytes(&mut self, dest: &mut [u8]) {
        for b in dest.iter_mut() {
            *b = self.next_u32() as u8;
        }
    }
    fn try_fill_bytes(&mut self, dest: &mut [u8]) -> Result<(), rand_core::Error> {
        self.fill_bytes(dest);
        Ok(())
    }
}

pub fn rf_json(rf: &RfConfig) -> Value {
    json!({"freq": rf.frequency, "sf": rf.bb.sf.factor(), "bw": rf.bb.bw.hz(), "cr": rf.bb.cr.denom(),
           "maxlen": rf.max_payload_len})
}

fn tx_json(cfg: &TxConfig, buf: &[u8], out: &str, ts: u32) -> Value {
    json!({"c": "tx", "rf": rf_json(&cfg.rf), "pw": cfg.pw, "bytes": bytes(buf), "out": out, "ts": ts})
}

// ------------------------------------------------------------------ nb radio
#[derive(Debug)]
pub enum NbPhyEvent {
    TxDone(u32),
    Rx(Vec<u8>, i8),
    Noise,
    Fail,
}

pub struct NbRadio<const P: u8, const G: i8> {
    pub env: EnvRef,
    pub packet: Vec<u8>,
}

impl<const P: u8, const G: i8> nb_device::radio::PhyRxTx for NbRadio<P, G> {
    type PhyEvent = NbPhyEvent;
    type PhyError = &'static str;
    type PhyResponse = ();
    const ANTENNA_GAIN: i8 = G;
    const MAX_RADIO_POWER: u8 = P;

    fn get_mut_radio(&mut self) -> &mut Self {
        self
    }
    fn get_received_packet(&mut self) -> &mut [u8] {
        &mut self.packet
    }
    fn handle_event(
        &mut self,
        event: nb_device::radio::Event<'_, Self>,
    ) -> Result<nb_device::radio::Response<Self>, Self::PhyError> {
        use nb_device::radio::{Event, Response};
        let mut e = self.env.borrow_mut();
        match event {
            Event::TxRequest(cfg, buf) => {
                let out = e.tx_out.clone();
                let (name, ts) = match &out {
                    TxOut::Done(ts) => ("done", *ts),
                    TxOut::Txing => ("txing", 0),
                    TxOut::Err => ("err", 0),
                    TxOut::Idle => ("idle", 0),
                };
                let j = tx_json(&cfg, buf, name, ts);
                e.calls.push(j);
                match out {
                    TxOut::Done(ts) => Ok(Response::TxDone(ts)),
                    TxOut::Txing => Ok(Response::Txing),
                    TxOut::Idle => Ok(Response::Idle),
                    TxOut::Err => Err("tx failed"),
                }
            }
            Event::RxRequest(rf) => {
                let err = e.nb_rxreq_err;
                e.calls.push(json!({"c": "rxreq", "rf": rf_json(&rf), "out": if err {"err"} else {"ok"}}));
                if err { Err("rx request failed") } else { Ok(Response::Rxing) }
            }
            Event::CancelRx => {
                let err = e.nb_cancel_err;
                e.calls.push(json!({"c": "cancel", "out": if err {"err"} else {"ok"}}));
                if err { Err("cancel failed") } else { Ok(Response::Idle) }
            }
            Event::Phy(p) => match p {
                NbPhyEvent::TxDone(ts) => Ok(Response::TxDone(ts)),
                NbPhyEvent::Rx(b, snr) => {
                    self.packet = b;
                    Ok(Response::RxDone(RxQuality::new(-80, snr)))
                }
                NbPhyEvent::Noise => Ok(Response::Idle),
                NbPhyEvent::Fail => Err("phy failed"),
            },
        }
    }
}

impl<const P: u8, const G: i8> lorawan_device::Timings for NbRadio<P, G> {
    fn get_rx_window_offset_ms(&self) -> i32 {
        self.env.borrow().offset
    }
    fn get_rx_window_duration_ms(&self) -> u32 {
        self.env.borrow().duration
    }
}

// ------------------------------------------------------------------ async radio + timer
pub struct ARadio<const P: u8, const G: i8>(pub EnvRef);
pub struct ATimer(pub EnvRef);

fn rxcfg_json(c: &RxConfig) -> Value {
    let (mode, ms) = match c.mode {
        RxMode::Continuous => ("continuous", 0),
        RxMode::Single { ms } => ("single", ms),
    };
    json!({"rf": rf_json(&c.rf), "mode": mode, "ms": ms})
}

impl<const P: u8, const G: i8> async_device::radio::PhyRxTx for ARadio<P, G> {
    type PhyError = &'static str;
    const ANTENNA_GAIN: i8 = G;
    const MAX_RADIO_POWER: u8 = P;

    async fn tx(&mut self, config: TxConfig, buf: &[u8]) -> Result<u32, Self::PhyError> {
        let mut e = self.0.borrow_mut();
        let out = if e.faulted() { TxOut::Err } else { e.tx_out.clone() };
        match out {
            TxOut::Done(ts) => {
                e.calls.push(tx_json(&config, buf, "done", ts));
                Ok(ts)
            }
            _ => {
                e.calls.push(tx_json(&config, buf, "err", 0));
                Err("tx failed")
            }
        }
    }
    async fn setup_rx(&mut self, config: RxConfig) -> Result<(), Self::PhyError> {
        let mut e = self.0.borrow_mut();
        let f = e.faulted();
        let mut j = rxcfg_json(&config);
        j["c"] = json!("setup_rx");
        j["out"] = json!(if f { "err" } else { "ok" });
        e.calls.push(j);
        if f { Err("setup_rx failed") } else { Ok(()) }
    }
    async fn rx_continuous(&mut self, rx_buf: &mut [u8]) -> Result<(usize, RxQuality), Self::PhyError> {
        let out = {
            let mut e = self.0.borrow_mut();
            let out = if e.faulted() { RxcOut::Err } else { e.rx_cont.pop_front().unwrap_or(RxcOut::Pending) };
            match &out {
                RxcOut::Pending => e.calls.push(json!({"c": "rx_cont", "out": "pending", "bytes": [], "snr": 0, "intent": ""})),
                RxcOut::Err => e.calls.push(json!({"c": "rx_cont", "out": "err", "bytes": [], "snr": 0, "intent": ""})),
                RxcOut::Frame(b, snr, intent) => {
                    e.calls.push(json!({"c": "rx_cont", "out": "frame", "bytes": bytes(b), "snr": snr, "intent": intent}))
                }
            }
            out
        };
        match out {
            RxcOut::Pending => std::future::pending().await,
            RxcOut::Err => Err("rx_continuous failed"),
            RxcOut::Frame(b, snr, _) => {
                let n = b.len().min(rx_buf.len());
                rx_buf[..n].copy_from_slice(&b[..n]);
                Ok((n, RxQuality::new(-80, snr)))
            }
        }
    }
    async fn rx_single(&mut self, rx_buf: &mut [u8]) -> Result<async_device::radio::RxStatus, Self::PhyError> {
        use async_device::radio::RxStatus;
        let mut e = self.0.borrow_mut();
        let out = if e.faulted() { RxOut::Err } else { e.rx_single.pop_front().unwrap_or(RxOut::Timeout) };
        match out {
            RxOut::Timeout => {
                e.calls.push(json!({"c": "rx_single", "out": "timeout", "bytes": [], "snr": 0, "intent": ""}));
                Ok(RxStatus::RxTimeout)
            }
            RxOut::Err => {
                e.calls.push(json!({"c": "rx_single", "out": "err", "bytes": [], "snr": 0, "intent": ""}));
                Err("rx_single failed")
            }
            RxOut::Frame(b, snr, intent) => {
                e.calls.push(json!({"c": "rx_single", "out": "frame", "bytes": bytes(&b), "snr": snr, "intent": intent}));
                let n = b.len().min(rx_buf.len());
                rx_buf[..n].copy_from_slice(&b[..n]);
                Ok(RxStatus::Rx(n, RxQuality::new(-80, snr)))
            }
        }
    }
    async fn low_power(&mut self) -> Result<(), Self::PhyError> {
        let mut e = self.0.borrow_mut();
        let f = e.faulted();
        e.calls.push(json!({"c": "low_power", "out": if f {"err"} else {"ok"}}));
        if f { Err("low_power failed") } else { Ok(()) }
    }
}

impl<const P: u8, const G: i8> async_device::Timings for ARadio<P, G> {
    fn get_rx_window_lead_time_ms(&self) -> u32 {
        self.0.borrow().lead
    }
    fn get_rx_window_buffer(&self) -> u32 {
        self.0.borrow().buffer
    }
}

impl async_device::radio::Timer for ATimer {
    fn reset(&mut self) {
        self.0.borrow_mut().calls.push(json!({"c": "timer_reset"}));
    }
    async fn at(&mut self, millis: u64) {
        self.0.borrow_mut().calls.push(json!({"c": "at", "ms": millis as u32}));
    }
    async fn delay_ms(&mut self, millis: u64) {
        self.0.borrow_mut().calls.push(json!({"c": "delay", "ms": millis as u32}));
    }
}

// ------------------------------------------------------------------ projections
fn opt_i(v: Option<i64>) -> Value {
    json!(v.unwrap_or(-1))
}

pub fn snap_json(s: &VerifSnapshot) -> Value {
    let chans: Vec<Value> = s
        .plan
        .channels
        .iter()
        .map(|c| match c {
            None => json!([]),
            Some((ul, dl, dmin, dmax)) => json!([ul, dl.map(|x| x as i64).unwrap_or(-1), dmin, dmax]),
        })
        .collect();
    json!({
        "act": match s.state { 0 => "unjoined", 1 => "joining", _ => "joined" },
        "devnonce": opt_i(s.dev_nonce.map(|x| x as i64)),
        "dr": s.data_rate, "txp": opt_i(s.tx_power.map(|x| x as i64)), "rx1off": s.rx1_dr_offset,
        "rx2dr": opt_i(s.rx2_data_rate.map(|x| x as i64)), "rx2f": opt_i(s.rx2_frequency.map(|x| x as i64)),
        "rx1delay": s.rx1_delay, "adr": s.adr_enabled as u8, "maxpw": s.max_power, "gain": s.antenna_gain,
        "jd1": s.join_accept_delay1, "jd2": s.join_accept_delay2,
        "fixed": s.plan.fixed as u8, "mask": bytes(&s.plan.mask), "chan": chans,
    })
}

fn pair(v: u64) -> Value {
    json!([(v >> 16) & 0xFFFF, v & 0xFFFF])
}

/// Session projection through serde (no hook needed); `{}`-like neutral record when not joined.
pub fn sess_json(s: Option<&Session>) -> Value {
    match s {
        None => json!({"has": 0, "nwk": [], "app": [], "addr": [0,0,0,0], "up": [0,0], "down": [], "adrcnt": [0,0],
                       "pending": [], "ackowed": 0, "confirmed": 0}),
        Some(s) => {
            let v = serde_json::to_value(s).expect("session serialises");
            let arr = |x: &Value| -> Vec<u8> {
                x.as_array().map(|a| a.iter().map(|b| b.as_u64().unwrap() as u8).collect()).unwrap_or_default()
            };
            // a field missing from the document is observed as its neutral value (and flagged): the serialised
            // form is what a restore would see
            let mut missing = 0u8;
            let mut num = |x: &Value| -> u64 {
                x.as_u64().unwrap_or_else(|| {
                    missing = 1;
                    0
                })
            };
            let plen = num(&v["uplink"]["pending_len"]) as usize;
            let pdata = arr(&v["uplink"]["pending_data"]);
            // keys / address serialise as byte arrays (possibly nested in newtypes)
            fn flat(x: &Value, out: &mut Vec<u8>) {
                match x {
                    Value::Array(a) => a.iter().for_each(|y| flat(y, out)),
                    Value::Number(n) => out.push(n.as_u64().unwrap() as u8),
                    Value::Object(o) => o.values().for_each(|y| flat(y, out)),
                    _ => {}
                }
            }
            let mut nwk = vec![];
            flat(&v["nwkskey"], &mut nwk);
            let mut app = vec![];
            flat(&v["appskey"], &mut app);
            let mut addr = vec![];
            flat(&v["devaddr"], &mut addr);
            json!({
                "has": 1, "nwk": bytes(&nwk), "app": bytes(&app), "addr": bytes(&addr),
                "up": pair(num(&v["fcnt_up"])),
                "down": if v["fcnt_down"].is_null() { json!([]) } else { pair(num(&v["fcnt_down"])) },
                "adrcnt": pair(num(&v["adr_ack_cnt"])),
                "pending": bytes(&pdata[..plen.min(pdata.len())]),
                "ackowed": v["uplink"]["confirmed"].as_bool().unwrap_or(false) as u8,
                "confirmed": v["confirmed"].as_bool().unwrap_or(false) as u8,
                "doc_incomplete": missing,
            })
        }
    }
}
