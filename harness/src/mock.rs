//! Scripted SPI device / interface variant / delay for driving the lora-phy drivers.
//! Logs every bus-level event in order, answers reads from a responder, and can fail
//! at the n-th event (fault injection).  Recorder only: no oracle logic.
use embedded_hal_async::delay::DelayNs;
use embedded_hal_async::spi::{ErrorKind, ErrorType, Operation, SpiDevice};
use lora_phy::mod_params::RadioError;
use lora_phy::mod_traits::InterfaceVariant;
use std::cell::RefCell;
use std::future::Future;
use std::pin::pin;
use std::rc::Rc;
use std::task::{Context, Poll, RawWaker, RawWakerVTable, Waker};

#[derive(Clone, Debug, PartialEq)]
pub enum BusEv {
    /// One SPI transaction: all written bytes (in order) and the bytes returned for reads.
    Spi { w: Vec<u8>, r: Vec<u8>, ok: bool },
    Reset(bool),
    Busy(bool),
    Irq(bool),
    RfRx(bool),
    RfTx(bool),
    RfOff(bool),
}

pub type Responder = Box<dyn FnMut(&[u8], &mut [u8])>;

pub struct Bus {
    pub log: Vec<BusEv>,
    /// index (in `log` order) of the event that fails, if any
    pub fail_at: Option<usize>,
    pub responder: Responder,
    /// when true, `await_irq` returns Pending forever (cancellation tests)
    pub irq_pending: bool,
    /// told the written bytes of every successful transaction that contains a write operation (chips whose
    /// responses come in a separate transaction: LR11xx)
    pub on_write: Option<Box<dyn FnMut(&[u8])>>,
}

impl Bus {
    pub fn new() -> Rc<RefCell<Bus>> {
        Rc::new(RefCell::new(Bus {
            log: Vec::new(),
            fail_at: None,
            responder: Box::new(|_, r| r.fill(0)),
            irq_pending: false,
            on_write: None,
        }))
    }
    fn fails(&self) -> bool {
        self.fail_at == Some(self.log.len())
    }
}

pub struct MockSpi(pub Rc<RefCell<Bus>>);
pub struct MockIv(pub Rc<RefCell<Bus>>);
pub struct MockDelay;

#[derive(Debug)]
pub struct MockSpiError;
impl embedded_hal_async::spi::Error for MockSpiError {
    fn kind(&self) -> ErrorKind {
        ErrorKind::Other
    }
}
impl ErrorType for MockSpi {
    type Error = MockSpiError;
}

impl SpiDevice<u8> for MockSpi {
    async fn transaction(&mut self, operations: &mut [Operation<'_, u8>]) -> Result<(), MockSpiError> {
        let mut bus = self.0.borrow_mut();
        let fails = bus.fails();
        let mut w: Vec<u8> = Vec::new();
        let mut rd: Vec<u8> = Vec::new();
        let mut wrote = false;
        for op in operations.iter_mut() {
            match op {
                Operation::Write(b) => {
                    wrote = true;
                    w.extend_from_slice(b)
                }
                Operation::Read(b) => {
                    if !fails {
                        (bus.responder)(&w, b);
                    }
                    rd.extend_from_slice(b);
                    // reads clock out zeros
                    w.extend(std::iter::repeat(0).take(b.len()));
                }
                Operation::Transfer(r, wr) => {
                    w.extend_from_slice(wr);
                    if !fails {
                        (bus.responder)(&w, r);
                    }
                    rd.extend_from_slice(r);
                }
                Operation::TransferInPlace(b) => {
                    let copy = b.to_vec();
                    w.extend_from_slice(&copy);
                    if !fails {
                        (bus.responder)(&w, b);
                    }
                    rd.extend_from_slice(b);
                }
                Operation::DelayNs(_) => {}
            }
        }
        if wrote && !fails {
            if let Some(f) = bus.on_write.as_mut() {
                f(&w);
            }
        }
        bus.log.push(BusEv::Spi { w, r: rd, ok: !fails });
        if fails { Err(MockSpiError) } else { Ok(()) }
    }
}

macro_rules! iv_call {
    ($self:ident, $variant:ident, $err:expr) => {{
        let mut bus = $self.0.borrow_mut();
        let fails = bus.fails();
        bus.log.push(BusEv::$variant(!fails));
        if fails { Err($err) } else { Ok(()) }
    }};
}

impl InterfaceVariant for MockIv {
    async fn reset(&mut self, _delay: &mut impl DelayNs) -> Result<(), RadioError> {
        iv_call!(self, Reset, RadioError::Reset)
    }
    async fn wait_on_busy(&mut self) -> Result<(), RadioError> {
        iv_call!(self, Busy, RadioError::Busy)
    }
    async fn await_irq(&mut self) -> Result<(), RadioError> {
        if self.0.borrow().irq_pending {
            return std::future::pending().await;
        }
        iv_call!(self, Irq, RadioError::Irq)
    }
    async fn enable_rf_switch_rx(&mut self) -> Result<(), RadioError> {
        iv_call!(self, RfRx, RadioError::RfSwitchRx)
    }
    async fn enable_rf_switch_tx(&mut self) -> Result<(), RadioError> {
        iv_call!(self, RfTx, RadioError::RfSwitchTx)
    }
    async fn disable_rf_switch(&mut self) -> Result<(), RadioError> {
        iv_call!(self, RfOff, RadioError::RfSwitchRx)
    }
}

impl DelayNs for MockDelay {
    async fn delay_ns(&mut self, _ns: u32) {}
}

fn noop_waker() -> Waker {
    fn clone(_: *const ()) -> RawWaker {
        RawWaker::new(std::ptr::null(), &VTABLE)
    }
    fn noop(_: *const ()) {}
    static VTABLE: RawWakerVTable = RawWakerVTable::new(clone, noop, noop, noop);
    unsafe { Waker::from_raw(RawWaker::new(std::ptr::null(), &VTABLE)) }
}

/// Poll a future to completion; None if it is still pending after `budget` polls
/// (the future is then dropped = cancelled).
pub fn block_on_budget<F: Future>(f: F, budget: usize) -> Option<F::Output> {
    let waker = noop_waker();
    let mut cx = Context::from_waker(&waker);
    let mut f = pin!(f);
    for _ in 0..budget {
        if let Poll::Ready(v) = f.as_mut().poll(&mut cx) {
            return Some(v);
        }
    }
    None
}

pub fn block_on<F: Future>(f: F) -> F::Output {
    block_on_budget(f, 64).expect("future did not complete (scripted environment never blocks)")
}
