//! Driver for MAC-level histories on the real nb / async device front-ends.
//! A history is a list of `Op`s (serialisable: it is also the replay format).  Each executed
//! API call becomes one or more trace events carrying arguments, every radio/timer call it made,
//! the response, and the projected state afterwards.
use crate::cli::{catch, Args};
use crate::macsim::*;
use crate::mock::block_on_budget;
use crate::trace::{bytes, TraceWriter};
use lorawan::creator::{DataFrame, JoinAccept, Payload};
use lorawan::default_crypto::{DefaultCrypto, DefaultNetworkCrypto};
use lorawan::keys::AES128;
use lorawan::parser::{CfList, DataFrameType, DevAddr, Frequency, JoinNonce, NetId};
use lorawan::types::{ChannelMask, DLSettings};
use lorawan_device::async_device;
use lorawan_device::mac::Session;
use lorawan_device::nb_device;
use lorawan_device::region::{self, Region};
use lorawan_device::{AppEui, AppKey, AppSKey, DevEui, JoinMode, NwkSKey};
use rand::rngs::StdRng;
use rand::{Rng, SeedableRng};
use serde::{Deserialize, Serialize};
use serde_json::{json, Value};
use std::num::NonZeroU8;

pub const REGIONS: [&str; 9] =
    ["EU868", "US915", "AS923_1", "AS923_2", "AS923_3", "AS923_4", "AU915", "EU433", "IN865"];

pub fn region_of(name: &str) -> Region {
    match name {
        "AS923_1" => Region::AS923_1,
        "AS923_2" => Region::AS923_2,
        "AS923_3" => Region::AS923_3,
        "AS923_4" => Region::AS923_4,
        "AU915" => Region::AU915,
        "EU868" => Region::EU868,
        "EU433" => Region::EU433,
        "IN865" => Region::IN865,
        "US915" => Region::US915,
        other => panic!("unknown region {other}"),
    }
}

#[derive(Clone, Debug, Serialize, Deserialize)]
pub struct Frame {
    pub bytes: Vec<u8>,
    pub snr: i8,
    pub intent: String,
}

/// Planned environment behaviour for one join / send procedure.
#[derive(Clone, Debug, Serialize, Deserialize, Default)]
pub struct Proc {
    /// "done" | "txing" (nb only) | "err" | "idle" (nb only: unexpected radio response)
    pub tx: String,
    pub ts: u32,
    /// frames arriving in RX1 / RX2 (async consumes at most one per window)
    pub rx1: Vec<Frame>,
    pub rx2: Vec<Frame>,
    /// Class C frames arriving before RX1 / between RX1 and RX2 (async + class C only)
    pub c1: Vec<Frame>,
    pub c2: Vec<Frame>,
    /// index of the fallible radio call that fails (async), -1 none
    pub fault: i32,
    /// nb: extra stray events injected during the procedure (positions are taken modulo the step count)
    pub noise: Vec<u32>,
    /// nb: stop after the request step (the transmission itself is all that is observed)
    #[serde(default)]
    pub stop_after_tx: bool,
}

#[derive(Clone, Debug, Serialize, Deserialize)]
#[serde(tag = "op")]
pub enum Op {
    Reset {
        region: String,
        front: String,
        classc: bool,
        board: usize,
        /// fixed plans: preferred sub-band 1..8 (0 none) and retries
        bias_sb: u8,
        bias_retries: usize,
        lead: u32,
        buffer: u32,
        offset: i32,
        duration: u32,
        /// optional session document (serde JSON of `Session`) installed at start
        session: Option<String>,
    },
    JoinOtaa { appkey: [u8; 16], deveui: [u8; 8], appeui: [u8; 8], draws: Vec<u32>, plan: Proc },
    JoinAbp { nwk: [u8; 16], app: [u8; 16], addr: [u8; 4] },
    Send { port: u8, data: Vec<u8>, confirmed: bool, draws: Vec<u32>, plan: Proc },
    SetDr { dr: u8 },
    SetAdr { on: bool },
    TakeDl,
    /// serialise the session, deserialise it and install the copy (C20)
    SerDe,
    /// install a (possibly malformed) session document
    SetSession { doc: String },
    /// async + class C: listen outside a procedure; frames then (pending => future dropped)
    Rxc { frames: Vec<Frame> },
    /// nb front-end: ONE raw event, whatever the state machine's state (free-form event sequences, `vh nbwalk`):
    /// ev = send | join | txdone | timeout | timeout_fault | rx | noise0 | noise1 | noise2;
    /// tx = what the radio answers to a transmit request (send / join): done | txing | err | idle
    NbEv { ev: String, frame: Option<Frame>, tx: String, ts: u32 },
    /// trace marker (multicast data path): the group the network has just set up, as the recorder's network side holds it
    McGroup { g: u8, addr: [u8; 4], keyenc: [u8; 16], genappkey: [u8; 16], nwk: [u8; 16], app: [u8; 16], min: u32, max: u32 },
    /// trace markers for forked continuations (the device is re-created and the prefix re-executed silently)
    Checkpoint,
    Restore { id: usize },
    /// silent prefix re-execution ends here: un-mute the trace
    Unmute,
}

/// (radio maximum in dBm, antenna gain in dBi); negative gain = feed-line loss, once with head-room and once without
pub const BOARDS: [(u8, i8); 5] = [(14, 0), (21, 2), (30, -3), (10, 5), (12, -3)];

// ------------------------------------------------------------------ devices
type NbDev<const P: u8, const G: i8, const N: usize> = nb_device::Device<NbRadio<P, G>, SRng, N, 4>;
type AsDev<const P: u8, const G: i8, const N: usize> = async_device::Device<ARadio<P, G>, ATimer, SRng, N, 4>;

enum Dev<const P: u8, const G: i8, const N: usize> {
    Nb(Box<NbDev<P, G, N>>),
    As(Box<AsDev<P, G, N>>),
}

fn make_region(name: &str, bias_sb: u8, retries: usize) -> region::Configuration {
    use lorawan_device::region::{Subband, AU915, US915};
    let sb = |n: u8| match n {
        1 => Subband::_1,
        2 => Subband::_2,
        3 => Subband::_3,
        4 => Subband::_4,
        5 => Subband::_5,
        6 => Subband::_6,
        7 => Subband::_7,
        _ => Subband::_8,
    };
    match (name, bias_sb) {
        ("US915", n) if n > 0 => {
            let mut r = US915::new();
            if retries <= 1 { r.set_join_bias(sb(n)) } else { r.set_join_bias_and_noncompliant_retries(sb(n), retries) }
            r.into()
        }
        ("AU915", n) if n > 0 => {
            let mut r = AU915::new();
            if retries <= 1 { r.set_join_bias(sb(n)) } else { r.set_join_bias_and_noncompliant_retries(sb(n), retries) }
            r.into()
        }
        _ => region::Configuration::new(region_of(name)),
    }
}

pub struct Runner<'a> {
    pub out: &'a mut TraceWriter,
    pub env: EnvRef,
    pub seq: u64,
    /// number of events emitted for the current history
    pub hist: u64,
}

fn resp_json(kind: &str, v: i64) -> Value {
    json!({"k": kind, "v": v})
}

fn nb_resp<R: nb_device::radio::PhyRxTx>(r: &Result<nb_device::Response, nb_device::Error<R>>) -> Value {
    use nb_device::Response as R_;
    match r {
        Ok(R_::NoUpdate) => resp_json("NoUpdate", 0),
        Ok(R_::TimeoutRequest(t)) => resp_json("TimeoutRequest", *t as i64 & 0x7fff_ffff),
        Ok(R_::JoinRequestSending) => resp_json("JoinRequestSending", 0),
        Ok(R_::JoinSuccess) => resp_json("JoinSuccess", 0),
        Ok(R_::NoJoinAccept) => resp_json("NoJoinAccept", 0),
        Ok(R_::UplinkSending(f)) => json!({"k": "UplinkSending", "v": 0, "cnt": [f >> 16, f & 0xffff]}),
        Ok(R_::DownlinkReceived(f)) => json!({"k": "DownlinkReceived", "v": 0, "cnt": [f >> 16, f & 0xffff]}),
        Ok(R_::NoAck) => resp_json("NoAck", 0),
        Ok(R_::ReadyToSend) => resp_json("ReadyToSend", 0),
        Ok(R_::SessionExpired) => resp_json("SessionExpired", 0),
        Ok(R_::RxComplete) => resp_json("RxComplete", 0),
        Err(nb_device::Error::Radio(_)) => resp_json("ErrRadio", 0),
        Err(nb_device::Error::State(s)) => json!({"k": "ErrState", "v": 0, "s": format!("{s:?}")}),
        Err(nb_device::Error::Mac(_)) => resp_json("ErrMac", 0),
    }
}

fn with_cnt(mut v: Value) -> Value {
    if v.get("cnt").is_none() {
        v["cnt"] = json!([]);
    }
    if v.get("s").is_none() {
        v["s"] = json!("");
    }
    v
}

impl<const P: u8, const G: i8, const N: usize> Dev<P, G, N> {
    fn snap(&self) -> Value {
        match self {
            Dev::Nb(d) => snap_json(&d.verif_snapshot()),
            Dev::As(d) => snap_json(&d.verif_snapshot()),
        }
    }
    fn session(&mut self) -> Option<Session> {
        match self {
            Dev::Nb(d) => d.get_session().cloned(),
            Dev::As(d) => d.get_session().cloned(),
        }
    }
    fn nb_state(&self) -> i64 {
        match self {
            Dev::Nb(d) => d.verif_state() as i64,
            Dev::As(_) => -1,
        }
    }
}

fn to_rx(f: &Frame) -> RxOut {
    RxOut::Frame(f.bytes.clone(), f.snr, f.intent.clone())
}

impl<'a> Runner<'a> {
    fn emit<const P: u8, const G: i8, const N: usize>(&mut self, dev: &mut Dev<P, G, N>, mut ev: Value, op: Option<&Op>) {
        self.seq += 1;
        self.hist += 1;
        ev["k"] = json!("mac");
        ev["seq"] = json!(self.hist);
        ev["snap"] = dev.snap();
        ev["sess"] = sess_json(dev.session().as_ref());
        ev["st"] = json!(dev.nb_state());
        ev["opj"] = match op {
            Some(o) => json!(serde_json::to_string(o).unwrap()),
            None => json!(""),
        };
        self.out.emit(&ev);
    }

    fn calls(&self) -> (Value, Value) {
        let e = self.env.borrow();
        let draws: Vec<Value> = e.draws.iter().map(|d| json!([d >> 16, d & 0xffff])).collect();
        (Value::Array(e.calls.clone()), json!({"list": draws, "n": e.draw_count}))
    }

    /// Execute one op of a history on the device.  Returns false when the history must stop
    /// (a panic or hang was recorded).
    fn exec<const P: u8, const G: i8, const N: usize>(&mut self, dev: &mut Dev<P, G, N>, op: &Op) -> bool {
        self.out.sync = true;
        crate::cli::watch_begin(&self.out.path, &serde_json::to_string(op).unwrap_or_default(), 20_000);
        let r = self.exec_op(dev, op);
        crate::cli::watch_end();
        r
    }

    fn exec_op<const P: u8, const G: i8, const N: usize>(&mut self, dev: &mut Dev<P, G, N>, op: &Op) -> bool {
        match op {
            Op::Reset { .. } => unreachable!(),
            Op::Checkpoint => {
                self.emit(dev, json!({"ev": "checkpoint"}), Some(op));
                true
            }
            Op::Unmute => {
                self.out.mute = false;
                true
            }
            Op::Restore { id } => {
                self.emit(dev, json!({"ev": "restore", "id": id}), Some(op));
                true
            }
            Op::JoinAbp { nwk, app, addr } => {
                let jm = JoinMode::ABP {
                    nwkskey: NwkSKey::from(*nwk),
                    appskey: AppSKey::from(*app),
                    devaddr: DevAddr::from_wire_bytes(*addr),
                };
                match dev {
                    Dev::Nb(d) => {
                        let _ = d.join(jm);
                    }
                    Dev::As(d) => {
                        let _ = block_on_budget(d.join(&jm), 8);
                    }
                }
                self.emit(dev, json!({"ev": "abp", "nwk": bytes(nwk), "app": bytes(app), "addr": bytes(addr)}), Some(op));
                true
            }
            Op::SetDr { dr } => {
                let d = lorawan::types::DR::from(*dr);
                match dev {
                    Dev::Nb(x) => x.set_datarate(d),
                    Dev::As(x) => x.set_datarate(d),
                }
                self.emit(dev, json!({"ev": "set_dr", "dr": dr}), Some(op));
                true
            }
            Op::SetAdr { on } => {
                match dev {
                    Dev::Nb(x) => x.set_adr(*on),
                    Dev::As(x) => x.set_adr(*on),
                }
                self.emit(dev, json!({"ev": "set_adr", "on": *on as u8}), Some(op));
                true
            }
            Op::TakeDl => {
                let mut got: Vec<Value> = vec![];
                loop {
                    let d = match dev {
                        Dev::Nb(x) => x.take_downlink(),
                        Dev::As(x) => x.take_downlink(),
                    };
                    match d {
                        Some(d) => got.push(json!({"port": d.fport, "data": bytes(&d.data)})),
                        None => break,
                    }
                }
                self.emit(dev, json!({"ev": "take_dl", "got": got}), Some(op));
                true
            }
            Op::SerDe => {
                let s = dev.session();
                let (ok, doc) = match &s {
                    None => (0, String::new()),
                    Some(s) => {
                        let mut doc = serde_json::to_string(s).unwrap();
                        // every other time: the equivalent document a JSON store hands back (object keys sorted)
                        if self.seq % 2 == 1 {
                            doc = serde_json::to_string(&serde_json::from_str::<Value>(&doc).unwrap()).unwrap();
                        } else if self.seq % 4 == 2 {
                            // ... or re-indented (whitespace between every token)
                            doc = serde_json::to_string_pretty(&serde_json::from_str::<Value>(&doc).unwrap()).unwrap();
                        }
                        match serde_json::from_str::<Session>(&doc) {
                            Ok(copy) => {
                                match dev {
                                    Dev::Nb(x) => x.set_session(copy),
                                    Dev::As(x) => {
                                        // the async front-end has no set_session: rebuild is done by Reset
                                        let _ = x;
                                    }
                                }
                                (1, doc)
                            }
                            Err(_) => (2, doc),
                        }
                    }
                };
                self.emit(dev, json!({"ev": "serde", "ok": ok, "doc": bytes(doc.as_bytes())}), Some(op));
                true
            }
            Op::McGroup { g, addr, keyenc, genappkey, nwk, app, min, max } => {
                self.emit(dev, json!({"ev": "mc_group", "g": g, "addr": bytes(addr), "keyenc": bytes(keyenc), "genappkey": bytes(genappkey),
                                      "nwk": bytes(nwk), "app": bytes(app), "min": [min >> 16, min & 0xffff], "max": [max >> 16, max & 0xffff]}), Some(op));
                true
            }
            Op::SetSession { doc } => {
                let r = catch(|| serde_json::from_str::<Session>(doc).map_err(|e| e.to_string()));
                let ok = match r {
                    Ok(Ok(s)) => {
                        match dev {
                            Dev::Nb(x) => x.set_session(s),
                            Dev::As(_) => {}
                        }
                        1
                    }
                    Ok(Err(_)) => 0,
                    Err(_) => 2,
                };
                self.emit(dev, json!({"ev": "set_session", "ok": ok, "doc": bytes(doc.as_bytes())}), Some(op));
                ok != 2
            }
            Op::JoinOtaa { appkey, deveui, appeui, draws, plan } => {
                let jm = JoinMode::OTAA {
                    deveui: DevEui::from(*deveui),
                    appeui: AppEui::from(*appeui),
                    appkey: AppKey::from(*appkey),
                };
                let args = json!({"kind": "join", "appkey": bytes(appkey), "deveui": bytes(deveui), "appeui": bytes(appeui),
                                  "port": 0, "data": [], "confirmed": 0});
                self.procedure(dev, op, args, Some(jm), None, draws, plan)
            }
            Op::Send { port, data, confirmed, draws, plan } => {
                let args = json!({"kind": "send", "appkey": [], "deveui": [], "appeui": [],
                                  "port": port, "data": bytes(data), "confirmed": *confirmed as u8});
                self.procedure(dev, op, args, None, Some((*port, data.clone(), *confirmed)), draws, plan)
            }
            Op::NbEv { ev, frame, tx, ts } => {
                use nb_device::{radio, Event};
                if !matches!(dev, Dev::Nb(_)) {
                    return true;
                }
                {
                    let mut e = self.env.borrow_mut();
                    e.scripted_draws = Default::default();
                    e.tx_out = match tx.as_str() {
                        "txing" => TxOut::Txing,
                        "err" => TxOut::Err,
                        "idle" => TxOut::Idle,
                        _ => TxOut::Done(*ts),
                    };
                    e.nb_rxreq_err = ev == "timeout_fault";
                    e.nb_cancel_err = ev == "timeout_fault";
                }
                let ts = *ts;
                let r = match ev.as_str() {
                    "send" => {
                        let args = json!({"kind": "send", "appkey": [], "deveui": [], "appeui": [], "port": 1, "data": [7], "confirmed": 0});
                        self.nb_step(dev, "send", json!({"args": args}), Some(op), |d| d.send(&[7], 1, false))
                    }
                    "join" => {
                        let (appkey, deveui, appeui) = ([7u8; 16], [1u8, 2, 3, 4, 5, 6, 7, 8], [8u8, 7, 6, 5, 4, 3, 2, 1]);
                        let jm = JoinMode::OTAA { deveui: DevEui::from(deveui), appeui: AppEui::from(appeui), appkey: AppKey::from(appkey) };
                        let args = json!({"kind": "join", "appkey": bytes(&appkey), "deveui": bytes(&deveui), "appeui": bytes(&appeui),
                                          "port": 0, "data": [], "confirmed": 0});
                        self.nb_step(dev, "join", json!({"args": args}), Some(op), |d| d.join(jm))
                    }
                    "txdone" => self.nb_step(dev, "txdone", json!({"args": {"ts": ts}}), Some(op), |d| {
                        d.handle_event(Event::RadioEvent(radio::Event::Phy(NbPhyEvent::TxDone(ts))))
                    }),
                    "timeout" | "timeout_fault" => {
                        self.nb_step(dev, "timeout", json!({"args": {"w": 0}}), Some(op), |d| d.handle_event(Event::TimeoutFired))
                    }
                    "rx" => {
                        let f = frame.clone().unwrap_or(Frame { bytes: vec![], snr: 0, intent: "empty".into() });
                        let fj = json!({"bytes": bytes(&f.bytes), "snr": f.snr, "intent": f.intent});
                        let (fb, snr) = (f.bytes.clone(), f.snr);
                        self.nb_step(dev, "rx", json!({"frame": fj, "args": {"w": 0}}), Some(op), move |d| {
                            d.handle_event(Event::RadioEvent(radio::Event::Phy(NbPhyEvent::Rx(fb, snr))))
                        })
                    }
                    "noise0" => self.nb_step(dev, "noise", json!({"args": {"n": 0}}), Some(op), |d| {
                        d.handle_event(Event::RadioEvent(radio::Event::Phy(NbPhyEvent::Noise)))
                    }),
                    "noise2" => self.nb_step(dev, "noise", json!({"args": {"n": 2}}), Some(op), |d| {
                        d.handle_event(Event::RadioEvent(radio::Event::Phy(NbPhyEvent::Fail)))
                    }),
                    other => panic!("unknown nb event {other}"),
                };
                {
                    let mut e = self.env.borrow_mut();
                    e.nb_rxreq_err = false;
                    e.nb_cancel_err = false;
                }
                r.is_some()
            }
            Op::Rxc { frames } => {
                let Dev::As(d) = dev else { return true };
                {
                    let mut e = self.env.borrow_mut();
                    e.begin();
                    e.fault_at = None;
                    e.rx_cont = frames.iter().map(|f| RxcOut::Frame(f.bytes.clone(), f.snr, f.intent.clone())).collect();
                }
                let r = catch(|| block_on_budget(d.rxc_listen(), 4));
                let (calls, draws) = self.calls();
                let resp = match &r {
                    Ok(Some(Ok(async_device::ListenResponse::DownlinkReceived(f)))) => {
                        json!({"k": "DownlinkReceived", "v": 0, "cnt": [f >> 16, f & 0xffff]})
                    }
                    Ok(Some(Ok(async_device::ListenResponse::SessionExpired))) => resp_json("SessionExpired", 0),
                    #[cfg(feature = "mc")]
                    Ok(Some(Ok(async_device::ListenResponse::Multicast(m)))) => mc_resp_json(m),
                    Ok(Some(Err(async_device::Error::Radio(_)))) => resp_json("ErrRadio", 0),
                    Ok(Some(Err(async_device::Error::Mac(_)))) => resp_json("ErrMac", 0),
                    Ok(None) => resp_json("Pending", 0),
                    Err(p) => json!({"k": if p.starts_with("HANG") {"Hang"} else {"Panic"}, "v": 0, "s": p}),
                };
                let alive = r.is_ok();
                self.emit(dev, json!({"ev": "a_rxc", "calls": calls, "draws": draws, "resp": with_cnt(resp)}), Some(op));
                alive
            }
        }
    }

    #[allow(clippy::too_many_arguments)]
    fn procedure<const P: u8, const G: i8, const N: usize>(
        &mut self,
        dev: &mut Dev<P, G, N>,
        op: &Op,
        args: Value,
        join: Option<JoinMode>,
        send: Option<(u8, Vec<u8>, bool)>,
        draws: &[u32],
        plan: &Proc,
    ) -> bool {
        let tx_out = match plan.tx.as_str() {
            "txing" => TxOut::Txing,
            "err" => TxOut::Err,
            "idle" => TxOut::Idle,
            _ => TxOut::Done(plan.ts),
        };
        match dev {
            Dev::As(d) => {
                {
                    let mut e = self.env.borrow_mut();
                    e.begin();
                    e.scripted_draws = draws.iter().copied().collect();
                    e.tx_out = if matches!(tx_out, TxOut::Err) { TxOut::Err } else { TxOut::Done(plan.ts) };
                    e.fault_at = if plan.fault >= 0 { Some(plan.fault as usize) } else { None };
                    e.rx_single.clear();
                    e.rx_single.push_back(plan.rx1.first().map(to_rx).unwrap_or(RxOut::Timeout));
                    e.rx_single.push_back(plan.rx2.first().map(to_rx).unwrap_or(RxOut::Timeout));
                    // class C frames: c1 before RX1 then a Pending marker, then c2
                    e.rx_cont.clear();
                    for f in &plan.c1 {
                        e.rx_cont.push_back(RxcOut::Frame(f.bytes.clone(), f.snr, f.intent.clone()));
                    }
                    e.rx_cont.push_back(RxcOut::Pending);
                    for f in &plan.c2 {
                        e.rx_cont.push_back(RxcOut::Frame(f.bytes.clone(), f.snr, f.intent.clone()));
                    }
                    e.rx_cont.push_back(RxcOut::Pending);
                }
                let r: Result<Option<Value>, String> = catch(|| {
                    if let Some(jm) = &join {
                        block_on_budget(d.join(jm), 64).map(|r| match r {
                            Ok(async_device::JoinResponse::JoinSuccess) => resp_json("JoinSuccess", 0),
                            Ok(async_device::JoinResponse::NoJoinAccept) => resp_json("NoJoinAccept", 0),
                            Err(async_device::Error::Radio(_)) => resp_json("ErrRadio", 0),
                            Err(async_device::Error::Mac(_)) => resp_json("ErrMac", 0),
                        })
                    } else {
                        let (port, data, confirmed) = send.clone().unwrap();
                        block_on_budget(d.send(&data, port, confirmed), 64).map(|r| match r {
                            Ok(async_device::SendResponse::DownlinkReceived(f)) => {
                                json!({"k": "DownlinkReceived", "v": 0, "cnt": [f >> 16, f & 0xffff]})
                            }
                            Ok(async_device::SendResponse::SessionExpired) => resp_json("SessionExpired", 0),
                            Ok(async_device::SendResponse::NoAck) => resp_json("NoAck", 0),
                            Ok(async_device::SendResponse::RxComplete) => resp_json("RxComplete", 0),
                            #[cfg(feature = "mc")]
                            Ok(async_device::SendResponse::Multicast(m)) => mc_resp_json(&m),
                            Err(async_device::Error::Radio(_)) => resp_json("ErrRadio", 0),
                            Err(async_device::Error::Mac(_)) => resp_json("ErrMac", 0),
                        })
                    }
                });
                let (calls, drawsj) = self.calls();
                let resp = match &r {
                    Ok(Some(v)) => v.clone(),
                    Ok(None) => resp_json("Pending", 0),
                    Err(p) => json!({"k": if p.starts_with("HANG") {"Hang"} else {"Panic"}, "v": 0, "s": p}),
                };
                let alive = r.is_ok();
                let mut ev = json!({"ev": "a_proc", "calls": calls, "draws": drawsj, "resp": with_cnt(resp)});
                ev["args"] = args;
                self.emit(dev, ev, Some(op));
                alive
            }
            Dev::Nb(_) => self.nb_procedure(dev, op, args, join, send, draws, plan, tx_out),
        }
    }

    /// One nb handle_event call -> one trace event.
    fn nb_step<const P: u8, const G: i8, const N: usize>(
        &mut self,
        dev: &mut Dev<P, G, N>,
        kind: &str,
        extra: Value,
        op: Option<&Op>,
        f: impl FnOnce(&mut NbDev<P, G, N>) -> Result<nb_device::Response, nb_device::Error<NbRadio<P, G>>>,
    ) -> Option<String> {
        self.env.borrow_mut().begin();
        let Dev::Nb(d) = dev else { unreachable!() };
        let r = catch(|| f(d));
        let (calls, draws) = self.calls();
        let (resp, k) = match &r {
            Ok(r) => {
                let v = with_cnt(nb_resp(r));
                let k = v["k"].as_str().unwrap().to_string();
                (v, k)
            }
            Err(p) => {
                let k = if p.starts_with("HANG") { "Hang" } else { "Panic" };
                (with_cnt(json!({"k": k, "v": 0, "s": p})), k.to_string())
            }
        };
        let mut ev = json!({"ev": "nb", "kind": kind, "calls": calls, "draws": draws, "resp": resp});
        for (key, val) in extra.as_object().unwrap() {
            ev[key] = val.clone();
        }
        for key in ["args", "frame"] {
            if ev.get(key).is_none() {
                ev[key] = json!({});
            }
        }
        self.emit(dev, ev, op);
        if k == "Hang" || k == "Panic" { None } else { Some(k) }
    }

    #[allow(clippy::too_many_arguments)]
    fn nb_procedure<const P: u8, const G: i8, const N: usize>(
        &mut self,
        dev: &mut Dev<P, G, N>,
        op: &Op,
        args: Value,
        join: Option<JoinMode>,
        send: Option<(u8, Vec<u8>, bool)>,
        draws: &[u32],
        plan: &Proc,
        tx_out: TxOut,
    ) -> bool {
        use nb_device::{radio, Event};
        {
            let mut e = self.env.borrow_mut();
            e.scripted_draws = draws.iter().copied().collect();
            e.tx_out = tx_out.clone();
            e.nb_rxreq_err = false;
            e.nb_cancel_err = false;
        }
        let frame_json = |f: &Frame| json!({"bytes": bytes(&f.bytes), "snr": f.snr, "intent": f.intent});
        // 1. request
        let k = if let Some(jm) = join.clone() {
            self.nb_step(dev, "join", json!({"args": args}), Some(op), |d| d.join(jm))
        } else {
            let (port, data, confirmed) = send.clone().unwrap();
            self.nb_step(dev, "send", json!({"args": args}), Some(op), move |d| d.send(&data, port, confirmed))
        };
        let Some(k) = k else { return false };
        if k.starts_with("Err") || plan.stop_after_tx {
            return true;
        }
        // 2. asynchronous TX completion
        if k == "UplinkSending" || k == "JoinRequestSending" {
            let ts = plan.ts;
            let Some(_) = self.nb_step(dev, "txdone", json!({"args": {"ts": ts}}), None, |d| {
                d.handle_event(Event::RadioEvent(radio::Event::Phy(NbPhyEvent::TxDone(ts))))
            }) else {
                return false;
            };
        }
        let mut noise = plan.noise.iter();
        for (w, frames) in [(1, &plan.rx1), (2, &plan.rx2)] {
            // stray events while waiting for the window
            if let Some(n) = noise.next() {
                if !self.nb_noise(dev, *n) {
                    return false;
                }
            }
            // window opens (plan.fault 1 / 3: the radio refuses the RX request of RX1 / RX2 once)
            let fault_open = plan.fault == (2 * w - 1) as i32;
            self.env.borrow_mut().nb_rxreq_err = fault_open;
            let Some(mut k) = self.nb_step(dev, "timeout", json!({"args": {"w": w}}), None, |d| d.handle_event(Event::TimeoutFired))
            else {
                return false;
            };
            self.env.borrow_mut().nb_rxreq_err = false;
            if fault_open && k == "ErrRadio" {
                // the application retries the timer event
                let Some(k2) = self.nb_step(dev, "timeout", json!({"args": {"w": w}}), None, |d| d.handle_event(Event::TimeoutFired))
                else {
                    return false;
                };
                k = k2;
            }
            if k != "TimeoutRequest" {
                return true;
            }
            for f in frames.iter() {
                let fb = f.bytes.clone();
                let snr = f.snr;
                let Some(k) = self.nb_step(dev, "rx", json!({"frame": frame_json(f), "args": {"w": w}}), None, move |d| {
                    d.handle_event(Event::RadioEvent(radio::Event::Phy(NbPhyEvent::Rx(fb, snr))))
                }) else {
                    return false;
                };
                if k != "NoUpdate" {
                    return true; // procedure over (accepted, oversize, error)
                }
            }
            // window closes (plan.fault 2 / 4: the radio fails to cancel the reception once)
            let fault_close = plan.fault == (2 * w) as i32;
            self.env.borrow_mut().nb_cancel_err = fault_close;
            let Some(mut k) = self.nb_step(dev, "timeout", json!({"args": {"w": w + 10}}), None, |d| d.handle_event(Event::TimeoutFired))
            else {
                return false;
            };
            self.env.borrow_mut().nb_cancel_err = false;
            if fault_close && k == "ErrRadio" {
                let Some(k2) = self.nb_step(dev, "timeout", json!({"args": {"w": w + 10}}), None, |d| d.handle_event(Event::TimeoutFired))
                else {
                    return false;
                };
                k = k2;
            }
            if w == 1 && k != "TimeoutRequest" {
                return true;
            }
        }
        true
    }

    fn nb_noise<const P: u8, const G: i8, const N: usize>(&mut self, dev: &mut Dev<P, G, N>, n: u32) -> bool {
        use nb_device::{radio, Event};
        let r = match n % 3 {
            0 => self.nb_step(dev, "noise", json!({"args": {"n": 0}}), None, |d| {
                d.handle_event(Event::RadioEvent(radio::Event::Phy(NbPhyEvent::Noise)))
            }),
            1 => self.nb_step(dev, "noise", json!({"args": {"n": 1}}), None, |d| d.send(&[1, 2], 3, false)),
            _ => self.nb_step(dev, "noise", json!({"args": {"n": 2}}), None, |d| {
                d.handle_event(Event::RadioEvent(radio::Event::Phy(NbPhyEvent::Fail)))
            }),
        };
        r.is_some()
    }
}

/// What a history generator may look at before choosing the next op.
pub struct View {
    pub joined: bool,
    pub keys: Option<([u8; 16], [u8; 16], [u8; 4])>,
    pub fcnt_down: Option<u32>,
    pub fcnt_up: Option<u32>,
    pub dr: u8,
    pub nb_state: i64,
    pub steps: usize,
    /// the current session serialised (serde JSON), if any
    pub session_doc: Option<String>,
}

pub type GenFn<'g> = dyn FnMut(&View) -> Option<Op> + 'g;

/// Run one history on freshly created devices.  `ops[0]` must be Reset; after the fixed ops
/// are exhausted, `generator` (if any) supplies further ops until it returns None.
pub fn run_history(out: &mut TraceWriter, ops: &[Op], seed: u64, generator: Option<&mut GenFn<'_>>) -> Vec<Op> {
    let Op::Reset { board, .. } = &ops[0] else { panic!("history must start with Reset") };
    // boards 5..7: the first board with a radio buffer of 64 / 128 / 33 bytes (C18: a reception that exactly
    // fills the MAC's buffer) instead of the usual 256
    match *board {
        5 => return run_typed::<14, 0, 64>(out, ops, seed, generator),
        6 => return run_typed::<14, 0, 128>(out, ops, seed, generator),
        7 => return run_typed::<14, 0, 33>(out, ops, seed, generator),
        _ => {}
    }
    match BOARDS[*board % 5] {
        (14, 0) => run_typed::<14, 0, 256>(out, ops, seed, generator),
        (21, 2) => run_typed::<21, 2, 256>(out, ops, seed, generator),
        (30, -3) => run_typed::<30, -3, 256>(out, ops, seed, generator),
        (12, -3) => run_typed::<12, -3, 256>(out, ops, seed, generator),
        _ => run_typed::<10, 5, 256>(out, ops, seed, generator),
    }
}

fn view_of<const P: u8, const G: i8, const N: usize>(dev: &mut Dev<P, G, N>, steps: usize) -> View {
    let s = dev.session();
    let snap = match dev {
        Dev::Nb(d) => d.verif_snapshot(),
        Dev::As(d) => d.verif_snapshot(),
    };
    let keys = s.as_ref().map(|s| {
        let mut n = [0u8; 16];
        n.copy_from_slice(s.nwkskey().as_ref());
        let mut a = [0u8; 16];
        a.copy_from_slice(s.appskey().as_ref());
        (n, a, *s.devaddr().as_wire_bytes())
    });
    View {
        joined: snap.state == 2,
        keys,
        fcnt_down: s.as_ref().and_then(|s| s.fcnt_down()),
        fcnt_up: s.as_ref().map(|s| s.fcnt_up),
        dr: snap.data_rate,
        nb_state: dev.nb_state(),
        steps,
        session_doc: s.as_ref().and_then(|s| serde_json::to_string(s).ok()),
    }
}

fn run_typed<const P: u8, const G: i8, const N: usize>(out: &mut TraceWriter, ops: &[Op], seed: u64, mut generator: Option<&mut GenFn<'_>>) -> Vec<Op> {
    let Op::Reset { region, front, classc, board, bias_sb, bias_retries, lead, buffer, offset, duration, session } = &ops[0]
    else {
        unreachable!()
    };
    let env = Env::new(seed);
    {
        let mut e = env.borrow_mut();
        e.lead = *lead;
        e.buffer = *buffer;
        e.offset = *offset;
        e.duration = *duration;
    }
    let sess: Option<Session> = session.as_ref().and_then(|d| serde_json::from_str(d).ok());
    let cfg = make_region(region, *bias_sb, *bias_retries);
    let mut dev: Dev<P, G, N> = if front == "nb" {
        let mut d: NbDev<P, G, N> =
            nb_device::Device::new(cfg, NbRadio { env: env.clone(), packet: vec![] }, SRng(env.clone()));
        if let Some(s) = sess.clone() {
            d.set_session(s);
        }
        Dev::Nb(Box::new(d))
    } else {
        let mut d: AsDev<P, G, N> = async_device::Device::new_with_session(
            cfg,
            ARadio(env.clone()),
            ATimer(env.clone()),
            SRng(env.clone()),
            sess.clone(),
        );
        if *classc {
            d.enable_class_c();
        }
        #[cfg(feature = "mc")]
        d.set_multicast_ke_key_from_gen_app_key(lorawan::keys::GenAppKey::from([9u8; 16]));
        Dev::As(Box::new(d))
    };
    let mut r = Runner { out, env, seq: 0, hist: 0 };
    let ev = json!({"ev": "reset", "region": region, "front": front, "classc": *classc as u8,
        "maxpw": P, "gain": G, "board": board, "bufsz": N, "bias_sb": bias_sb, "bias_retries": bias_retries,
        "lead": lead, "buffer": buffer, "offset": offset, "duration": duration,
        "seeded": session.is_some() as u8, "cert": cfg!(feature = "cert") as u8, "mc": cfg!(feature = "mc") as u8,
        "genappkey": if cfg!(feature = "mc") { bytes(&[9u8; 16]) } else { json!([]) }});
    r.emit(&mut dev, ev, Some(&ops[0]));
    let mut executed: Vec<Op> = vec![ops[0].clone()];
    let mut steps = 0usize;
    let publish = |executed: &Vec<Op>| {
        if let Ok(mut h) = crate::cli::WATCH_HIST.lock() {
            *h = (serde_json::to_string(executed).unwrap_or_default(), seed);
        }
    };
    for op in &ops[1..] {
        steps += 1;
        executed.push(op.clone());
        publish(&executed);
        if !r.exec(&mut dev, op) {
            return executed;
        }
    }
    if let Some(g) = generator.as_mut() {
        loop {
            let v = view_of(&mut dev, steps);
            let Some(op) = g(&v) else { break };
            steps += 1;
            executed.push(op.clone());
            publish(&executed);
            if !r.exec(&mut dev, &op) {
                return executed;
            }
        }
    }
    executed
}

// ------------------------------------------------------------------ network side
/// Builds the frames the scripted network sends.  It must use *some* encoder; every frame it
/// produces is re-judged by Codec.tla in the trace pass (DESIGN 4.3).
pub struct Net {
    pub nwk: [u8; 16],
    pub app: [u8; 16],
    pub addr: [u8; 4],
    pub sent: Vec<Vec<u8>>,
}

impl Net {
    #[allow(clippy::too_many_arguments)]
    pub fn data(&self, n: u32, confirmed: bool, uplink_type: bool, fopts: &[u8], port: i32, payload: &[u8],
                ack: bool, fpending: bool) -> Vec<u8> {
        let nwk = DefaultCrypto::new(&AES128(self.nwk));
        let app = DefaultCrypto::new(&AES128(self.app));
        let p = if port < 0 {
            Payload::None
        } else if port == 0 {
            Payload::MacCommands(payload)
        } else {
            Payload::Data { f_port: NonZeroU8::new(port as u8).unwrap(), data: payload }
        };
        let frame = DataFrame {
            frame_type: match (uplink_type, confirmed) {
                (false, false) => DataFrameType::UnconfirmedDown,
                (false, true) => DataFrameType::ConfirmedDown,
                (true, false) => DataFrameType::UnconfirmedUp,
                (true, true) => DataFrameType::ConfirmedUp,
            },
            dev_addr: DevAddr::from_wire_bytes(self.addr),
            adr: true,
            adr_ack_req: false,
            ack,
            f_pending: fpending,
            fcnt: n,
            f_opts: fopts,
            payload: p,
        };
        let mut buf = [0u8; 300];
        frame.build_into(&mut buf, &nwk, Some(&app)).map(|b| b.to_vec()).unwrap_or_default()
    }

    pub fn join_accept(key: &[u8; 16], join_nonce: [u8; 3], net_id: [u8; 3], addr: [u8; 4], dl: u8, rxdelay: u8,
                       cftype: i32, cf: &[u8]) -> Vec<u8> {
        let c_f_list = match cftype {
            0 => {
                let mut f = [Frequency::default(); 5];
                for (i, fr) in f.iter_mut().enumerate() {
                    *fr = Frequency::from_wire_bytes([cf[3 * i], cf[3 * i + 1], cf[3 * i + 2]]);
                }
                Some(CfList::DynamicChannel(f))
            }
            1 => Some(CfList::FixedChannel(ChannelMask::<9>::new_from_raw(cf))),
            _ => None,
        };
        let ja = JoinAccept {
            join_nonce: JoinNonce::from_wire_bytes(join_nonce),
            net_id: NetId::from_wire_bytes(net_id),
            dev_addr: DevAddr::from_wire_bytes(addr),
            dl_settings: DLSettings::new(dl),
            rx_delay: rxdelay,
            c_f_list,
        };
        let mut buf = [0u8; 64];
        let mut out = ja.build_into(&mut buf, &DefaultNetworkCrypto::new(&AES128(*key))).unwrap().to_vec();
        // a CFList with an RFU type octet cannot be expressed by the builder: patch after building
        if cftype >= 2 {
            out = Self::join_accept_raw(key, join_nonce, net_id, addr, dl, rxdelay, cftype as u8, cf);
        }
        out
    }

    /// JoinAccept with an arbitrary CFList type octet (network side: MIC, then AES-decrypt wrapping).
    #[allow(clippy::too_many_arguments)]
    pub fn join_accept_raw(key: &[u8; 16], join_nonce: [u8; 3], net_id: [u8; 3], addr: [u8; 4], dl: u8, rxdelay: u8,
                           cftype: u8, cf: &[u8]) -> Vec<u8> {
        use lorawan::keys::{Crypto, NetworkCrypto};
        let c = DefaultNetworkCrypto::new(&AES128(*key));
        let mut p = vec![0x20u8];
        p.extend_from_slice(&join_nonce);
        p.extend_from_slice(&net_id);
        p.extend_from_slice(&addr);
        p.push(dl);
        p.push(rxdelay & 0x0f);
        let mut cfl = cf.to_vec();
        cfl.resize(15, 0);
        p.extend_from_slice(&cfl);
        p.push(cftype);
        let mic = c.calculate_mic(&[], &p);
        p.extend_from_slice(&mic);
        for block in p[1..].chunks_exact_mut(16) {
            c.decrypt_block(block);
        }
        p
    }
}

// ------------------------------------------------------------------ MAC command streams
pub fn freq3(hz: u32) -> [u8; 3] {
    let v = hz / 100;
    [v as u8, (v >> 8) as u8, (v >> 16) as u8]
}

pub fn band(region: &str) -> (u32, u32) {
    match region {
        "EU868" => (863_000_000, 870_000_000),
        "EU433" => (433_050_000, 434_790_000),
        "IN865" => (865_000_000, 867_000_000),
        "AS923_4" => (917_000_000, 920_000_000),
        "US915" => (902_000_000, 928_000_000),
        _ => (915_000_000, 928_000_000),
    }
}

pub fn some_freq(rng: &mut StdRng, region: &str) -> u32 {
    let (lo, hi) = band(region);
    match rng.gen_range(0..10) {
        0 => 0,
        1 => lo,
        2 => hi,
        3 => lo - 100,
        4 => hi + 100,
        5 => 900_000_000,
        6 => 16_777_215 * 100,
        _ => lo + (rng.gen_range(0..=(hi - lo) / 100)) * 100,
    }
}

/// One downlink MAC command with field values drawn from boundary + random sets.
pub fn some_cmd(rng: &mut StdRng, region: &str) -> Vec<u8> {
    let fixed = region == "US915" || region == "AU915";
    match rng.gen_range(0..14) {
        0..=4 => {
            // LinkADRReq
            let dr: u8 = if rng.gen_bool(0.3) { 15 } else { rng.gen_range(0..16) };
            let pw: u8 = if rng.gen_bool(0.3) { 15 } else { rng.gen_range(0..16) };
            let cntl: u8 = if rng.gen_bool(0.6) { if fixed { [0, 1, 4, 5, 6, 7][rng.gen_range(0..6)] } else { [0, 6][rng.gen_range(0..2)] } } else { rng.gen_range(0..8) };
            let mask: [u8; 2] = match rng.gen_range(0..8) {
                0 => [0, 0],
                1 => [0xff, 0xff],
                2 => [0x07, 0x00],
                3 => [1 << rng.gen_range(0..8), 0],
                4 => [0, 1 << rng.gen_range(0..8)],
                5 => [0x03, 0x00],
                _ => rng.r#gen(),
            };
            let red = (cntl << 4) | rng.gen_range(0..16) | if rng.gen_ratio(1, 10) { 0x80 } else { 0 };
            vec![0x03, (dr << 4) | pw, mask[0], mask[1], red]
        }
        5 | 6 => {
            let dl: u8 = rng.r#gen();
            let f = freq3(some_freq(rng, region));
            vec![0x05, dl, f[0], f[1], f[2]]
        }
        7 => vec![0x06],
        8 | 9 => {
            let idx: u8 = [0, 1, 2, 3, 4, 5, 7, 8, 15, 16, 255, rng.r#gen()][rng.gen_range(0..12)];
            let f = freq3(some_freq(rng, region));
            let drr: u8 = if rng.gen_bool(0.5) { 0x50 } else { rng.r#gen() };
            vec![0x07, idx, f[0], f[1], f[2], drr]
        }
        10 => vec![0x08, rng.r#gen()],
        11 => {
            let idx: u8 = [0, 1, 2, 3, 4, 5, 15, 16, 200][rng.gen_range(0..9)];
            let f = freq3(some_freq(rng, region));
            vec![0x0A, idx, f[0], f[1], f[2]]
        }
        12 => match rng.gen_range(0..4) {
            0 => vec![0x02, rng.r#gen(), rng.r#gen()],
            1 => vec![0x04, rng.r#gen()],
            2 => vec![0x09, rng.r#gen()],
            _ => vec![0x0D, 1, 2, 3, 4, 5],
        },
        _ => {
            // malformed tail: unknown CID or truncated command
            if rng.gen_bool(0.5) { vec![rng.gen_range(0x10..0xff)] } else { vec![0x03, 0x50] }
        }
    }
}

/// Requests whose answers fill the 15-byte answer buffer to a chosen level L (DevStatusAns = 3 bytes, LinkADRAns /
/// RXParamSetupAns = 2, RXTimingSetupAns = 1), followed by one more request of each answer size: every (L, size) pair
/// around the limit is hit, in particular "exactly full" and "one byte short".
pub fn fill_stream(rng: &mut StdRng, region: &str, max_len: usize) -> Vec<u8> {
    let fixed = region == "US915" || region == "AU915";
    let adr = [0x03u8, 0xff, 0xff, 0xff, if fixed { 0x60 } else { 0x00 }];
    let level = rng.gen_range(9..=15usize);
    let mut s: Vec<u8> = vec![];
    let mut have = 0usize;
    while have < level {
        let rem = level - have;
        let pick = if rem >= 3 && rng.gen_bool(0.6) { 3 } else if rem >= 2 && rng.gen_bool(0.7) { 2 } else { 1 };
        match pick {
            3 => s.push(0x06),
            2 => s.extend_from_slice(&adr),
            _ => s.extend_from_slice(&[0x08, 0x01]),
        }
        have += pick;
    }
    match rng.gen_range(0..4) {
        0 => s.push(0x06),
        1 => s.extend_from_slice(&adr),
        2 => s.extend_from_slice(&[0x08, 0x02]),
        _ => {
            let f = freq3(band(region).0 + 300_000);
            s.extend_from_slice(&[0x05, 0x00, f[0], f[1], f[2]]);
        }
    }
    if rng.gen_bool(0.3) {
        s.push(0x06);
    }
    if s.len() > max_len {
        // does not fit the carrier (FOpts): keep the tail, which is where the limit is reached
        s = vec![0x06, 0x06, 0x06, 0x06, 0x08, 0x01, 0x06][..7.min(max_len)].to_vec();
    }
    s
}

pub fn cmd_stream(rng: &mut StdRng, region: &str, max_len: usize) -> Vec<u8> {
    if rng.gen_ratio(1, 7) {
        return fill_stream(rng, region, max_len);
    }
    let mut s: Vec<u8> = vec![];
    if max_len >= 40 && rng.gen_ratio(1, 8) {
        // more answers than fit in 15 bytes, with a short answer behind a long one
        let k = rng.gen_range(5..=7);
        for i in 0..k {
            s.extend_from_slice(&[0x03, 0xff, 0xff, 0xff, if region == "US915" || region == "AU915" { 0x60 } else { 0x00 }]);
            if i == 2 && rng.gen_bool(0.5) {
                s.extend_from_slice(&[0x04, 0x01]); // DutyCycleReq splits the block (no answer)
            }
        }
        s.push(0x06); // DevStatusReq: 3-byte answer
        s.extend_from_slice(&[0x08, 0x03]); // RXTimingSetupReq: 1-byte answer
        if rng.gen_bool(0.5) {
            s.push(0x06);
        }
        return s;
    }
    let n = [0, 1, 1, 2, 2, 3, 4, 6][rng.gen_range(0..8)];
    for _ in 0..n {
        let c = if rng.gen_ratio(1, 3) && !s.is_empty() && s[0] == 0x03 {
            // favour LinkADRReq blocks
            let mut c = some_cmd(rng, region);
            while c[0] != 0x03 {
                c = some_cmd(rng, region);
            }
            c
        } else {
            some_cmd(rng, region)
        };
        if s.len() + c.len() > max_len {
            break;
        }
        s.extend(c);
    }
    s
}

// ------------------------------------------------------------------ random histories
pub struct GenCfg {
    pub region: String,
    pub front: String,
    pub classc: bool,
    pub max_steps: usize,
    pub appkey: [u8; 16],
    /// weight knobs
    pub p_downlink: f64,
    pub p_cmds: f64,
    pub p_reject: f64,
    pub p_fault: f64,
    /// probability of a re-join from the joined state, per op
    pub p_rejoin: f64,
    /// enumerate DLSettings / RxDelay of JoinAccepts systematically
    pub ja_enum: bool,
    /// application misuse the type system allows (C04): data on port 0, oversize payloads, any data rate
    pub misuse: bool,
    /// persistence profile (C20): probability of a serialise/deserialise/install step and of a
    /// structurally mutated session document per op
    pub p_serde: f64,
    pub p_badsession: f64,
    /// systematic receive-window table walk (C10): stride through (uplink DR, RX1 offset, RX2 DR, RxDelay)
    pub rxwin_stride: usize,
    /// systematic single-channel walk (C04 / C09): 0 off, 1 ascending, 2 descending channel index
    pub onlych: u8,
}

pub struct Gen {
    pub rng: StdRng,
    pub cfg: GenCfg,
    pub sent: Vec<Vec<u8>>,
    pub join_nonce: u32,
    pub walk: usize,
    /// the FOpts command stream of the previous authentic downlink (sometimes sent again: commands are idempotent)
    pub last_fopts: Vec<u8>,
    /// the CFList of the previous JoinAccept (sometimes sent again: a re-join usually repeats the channel list)
    pub last_cf: Option<(i32, Vec<u8>)>,
    /// the scripted DevNonce draw of the previous join attempt (sometimes drawn again: a weak RNG repeats itself)
    pub last_nonce: u32,
}

fn rnd_vec(rng: &mut StdRng, n: usize) -> Vec<u8> {
    (0..n).map(|_| rng.r#gen()).collect()
}

impl Gen {
    pub fn new(seed: u64, cfg: GenCfg) -> Gen {
        Gen { rng: StdRng::seed_from_u64(seed), cfg, sent: vec![], join_nonce: 1, walk: 0, last_fopts: vec![], last_cf: None, last_nonce: 0 }
    }

    fn cflist(&mut self) -> (i32, Vec<u8>) {
        if let Some(cf) = self.last_cf.clone() {
            if self.rng.gen_ratio(1, 3) {
                return cf;
            }
        }
        let cf = self.cflist_fresh();
        self.last_cf = Some(cf.clone());
        cf
    }

    fn cflist_fresh(&mut self) -> (i32, Vec<u8>) {
        let fixed = self.cfg.region == "US915" || self.cfg.region == "AU915";
        match self.rng.gen_range(0..10) {
            0..=2 => (-1, vec![]),
            3..=6 => {
                if fixed && self.rng.gen_bool(0.8) {
                    let mut m = vec![0u8; 9];
                    match self.rng.gen_range(0..5) {
                        0 => {}
                        1 => m.fill(0xff),
                        2 => { m[1] = 0xff; m[8] = 0x02; }
                        3 => { m[8] = 0x01; }
                        _ => { let v: [u8; 9] = self.rng.r#gen(); m.copy_from_slice(&v); }
                    }
                    (1, m)
                } else {
                    let mut cf = vec![];
                    for _ in 0..5 {
                        let f = some_freq(&mut self.rng, &self.cfg.region.clone());
                        cf.extend_from_slice(&freq3(f));
                    }
                    (0, cf)
                }
            }
            7 => (0, vec![0u8; 15]),
            8 => (1, rnd_vec(&mut self.rng, 9)),
            _ => (self.rng.gen_range(2..=255), rnd_vec(&mut self.rng, 15)),
        }
    }

    fn join_accept_frame(&mut self) -> Frame {
        let (cftype, cf) = self.cflist();
        let mut dl: u8 = if self.rng.gen_bool(0.5) { self.rng.r#gen() } else { [0x00, 0x02, 0x10, 0x50, 0x70, 0x0f, 0x08][self.rng.gen_range(0..7)] };
        let mut rxdelay: u8 = self.rng.gen_range(0..16);
        if self.cfg.ja_enum {
            // every DLSettings byte in turn; RxDelay cycles with a different period, 0 and 1 over-represented
            dl = (self.join_nonce.wrapping_mul(37) % 256) as u8;
            rxdelay = [0u8, 5, 0, 1, 15, 2, 0, 7, 1, 9, 3, 0][(self.join_nonce % 12) as usize];
        }
        self.join_nonce += 1;
        let jn = [self.join_nonce as u8, (self.join_nonce >> 8) as u8, 0];
        let addr: [u8; 4] = self.rng.r#gen();
        let kind = self.rng.gen_range(0..10);
        let key = if kind == 0 { self.rng.r#gen() } else { self.cfg.appkey };
        let mut b = Net::join_accept(&key, jn, [1, 2, 3], addr, dl, rxdelay, cftype, &cf);
        let mut intent = format!("ja:dl={dl:#04x}:del={rxdelay}:cf={cftype}");
        if kind == 0 {
            intent = "ja-wrongkey".into();
        } else if kind == 1 {
            let i = self.rng.gen_range(0..b.len());
            b[i] ^= 1 << self.rng.gen_range(0..8);
            intent = "ja-bitflip".into();
        } else if kind == 2 {
            b.truncate(b.len() - 1);
            intent = "ja-short".into();
        }
        Frame { bytes: b, snr: self.rng.gen_range(-20..12), intent }
    }

    /// A data downlink of some class, given the network's view (keys, last accepted counter).
    fn data_frame(&mut self, v: &View, last: &mut Option<u32>, class_a: bool) -> Frame {
        let region = self.cfg.region.clone();
        let (nwk, app, addr) = v.keys.unwrap_or(([0; 16], [0; 16], [0; 4]));
        let net = Net { nwk, app, addr, sent: vec![] };
        let snr: i8 = if self.rng.gen_ratio(1, 8) { [-128, 127, -32, 31, -33, 32][self.rng.gen_range(0..6)] } else { self.rng.gen_range(-25..15) };
        let reject = self.rng.gen_bool(self.cfg.p_reject);
        let fresh_n = |rng: &mut StdRng, last: &Option<u32>| -> u32 {
            match last {
                None => [0u32, 1, 7, 65535, 40000][rng.gen_range(0..5)],
                Some(l) => {
                    let gap = match rng.gen_range(0..12) {
                        0..=7 => 1,
                        8 => 2,
                        9 => rng.gen_range(2..200),
                        10 => 16384,
                        _ => rng.gen_range(200..16384),
                    };
                    l.checked_add(gap).unwrap_or(u32::MAX)
                }
            }
        };
        let mk = |g: &mut Gen, n: u32| -> (Vec<u8>, String) {
            let confirmed = g.rng.gen_bool(0.3);
            let with_cmds = g.rng.gen_bool(g.cfg.p_cmds);
            let up = g.rng.gen_ratio(1, 25);
            let (fopts, port, payload): (Vec<u8>, i32, Vec<u8>) = if with_cmds && g.rng.gen_bool(0.35) {
                (vec![], 0, cmd_stream(&mut g.rng, &region, 40))
            } else {
                let fo = if with_cmds && !g.last_fopts.is_empty() && g.rng.gen_ratio(1, 6) {
                    // the network repeats its previous command stream (e.g. it has not seen the answers yet)
                    g.last_fopts.clone()
                } else if with_cmds {
                    cmd_stream(&mut g.rng, &region, 15)
                } else {
                    vec![]
                };
                if !fo.is_empty() {
                    g.last_fopts = fo.clone();
                }
                match g.rng.gen_range(0..4) {
                    0 => (fo, -1, vec![]),
                    _ => {
                        let n = g.rng.gen_range(0..12);
                        let port = g.rng.gen_range(1..=223);
                        (fo, port, rnd_vec(&mut g.rng, n))
                    }
                }
            };
            let b = net.data(n, confirmed, up, &fopts, port, &payload, g.rng.gen_bool(0.2), g.rng.gen_bool(0.2));
            (b, format!("auth:n={n}:conf={}:fo={}:port={port}:pl={}", confirmed as u8, fopts.len(), payload.len()))
        };
        if !reject {
            let n = fresh_n(&mut self.rng, last);
            let (b, intent) = mk(self, n);
            self.sent.push(b.clone());
            *last = Some(n);
            let _ = class_a;
            return Frame { bytes: b, snr, intent };
        }
        let (bytes, intent): (Vec<u8>, String) = match self.rng.gen_range(0..9) {
            0 if !self.sent.is_empty() => {
                let i = self.rng.gen_range(0..self.sent.len());
                (self.sent[i].clone(), "replay".into())
            }
            1 => {
                // stale counter (authentic under an old or equal counter)
                let n = match last { Some(l) => l.saturating_sub(self.rng.gen_range(0..3)), None => 0 };
                let (b, _) = mk(self, n);
                (b, if last.is_some() { "stale".into() } else { "first".into() })
            }
            2 => {
                let n = match last { Some(l) => l.wrapping_add(16385 + self.rng.gen_range(0..70000)), None => 5 };
                let (b, _) = mk(self, n);
                (b, if last.is_some() { "far-future".into() } else { "first".into() })
            }
            3 => {
                let n = fresh_n(&mut self.rng, last);
                let (mut b, _) = mk(self, n);
                let i = self.rng.gen_range(0..b.len());
                b[i] ^= 1 << self.rng.gen_range(0..8);
                (b, "bitflip".into())
            }
            4 => {
                let other = Net { nwk: self.rng.r#gen(), app: self.rng.r#gen(), addr, sent: vec![] };
                let n = fresh_n(&mut self.rng, last);
                (other.data(n, false, false, &[], 5, &[1, 2, 3], false, false), "foreign".into())
            }
            5 => {
                let n = self.rng.gen_range(0..60);
                (rnd_vec(&mut self.rng, n), "random".into())
            }
            6 => {
                // oversize: authentic or not, longer than any data rate of the window allows
                let n = fresh_n(&mut self.rng, last);
                // total frame length L = 13 + len; window limits are max MACPayload + 5 for 19/59/61/123/133/137/250
                let len = [10usize, 11, 12, 50, 51, 52, 53, 54, 114, 115, 116, 124, 125, 126, 128, 129, 130, 241, 242]
                    [self.rng.gen_range(0..19)];
                // half of them carry k bytes of FOpts (DevStatusReq x k) with the payload shortened so that the frame
                // stays within k + 1 bytes of the same boundaries: the size limit is on the whole frame, whatever its
                // division into header options and payload
                let k = if self.rng.gen_bool(0.5) { self.rng.gen_range(1..=5usize) } else { 0 };
                let fo = vec![0x06u8; k];
                let len = if k == 0 { len } else { len.saturating_sub(k) + self.rng.gen_range(0..=k + 1) };
                let len = len.min(242 - k); // a LoRa PHY payload has at most 255 bytes
                let pl = rnd_vec(&mut self.rng, len);
                let auth = self.rng.gen_bool(0.5);
                let mut b = net.data(n, false, false, &fo, 9, &pl, false, false);
                if !auth {
                    let l = b.len();
                    b[l - 1] ^= 0x55;
                }
                (b, format!("big:{len}:fo={k}:auth={}", auth as u8))
            }
            7 => (self.join_accept_frame().bytes, "ja-while-joined".into()),
            _ => {
                let n = fresh_n(&mut self.rng, last);
                let wrong = Net { nwk, app, addr: self.rng.r#gen(), sent: vec![] };
                (wrong.data(n, false, false, &[], 3, &[9], false, false), "other-addr-same-keys".into())
            }
        };
        Frame { bytes, snr, intent }
    }

    fn plan(&mut self, v: &View, join: bool) -> Proc {
        let nb = self.cfg.front == "nb";
        let mut p = Proc { tx: "done".into(), ts: self.rng.gen_range(0..3000), fault: -1, ..Default::default() };
        match self.rng.gen_range(0..40) {
            0 => p.tx = "err".into(),
            1 if nb => p.tx = "idle".into(),
            2..=12 if nb => p.tx = "txing".into(),
            _ => {}
        }
        let mut last = v.fcnt_down;
        if join {
            match self.rng.gen_range(0..10) {
                0..=4 => p.rx1.push(self.join_accept_frame()),
                5..=7 => p.rx2.push(self.join_accept_frame()),
                _ => {}
            }
            if nb && self.rng.gen_bool(0.3) {
                // stray frames before the accept
                let n = self.rng.gen_range(0..40);
                let stray = Frame { bytes: rnd_vec(&mut self.rng, n), snr: 0, intent: "random".into() };
                p.rx1.insert(0, stray);
            }
        } else if v.joined {
            let pd = self.cfg.p_downlink;
            if self.cfg.classc && self.cfg.front == "async" {
                for _ in 0..[0, 0, 0, 1, 2][self.rng.gen_range(0..5)] {
                    let f = self.data_frame(v, &mut last, false);
                    p.c1.push(f);
                }
            }
            if self.rng.gen_bool(pd) {
                let k = if nb { [1, 1, 2, 3][self.rng.gen_range(0..4)] } else { 1 };
                for _ in 0..k {
                    let f = self.data_frame(v, &mut last, true);
                    p.rx1.push(f);
                }
            }
            if self.cfg.classc && self.cfg.front == "async" && self.rng.gen_bool(0.2) {
                let f = self.data_frame(v, &mut last, false);
                p.c2.push(f);
            }
            if self.rng.gen_bool(pd * 0.7) {
                let k = if nb { [1, 1, 2][self.rng.gen_range(0..3)] } else { 1 };
                for _ in 0..k {
                    let f = self.data_frame(v, &mut last, true);
                    p.rx2.push(f);
                }
            }
        }
        if !nb && self.rng.gen_bool(self.cfg.p_fault) {
            p.fault = self.rng.gen_range(0..9);
        }
        if nb && self.rng.gen_bool(self.cfg.p_fault) {
            p.fault = self.rng.gen_range(1..=4);
        }
        if nb && self.rng.gen_ratio(1, 6) {
            p.noise = vec![self.rng.r#gen(), self.rng.r#gen()];
        }
        p
    }

    /// C10 table walk: alternately (a) an uplink answered in RX1 by RXParamSetupReq(offset, RX2 DR, freq) +
    /// RXTimingSetupReq(del) + LinkADRReq(DR) [+ DlChannelReq], (b) uplinks that only observe the windows
    /// (fixed plans: scripted draws walk over the channels).
    fn next_rxwin(&mut self, v: &View) -> Option<Op> {
        let region = self.cfg.region.clone();
        let fixed = region == "US915" || region == "AU915";
        if !v.joined {
            return Some(Op::JoinAbp { nwk: self.rng.r#gen(), app: self.rng.r#gen(), addr: self.rng.r#gen() });
        }
        let t = self.walk / 3;          // tuple index
        let phase = self.walk % 3;
        self.walk += 1;
        let tuple = t * self.cfg.rxwin_stride.max(1);
        if tuple >= 16 * 8 {
            return None;
        }
        let dr = (tuple / 8) as u8;     // 0..15 (undefined ones are refused by the device: state unchanged)
        let off = (tuple % 8) as u8;
        let rx2dr: u8 = [15u8, 0, 2, 3, 5, 8, 10, 13, 6][(tuple / 3) % 9];
        let del = (tuple % 16) as u8;
        let mut plan = Proc { tx: "done".into(), ts: (tuple as u32 * 37) % 2000, fault: -1, ..Default::default() };
        if phase == 0 {
            let (lo, hi) = band(&region);
            let f = freq3([lo, hi, lo + 300_000, (lo + hi) / 2 / 100 * 100][tuple % 4]);
            let mut fopts = vec![0x05, (off << 4) | rx2dr, f[0], f[1], f[2], 0x08, del];
            // LinkADRReq: data rate, keep power, all channels on
            fopts.extend_from_slice(&[0x03, (dr << 4) | 0x0f, 0xff, 0xff, 0x60]);
            if !fixed && t % 5 <= 1 {
                // fits only without the RXTimingSetupReq.  Every fifth step maps a downlink frequency to a channel;
                // the step after it repeats the very same DlChannelReq (what a network does until it has seen the
                // answer): the mapping must stay.
                let t0 = t - t % 5;
                fopts.truncate(5);
                let df = freq3(lo + 100_000 * ((t0 as u32) % 7));
                fopts.extend_from_slice(&[0x0A, (t0 % 3) as u8, df[0], df[1], df[2]]);
                fopts.extend_from_slice(&[0x03, (dr << 4) | 0x0f, 0xff, 0xff, 0x60]);
            }
            // Redefinition (dynamic plans): step t%5 == 2 defines a channel that is not a join channel, maps a
            // downlink frequency to it and leaves only it enabled; step t%5 == 3 redefines the same channel with
            // another uplink frequency: the uplinks after each step show where RX1 opens for that channel (a
            // redefined channel is a new channel: no residue of the old mapping).  Sent as a port-0 payload (the
            // three commands do not fit FOpts).
            let mut port0: Vec<u8> = vec![];
            if !fixed && (t % 5 == 2 || t % 5 == 3) {
                let idx = 3 + ((t / 5) % 4) as u8;
                let f_up = freq3(lo + 100_000 * (idx as u32 + if t % 5 == 2 { 1 } else { 9 }));
                port0.extend_from_slice(&[0x07, idx, f_up[0], f_up[1], f_up[2], 0x50]);
                if t % 5 == 2 {
                    let df = freq3(lo + 100_000 * ((t as u32) % 7));
                    port0.extend_from_slice(&[0x0A, idx, df[0], df[1], df[2]]);
                }
                let m: u16 = 1 << idx;
                port0.extend_from_slice(&[0x03, 0xff, m as u8, (m >> 8) as u8, 0x01]);
            }
            let (nwk, app, addr) = v.keys.unwrap();
            let net = Net { nwk, app, addr, sent: vec![] };
            let n = v.fcnt_down.map(|x| x + 1).unwrap_or(0);
            let b = if port0.is_empty() { net.data(n, false, false, &fopts, -1, &[], false, false) } else { net.data(n, false, false, &[], 0, &port0, false, false) };
            plan.rx1.push(Frame { bytes: b, snr: 3, intent: format!("auth:rxwin:dr={dr}:off={off}:rx2={rx2dr}:del={del}:redef={}", port0.len()) });
        }
        let draws = if fixed { vec![(tuple as u32 * 3 + phase as u32 * 17) % 64] } else { vec![(tuple + phase) as u32] };
        Some(Op::Send { port: 2, data: vec![phase as u8], confirmed: phase == 2 && tuple % 2 == 0, draws, plan })
    }

    /// Single-channel walk: for every channel index k of the plan (dynamic: 0..15, defining the channel by
    /// NewChannelReq when it is not a join channel; fixed: 0..71) an uplink is answered by a LinkADRReq block
    /// that leaves exactly channel k enabled (fixed plans, 125 kHz: k and k^1, the device insists on two), with a
    /// data rate the channel supports; three plain uplinks follow.
    /// Channel selection must terminate and pick channel k whatever the highest defined index is.
    fn next_onlych(&mut self, v: &View) -> Option<Op> {
        let region = self.cfg.region.clone();
        let fixed = region == "US915" || region == "AU915";
        if !v.joined {
            return Some(Op::JoinAbp { nwk: self.rng.r#gen(), app: self.rng.r#gen(), addr: self.rng.r#gen() });
        }
        let nch = if fixed { 72 } else { 16 };
        let t = self.walk / 4;
        let phase = self.walk % 4;
        self.walk += 1;
        if t >= nch {
            return None;
        }
        let k = if self.cfg.onlych == 2 { nch - 1 - t } else { t };
        let mut plan = Proc { tx: "done".into(), ts: 50, fault: -1, ..Default::default() };
        if phase == 3 && t % 5 == 4 {
            // every fifth channel: an (unanswered) OTAA join from the state in which this channel is the only one the
            // mask enables - join requests go out on the join channels whatever the mask of the ended session says;
            // the walk then goes on from a fresh ABP session (plan and mask stay as they are)
            return Some(Op::JoinOtaa { appkey: self.cfg.appkey, deveui: [1, 2, 3, 4, 5, 6, 7, 8], appeui: [8, 7, 6, 5, 4, 3, 2, 1], draws: vec![], plan });
        }
        if phase == 0 {
            let mut fopts: Vec<u8> = vec![];
            if fixed {
                if k < 64 {
                    let dr = 0u8;
                    // all 125 kHz channels off but one 500 kHz channel on, channel k on, the 500 kHz channel off again:
                    // no intermediate mask is empty (the device refuses a command that leaves none enabled)
                    fopts.extend_from_slice(&[0x03, (dr << 4) | 0x0f, 0x01, 0x00, 0x71]);
                    // (the fixed plans insist on two enabled 125 kHz channels: k and its neighbour k^1)
                    let m: u16 = (1 << (k % 16)) | (1 << ((k ^ 1) % 16));
                    fopts.extend_from_slice(&[0x03, (dr << 4) | 0x0f, m as u8, (m >> 8) as u8, (((k / 16) as u8) << 4) | 1]);
                    fopts.extend_from_slice(&[0x03, (dr << 4) | 0x0f, 0x00, 0x00, 0x41]);
                } else {
                    let dr: u8 = if region == "US915" { 4 } else { 6 };
                    fopts.extend_from_slice(&[0x03, (dr << 4) | 0x0f, 1u8 << (k - 64), 0x00, 0x71]);
                }
            } else {
                let (lo, _) = band(&region);
                let f = freq3(lo + 100_000 * (k as u32 + 1));
                // (re)defining a join channel is refused by the device and changes nothing: harmless
                fopts.extend_from_slice(&[0x07, k as u8, f[0], f[1], f[2], 0x50]);
                let m: u16 = 1 << k;
                fopts.extend_from_slice(&[0x03, 0xff, m as u8, (m >> 8) as u8, 0x01]);
            }
            let (nwk, app, addr) = v.keys.unwrap();
            let net = Net { nwk, app, addr, sent: vec![] };
            let n = v.fcnt_down.map(|x| x + 1).unwrap_or(0);
            let b = net.data(n, false, false, &fopts, -1, &[], false, false);
            plan.rx1.push(Frame { bytes: b, snr: 3, intent: format!("auth:onlych:{k}") });
        }
        Some(Op::Send { port: 3, data: vec![k as u8, phase as u8], confirmed: false, draws: vec![], plan })
    }

    /// Scripted first random draw of a join attempt (the DevNonce): half of the attempts draw one of the values
    /// where a nonce rule can go wrong - 0, a value whose low 16 bits are 0, 0xFFFF, and the very value (or the
    /// same low half) the previous attempt drew; the others leave it to the seeded RNG.
    fn join_draws(&mut self) -> Vec<u32> {
        if !self.rng.gen_bool(0.5) {
            return vec![];
        }
        let d = match self.rng.gen_range(0..6) {
            0 => 0,
            1 => 0x0001_0000,
            2 => 0xFFFF,
            3 => self.last_nonce,
            4 => self.last_nonce ^ 0x0101_0000,
            _ => self.rng.r#gen(),
        };
        self.last_nonce = d;
        vec![d]
    }

    pub fn next(&mut self, v: &View) -> Option<Op> {
        if self.cfg.rxwin_stride > 0 {
            return self.next_rxwin(v);
        }
        if self.cfg.onlych > 0 {
            return self.next_onlych(v);
        }
        if v.steps >= self.cfg.max_steps {
            return None;
        }
        let draws: Vec<u32> = vec![];
        if !v.joined {
            return Some(match self.rng.gen_range(0..10) {
                0..=6 => Op::JoinOtaa {
                    appkey: self.cfg.appkey,
                    deveui: [1, 2, 3, 4, 5, 6, 7, 8],
                    appeui: [8, 7, 6, 5, 4, 3, 2, 1],
                    draws: self.join_draws(),
                    plan: self.plan(v, true),
                },
                7 | 8 => Op::JoinAbp { nwk: self.rng.r#gen(), app: self.rng.r#gen(), addr: self.rng.r#gen() },
                _ => Op::Send { port: 1, data: vec![1], confirmed: false, draws, plan: self.plan(v, false) },
            });
        }
        if self.rng.gen_bool(self.cfg.p_rejoin) {
            return Some(Op::JoinOtaa {
                appkey: self.cfg.appkey,
                deveui: [1, 2, 3, 4, 5, 6, 7, 8],
                appeui: [8, 7, 6, 5, 4, 3, 2, 1],
                draws: self.join_draws(),
                plan: self.plan(v, true),
            });
        }
        if self.rng.gen_bool(self.cfg.p_serde) {
            return Some(Op::SerDe);
        }
        if self.cfg.front == "nb" && self.rng.gen_bool(self.cfg.p_badsession) {
            if let Some(doc) = &v.session_doc {
                return Some(Op::SetSession { doc: mutate_doc(&mut self.rng, doc) });
            }
        }
        Some(match self.rng.gen_range(0..100) {
            0..=64 => {
                let port = if self.rng.gen_ratio(1, 12) { 0 } else { self.rng.gen_range(1..=223) };
                let mut n = if port == 0 { 0 } else { self.rng.gen_range(0..8) };
                if self.cfg.misuse && self.rng.gen_ratio(1, 25) {
                    // misuse the type system allows: data on port 0, payloads up to 255 bytes
                    n = if port == 0 { self.rng.gen_range(1..4) } else { [200usize, 227, 228, 240, 241, 242, 243, 255][self.rng.gen_range(0..8)] };
                }
                Op::Send {
                    port,
                    data: rnd_vec(&mut self.rng, n),
                    confirmed: self.rng.gen_bool(0.3),
                    draws,
                    plan: self.plan(v, false),
                }
            }
            65..=70 => Op::SetDr {
                dr: if self.cfg.misuse && self.rng.gen_ratio(1, 6) { self.rng.gen_range(0..16) } else { [0u8, 1, 2, 3, 4, 5][self.rng.gen_range(0..6)] },
            },
            71..=74 => Op::SetAdr { on: self.rng.gen_bool(0.5) },
            75..=84 => Op::TakeDl,
            85..=89 => Op::SerDe,
            90..=92 => Op::JoinOtaa {
                appkey: self.cfg.appkey,
                deveui: [1, 2, 3, 4, 5, 6, 7, 8],
                appeui: [8, 7, 6, 5, 4, 3, 2, 1],
                draws: self.join_draws(),
                plan: self.plan(v, true),
            },
            _ => {
                if self.cfg.classc && self.cfg.front == "async" {
                    let mut last = v.fcnt_down;
                    let k = self.rng.gen_range(0..3);
                    let frames = (0..k).map(|_| self.data_frame(v, &mut last, false)).collect();
                    Op::Rxc { frames }
                } else {
                    Op::TakeDl
                }
            }
        })
    }
}

/// A session document (serde JSON of `Session`) with counters at chosen boundaries.
pub fn seeded_session(rng: &mut StdRng, profile: &str) -> Option<String> {
    let (ups, downs): (&[u64], &[i64]) = match profile {
        "fcnt" => (&[0, 5, 0xFFFE], &[-1, 0, 0xFFFE, 0xFFFF, 0x1FFFE, 0x1_0000, 0x7FFF_FFFE, 0xFFFF_BFFE, 0xFFFF_FFFC, 0xFFFF_FFFE]),
        "faults" => (&[0, 0xFFFE, 0xFFFF, 0x1_FFFF, 0xFFFF_FFFC, 0xFFFF_FFFD, 0xFFFF_FFFE, 0xFFFF_FFFF], &[-1, 0]),
        "adr" => (&[0, 0xFFFF_FF00], &[-1]),
        // a persisted session is lossless at every counter value, the halves of the 32-bit range included
        "persist" => (&[0, 0xFFFF, 0x7FFF_FFFF, 0x8000_0000, 0xFFFF_FF00], &[-1, 0, 0xFFFF, 0x7FFF_FFFF, 0x8000_0000, 0xFFFF_FFF0]),
        // frames that are not accepted must change nothing whatever the state of the session, the last counter included
        "reject" => (&[0, 0xFFFF, 0xFFFF_FFFE, 0xFFFF_FFFF], &[-1, 0, 0xFFFF]),
        _ => return None,
    };
    if rng.gen_ratio(1, 3) {
        return None;
    }
    let s = Session::new(NwkSKey::from(rng.r#gen::<[u8; 16]>()), AppSKey::from(rng.r#gen::<[u8; 16]>()),
                         DevAddr::from_wire_bytes(rng.r#gen()));
    let mut v = serde_json::to_value(&s).ok()?;
    v["fcnt_up"] = json!(ups[rng.gen_range(0..ups.len())]);
    let d = downs[rng.gen_range(0..downs.len())];
    v["fcnt_down"] = if d < 0 { Value::Null } else { json!(d) };
    Some(v.to_string())
}

/// Structural mutation of a serialised session document (C20: malformed documents must be refused or
/// yield a session on which every operation stays panic-free).
pub fn mutate_doc(rng: &mut StdRng, doc: &str) -> String {
    let mut v: Value = serde_json::from_str(doc).unwrap();
    let big = json!(18446744073709551615u64);
    match rng.gen_range(0..21) {
        // equivalent or near-equivalent FORMS of the document (serde accepts a struct given as the sequence of its
        // fields; stores re-indent documents and may write integers as floats): the nested `uplink` as a sequence,
        // consistent, with a length that disagrees, with a short data array; the whole document pretty-printed; a
        // counter written as a float
        16 => { let u = v["uplink"].clone(); v["uplink"] = json!([u["confirmed"], u["pending_len"], u["pending_data"]]); }
        17 => { let u = v["uplink"].clone(); v["uplink"] = json!([u["confirmed"], rng.gen_range(16..=255), u["pending_data"]]); }
        18 => { let u = v["uplink"].clone(); v["uplink"] = json!([u["confirmed"], u["pending_len"], [1, 2, 3]]); }
        19 => { return serde_json::to_string_pretty(&v).unwrap(); }
        20 => { let n = v["fcnt_up"].as_u64().unwrap_or(0); let t = v.to_string(); return t.replacen(&format!("\"fcnt_up\":{n}"), &format!("\"fcnt_up\":{n}.0"), 1); }
        0 => { v.as_object_mut().unwrap().remove("fcnt_up"); }
        1 => { v.as_object_mut().unwrap().remove("fcnt_down"); }
        2 => { v["fcnt_down"] = Value::Null; }
        3 => { v["uplink"]["pending_len"] = json!(rng.gen_range(0..=255)); }
        4 => { v["uplink"]["pending_len"] = json!(15); let d: Vec<u8> = (0..15).map(|_| rng.r#gen()).collect(); v["uplink"]["pending_data"] = json!(d); }
        5 => { v["uplink"]["pending_data"] = json!([1, 2, 3]); }
        6 => { v["fcnt_up"] = big; }
        7 => { v["fcnt_up"] = json!(-1); }
        8 => { v["fcnt_up"] = json!("7"); }
        9 => { v["confirmed"] = json!(1); }
        10 => { v["adr_ack_cnt"] = json!([63u32, 64, 95, 96, 1_000_000, 0x7FFF_FFFF, 0xFFFF_FFDF, 0xFFFF_FFFE, 0xFFFF_FFFF][rng.gen_range(0..9)]); }
        11 => { v["fcnt_down"] = json!(4294967295u64); v["fcnt_up"] = json!(4294967295u64); }
        12 => { if let Some(o) = v["uplink"].as_object_mut() { o.remove("confirmed"); } }
        13 => { v["extra"] = json!({"x": 1}); }
        14 => { let d: Vec<u8> = (0..16).map(|_| rng.r#gen()).collect(); v["uplink"]["pending_data"] = json!(d); }
        _ => {
            // duplicate key: done textually
            let t = v.to_string();
            return t.replacen("{", "{\"fcnt_up\":1,", 1);
        }
    }
    v.to_string()
}

fn reset_op(rng: &mut StdRng, region: &str, front: &str, classc: bool) -> Op {
    let fixed = region == "US915" || region == "AU915";
    Op::Reset {
        region: region.into(),
        front: front.into(),
        classc,
        board: rng.gen_range(0..5),
        bias_sb: if fixed && rng.gen_bool(0.5) { rng.gen_range(1..=8) } else { 0 },
        bias_retries: [1usize, 1, 2, 3][rng.gen_range(0..4)],
        lead: [0u32, 10, 50][rng.gen_range(0..3)],
        buffer: [0u32, 10, 30][rng.gen_range(0..3)],
        offset: [0i32, 10, 50, -20][rng.gen_range(0..4)],
        duration: [100u32, 500, 1500][rng.gen_range(0..3)],
        session: None,
    }
}

/// `vh mac`: random mixed histories over all regions x front-ends.
/// k=v options: hist=<histories per (region,front)>, steps=<ops per history>, fronts=nb,async,asyncc
pub fn vh_mac(a: &Args) {
    let hist = a.get_usize("hist", if a.thorough { 40 } else { 3 });
    let steps = a.get_usize("steps", if a.thorough { 60 } else { 40 });
    let fronts: Vec<String> = a.get("fronts").unwrap_or("nb,async,asyncc").split(',').map(|s| s.to_string()).collect();
    let regions: Vec<String> = a.get("regions").map(|s| s.split(',').map(|x| x.to_string()).collect())
        .unwrap_or_else(|| REGIONS.iter().map(|s| s.to_string()).collect());
    let mut out = crate::cli::Shards::create(&a.out, "mac", a.shards);
    let mut rng = StdRng::seed_from_u64(a.seed ^ 0x3AC);
    let mut h = 0usize;
    for region in &regions {
        for front in &fronts {
            for hi in 0..hist {
                let (fr, classc) = match front.as_str() {
                    "nb" => ("nb", false),
                    "async" => ("async", false),
                    _ => ("async", true),
                };
                let seed: u64 = rng.r#gen();
                let mut reset = reset_op(&mut rng, region, fr, classc);
                if let Op::Reset { session, .. } = &mut reset {
                    *session = seeded_session(&mut rng, a.get("profile").unwrap_or("mixed"));
                }
                // weight presets per property profile
                let profile = a.get("profile").unwrap_or("mixed");
                let (p_rejoin, ja_enum) = if profile == "join" { (0.35, true) } else { (0.0, false) };
                let (p_serde, p_badsession) = if profile == "persist" { (0.3, 0.12) } else { (0.0, 0.0) };
                let (p_downlink, p_cmds, p_reject, p_fault) = match profile {
                    "fcnt" => (0.9, 0.1, 0.5, 0.02),
                    "join" => (0.5, 0.7, 0.2, 0.03),
                    "faults" => (0.5, 0.3, 0.3, 0.5),
                    "reject" => (0.85, 0.7, 0.6, 0.03),
                    "cmds" => (0.95, 1.0, 0.08, 0.02),
                    "tx" => (0.6, 0.9, 0.1, 0.02),
                    "adr" => (0.04, 0.3, 0.3, 0.01),
                    "persist" => (0.6, 0.8, 0.3, 0.05),
                    "hostile" => (0.7, 0.8, 0.35, 0.08),
                    _ => (0.45, 0.6, 0.3, 0.06),
                };
                let mut g = Gen::new(seed, GenCfg {
                    region: region.clone(), front: fr.into(), classc, max_steps: steps, appkey: rng.r#gen(),
                    p_downlink, p_cmds, p_reject, p_fault, p_rejoin, ja_enum, p_serde, p_badsession,
                    misuse: profile == "hostile",
                    rxwin_stride: if profile == "rxwin" { a.get_usize("stride", if a.thorough { 1 } else { 3 }) } else { 0 },
                    onlych: if profile == "onlych" { 1 + (hi % 2) as u8 } else { 0 },
                });
                let mut f = |v: &View| g.next(v);
                if profile != "tx" {
                    let _ = run_history(out.shard(h), &[reset], seed, Some(&mut f));
                } else {
                    // C09: every possible channel choice.  Run once silently to fix the op list, re-run it
                    // with checkpoints before the last two sends, then fork each checkpoint once per
                    // possible first RNG draw (the device is re-created and the prefix re-executed silently).
                    let w = out.shard(h);
                    w.mute = true;
                    let ops = run_history(w, &[reset], seed, Some(&mut f));
                    w.mute = false;
                    let sends: Vec<usize> = ops.iter().enumerate().filter(|(_, o)| matches!(o, Op::Send { .. })).map(|(i, _)| i).collect();
                    let picks: Vec<usize> = sends.iter().rev().take(2).rev().copied().collect();
                    let mut with_ck: Vec<Op> = vec![];
                    for (i, o) in ops.iter().enumerate() {
                        if picks.contains(&i) {
                            with_ck.push(Op::Checkpoint);
                        }
                        with_ck.push(o.clone());
                    }
                    let _ = run_history(w, &with_ck, seed, None);
                    let fixed = region == "US915" || region == "AU915";
                    let ndraws: u32 = if fixed { 64 } else { 16 };
                    for (id, &i) in picks.iter().enumerate() {
                        let Op::Send { port, data, confirmed, .. } = &ops[i] else { continue };
                        for d in 0..ndraws {
                            let mut fork: Vec<Op> = ops[..i].to_vec();
                            fork.push(Op::Unmute);
                            fork.push(Op::Restore { id: id + 1 });
                            fork.push(Op::Send {
                                port: *port, data: data.clone(), confirmed: *confirmed, draws: vec![d],
                                plan: Proc { tx: "done".into(), ts: 1, fault: -1, stop_after_tx: true, ..Default::default() },
                            });
                            w.mute = true;
                            let _ = run_history(w, &fork, seed, None);
                            w.mute = false;
                        }
                    }
                }
                h += 1;
            }
            // Pairs of channel-mask commands, fixed plans: every ordered pair of LinkADRReq (ChMaskCntl, ChMask) classes,
            // each command in a downlink of its own, chained in one history so that every command meets the state the
            // previous one left (a bank-wise command after a sub-band command after an all-on / all-off command ...):
            // the mask after each accepted command is exactly the commanded one, whatever parts of it "already fit".
            if a.get("profile") == Some("cmds") && (region == "US915" || region == "AU915") && front == "async" {
                let cntls: Vec<u8> = if a.thorough { (0..8).collect() } else { vec![0, 1, 4, 5, 6, 7] };
                let masks: Vec<u16> = if a.thorough { vec![0x00FF, 0xFF00, 0x0003, 0xFFFF, 0x0000, 0x0081] } else { vec![0x00FF, 0xFF00, 0x0003, 0xFFFF] };
                let mut cmds: Vec<(u8, u16)> = vec![];
                let all: Vec<(u8, u16)> = cntls.iter().flat_map(|c| masks.iter().map(move |m| (*c, *m))).collect();
                for x in &all {
                    for y in &all {
                        cmds.push(*x);
                        cmds.push(*y);
                    }
                }
                // (the chain is cut into histories of 400 commands; each starts from the default mask)
                for chunk in cmds.chunks(400) {
                    let ops = vec![
                        Op::Reset { region: region.clone(), front: "async".into(), classc: false, board: 0, bias_sb: 0, bias_retries: 1,
                                    lead: 10, buffer: 10, offset: 0, duration: 500, session: None },
                        Op::JoinAbp { nwk: [3u8; 16], app: [4u8; 16], addr: [9, 8, 7, 6] },
                    ];
                    let mut i = 0usize;
                    let chunk: Vec<(u8, u16)> = chunk.to_vec();
                    let mut g = |view: &View| -> Option<Op> {
                        let (cntl, mask) = *chunk.get(i)?;
                        i += 1;
                        let (nwk, app, ad) = view.keys?;
                        let net = Net { nwk, app, addr: ad, sent: vec![] };
                        let n = view.fcnt_down.map(|x| x + 1).unwrap_or(0);
                        // DataRate 15 / TXPower 15: keep; NbTrans 1
                        let fopts = [0x03, 0xff, (mask & 0xff) as u8, (mask >> 8) as u8, (cntl << 4) | 1];
                        let mut plan = Proc { tx: "done".into(), ts: 10, fault: -1, ..Default::default() };
                        plan.rx1.push(Frame { bytes: net.data(n, false, false, &fopts, -1, &[], false, false), snr: 5, intent: format!("auth:maskpair:{cntl}:{mask:#06x}") });
                        Some(Op::Send { port: 2, data: vec![i as u8], confirmed: false, draws: vec![], plan })
                    };
                    let _ = run_history(out.shard(h), &ops, a.seed ^ (h as u64) ^ 0x3a5, Some(&mut g));
                    h += 1;
                }
            }
            // Silent run: a long run of uplinks that nothing answers, from the default (lowest) data rate, from the one
            // above it and (thorough) from the highest: the ADR back-off falls due at 96, 128, .. uplinks - also when
            // there is no lower data rate left - and every one of these uplinks still needs a counter of its own
            // (C06), its header bits and the data rate of Mac.tla (C12).
            if matches!(a.get("profile"), Some("faults") | Some("adr")) && (a.thorough || ["EU868", "US915", "IN865"].contains(&region.as_str())) {
                let (fr, classc) = match front.as_str() {
                    "nb" => ("nb", false),
                    "async" => ("async", false),
                    _ => ("async", true),
                };
                let top = if region == "US915" { 3u8 } else { 5 };
                let mut variants: Vec<(Option<u8>, usize)> = vec![(None, 132), (Some(1), 140)];
                if a.thorough {
                    variants.push((Some(top), 330));
                }
                for (dr, n) in variants {
                    let mut ops = vec![
                        Op::Reset { region: region.clone(), front: fr.into(), classc, board: 0, bias_sb: 0, bias_retries: 1,
                                    lead: 10, buffer: 10, offset: 0, duration: 500, session: None },
                        Op::JoinAbp { nwk: [3u8; 16], app: [4u8; 16], addr: [9, 8, 7, 6] },
                    ];
                    if let Some(dr) = dr {
                        ops.push(Op::SetDr { dr });
                    }
                    for i in 0..n {
                        // (an application that states its settings again: enabling ADR while it is enabled, setting the
                        // data rate in force once more - neither restarts the count of unanswered uplinks)
                        if dr.is_some() && i == 70 {
                            ops.push(Op::SetAdr { on: true });
                        }
                        if dr == Some(1) && i == 75 {
                            ops.push(Op::SetDr { dr: 1 });
                        }
                        ops.push(Op::Send { port: 3, data: vec![i as u8], confirmed: i % 7 == 3, draws: vec![],
                                            plan: Proc { tx: "done".into(), ts: 10, fault: -1, ..Default::default() } });
                    }
                    let _ = run_history(out.shard(h), &ops, a.seed ^ (h as u64) ^ 0x511, None);
                    h += 1;
                }
            }
            // Join walk, fixed plans: a long run of unanswered join attempts under each join-bias setting (none, the
            // compliant single try, several tries on the preferred sub-band): every attempt must put one JoinRequest
            // on a join channel with the data rate it mandates - the walk over the nine banks of eight channels never
            // runs dry, whatever was tried before (C09: channel selection always terminates; C04)
            if a.get("profile") == Some("onlych") && (region == "US915" || region == "AU915") && front == "async" {
                for (sb, retries) in [(0u8, 1usize), (3, 1), (2, 2), (6, 8)] {
                    let mut ops = vec![Op::Reset { region: region.clone(), front: "async".into(), classc: false, board: 0, bias_sb: sb, bias_retries: retries,
                                                   lead: 10, buffer: 10, offset: 0, duration: 500, session: None }];
                    for _ in 0..(if a.thorough { 400 } else { 150 }) {
                        ops.push(Op::JoinOtaa { appkey: [7u8; 16], deveui: [1, 2, 3, 4, 5, 6, 7, 8], appeui: [8, 7, 6, 5, 4, 3, 2, 1], draws: vec![],
                                                plan: Proc { tx: "done".into(), ts: 10, fault: -1, ..Default::default() } });
                    }
                    let _ = run_history(out.shard(h), &ops, a.seed ^ (h as u64) ^ 0x101, None);
                    h += 1;
                }
            }
            // Window walk, fixed plans: data uplinks sent while a join bias is still in force (preferred sub-band
            // with several retries, joined early, JoinAccept without CFList, no channel mask received yet) go out
            // on the preferred sub-band at the join data rate whatever data rate is configured: RX1 follows the
            // data rate of the transmission, not the configured one.
            if matches!(a.get("profile"), Some("rxwin") | Some("onlych")) && (region == "US915" || region == "AU915") {
                let (fr, classc) = match front.as_str() {
                    "nb" => ("nb", false),
                    "async" => ("async", false),
                    _ => ("async", true),
                };
                // (255: the region's 500 kHz uplink data rate - the configured data rate then belongs to the other bandwidth
                // class than the channels of the preferred sub-band)
                for (sb, retries, dr, dl, adr) in [(2u8, 2usize, 3u8, 0x00u8, false), (7, 4, 2, 0x10, false), (1, 4, 3, 0x20, false), (8, 3, 1, 0x00, false),
                                                   (2, 8, 3, 0x00, true), (5, 4, 1, 0x10, true), (3, 4, 255, 0x00, false), (6, 3, 255, 0x10, true)] {
                    let dr = if dr == 255 { if region == "US915" { 4 } else { 6 } } else { dr };
                    let appkey = [7u8; 16];
                    let ja = Net::join_accept(&appkey, [1, 0, 0], [1, 2, 3], [1, 2, 3, 4], dl, 1, -1, &[]);
                    let proc_ = |rx1: Vec<Frame>| Proc { tx: "done".into(), ts: 10, rx1, fault: -1, ..Default::default() };
                    let mut ops = vec![
                        Op::Reset { region: region.clone(), front: fr.into(), classc, board: 0, bias_sb: sb, bias_retries: retries,
                                    lead: 10, buffer: 10, offset: 0, duration: 500, session: None },
                        Op::JoinOtaa { appkey, deveui: [1, 2, 3, 4, 5, 6, 7, 8], appeui: [8, 7, 6, 5, 4, 3, 2, 1], draws: vec![],
                                       plan: proc_(vec![Frame { bytes: ja, snr: 5, intent: format!("ja:bias:dl={dl:#04x}") }]) },
                        Op::SetDr { dr },
                    ];
                    if !adr {
                        for i in 0..=retries {
                            ops.push(Op::Send { port: 4, data: vec![i as u8], confirmed: false, draws: vec![], plan: proc_(vec![]) });
                        }
                        let _ = run_history(out.shard(h), &ops, 1, None);
                    } else {
                        // the network commands a data rate with a LinkADRReq that leaves the channel mask exactly as it
                        // is (ChMaskCntl 6: all 125 kHz channels on, ChMask: the 500 kHz channels): accepted, and a
                        // channel mask from the network ends the join bias - the following uplinks use that data rate
                        let mut i = 0usize;
                        let mut g = |view: &View| -> Option<Op> {
                            i += 1;
                            if i > retries + 2 {
                                return None;
                            }
                            let mut plan = proc_(vec![]);
                            if i == 1 {
                                let (nwk, app, ad) = view.keys?;
                                let net = Net { nwk, app, addr: ad, sent: vec![] };
                                let n = view.fcnt_down.map(|x| x + 1).unwrap_or(0);
                                let fopts = [0x03, ((dr + 1) << 4) | 0x0f, 0xff, 0x00, 0x60];
                                let bytes = net.data(n, false, false, &fopts, -1, &[], false, false);
                                plan.rx1.push(Frame { bytes, snr: 5, intent: "auth:bias:linkadr-same-mask".into() });
                            }
                            Some(Op::Send { port: 4, data: vec![i as u8], confirmed: false, draws: vec![], plan })
                        };
                        let _ = run_history(out.shard(h), &ops, 1, Some(&mut g));
                    }
                    h += 1;
                }
            }
        }
    }
    println!("events={} histories={h}", out.finish());
}

/// `vh bufwalk`: receptions that exactly fill (or nearly fill) the MAC's radio buffer (C18: the adapter / radio
/// hands the MAC exactly the bytes received).  Async devices with a radio buffer of 64, 128 and 33 bytes; an ABP
/// session; an uplink answered in RX1, in RX2 or (Class C) between the windows by an authentic downlink of
/// N-2 .. N bytes on air (application payload on port 5, with and without FOpts); for the 33-byte buffer also an
/// OTAA join answered by a JoinAccept with CFList (33 bytes).  MacTrace.tla decides what each frame must do.
pub fn vh_bufwalk(a: &Args) {
    let mut out = crate::cli::Shards::create(&a.out, "mac", a.shards);
    let key = [3u8; 16];
    let appkey = [7u8; 16];
    let addr = [9u8, 8, 7, 6];
    let mut h = 0usize;
    for (board, n) in [(5usize, 64usize), (6, 128), (7, 33)] {
        for region in ["EU868", "US915"] {
            for (classc, place) in [(false, 1u8), (false, 2), (true, 0)] {
                for fl in [0usize, 3] {
                    for l in [n - 2, n - 1, n] {
                        // frame length on air: MHDR 1 + FHDR 7 + FOpts fl + FPort 1 + payload + MIC 4
                        if l < 13 + fl {
                            continue;
                        }
                        let pl = l - 13 - fl;
                        let ops = vec![
                            Op::Reset { region: region.into(), front: "async".into(), classc, board, bias_sb: 0, bias_retries: 1,
                                        lead: 10, buffer: 10, offset: 0, duration: 500, session: None },
                            Op::JoinAbp { nwk: key, app: key, addr },
                            Op::SetDr { dr: if region == "EU868" { 5 } else { 3 } },
                        ];
                        let mut i = 0usize;
                        let mut g = |view: &View| -> Option<Op> {
                            i += 1;
                            if i > 2 {
                                return None;
                            }
                            let mut plan = Proc { tx: "done".into(), ts: 10, fault: -1, ..Default::default() };
                            if i == 1 {
                                let (nwk, app, ad) = view.keys?;
                                let net = Net { nwk, app, addr: ad, sent: vec![] };
                                let fopts: Vec<u8> = if fl == 3 { vec![0x06, 0x06, 0x06] } else { vec![] };
                                let data: Vec<u8> = (0..pl).map(|x| (x * 7 + 1) as u8).collect();
                                let bytes = net.data(view.fcnt_down.map(|x| x + 1).unwrap_or(0), false, false, &fopts, 5, &data, false, false);
                                let f = Frame { bytes, snr: 5, intent: format!("auth:bufwalk:n={n}:len={l}") };
                                match place {
                                    1 => plan.rx1.push(f),
                                    2 => plan.rx2.push(f),
                                    _ => plan.c1.push(f),
                                }
                            }
                            Some(Op::Send { port: 4, data: vec![i as u8], confirmed: false, draws: vec![], plan })
                        };
                        let _ = run_history(out.shard(h), &ops, 1, Some(&mut g));
                        h += 1;
                    }
                }
            }
            if n == 33 {
                // a JoinAccept with CFList is 33 bytes on air
                let fixed = region == "US915";
                let (cft, cf): (i32, Vec<u8>) = if fixed { (1, vec![0xff, 0, 0, 0, 0, 0, 0, 0, 0x01]) } else { (0, [freq3(867_100_000), freq3(867_300_000), freq3(0), freq3(0), freq3(0)].concat()) };
                for win in [1u8, 2] {
                    let ja = Net::join_accept(&appkey, [1, 0, 0], [1, 2, 3], [1, 2, 3, 4], 0x00, 1, cft, &cf);
                    let mut plan = Proc { tx: "done".into(), ts: 10, fault: -1, ..Default::default() };
                    let f = Frame { bytes: ja, snr: 5, intent: "ja:bufwalk:33".into() };
                    if win == 1 { plan.rx1.push(f) } else { plan.rx2.push(f) }
                    let ops = vec![
                        Op::Reset { region: region.into(), front: "async".into(), classc: false, board, bias_sb: 0, bias_retries: 1,
                                    lead: 10, buffer: 10, offset: 0, duration: 500, session: None },
                        Op::JoinOtaa { appkey, deveui: [1, 2, 3, 4, 5, 6, 7, 8], appeui: [8, 7, 6, 5, 4, 3, 2, 1], draws: vec![], plan },
                        Op::Send { port: 4, data: vec![1], confirmed: false, draws: vec![], plan: Proc { tx: "done".into(), ts: 10, fault: -1, ..Default::default() } },
                    ];
                    let _ = run_history(out.shard(h), &ops, 1, None);
                    h += 1;
                }
            }
        }
    }
    println!("events={} histories={h}", out.finish());
}

/// `vh macmc in=FILE fronts=nb,async`: behaviours of the specification (MCMacCmdGen, MCJoin: one per reachable
/// design state) executed on the real devices.  Each line of FILE is {"region": R, "steps": [...]} with steps
///   {"t": "join", "win": 1|2, "dl": DLSettings, "del": RxDelay, "cf": [] | [16 bytes]}   OTAA join accepted in that window
///   {"t": "nojoin" | "forged" | "dataframe"}   OTAA join attempt without / with a forged accept / with a data frame
///   {"t": "down", "fopts": [..]}   unconfirmed uplink answered by an authentic downlink (next counter) with FOpts
///   {"t": "up"}                    unconfirmed uplink, nothing received
/// A behaviour without join steps starts from an ABP session.  Frames are built against the device's current
/// session (keys and downlink counter read from the device, as a network server would hold them).
pub fn vh_macmc(a: &Args) {
    let text = std::fs::read_to_string(a.get("in").expect("in=FILE")).unwrap();
    let fronts: Vec<String> = a.get("fronts").unwrap_or("nb,async").split(',').map(|s| s.to_string()).collect();
    let mut out = crate::cli::Shards::create(&a.out, "mac", a.shards);
    let key = [1u8; 16];
    let appkey = [7u8; 16];
    let addr = [1u8, 2, 3, 4];
    let mut h = 0usize;
    let mut bi = 0usize;
    for line in text.lines().filter(|l| !l.trim().is_empty()) {
        let v: Value = serde_json::from_str(line).unwrap();
        let region = v["region"].as_str().unwrap().to_string();
        let steps: Vec<Value> = v["steps"].as_array().unwrap().clone();
        let otaa = steps.iter().any(|s| ["join", "nojoin", "forged", "dataframe"].contains(&s["t"].as_str().unwrap_or("")));
        bi += 1;
        // fronts=alt: behaviours alternate between the nb and the async device (quick tier)
        let these: Vec<String> = if fronts.len() == 1 && fronts[0] == "alt" { vec![["nb", "async"][bi % 2].to_string()] } else { fronts.clone() };
        for front in &these {
            let mut ops = vec![Op::Reset {
                region: region.clone(), front: front.clone(), classc: false, board: 0, bias_sb: 0, bias_retries: 1,
                lead: 10, buffer: 10, offset: 0, duration: 500, session: None,
            }];
            if !otaa {
                ops.push(Op::JoinAbp { nwk: key, app: key, addr });
            }
            let mut idx = 0usize;
            let mut jn = 0u32;
            let alt = (h / 2) % 2 == 1;
            let mut g = |view: &View| -> Option<Op> {
                let st = steps.get(idx)?;
                idx += 1;
                let mut plan = Proc { tx: "done".into(), ts: 100, fault: -1, ..Default::default() };
                let t = st["t"].as_str().unwrap();
                match t {
                    "join" | "nojoin" | "forged" | "dataframe" => {
                        jn += 1;
                        let nonce = [jn as u8, (jn >> 8) as u8, 0x10];
                        match t {
                            "join" | "forged" => {
                                let cf: Vec<u8> = st["cf"].as_array().map(|x| x.iter().map(|b| b.as_u64().unwrap() as u8).collect()).unwrap_or_default();
                                let (cftype, body): (i32, Vec<u8>) = if cf.len() == 16 { (cf[15] as i32, cf[..15].to_vec()) } else { (-1, vec![0; 15]) };
                                let k = if t == "join" { appkey } else { [8u8; 16] };
                                let dl = st["dl"].as_u64().unwrap_or(0) as u8;
                                let del = st["del"].as_u64().unwrap_or(0) as u8;
                                let bytes = Net::join_accept(&k, nonce, [1, 2, 3], addr, dl, del, cftype, &body);
                                let f = Frame { bytes, snr: 4, intent: format!("ja:mc:{t}:dl={dl:#04x}:del={del}:cf={cftype}") };
                                if st["win"].as_u64().unwrap_or(1) == 2 { plan.rx2.push(f) } else { plan.rx1.push(f) }
                            }
                            "dataframe" => {
                                let net = Net { nwk: key, app: key, addr, sent: vec![] };
                                let bytes = net.data(0, false, false, &[], 1, &[1, 2, 3], false, false);
                                plan.rx1.push(Frame { bytes, snr: 4, intent: "data-during-join".into() });
                            }
                            _ => {}
                        }
                        Some(Op::JoinOtaa { appkey, deveui: [1, 2, 3, 4, 5, 6, 7, 8], appeui: [8, 7, 6, 5, 4, 3, 2, 1], draws: vec![], plan })
                    }
                    _ => {
                        if t == "down" {
                            let fopts: Vec<u8> = st["fopts"].as_array().unwrap().iter().map(|b| b.as_u64().unwrap() as u8).collect();
                            let (nwk, app, ad) = view.keys.unwrap_or((key, key, addr));
                            let net = Net { nwk, app, addr: ad, sent: vec![] };
                            let n = view.fcnt_down.map(|x| x + 1).unwrap_or(0);
                            let bytes = net.data(n, false, false, &fopts, -1, &[], false, false);
                            let f = Frame { bytes, snr: 5, intent: format!("auth:mc:{}", fopts.len()) };
                            if alt { plan.rx2.push(f) } else { plan.rx1.push(f) }
                        }
                        Some(Op::Send { port: 1, data: vec![7], confirmed: false, draws: vec![], plan })
                    }
                }
            };
            let _ = run_history(out.shard(h), &ops, a.seed ^ h as u64, Some(&mut g));
            h += 1;
        }
    }
    println!("events={} histories={h}", out.finish());
}

/// `vh nbwalk depth=<d> regions=EU868,US915`: the nb state machine under FREE-FORM event sequences.  From a fresh
/// ABP session: a canonical prefix into each state of the machine (Idle; transmitting; waiting for / receiving in
/// RX1 and RX2, for a data uplink and for a join request) followed by every sequence of depth-2 (quick 2, thorough
/// 3) events of the alphabet {send, send_txing, join, txdone, timeout, timeout_fault
/// (the radio refuses the RX request / the cancel), rx_valid (authentic fresh confirmed downlink with a
/// DevStatusReq), rx_junk (same frame, MIC broken), rx_oversize (100-byte data frame), rx_ja (authentic JoinAccept
/// under the root key of `join`), noise0 (stray radio event), noise2 (radio failure event)}, plus every pair of
/// events from Idle.  MacTrace.tla defines the response and the
/// state after every (state, event) pair; nothing here knows what is expected.
pub fn vh_nbwalk(a: &Args) {
    let depth = a.get_usize("depth", if a.thorough { 5 } else { 4 });
    let regions: Vec<String> = a.get("regions").unwrap_or(if a.thorough { "EU868,US915" } else { "EU868" }).split(',').map(|s| s.to_string()).collect();
    // (the last three only occur in sequences generated from the specification: seqs=)
    let alpha_all = ["send", "send_txing", "join", "txdone", "timeout", "timeout_fault", "rx_valid", "rx_junk", "rx_oversize", "noise0", "noise2", "rx_ja",
                     "send_err", "setdr_lo", "setdr_hi"];
    let alpha = &alpha_all[..if a.get("seqs").is_some() { 15 } else { 12 }];
    // canonical prefixes that bring the state machine into each of its states (Idle; transmitting; waiting for
    // RX1; receiving in RX1; waiting for RX2; receiving in RX2 - for a data uplink and for a join request), then
    // every sequence of `depth - 2` (at least 2) events of the alphabet
    let ix = |n: &str| alpha.iter().position(|x| *x == n).unwrap();
    let (send, txing, join, to) = (ix("send"), ix("send_txing"), ix("join"), ix("timeout"));
    let mut prefixes: Vec<Vec<usize>> = vec![vec![]];
    for req in [send, join] {
        prefixes.push(vec![req]);
        prefixes.push(vec![req, to]);
        prefixes.push(vec![req, to, to]);
        prefixes.push(vec![req, to, to, to]);
    }
    prefixes.push(vec![txing]);
    let tail = depth.saturating_sub(2).max(2);
    let mut tails: Vec<Vec<usize>> = vec![vec![]];
    for _ in 0..tail {
        let mut next = vec![];
        for s in &tails {
            for x in 0..alpha.len() {
                let mut t = s.clone();
                t.push(x);
                next.push(t);
            }
        }
        tails = next;
    }
    let mut seqs: Vec<Vec<usize>> = vec![];
    for p in &prefixes {
        for t in &tails {
            let mut v = p.clone();
            v.extend(t.iter().copied());
            seqs.push(v);
        }
    }
    // seqs=FILE: the event sequences come from the specification instead (MCNb.tla: one sequence per transition of
    // the design-level model of the state machine; one JSON array of event names per line)
    if let Some(f) = a.get("seqs") {
        let text = std::fs::read_to_string(f).expect("seqs file");
        seqs = text.lines().filter(|l| !l.trim().is_empty()).map(|l| {
            let v: Vec<String> = serde_json::from_str(l).expect("sequence of event names");
            v.iter().map(|n| alpha.iter().position(|x| x == n).unwrap_or_else(|| panic!("unknown nb event {n}"))).collect()
        }).collect();
    }
    let mut out = crate::cli::Shards::create(&a.out, "mac", a.shards);
    let key = [1u8; 16];
    let addr = [1u8, 2, 3, 4];
    let mut h = 0usize;
    for region in &regions {
        for sq in &seqs {
            let ops = vec![
                Op::Reset {
                    region: region.clone(), front: "nb".into(), classc: false, board: 0, bias_sb: 0, bias_retries: 1,
                    lead: 10, buffer: 10, offset: 0, duration: 500, session: None,
                },
                Op::JoinAbp { nwk: key, app: key, addr },
            ];
            let mut idx = 0usize;
            let mut g = |view: &View| -> Option<Op> {
                let name = alpha[*sq.get(idx)?];
                idx += 1;
                let ts = 100 * idx as u32;
                let mk = |ev: &str, tx: &str, frame: Option<Frame>| Some(Op::NbEv { ev: ev.into(), frame, tx: tx.into(), ts });
                match name {
                    "send" => mk("send", "done", None),
                    "send_txing" => mk("send", "txing", None),
                    "send_err" => mk("send", "err", None),
                    "setdr_lo" => Some(Op::SetDr { dr: 0 }),
                    "setdr_hi" => Some(Op::SetDr { dr: 3 }),
                    "join" => mk("join", "done", None),
                    "rx_valid" | "rx_junk" => {
                        let (nwk, app, ad) = view.keys.unwrap_or((key, key, addr));
                        let net = Net { nwk, app, addr: ad, sent: vec![] };
                        let n = view.fcnt_down.map(|x| x + 1).unwrap_or(0);
                        let mut bytes = net.data(n, true, false, &[0x06], 5, &[1, 2], false, false);
                        if name == "rx_junk" {
                            let l = bytes.len();
                            bytes[l - 1] ^= 0x40;
                        }
                        mk("rx", "done", Some(Frame { bytes, snr: 3, intent: format!("walk:{name}") }))
                    }
                    "rx_ja" => {
                        let bytes = Net::join_accept(&[7u8; 16], [idx as u8, 0, 0x30], [1, 2, 3], addr, 0x00, 1, -1, &[0; 15]);
                        mk("rx", "done", Some(Frame { bytes, snr: 3, intent: "walk:rx_ja".into() }))
                    }
                    "rx_oversize" => {
                        let (nwk, app, ad) = view.keys.unwrap_or((key, key, addr));
                        let net = Net { nwk, app, addr: ad, sent: vec![] };
                        let n = view.fcnt_down.map(|x| x + 1).unwrap_or(0);
                        let bytes = net.data(n, false, false, &[], 7, &[0x55; 87], false, false);
                        mk("rx", "done", Some(Frame { bytes, snr: 3, intent: "walk:oversize".into() }))
                    }
                    other => mk(other, "done", None),
                }
            };
            let _ = run_history(out.shard(h), &ops, a.seed ^ h as u64, Some(&mut g));
            h += 1;
        }
    }
    println!("events={} histories={h}", out.finish());
}

/// `vh awalk`: the async front-end (and Class C) under an enumerated alphabet of procedures.  A procedure is
/// (send | join) x RX1 outcome x RX2 outcome x radio fault position, with outcomes {nothing, authentic fresh frame
/// (send: confirmed downlink with a DevStatusReq; join: JoinAccept), the same frame with a broken MIC, a 100-byte
/// data frame}.  Histories: every procedure of the alphabet from a fresh ABP session followed by every procedure of
/// a second, smaller alphabet (quick: 4, thorough: 48), with and without Class C (Class C adds an authentic frame
/// between the windows of every second history).
pub fn vh_awalk(a: &Args) {
    let regions: Vec<String> = a.get("regions").unwrap_or(if a.thorough { "EU868,US915" } else { "EU868" }).split(',').map(|s| s.to_string()).collect();
    let outcomes = ["none", "valid", "junk", "oversize"];
    #[derive(Clone)]
    struct P { join: bool, rx1: usize, rx2: usize, fault: i32, rxc: bool }
    let mut first: Vec<P> = vec![];
    for join in [false, true] {
        for rx1 in 0..4 {
            for rx2 in 0..4 {
                for fault in -1..10 {
                    first.push(P { join, rx1, rx2, fault, rxc: false });
                }
            }
        }
    }
    let mut second: Vec<P> = vec![];
    if a.thorough {
        for rx1 in 0..4 {
            for rx2 in 0..4 {
                for fault in [-1, 3, 6] {
                    second.push(P { join: false, rx1, rx2, fault, rxc: false });
                }
            }
        }
    } else {
        for rx1 in 0..4 {
            second.push(P { join: false, rx1, rx2: 0, fault: -1, rxc: false });
        }
    }
    // Class C only: listening outside a procedure (rxc_listen) with one frame of each kind
    for rx1 in 1..4 {
        second.push(P { join: false, rx1, rx2: 0, fault: -1, rxc: true });
    }
    let mut out = crate::cli::Shards::create(&a.out, "mac", a.shards);
    let key = [1u8; 16];
    let appkey = [7u8; 16];
    let addr = [1u8, 2, 3, 4];
    let mut h = 0usize;
    for region in &regions {
        for classc in [false, true] {
            for p1 in &first {
                for p2 in &second {
                    if p2.rxc && !classc {
                        continue;
                    }
                    let ops = vec![
                        Op::Reset {
                            region: region.clone(), front: "async".into(), classc, board: 0, bias_sb: 0, bias_retries: 1,
                            lead: 10, buffer: 10, offset: 0, duration: 500, session: None,
                        },
                        Op::JoinAbp { nwk: key, app: key, addr },
                    ];
                    let procs = [p1.clone(), p2.clone()];
                    let mut idx = 0usize;
                    let mut jn = 0u32;
                    let hh = h;
                    let mut g = |view: &View| -> Option<Op> {
                        let p = procs.get(idx)?;
                        idx += 1;
                        let mut plan = Proc { tx: "done".into(), ts: 100, fault: p.fault, ..Default::default() };
                        let (nwk, app, ad) = view.keys.unwrap_or((key, key, addr));
                        let net = Net { nwk, app, addr: ad, sent: vec![] };
                        let mut last = view.fcnt_down;
                        let frame = |o: usize, last: &mut Option<u32>, jn: &mut u32| -> Option<Frame> {
                            let n = last.map(|x| x + 1).unwrap_or(0);
                            match outcomes[o] {
                                "none" => None,
                                "oversize" => Some(Frame { bytes: net.data(n, false, false, &[], 7, &[0x55; 87], false, false), snr: 3, intent: "walk:oversize".into() }),
                                name => {
                                    let mut bytes = if p.join {
                                        *jn += 1;
                                        Net::join_accept(&appkey, [*jn as u8, 0, 0x20], [1, 2, 3], addr, 0x00, 1, -1, &[0; 15])
                                    } else {
                                        net.data(n, true, false, &[0x06], 5, &[1, 2], false, false)
                                    };
                                    if name == "junk" {
                                        let l = bytes.len();
                                        bytes[l - 1] ^= 0x40;
                                    } else if !p.join {
                                        *last = Some(n);
                                    }
                                    Some(Frame { bytes, snr: 3, intent: format!("walk:{name}") })
                                }
                            }
                        };
                        if classc && hh % 2 == 1 && !p.join {
                            // an authentic Class C frame between the windows
                            let n = last.map(|x| x + 1).unwrap_or(0);
                            plan.c2.push(Frame { bytes: net.data(n, false, false, &[], 9, &[3], false, false), snr: 2, intent: "walk:classc".into() });
                            last = Some(n);
                        }
                        let mut l1 = view.fcnt_down;
                        if let Some(f) = frame(p.rx1, &mut l1, &mut jn) {
                            plan.rx1.push(f);
                        }
                        let mut l2 = if plan.c2.is_empty() { view.fcnt_down } else { last };
                        if let Some(f) = frame(p.rx2, &mut l2, &mut jn) {
                            plan.rx2.push(f);
                        }
                        if p.rxc {
                            return Some(Op::Rxc { frames: plan.rx1.clone() });
                        }
                        if p.join {
                            Some(Op::JoinOtaa { appkey, deveui: [1, 2, 3, 4, 5, 6, 7, 8], appeui: [8, 7, 6, 5, 4, 3, 2, 1], draws: vec![], plan })
                        } else {
                            Some(Op::Send { port: 1, data: vec![7], confirmed: idx % 2 == 0, draws: vec![], plan })
                        }
                    };
                    let _ = run_history(out.shard(h), &ops, a.seed ^ h as u64, Some(&mut g));
                    h += 1;
                }
            }
        }
    }
    println!("events={} histories={h}", out.finish());
}

/// `vh certwalk` (certification build only): every command of the TS009 certification protocol, well-formed and
/// malformed, as the FPort-224 payload of an authentic downlink in RX1 (and, for Class C, outside a procedure),
/// followed by two more uplinks.
pub fn vh_certwalk(a: &Args) {
    let regions: Vec<String> = a.get("regions").unwrap_or("EU868").split(',').map(|s| s.to_string()).collect();
    let fronts: Vec<String> = a.get("fronts").unwrap_or("async,asyncc,nb").split(',').map(|s| s.to_string()).collect();
    let mut payloads: Vec<Vec<u8>> = vec![
        vec![], vec![0x01], vec![0x02], vec![0x04], vec![0x04, 0], vec![0x04, 1], vec![0x04, 2], vec![0x04, 255],
        vec![0x06], vec![0x06, 0], vec![0x06, 5], vec![0x06, 10], vec![0x06, 11], vec![0x06, 255],
        vec![0x07], vec![0x07, 0], vec![0x07, 1], vec![0x07, 2], vec![0x07, 3], vec![0x07, 1, 9, 9],
        vec![0x08], vec![0x08, 0xff], vec![0x08, 1, 2, 3, 4, 5, 6, 7, 8, 9, 10],
        vec![0x09], vec![0x09, 1], vec![0x20], vec![0x7f], vec![0x55], vec![0x00], vec![0x03, 1], vec![0x05, 1],
        vec![0x04, 1, 0x07, 2], vec![0x04, 9, 0x06, 3], vec![0x09, 0x7f], vec![0x01, 0x02],
    ];
    for n in [40usize, 50, 51, 52, 100, 200, 220, 240, 241] {
        let mut v = vec![0x08u8];
        v.extend((0..n).map(|i| (i * 7) as u8));
        payloads.push(v);
    }
    let mut out = crate::cli::Shards::create(&a.out, "mac", a.shards);
    let key = [1u8; 16];
    let addr = [1u8, 2, 3, 4];
    let mut h = 0usize;
    for region in &regions {
        for front in &fronts {
            let (fr, classc) = match front.as_str() { "nb" => ("nb", false), "async" => ("async", false), _ => ("async", true) };
            for (pi, pl) in payloads.iter().enumerate() {
                // variants: 0 unconfirmed / 1 confirmed certification downlink in a receive window, 2 (Class C) while
                // listening outside a procedure, 3 after the network has commanded a lower TX power and a frame-type
                // override (the handler's own transmissions must respect both)
                for variant in [0usize, 1, 2, 3] {
                    if variant == 2 && !classc {
                        continue;
                    }
                    let ops = vec![
                        Op::Reset { region: region.clone(), front: fr.into(), classc, board: 0, bias_sb: 0, bias_retries: 1,
                                    lead: 10, buffer: 10, offset: 0, duration: 500, session: None },
                        Op::JoinAbp { nwk: key, app: key, addr },
                        // a data rate the region defines for uplinks (long answers need the fastest one)
                        Op::SetDr { dr: { let top: u8 = if region == "US915" { 4 } else { 5 }; if pl.len() > 45 { top } else { [0u8, 3, top][pi % 3] } } },
                    ];
                    let mut idx = 0usize;
                    let pl = pl.clone();
                    let mut g = |view: &View| -> Option<Op> {
                        idx += 1;
                        if idx > 4 {
                            return None;
                        }
                        let mut plan = Proc { tx: "done".into(), ts: 100, fault: -1, ..Default::default() };
                        let (nwk, app, ad) = view.keys.unwrap_or((key, key, addr));
                        let net = Net { nwk, app, addr: ad, sent: vec![] };
                        let n = view.fcnt_down.map(|x| x + 1).unwrap_or(0);
                        let f = Frame { bytes: net.data(n, variant == 1, false, &[], 224, &pl, false, false), snr: 3, intent: format!("cert:{pi}") };
                        if idx == 1 && variant == 3 {
                            // LinkADRReq: keep the data rate, TXPower 5, all channels on; then TxFramesCtrlReq(confirmed)
                            // travels in the same frame on FPort 224
                            let adr = [0x03u8, 0xf5, 0xff, 0xff, 0x60];
                            let b = net.data(n, false, false, &adr, 224, &[0x07, 0x02], false, false);
                            plan.rx1.push(Frame { bytes: b, snr: 3, intent: "cert:power+override".into() });
                        }
                        if idx == 2 {
                            if variant == 2 {
                                return Some(Op::Rxc { frames: vec![f] });
                            }
                            if h % 2 == 0 { plan.rx1.push(f) } else { plan.rx2.push(f) }
                        }
                        Some(Op::Send { port: 1, data: vec![7], confirmed: idx == 3, draws: vec![], plan })
                    };
                    let _ = run_history(out.shard(h), &ops, a.seed ^ h as u64, Some(&mut g));
                    h += 1;
                }
            }
        }
    }
    println!("events={} histories={h}", out.finish());
}

/// `vh mcwalk` (multicast build only): remote multicast setup commands (TS005, FPort 200), well-formed, malformed
/// and repeated until their answers exceed any buffer, as the payload of an authentic downlink in RX1 / RX2 (and,
/// Class C, outside a procedure), followed by further uplinks; async front-end (the nb front-end has no way to
/// install the multicast key).
pub fn vh_mcwalk(a: &Args) {
    let regions: Vec<String> = a.get("regions").unwrap_or("EU868").split(',').map(|s| s.to_string()).collect();
    let setup: Vec<u8> = {
        // McGroupSetupReq: id | McAddr(4) | McKey_encrypted(16) | minMcFCount(4) | maxMcFCount(4)
        let mut v = vec![0x02u8, 0x01, 0x11, 0x22, 0x33, 0x44];
        v.extend([0x5au8; 16]);
        v.extend([0, 0, 0, 0, 0xff, 0xff, 0, 0]);
        v
    };
    let mut payloads: Vec<Vec<u8>> = vec![
        vec![], vec![0x00], vec![0x01], vec![0x01, 0x0f], vec![0x01, 0xff], vec![0x02], setup.clone(),
        vec![0x03], vec![0x03, 0x00], vec![0x03, 0x03], vec![0x03, 0xff],
        vec![0x04], vec![0x04, 0, 0, 0, 0, 0, 0, 0, 0, 0, 0], vec![0x05, 0, 0, 0, 0, 0, 0, 0, 0, 0, 0],
        vec![0x06], vec![0x7f], vec![0xff], vec![0x00, 0x00], vec![0x00, 0x01, 0x0f],
    ];
    // the same command many times in one frame
    for n in [10usize, 40, 80, 86, 100, 200, 242] {
        payloads.push(vec![0x00; n]);
    }
    for n in [5usize, 20, 60, 121] {
        payloads.push([0x01u8, 0x0f].repeat(n));
        payloads.push([0x03u8, 0x02].repeat(n));
    }
    {
        let mut v = setup.clone();
        v.extend(setup.iter().copied().map(|b| b)); // two groups
        v[30] = 0x02;
        payloads.push(v.clone());
        let mut w = vec![];
        for g in 0..4u8 {
            let mut s1 = setup.clone();
            s1[1] = g;
            s1[2] = 0x10 + g;
            w.extend(s1);
        }
        w.extend([0x01, 0x0f]);
        payloads.push(w);
    }
    let mut out = crate::cli::Shards::create(&a.out, "mac", a.shards);
    let key = [1u8; 16];
    let addr = [1u8, 2, 3, 4];
    let mut h = 0usize;
    for region in &regions {
        for classc in [false, true] {
            for (pi, pl) in payloads.iter().enumerate() {
                for variant in 0..(if classc { 3 } else { 2 }) {
                    let ops = vec![
                        Op::Reset { region: region.clone(), front: "async".into(), classc, board: 0, bias_sb: 0, bias_retries: 1,
                                    lead: 10, buffer: 10, offset: 0, duration: 500, session: None },
                        Op::JoinAbp { nwk: key, app: key, addr },
                        Op::SetDr { dr: if region == "US915" { 4 } else { 5 } },
                    ];
                    let mut idx = 0usize;
                    let pl = pl.clone();
                    let mut g = |view: &View| -> Option<Op> {
                        idx += 1;
                        if idx > 5 {
                            return None;
                        }
                        let mut plan = Proc { tx: "done".into(), ts: 100, fault: -1, ..Default::default() };
                        let (nwk, app, ad) = view.keys.unwrap_or((key, key, addr));
                        let net = Net { nwk, app, addr: ad, sent: vec![] };
                        let n = view.fcnt_down.map(|x| x + 1).unwrap_or(0);
                        let f = Frame { bytes: net.data(n, variant == 1, false, &[], 200, &pl, false, false), snr: 3, intent: format!("mc:{pi}") };
                        if idx == 2 || idx == 4 {
                            if variant == 2 {
                                return Some(Op::Rxc { frames: vec![f] });
                            }
                            if h % 2 == 0 { plan.rx1.push(f) } else { plan.rx2.push(f) }
                        }
                        Some(Op::Send { port: 1, data: vec![7], confirmed: idx == 3, draws: vec![], plan })
                    };
                    let _ = run_history(out.shard(h), &ops, a.seed ^ h as u64, Some(&mut g));
                    h += 1;
                }
            }
        }
    }
    println!("events={} histories={h}", out.finish());
}

/// A multicast response with its fields spelt out (kind: received | expired | new).
#[cfg(feature = "mc")]
fn mc_resp_json(m: &async_device::MulticastResponse) -> Value {
    use async_device::MulticastResponse as M;
    match m {
        M::DownlinkReceived { group_id, fcnt } => json!({"k": "Multicast", "v": 0, "s": format!("{m:?}"), "mk": "received", "g": group_id, "cnt": [fcnt >> 16, fcnt & 0xffff]}),
        M::SessionExpired { group_id } => json!({"k": "Multicast", "v": 0, "s": format!("{m:?}"), "mk": "expired", "g": group_id, "cnt": [0, 0]}),
        M::NewSession { group_id } => json!({"k": "Multicast", "v": 0, "s": format!("{m:?}"), "mk": "new", "g": group_id, "cnt": [0, 0]}),
    }
}

#[cfg(feature = "mc")]
/// `vh mcdata` (binary built with the `multicast` feature): the multicast DATA path.  A Class C device with an ABP
/// session is given a multicast group by an authentic McGroupSetupReq on FPort 200 (McAddr, McKey_encrypted,
/// minMcFCount, maxMcFCount) and then hears multicast frames of that group one at a time while it listens outside a
/// procedure: frames at, below and above minMcFCount, in order, repeated (replays), out of order, across the 16-bit
/// roll-over of the wire counter, at and beyond maxMcFCount, with a broken MIC, under the wrong address, and unicast
/// frames on a multicast port.  The event `mc_group` tells the specification what the network set up (the session
/// keys the recorder used are re-derived by Aes.tla and must match); McTrace.tla decides what each frame must do.
pub fn vh_mcdata(a: &Args) {
    use lorawan::default_crypto::DefaultCrypto;
    use lorawan::keys::{Crypto as _, AES128};
    let mut out = crate::cli::Shards::create(&a.out, "mac", a.shards);
    let key = [1u8; 16];
    let addr = [1u8, 2, 3, 4];
    let gen_app_key = [9u8; 16];
    let enc = |k: &[u8; 16], mut b: [u8; 16]| -> [u8; 16] {
        DefaultCrypto::new(&AES128(*k)).encrypt_block(&mut b);
        b
    };
    let mut h = 0usize;
    // (minMcFCount, maxMcFCount, counters of the frames delivered in this order)
    let plans: Vec<(u32, u32, Vec<u32>)> = vec![
        (0, 10, vec![0, 0, 1, 1, 3, 2, 3, 9, 9, 10, 11, 4]),
        (5, 20, vec![4, 0, 5, 5, 0, 6, 19, 20, 19, 7]),
        (65530, 65600, vec![65530, 65535, 65535, 65536, 65536, 0, 65537, 65531]),
        (0, 0xFFFF_FFFF, vec![7, 7, 0, 8, 70000, 8, 70001]),
        (100, 100, vec![100, 99, 0]),
        (0x0001_FFF0, 0x0002_0010, vec![0x0001_FFF0, 0x0001_FFFF, 0x0002_0000, 0x0001_FFFF, 0x0002_000F, 0x0002_0010]),
    ];
    // (sequences of the design-level model are a recording of their own)
    let plans = if a.get("seqs").is_some() { vec![] } else { plans };
    for (gi, (min, max, counters)) in plans.iter().enumerate() {
        for group in [0u8, 3] {
            let mcaddr = [0x11u8 + gi as u8, 0x22, 0x33, 0x44];
            let keyenc = [0x5au8 ^ gi as u8; 16];
            // the key hierarchy of TS005 / LoRaWAN 1.0.x
            let root = enc(&gen_app_key, [0; 16]);
            let ke = enc(&root, [0; 16]);
            let mckey = enc(&ke, keyenc);
            let mut blk = [0u8; 16];
            blk[0] = 1;
            blk[1..5].copy_from_slice(&mcaddr);
            let mc_app = enc(&mckey, blk);
            blk[0] = 2;
            let mc_nwk = enc(&mckey, blk);
            let mut setup = vec![0x02u8, group];
            setup.extend(mcaddr);
            setup.extend(keyenc);
            setup.extend(min.to_le_bytes());
            setup.extend(max.to_le_bytes());
            let ops = vec![
                Op::Reset { region: "EU868".into(), front: "async".into(), classc: true, board: 0, bias_sb: 0, bias_retries: 1,
                            lead: 10, buffer: 10, offset: 0, duration: 500, session: None },
                Op::JoinAbp { nwk: key, app: key, addr },
                Op::SetDr { dr: 5 },
            ];
            let mcnet = Net { nwk: mc_nwk, app: mc_app, addr: mcaddr, sent: vec![] };
            // what is heard, one frame per listening call: (intent, bytes)
            let mut heard: Vec<(String, Vec<u8>)> = vec![];
            for (i, n) in counters.iter().enumerate() {
                let data: Vec<u8> = vec![0xC0 | i as u8, *n as u8, (*n >> 8) as u8];
                heard.push((format!("mc:n={n}"), mcnet.data(*n, false, false, &[], 201 + (i % 5) as i32, &data, false, false)));
            }
            // a frame of the group with a broken MIC, one under another address with the group's keys, and a
            // unicast frame of the device's own session on a multicast port: none is a frame of the group
            let fresh = counters.iter().copied().filter(|n| *n >= *min && *n < *max).max().map(|n| n.saturating_add(1)).unwrap_or(*min);
            let mut bad = mcnet.data(fresh, false, false, &[], 202, &[1, 2, 3], false, false);
            let l = bad.len();
            bad[l - 2] ^= 0x10;
            heard.push(("mc:badmic".into(), bad));
            let other = Net { nwk: mc_nwk, app: mc_app, addr: [0x99, 0x22, 0x33, 0x44], sent: vec![] };
            heard.push(("mc:otheraddr".into(), other.data(fresh, false, false, &[], 202, &[1, 2, 3], false, false)));
            let mut step = 0usize;
            let setup2 = setup.clone();
            let mut g = |view: &View| -> Option<Op> {
                step += 1;
                if step == 1 {
                    // the group is set up by a unicast downlink on FPort 200 in RX1 of an uplink
                    let (nwk, app, ad) = view.keys?;
                    let net = Net { nwk, app, addr: ad, sent: vec![] };
                    let n = view.fcnt_down.map(|x| x + 1).unwrap_or(0);
                    let f = Frame { bytes: net.data(n, false, false, &[], 200, &setup2, false, false), snr: 3, intent: "mc:setup".into() };
                    let mut plan = Proc { tx: "done".into(), ts: 100, fault: -1, ..Default::default() };
                    plan.rx1.push(f);
                    return Some(Op::Send { port: 1, data: vec![7], confirmed: false, draws: vec![], plan });
                }
                if step == 2 {
                    return Some(Op::McGroup { g: group, addr: mcaddr, keyenc, genappkey: gen_app_key, nwk: mc_nwk, app: mc_app, min: *min, max: *max });
                }
                let i = step - 3;
                if i < heard.len() {
                    let (intent, bytes) = heard[i].clone();
                    return Some(Op::Rxc { frames: vec![Frame { bytes, snr: 3, intent }] });
                }
                if i == heard.len() {
                    return Some(Op::TakeDl);
                }
                if i == heard.len() + 1 {
                    // the unicast session is still alive
                    return Some(Op::Send { port: 1, data: vec![8], confirmed: false, draws: vec![], plan: Proc { tx: "done".into(), ts: 100, fault: -1, ..Default::default() } });
                }
                None
            };
            let _ = run_history(out.shard(h), &ops, a.seed ^ h as u64, Some(&mut g));
            h += 1;
        }
    }
    // ---- the group table: set-up / status / delete requests and frames of several groups (McTrace.tla decodes
    // every heard and every transmitted frame itself; nothing below tells it what to expect)
    let scripts = match a.get("seqs") {
        // specification -> implementation: event sequences printed by TLC from the design-level model MCMc.tla
        Some(path) => mc_model_scripts(path),
        None => mc_table_scripts(a.seed, if a.thorough { 120 } else { 24 }),
    };
    for script in scripts {
        let ops = vec![
            Op::Reset { region: "EU868".into(), front: "async".into(), classc: true, board: 0, bias_sb: 0, bias_retries: 1,
                        lead: 10, buffer: 10, offset: 0, duration: 500, session: None },
            Op::JoinAbp { nwk: key, app: key, addr },
            Op::SetDr { dr: 5 },
        ];
        let mut idx = 0usize;
        let mut g = |view: &View| -> Option<Op> {
            let step = script.get(idx)?.clone();
            idx += 1;
            let plain = || Proc { tx: "done".into(), ts: 100, fault: -1, ..Default::default() };
            Some(match step {
                McStep::Setup { cmds, via } => {
                    let (nwk, app, ad) = view.keys?;
                    let net = Net { nwk, app, addr: ad, sent: vec![] };
                    let n = view.fcnt_down.map(|x| x + 1).unwrap_or(0);
                    let f = Frame { bytes: net.data(n, false, false, &[], 200, &cmds, false, false), snr: 3, intent: "mc:setup".into() };
                    match via {
                        0 | 1 => {
                            let mut plan = plain();
                            if via == 0 { plan.rx1.push(f) } else { plan.rx2.push(f) }
                            Op::Send { port: 1, data: vec![7], confirmed: false, draws: vec![], plan }
                        }
                        _ => Op::Rxc { frames: vec![f] },
                    }
                }
                McStep::Hear { frame, slot } => {
                    let f = Frame { bytes: frame, snr: 3, intent: "mc:data".into() };
                    if slot >= 100 {
                        // (sequences of the design-level model: the model's own verdict travels in the intent)
                        let f = Frame { intent: format!("mcmc:acc={}", slot - 100), ..f };
                        return Some(Op::Rxc { frames: vec![f] });
                    }
                    if slot > 3 {
                        Op::Rxc { frames: vec![f] }
                    } else {
                        let mut plan = plain();
                        match slot {
                            0 => plan.rx1.push(f),
                            1 => plan.rx2.push(f),
                            2 => plan.c1.push(f),
                            _ => plan.c2.push(f),
                        }
                        Op::Send { port: 2, data: vec![slot], confirmed: false, draws: vec![], plan }
                    }
                }
                McStep::Group(op) => op,
                McStep::Down { fopts } => {
                    let (nwk, app, ad) = view.keys?;
                    let net = Net { nwk, app, addr: ad, sent: vec![] };
                    let n = view.fcnt_down.map(|x| x + 1).unwrap_or(0);
                    let mut plan = plain();
                    plan.rx1.push(Frame { bytes: net.data(n, false, false, &fopts, -1, &[], false, false), snr: 3, intent: "auth:cmds".into() });
                    Op::Send { port: 1, data: vec![6], confirmed: false, draws: vec![], plan }
                }
                McStep::Take => Op::TakeDl,
                McStep::Send => Op::Send { port: 1, data: vec![8], confirmed: false, draws: vec![], plan: plain() },
            })
        };
        let _ = run_history(out.shard(h), &ops, a.seed ^ h as u64, Some(&mut g));
        h += 1;
    }
    println!("events={} histories={h}", out.finish());
}

/// `vh mcdata seqs=FILE`: one history per line of FILE, a JSON array of the events of MCMc.tla - {"e":"setup","g",
/// "a","k","min","max"} | {"e":"delete","g"} | {"e":"frame","a","k","n","acc"} - over the model's scaled counter space
/// (2-bit wire counter, 1-bit upper half).  The embedding into the real counter space keeps the order and the
/// upper half: n -> (n div 4) * 65536 + [0, 1, 65534, 65535][n mod 4]; key k -> McKey_encrypted 0x50+k ..; address
/// "A" / "B".  Set-up and delete requests arrive in RX1 of an uplink, frames while listening outside a procedure.
fn mc_model_scripts(path: &str) -> Vec<Vec<McStep>> {
    let conc = |n: u64| -> u32 { ((n / 4) as u32) * 65536 + [0u32, 1, 65534, 65535][(n % 4) as usize] };
    let addr_of = |a: &str| -> [u8; 4] { if a == "A" { [0x11, 0x22, 0x33, 0x44] } else { [0x21, 0x22, 0x33, 0x44] } };
    let text = std::fs::read_to_string(path).expect("seqs file");
    let mut out = vec![];
    for line in text.lines().filter(|l| !l.trim().is_empty()) {
        let evs: Vec<Value> = serde_json::from_str(line).expect("sequence");
        let mut v = vec![];
        for e in &evs {
            match e["e"].as_str().unwrap_or("") {
                "setup" => {
                    let m = McNet::new(e["g"].as_u64().unwrap() as u8, addr_of(e["a"].as_str().unwrap()), [0x50 + e["k"].as_u64().unwrap() as u8; 16],
                                       conc(e["min"].as_u64().unwrap()), conc(e["max"].as_u64().unwrap()));
                    v.push(McStep::Setup { cmds: m.setup_cmd(), via: 0 });
                    v.push(m.marker());
                }
                "delete" => v.push(McStep::Setup { cmds: vec![0x03, e["g"].as_u64().unwrap() as u8], via: 0 }),
                "frame" => {
                    // (the group id and the ranges are irrelevant to the frame: address, key and counter make it)
                    let m = McNet::new(0, addr_of(e["a"].as_str().unwrap()), [0x50 + e["k"].as_u64().unwrap() as u8; 16], 0, 0);
                    let n = conc(e["n"].as_u64().unwrap());
                    v.push(McStep::Hear { frame: m.frame(n, 201 + (n % 5) as i32, 0xE0), slot: 100 + e["acc"].as_u64().unwrap() as u8 });
                }
                _ => {}
            }
        }
        v.push(McStep::Take);
        v.push(McStep::Send);
        out.push(v);
    }
    out
}

/// One step of a group-table history (`vh mcdata`).
#[derive(Clone)]
enum McStep {
    /// set-up commands as the FRMPayload of an authentic unicast downlink on FPort 200: via 0 = RX1, 1 = RX2, 2 = Class C listening
    Setup { cmds: Vec<u8>, via: u8 },
    /// a frame heard: slot 0 = RX1, 1 = RX2, 2 = before RX1, 3 = between the windows (of an uplink), 4 = listening outside a procedure
    Hear { frame: Vec<u8>, slot: u8 },
    /// cross-check marker: the group as the network side holds it
    Group(Op),
    /// an authentic unicast downlink with MAC commands in FOpts, in RX1 of an uplink
    Down { fopts: Vec<u8> },
    Take,
    Send,
}

/// The network side of one multicast group.
#[derive(Clone)]
struct McNet {
    g: u8,
    addr: [u8; 4],
    keyenc: [u8; 16],
    nwk: [u8; 16],
    app: [u8; 16],
    min: u32,
    max: u32,
    /// the next counter the network would use
    next: u32,
}

const MC_GEN_APP_KEY: [u8; 16] = [9u8; 16];

impl McNet {
    fn new(g: u8, addr: [u8; 4], keyenc: [u8; 16], min: u32, max: u32) -> McNet {
        use lorawan::default_crypto::DefaultCrypto;
        use lorawan::keys::{Crypto as _, AES128};
        let enc = |k: &[u8; 16], mut b: [u8; 16]| -> [u8; 16] {
            DefaultCrypto::new(&AES128(*k)).encrypt_block(&mut b);
            b
        };
        let root = enc(&MC_GEN_APP_KEY, [0; 16]);
        let ke = enc(&root, [0; 16]);
        let mckey = enc(&ke, keyenc);
        let mut blk = [0u8; 16];
        blk[0] = 1;
        blk[1..5].copy_from_slice(&addr);
        let app = enc(&mckey, blk);
        blk[0] = 2;
        let nwk = enc(&mckey, blk);
        McNet { g, addr, keyenc, nwk, app, min, max, next: min }
    }
    fn setup_cmd(&self) -> Vec<u8> {
        let mut v = vec![0x02u8, self.g];
        v.extend(self.addr);
        v.extend(self.keyenc);
        v.extend(self.min.to_le_bytes());
        v.extend(self.max.to_le_bytes());
        v
    }
    fn marker(&self) -> McStep {
        McStep::Group(Op::McGroup { g: self.g, addr: self.addr, keyenc: self.keyenc, genappkey: MC_GEN_APP_KEY, nwk: self.nwk, app: self.app,
                                    min: self.min, max: self.max })
    }
    fn frame(&self, n: u32, port: i32, tag: u8) -> Vec<u8> {
        let net = Net { nwk: self.nwk, app: self.app, addr: self.addr, sent: vec![] };
        net.data(n, false, false, &[], port, &[tag, n as u8, (n >> 8) as u8, self.g], false, false)
    }
}

/// Scripted and seeded-random histories over the group table.
fn mc_table_scripts(seed: u64, nrandom: usize) -> Vec<Vec<McStep>> {
    use McStep::*;
    let a_ = [0x11u8, 0x22, 0x33, 0x44];
    let b_ = [0x21u8, 0x22, 0x33, 0x44];
    let c_ = [0x31u8, 0x22, 0x33, 0x44];
    let k = |x: u8| [x; 16];
    let hear = |n: &McNet, cnt: u32, slot: u8| Hear { frame: n.frame(cnt, 201 + (cnt % 5) as i32, 0xC0 | slot), slot };
    let mut out: Vec<Vec<McStep>> = vec![];
    // T1: two groups, status, delete, frames of a deleted group, two groups under one address
    {
        let g0 = McNet::new(0, a_, k(0x5a), 0, 100);
        let g1 = McNet::new(1, b_, k(0x5b), 10, 20);
        let g0b = McNet::new(0, b_, k(0x5c), 5, 50);
        out.push(vec![
            Setup { cmds: g0.setup_cmd(), via: 0 }, g0.marker(),
            Setup { cmds: g1.setup_cmd(), via: 1 }, g1.marker(),
            hear(&g0, 0, 4), hear(&g1, 10, 4), hear(&g1, 9, 4),
            Setup { cmds: vec![0x01, 0x0f], via: 2 },
            Setup { cmds: vec![0x03, 0x00], via: 0 },
            hear(&g0, 1, 4),
            Setup { cmds: vec![0x01, 0x0f, 0x03, 0x00, 0x03, 0x02, 0x01, 0x01], via: 0 },
            Setup { cmds: g0b.setup_cmd(), via: 0 }, g0b.marker(),
            hear(&g0b, 5, 4), hear(&g1, 11, 4),
            Setup { cmds: vec![0x03, 0x00], via: 2 },
            hear(&g1, 11, 4), hear(&g0b, 6, 4),
            Take, Send,
        ]);
    }
    // T2: the same group set up again (the counter restarts at the new minMcFCount), then under a new key
    {
        let g2 = McNet::new(2, a_, k(0x5a), 0, 10);
        let g2n = McNet::new(2, a_, k(0x77), 100, 200);
        out.push(vec![
            Setup { cmds: g2.setup_cmd(), via: 0 }, g2.marker(),
            hear(&g2, 0, 4), hear(&g2, 1, 4), hear(&g2, 2, 4),
            Setup { cmds: g2.setup_cmd(), via: 2 }, g2.marker(),
            hear(&g2, 0, 4), hear(&g2, 0, 4),
            Setup { cmds: g2n.setup_cmd(), via: 1 }, g2n.marker(),
            hear(&g2, 3, 4), hear(&g2n, 100, 4), hear(&g2n, 99, 4), hear(&g2n, 199, 4), hear(&g2n, 200, 4),
            Take, Send,
        ]);
    }
    // T3: several requests in one frame
    {
        let g3 = McNet::new(3, c_, k(0x13), 0, 0xFFFF_FFFF);
        let mut cmds = vec![0x00u8];
        cmds.extend(g3.setup_cmd());
        cmds.extend([0x01, 0x08, 0x03, 0x03, 0x01, 0x0f, 0x00]);
        let mut again = g3.setup_cmd();
        again.extend([0x01, 0x08]);
        out.push(vec![
            Setup { cmds, via: 0 },
            hear(&g3, 0, 4),
            Setup { cmds: again, via: 0 }, g3.marker(),
            hear(&g3, 70000, 4), hear(&g3, 70000, 4), hear(&g3, 4464, 4), hear(&g3, 70001, 4),
            Take, Send,
        ]);
    }
    // T4: requests the library does not implement, unknown and truncated requests inside a stream
    {
        let g1 = McNet::new(1, a_, k(0x21), 0, 9);
        let mut classc = vec![0x01u8, 0x0f, 0x04, 0x01];
        classc.extend([0u8; 9]);
        classc.extend([0x01, 0x02]);
        let mut classb = vec![0x05u8, 0x01];
        classb.extend([0u8; 9]);
        let mut trunc = g1.setup_cmd();
        trunc.truncate(20);
        let mut unknown = vec![0x01u8, 0x0f, 0x7f];
        unknown.extend(McNet::new(2, b_, k(0x22), 0, 9).setup_cmd());
        out.push(vec![
            Setup { cmds: g1.setup_cmd(), via: 0 }, g1.marker(),
            Setup { cmds: classc, via: 0 },
            Setup { cmds: classb, via: 0 },
            Setup { cmds: trunc, via: 0 },
            Setup { cmds: unknown, via: 0 },
            Setup { cmds: vec![0x01, 0x0f], via: 1 },
            hear(&g1, 0, 4),
            Take, Send,
        ]);
    }
    // T5: answers beyond the 242 octets of one uplink (requests without effect only)
    {
        let gs: Vec<McNet> = (0..4u8).map(|g| McNet::new(g, [0x40 + g, 0x22, 0x33, 0x44], k(0x30 + g), 0, 5)).collect();
        let mut v = vec![];
        for g in &gs {
            v.push(Setup { cmds: g.setup_cmd(), via: 0 });
            v.push(g.marker());
        }
        let mut many = [0x01u8, 0x0f].repeat(12);
        many.push(0x00);
        v.push(Setup { cmds: many, via: 0 });
        let mut vers = vec![0x00u8; 81];
        vers.extend([0x01, 0x00]);
        v.push(Setup { cmds: vers, via: 0 });
        v.push(Setup { cmds: [0x01u8, 0x05].repeat(20), via: 0 });
        v.push(hear(&gs[3], 0, 4));
        v.push(Take);
        v.push(Send);
        out.push(v);
    }
    // T6: frames of a group heard inside the receive procedure of an uplink (RX1, RX2, before RX1, between the windows)
    {
        let g0 = McNet::new(0, a_, k(0x61), 0, 1000);
        out.push(vec![
            Setup { cmds: g0.setup_cmd(), via: 0 }, g0.marker(),
            hear(&g0, 0, 0), Send, hear(&g0, 1, 1), Send, hear(&g0, 2, 2), hear(&g0, 3, 3), Take,
            hear(&g0, 0, 0), hear(&g0, 3, 1), hear(&g0, 2, 2), hear(&g0, 4, 0), hear(&g0, 5, 1), Send, Take,
        ]);
    }
    // T7: the network commands a TX power above what the radio can do (LinkADRReq TXPower 0 = the regional maximum,
    // 16 dBm EIRP on a 14 dBm radio), then a lower one: the handler's own uplinks respect the same limits as any other
    {
        let g0 = McNet::new(0, a_, k(0x71), 0, 50);
        out.push(vec![
            Down { fopts: vec![0x03, 0x50, 0x07, 0x00, 0x01] },
            Setup { cmds: g0.setup_cmd(), via: 0 }, g0.marker(),
            Setup { cmds: vec![0x01, 0x0f], via: 2 },
            Setup { cmds: vec![0x00], via: 1 },
            Down { fopts: vec![0x03, 0x53, 0x07, 0x00, 0x01] },
            Setup { cmds: vec![0x01, 0x01], via: 0 },
            hear(&g0, 0, 4), Take, Send,
        ]);
    }
    // seeded random walks over the table
    for r in 0..nrandom {
        let mut rng = StdRng::seed_from_u64(seed.wrapping_mul(7919) ^ (r as u64) << 8 ^ 0x6d63);
        let addrs = [a_, b_, c_];
        let mut net: Vec<Option<McNet>> = vec![None, None, None, None];
        let mut gone: Vec<McNet> = vec![];
        let mut v: Vec<McStep> = vec![];
        let n = rng.gen_range(12..28);
        for _ in 0..n {
            let via = rng.gen_range(0..3u8);
            match rng.gen_range(0..100) {
                0..=24 => {
                    // set up (or replace) a group; sometimes under an address another slot already uses
                    let g = rng.gen_range(0..4u8);
                    let min = *[0u32, 3, 65530, 0x1FFFA].get(rng.gen_range(0..4)).unwrap();
                    let m = McNet::new(g, addrs[rng.gen_range(0..3)], k(rng.gen_range(1..6)), min, min + rng.gen_range(0..12));
                    if let Some(old) = net[g as usize].replace(m.clone()) {
                        gone.push(old);
                    }
                    let mut cmds = m.setup_cmd();
                    if via == 0 && rng.gen_bool(0.3) {
                        cmds.extend([0x01, rng.gen_range(0..16)]);
                    }
                    v.push(Setup { cmds, via });
                    v.push(m.marker());
                }
                25..=34 => {
                    let g = rng.gen_range(0..4u8);
                    if let Some(old) = net[g as usize].take() {
                        gone.push(old);
                    }
                    v.push(Setup { cmds: vec![0x03, g | if rng.gen_bool(0.2) { 0xf0 } else { 0 }], via });
                }
                35..=44 => v.push(Setup { cmds: vec![0x01, rng.gen_range(0..=255)], via }),
                45..=49 => v.push(Setup { cmds: vec![0x00, 0x01, 0x0f, 0x00], via }),
                50..=79 => {
                    // a frame of a live group: the next counter, a later one, a repeated or an earlier one
                    let live: Vec<usize> = (0..4).filter(|i| net[*i].is_some()).collect();
                    if live.is_empty() {
                        continue;
                    }
                    let i = live[rng.gen_range(0..live.len())];
                    let m = net[i].as_mut().unwrap();
                    let cnt = match rng.gen_range(0..10) {
                        0..=4 => m.next,
                        5..=6 => m.next.saturating_add(rng.gen_range(1..4)),
                        7 => m.next.saturating_sub(1),
                        8 => m.min,
                        _ => m.max,
                    };
                    // (two slots under one address: the frame belongs to the lower slot, whose keys differ - the network
                    // side's idea of `next` is only a source of interesting counters, the specification decides)
                    if cnt >= m.next && cnt < m.max {
                        m.next = cnt + 1;
                    }
                    let slot = if rng.gen_bool(0.6) { 4 } else { rng.gen_range(0..4u8) };
                    let m = m.clone();
                    v.push(hear(&m, cnt, slot));
                }
                80..=89 => {
                    // a frame of a group that no longer exists (deleted or replaced)
                    if gone.is_empty() {
                        continue;
                    }
                    let m = gone[rng.gen_range(0..gone.len())].clone();
                    v.push(hear(&m, m.next, 4));
                }
                90..=94 => v.push(Take),
                _ => v.push(Send),
            }
        }
        v.push(Take);
        v.push(Send);
        out.push(v);
    }
    out
}

/// `vh macreplay in=FILE`: re-drive a recorded history ({"ops":[...]}) on the current tree.
pub fn vh_macreplay(a: &Args) {
    let text = std::fs::read_to_string(a.get("in").expect("in=FILE")).unwrap();
    let v: Value = serde_json::from_str(&text).unwrap();
    let ops: Vec<Op> = v["ops"].as_array().unwrap().iter().map(|o| serde_json::from_value(o.clone()).unwrap()).collect();
    let mut out = crate::cli::Shards::create(&a.out, "mac", 1);
    // (a history recorded by the watchdog carries the seed of its RNG: draws that were not recorded are redrawn alike)
    let seed = v["hseed"].as_str().and_then(|s| s.parse::<u64>().ok()).unwrap_or(a.seed);
    let _ = run_history(out.shard(0), &ops, seed, None);
    println!("events={} histories=1", out.finish());
}

/// `vh fcnt`: the downlink counter reconstruction (hook `verif_next_fcnt_down`) for chosen `last` values and
/// ALL 65536 wire values, logged losslessly as runs [w_from, w_to, hi] (hi = -1: dropped; else N = hi<<16 | w).
pub fn vh_fcnt(a: &Args) {
    use lorawan_device::mac::verif_next_fcnt_down;
    let mut out = crate::cli::Shards::create(&a.out, "fcnt", a.shards);
    let mut lasts: Vec<Option<u32>> = vec![None];
    let bases: [u64; 9] = [0, 16384, 0xFFFF, 0x10000, 0x7FFF_FFFF, 0x8000_0000, 0xFFFF_0000, 0xFFFF_BFFF, 0xFFFF_FFFF];
    let near: Vec<i64> = if a.thorough {
        let mut v: Vec<i64> = (-40..=40).collect();
        v.extend([-70000, -65537, -65536, -65535, -16385, -16384, -16383, -1000, 1000, 16383, 16384, 16385, 65535, 65536, 65537, 70000]);
        v
    } else {
        vec![-65536, -16385, -16384, -2, -1, 0, 1, 2, 16383, 16384, 16385, 65535]
    };
    for b in bases {
        for d in &near {
            let v = b as i64 + d;
            if (0..=u32::MAX as i64).contains(&v) {
                lasts.push(Some(v as u32));
            }
        }
    }
    let mut rng = StdRng::seed_from_u64(a.seed ^ 0xFC);
    for _ in 0..(if a.thorough { 200 } else { 10 }) {
        lasts.push(Some(rng.r#gen()));
    }
    lasts.sort();
    lasts.dedup();
    for last in lasts {
        let mut runs: Vec<[i64; 3]> = vec![];
        let mut panics = 0;
        for w in 0..=65535u32 {
            let r = catch(|| verif_next_fcnt_down(last, w as u16));
            let hi: i64 = match r {
                Ok(Some(n)) => {
                    if n & 0xFFFF != w { -2 } else { (n >> 16) as i64 }
                }
                Ok(None) => -1,
                Err(_) => {
                    panics += 1;
                    -3
                }
            };
            match runs.last_mut() {
                Some(r) if r[2] == hi && r[1] + 1 == w as i64 => r[1] = w as i64,
                _ => runs.push([w as i64, w as i64, hi]),
            }
        }
        let l = match last {
            None => json!([]),
            Some(v) => json!([v >> 16, v & 0xFFFF]),
        };
        out.emit(&json!({"ev": "fcnt", "last": l, "runs": runs, "panics": panics}));
    }
    println!("events={}", out.finish());
}
