//! Observation of the MAC-command parsers and creators of lorawan-encoding (C03, C19).
//! Recorders only, NO oracle logic: every accessor of a parsed command is called under `catch`
//! and its value logged under the name of the field of spec/MacCmds.tla it exposes (the binding
//! accessor -> field name is the table below); every creator setter is called with the logged
//! argument and its outcome (accepted / refused / panic) logged.
//!
//! Binding of accessors to MacCmds.tla field names (f = layout field or view, d = derived value):
//!   LinkCheckAns      margin->Margin  gateway_count->GwCnt
//!   LinkADRReq        data_rate->DataRate tx_power->TXPower channel_mask->ChMask (+ d.ChEnabled = is_enabled(0..15))
//!                     redundancy().raw_value->Redundancy .channel_mask_control->ChMaskCntl .number_of_transmissions->NbTrans
//!   DutyCycleReq      max_duty_cycle_raw->MaxDCycle  max_duty_cycle->d.MaxDutyCycleF32 (IEEE-754 bits)
//!   RXParamSetupReq   dl_settings().raw_value->DLsettings .rx1_dr_offset->RX1DRoffset .rx2_data_rate->RX2DataRate
//!                     frequency().as_ref->Frequency .value->d.FrequencyHz
//!   NewChannelReq     channel_index->ChIndex frequency->Freq/d.FreqHz data_rate_range->d.DrRangeOk, DrRange/MaxDR/MinDR when Ok
//!   RXTimingSetupReq  delay->Del
//!   TXParamSetupReq   downlink_dwell_time->DownlinkDwellTime uplink_dwell_time->UplinkDwellTime max_eirp->d.MaxEirpDbm
//!   DlChannelReq      channel_index->ChIndex frequency->Freq/d.FreqHz
//!   DeviceTimeAns     seconds->Seconds nano_seconds->d.Nanos
//!   LinkADRAns        channel_mask_ack->ChannelMaskACK data_rate_ack->DataRateACK powert_ack->PowerACK ack->d.Ack
//!   RXParamSetupAns   channel_ack->ChannelACK rx2_data_rate_ack->RX2DataRateACK rx1_dr_offset_ack->RX1DRoffsetACK ack->d.Ack
//!   DevStatusAns      battery->Battery margin->Margin
//!   NewChannelAns     channel_freq_ack->ChannelFrequencyOK data_rate_range_ack->DataRateRangeOK ack->d.Ack
//!   DlChannelAns      channel_freq_ack->ChannelFrequencyOK uplink_freq_ack->UplinkFrequencyExists ack->d.Ack
//!   AdrBitChangeReq   adr_enable->d.AdrEnable      TxPeriodicityChangeReq periodicity->d.PeriodicitySec
//!   TxFramesCtrlReq   frame_type_override->d.FrameTypeOverride
//!   EchoIncPayloadReq/Ans payload->Payload
//!   McGroupStatusReq  req_group_mask->ReqGroupMask
//!   McGroupSetupReq   mc_group_id_header->McGroupID mc_addr->McAddr min_mc_fcount->minMcFCount max_mc_fcount->maxMcFCount
//!                     mc_key_decrypted / derive_session_keys -> d.McKey {kek,key,app,net}
//!   McGroupDeleteReq  mc_group_id_header->McGroupID
//!   PackageVersionAns package_identifier->PackageIdentifier package_version->PackageVersion
//!   McGroupStatusAns  ans_group_mask->AnsGroupMask nb_total_groups->NbTotalGroups item_iterator->d.Groups
//!   McGroupSetupAns   mc_group_id_header->McGroupID
//!   McGroupDeleteAns  mc_group_id_header->McGroupID mc_group_undefined->McGroupUndefined
use crate::cli::catch;
use crate::trace::{bytes, u32_pair};
use lorawan::certification::{self as cert, DownlinkDUTCommand, UplinkDUTCommand};
use lorawan::default_crypto::{DefaultCrypto, DefaultNetworkCrypto};
use lorawan::keys::{McKey, AES128};
use lorawan::maccommands::{
    self as mc, DownlinkMacCommand, MacCommandSet, MacCommands, ParseError, SerializableMacCommand, UplinkMacCommand,
};
use lorawan::multicast::{self as mcast, DownlinkRemoteSetup, UplinkRemoteSetup};
use lorawan::parser::McAddr;
use serde_json::{json, Map, Value};

pub const SETS: [&str; 6] = ["mac_up", "mac_down", "cert_up", "cert_down", "mc_up", "mc_down"];

/// Everything observable about one parsed command.
#[derive(Default)]
pub struct Obs {
    pub name: &'static str,
    pub cid: i64,
    pub len: i64,
    pub bytes: Vec<u8>,
    pub f: Map<String, Value>,
    pub d: Map<String, Value>,
    pub panics: Vec<String>,
}

impl Obs {
    fn new(name: &'static str) -> Obs {
        Obs { name, cid: -1, len: -1, ..Default::default() }
    }
    fn fld(&mut self, key: &str, g: impl FnOnce() -> Value) {
        match catch(g) {
            Ok(v) => {
                self.f.insert(key.to_string(), v);
            }
            Err(m) => self.panics.push(format!("{}.{}: {}", self.name, key, m)),
        }
    }
    fn der(&mut self, key: &str, g: impl FnOnce() -> Value) {
        match catch(g) {
            Ok(v) => {
                self.d.insert(key.to_string(), v);
            }
            Err(m) => self.panics.push(format!("{}.{}: {}", self.name, key, m)),
        }
    }
    /// generic accessors every payload type has; results that are not fields are only exercised
    fn call(&mut self, key: &str, g: impl FnOnce()) {
        if let Err(m) = catch(g) {
            self.panics.push(format!("{}.{}: {}", self.name, key, m));
        }
    }
}

fn b01(b: bool) -> Value {
    json!(b as u8)
}

/// cid / len / bytes of the enum value itself (and the trait view of it)
macro_rules! common {
    ($o:ident, $c:ident) => {
        match catch(|| (SerializableMacCommand::cid($c) as i64, $c.len() as i64, $c.bytes().to_vec())) {
            Ok((cid, len, b)) => {
                $o.cid = cid;
                $o.len = len;
                $o.bytes = b;
            }
            Err(m) => $o.panics.push(format!("{}.cid/len/bytes: {}", $o.name, m)),
        }
        $o.call("payload_len/payload_bytes", || {
            let _ = ($c.payload_len(), $c.payload_bytes().len());
        });
    };
}

macro_rules! generic_payload {
    ($o:ident, $p:ident) => {
        $o.call("payload.len/bytes", || {
            let _ = ($p.len(), $p.bytes().len());
        });
    };
}

fn freq(o: &mut Obs, key: &str, hzkey: &str, g: impl Fn() -> (Vec<u8>, u32)) {
    o.fld(key, || bytes(&g().0));
    o.der(hzkey, || json!(g().1));
}

pub fn obs_mac_down(c: &DownlinkMacCommand<'_>) -> Obs {
    use DownlinkMacCommand::*;
    let mut o = Obs::new(match c {
        LinkCheckAns(_) => "LinkCheckAns",
        LinkADRReq(_) => "LinkADRReq",
        DutyCycleReq(_) => "DutyCycleReq",
        RXParamSetupReq(_) => "RXParamSetupReq",
        DevStatusReq(_) => "DevStatusReq",
        NewChannelReq(_) => "NewChannelReq",
        RXTimingSetupReq(_) => "RXTimingSetupReq",
        TXParamSetupReq(_) => "TXParamSetupReq",
        DlChannelReq(_) => "DlChannelReq",
        DeviceTimeAns(_) => "DeviceTimeAns",
    });
    common!(o, c);
    match c {
        LinkCheckAns(p) => {
            generic_payload!(o, p);
            o.fld("Margin", || json!(p.margin()));
            o.fld("GwCnt", || json!(p.gateway_count()));
        }
        LinkADRReq(p) => {
            generic_payload!(o, p);
            o.fld("DataRate", || json!(p.data_rate() as u8));
            o.fld("TXPower", || json!(p.tx_power() as u8));
            o.fld("ChMask", || bytes(p.channel_mask().as_ref()));
            o.der("ChEnabled", || {
                let m = p.channel_mask();
                Value::Array(
                    (0..16)
                        .map(|i| match m.is_enabled(i) {
                            Ok(b) => json!(b as i32),
                            Err(_) => json!(-1),
                        })
                        .collect(),
                )
            });
            o.call("ChMask.statuses/is_enabled(16)", || {
                let m = p.channel_mask();
                let _ = (m.statuses::<16>(), m.is_enabled(16), m.get_index(0), m.get_index(1));
            });
            o.fld("Redundancy", || json!(p.redundancy().raw_value()));
            o.fld("ChMaskCntl", || json!(p.redundancy().channel_mask_control()));
            o.fld("NbTrans", || json!(p.redundancy().number_of_transmissions()));
        }
        DutyCycleReq(p) => {
            generic_payload!(o, p);
            o.fld("MaxDCycle", || json!(p.max_duty_cycle_raw()));
            o.der("MaxDutyCycleF32", || u32_pair(p.max_duty_cycle().to_bits()));
        }
        RXParamSetupReq(p) => {
            generic_payload!(o, p);
            o.fld("DLsettings", || json!(p.dl_settings().raw_value()));
            o.fld("RX1DRoffset", || json!(p.dl_settings().rx1_dr_offset()));
            o.fld("RX2DataRate", || json!(p.dl_settings().rx2_data_rate() as u8));
            freq(&mut o, "Frequency", "FrequencyHz", || {
                let f = p.frequency();
                (f.as_ref().to_vec(), f.value())
            });
        }
        DevStatusReq(p) => {
            generic_payload!(o, p);
        }
        NewChannelReq(p) => {
            generic_payload!(o, p);
            o.fld("ChIndex", || json!(p.channel_index()));
            freq(&mut o, "Freq", "FreqHz", || {
                let f = p.frequency();
                (f.as_ref().to_vec(), f.value())
            });
            o.der("DrRangeOk", || json!(p.data_rate_range().is_ok() as u8));
            if let Ok(Ok(r)) = catch(|| p.data_rate_range()) {
                o.fld("DrRange", || json!(r.raw_value()));
                o.fld("MaxDR", || json!(r.max_data_rate()));
                o.fld("MinDR", || json!(r.min_data_rate()));
            }
        }
        RXTimingSetupReq(p) => {
            generic_payload!(o, p);
            o.fld("Del", || json!(p.delay()));
        }
        TXParamSetupReq(p) => {
            generic_payload!(o, p);
            o.fld("DownlinkDwellTime", || b01(p.downlink_dwell_time()));
            o.fld("UplinkDwellTime", || b01(p.uplink_dwell_time()));
            o.der("MaxEirpDbm", || json!(p.max_eirp()));
        }
        DlChannelReq(p) => {
            generic_payload!(o, p);
            o.fld("ChIndex", || json!(p.channel_index()));
            freq(&mut o, "Freq", "FreqHz", || {
                let f = p.frequency();
                (f.as_ref().to_vec(), f.value())
            });
        }
        DeviceTimeAns(p) => {
            generic_payload!(o, p);
            o.fld("Seconds", || u32_pair(p.seconds()));
            o.der("Nanos", || json!(p.nano_seconds()));
        }
    }
    o
}

pub fn obs_mac_up(c: &UplinkMacCommand<'_>) -> Obs {
    use UplinkMacCommand::*;
    let mut o = Obs::new(match c {
        LinkCheckReq(_) => "LinkCheckReq",
        LinkADRAns(_) => "LinkADRAns",
        DutyCycleAns(_) => "DutyCycleAns",
        RXParamSetupAns(_) => "RXParamSetupAns",
        DevStatusAns(_) => "DevStatusAns",
        NewChannelAns(_) => "NewChannelAns",
        RXTimingSetupAns(_) => "RXTimingSetupAns",
        TXParamSetupAns(_) => "TXParamSetupAns",
        DlChannelAns(_) => "DlChannelAns",
        DeviceTimeReq(_) => "DeviceTimeReq",
    });
    common!(o, c);
    match c {
        LinkCheckReq(p) => {
            generic_payload!(o, p);
        }
        LinkADRAns(p) => {
            generic_payload!(o, p);
            o.fld("ChannelMaskACK", || b01(p.channel_mask_ack()));
            o.fld("DataRateACK", || b01(p.data_rate_ack()));
            o.fld("PowerACK", || b01(p.powert_ack()));
            o.der("Ack", || b01(p.ack()));
        }
        DutyCycleAns(p) => {
            generic_payload!(o, p);
        }
        RXParamSetupAns(p) => {
            generic_payload!(o, p);
            o.fld("ChannelACK", || b01(p.channel_ack()));
            o.fld("RX2DataRateACK", || b01(p.rx2_data_rate_ack()));
            o.fld("RX1DRoffsetACK", || b01(p.rx1_dr_offset_ack()));
            o.der("Ack", || b01(p.ack()));
        }
        DevStatusAns(p) => {
            generic_payload!(o, p);
            o.fld("Battery", || json!(p.battery()));
            o.fld("Margin", || json!(p.margin()));
        }
        NewChannelAns(p) => {
            generic_payload!(o, p);
            o.fld("ChannelFrequencyOK", || b01(p.channel_freq_ack()));
            o.fld("DataRateRangeOK", || b01(p.data_rate_range_ack()));
            o.der("Ack", || b01(p.ack()));
        }
        RXTimingSetupAns(p) => {
            generic_payload!(o, p);
        }
        TXParamSetupAns(p) => {
            generic_payload!(o, p);
        }
        DlChannelAns(p) => {
            generic_payload!(o, p);
            o.fld("ChannelFrequencyOK", || b01(p.channel_freq_ack()));
            o.fld("UplinkFrequencyExists", || b01(p.uplink_freq_ack()));
            o.der("Ack", || b01(p.ack()));
        }
        DeviceTimeReq(p) => {
            generic_payload!(o, p);
        }
    }
    o
}

pub fn obs_cert_down(c: &DownlinkDUTCommand<'_>) -> Obs {
    use DownlinkDUTCommand::*;
    let mut o = Obs::new(match c {
        DutResetReq(_) => "DutResetReq",
        DutJoinReq(_) => "DutJoinReq",
        AdrBitChangeReq(_) => "AdrBitChangeReq",
        TxPeriodicityChangeReq(_) => "TxPeriodicityChangeReq",
        TxFramesCtrlReq(_) => "TxFramesCtrlReq",
        EchoIncPayloadReq(_) => "EchoIncPayloadReq",
        RxAppCntReq(_) => "RxAppCntReq",
        LinkCheckReq(_) => "LinkCheckReq",
        DutVersionsReq(_) => "DutVersionsReq",
    });
    common!(o, c);
    match c {
        DutResetReq(p) => {
            generic_payload!(o, p);
        }
        DutJoinReq(p) => {
            generic_payload!(o, p);
        }
        AdrBitChangeReq(p) => {
            generic_payload!(o, p);
            o.der("AdrEnable", || match p.adr_enable() {
                Ok(b) => json!(b as i32),
                Err(_) => json!(-2),
            });
        }
        TxPeriodicityChangeReq(p) => {
            generic_payload!(o, p);
            o.der("PeriodicitySec", || match p.periodicity() {
                Ok(Some(s)) => json!(s),
                Ok(None) => json!(-1),
                Err(_) => json!(-2),
            });
        }
        TxFramesCtrlReq(p) => {
            generic_payload!(o, p);
            o.der("FrameTypeOverride", || match p.frame_type_override() {
                Ok(Some(b)) => json!(b as i32),
                Ok(None) => json!(-1),
                Err(_) => json!(-2),
            });
        }
        EchoIncPayloadReq(p) => {
            generic_payload!(o, p);
            o.fld("Payload", || bytes(p.payload()));
        }
        RxAppCntReq(p) => {
            generic_payload!(o, p);
        }
        LinkCheckReq(p) => {
            generic_payload!(o, p);
        }
        DutVersionsReq(p) => {
            generic_payload!(o, p);
        }
    }
    o
}

pub fn obs_cert_up(c: &UplinkDUTCommand<'_>) -> Obs {
    use UplinkDUTCommand::*;
    let mut o = Obs::new(match c {
        EchoIncPayloadAns(_) => "EchoIncPayloadAns",
        RxAppCntAns(_) => "RxAppCntAns",
        DutVersionsAns(_) => "DutVersionsAns",
    });
    common!(o, c);
    match c {
        EchoIncPayloadAns(p) => {
            generic_payload!(o, p);
            o.fld("Payload", || bytes(p.payload()));
        }
        RxAppCntAns(p) => {
            generic_payload!(o, p);
        }
        DutVersionsAns(p) => {
            generic_payload!(o, p);
        }
    }
    o
}

/// `kek`: key-encryption key used to exercise the McGroupSetupReq key accessors
pub fn obs_mc_down(c: &DownlinkRemoteSetup<'_>, kek: &[u8; 16]) -> Obs {
    use DownlinkRemoteSetup::*;
    let mut o = Obs::new(match c {
        PackageVersionReq(_) => "PackageVersionReq",
        McGroupStatusReq(_) => "McGroupStatusReq",
        McGroupSetupReq(_) => "McGroupSetupReq",
        McGroupDeleteReq(_) => "McGroupDeleteReq",
        McClassCSessionReq(_) => "McClassCSessionReq",
        McClassBSessionReq(_) => "McClassBSessionReq",
    });
    common!(o, c);
    match c {
        PackageVersionReq(p) => {
            generic_payload!(o, p);
        }
        McGroupStatusReq(p) => {
            generic_payload!(o, p);
            o.fld("ReqGroupMask", || json!(p.req_group_mask()));
        }
        McGroupSetupReq(p) => {
            generic_payload!(o, p);
            o.fld("McGroupID", || json!(p.mc_group_id_header()));
            o.fld("McAddr", || bytes(p.mc_addr().as_wire_bytes()));
            o.fld("minMcFCount", || u32_pair(p.min_mc_fcount()));
            o.fld("maxMcFCount", || u32_pair(p.max_mc_fcount()));
            o.der("McKey", || {
                let crypto = DefaultCrypto::new(&AES128(*kek));
                let key = p.mc_key_decrypted(&crypto);
                let (app, net) = p.derive_session_keys::<DefaultCrypto>(&crypto);
                let (gid, sess) = p.derive_session::<DefaultCrypto>(&crypto);
                json!({"kek": bytes(kek), "key": bytes(key.as_ref()), "app": bytes(app.as_ref()), "net": bytes(net.as_ref()),
                       "sess_gid": gid, "sess_addr": bytes(sess.multicast_addr().as_wire_bytes()),
                       "sess_app": bytes(sess.mc_app_s_key().as_ref()), "sess_net": bytes(sess.mc_net_s_key().as_ref()),
                       "sess_min": u32_pair(sess.fcnt_down), "sess_max": u32_pair(sess.max_fcnt_down())})
            });
        }
        McGroupDeleteReq(p) => {
            generic_payload!(o, p);
            o.fld("McGroupID", || json!(p.mc_group_id_header()));
        }
        McClassCSessionReq(p) => {
            generic_payload!(o, p);
        }
        McClassBSessionReq(p) => {
            generic_payload!(o, p);
        }
    }
    o
}

pub fn obs_mc_up(c: &UplinkRemoteSetup<'_>) -> Obs {
    use UplinkRemoteSetup::*;
    let mut o = Obs::new(match c {
        PackageVersionAns(_) => "PackageVersionAns",
        McGroupStatusAns(_) => "McGroupStatusAns",
        McGroupSetupAns(_) => "McGroupSetupAns",
        McGroupDeleteAns(_) => "McGroupDeleteAns",
        McClassCSessionAns(_) => "McClassCSessionAns",
        McClassBSessionAns(_) => "McClassBSessionAns",
    });
    common!(o, c);
    match c {
        PackageVersionAns(p) => {
            generic_payload!(o, p);
            o.fld("PackageIdentifier", || json!(p.package_identifier()));
            o.fld("PackageVersion", || json!(p.package_version()));
        }
        McGroupStatusAns(p) => {
            obs_group_status(&mut o, p);
        }
        McGroupSetupAns(p) => {
            generic_payload!(o, p);
            o.fld("McGroupID", || json!(p.mc_group_id_header()));
        }
        McGroupDeleteAns(p) => {
            generic_payload!(o, p);
            o.fld("McGroupID", || json!(p.mc_group_id_header()));
            o.fld("McGroupUndefined", || b01(p.mc_group_undefined()));
        }
        McClassCSessionAns(p) => {
            generic_payload!(o, p);
        }
        McClassBSessionAns(p) => {
            generic_payload!(o, p);
        }
    }
    o
}

pub fn obs_group_status(o: &mut Obs, p: &mcast::McGroupStatusAnsPayload<'_>) {
    o.call("payload.len/bytes", || {
        let _ = (p.len(), p.bytes().len());
    });
    o.fld("AnsGroupMask", || json!(p.ans_group_mask()));
    o.fld("NbTotalGroups", || json!(p.nb_total_groups()));
    o.der("Groups", || {
        let mut v = Vec::new();
        for (n, it) in p.item_iterator().enumerate() {
            if n >= 300 {
                v.push(json!("nonterminating"));
                break;
            }
            v.push(json!([it.mc_group_id(), bytes(it.mc_addr().as_wire_bytes())]));
        }
        Value::Array(v)
    });
}

/// Result of running one command-stream iterator to exhaustion.
#[derive(Default)]
pub struct ItemsObs {
    pub out: Vec<[i64; 3]>,
    pub names: Vec<&'static str>,
    pub cat: Vec<u8>,
    pub nonterm: bool,
    pub panics: Vec<String>,
    pub cmds: Vec<Obs>,
}

pub const ITEM_CAP: usize = 300;

fn drive<'a, T: MacCommandSet<'a>>(mut it: MacCommands<'a, T>, obs: impl Fn(&T) -> Obs, keep: bool) -> ItemsObs {
    let mut r = ItemsObs::default();
    let mut after_end = 0;
    loop {
        if r.out.len() >= ITEM_CAP {
            r.nonterm = true;
            break;
        }
        match catch(|| it.next()) {
            Err(m) => {
                r.panics.push(format!("iterator.next: {m}"));
                break;
            }
            Ok(None) => {
                // fused: keeps returning None
                after_end += 1;
                if after_end >= 3 {
                    break;
                }
            }
            Ok(Some(Ok(cmd))) => {
                let mut o = obs(&cmd);
                r.out.push([1, o.cid, o.len + 1]);
                r.names.push(o.name);
                if o.cid >= 0 {
                    r.cat.push(o.cid as u8);
                }
                r.cat.extend_from_slice(&o.bytes);
                r.panics.append(&mut o.panics);
                if keep {
                    r.cmds.push(o);
                }
            }
            Ok(Some(Err(e))) => {
                let _ = format!("{e} {e:?}"); // Display / Debug are callable
                match e {
                    ParseError::UnknownCid(c) => r.out.push([0, 0, c as i64]),
                    ParseError::Truncated { cid } => r.out.push([0, 1, cid as i64]),
                }
                r.names.push("");
            }
        }
    }
    r
}

/// Run the iterator of command set `set` over `data`.  keep = retain the per-command observations.
pub fn items(set: &str, data: &[u8], keep: bool, kek: &[u8; 16]) -> ItemsObs {
    match set {
        "mac_up" => drive(mc::parse_uplink_mac_commands(data), obs_mac_up, keep),
        "mac_down" => drive(mc::parse_downlink_mac_commands(data), obs_mac_down, keep),
        "cert_up" => drive(cert::parse_uplink_dut_commands(data), obs_cert_up, keep),
        "cert_down" => drive(cert::parse_downlink_dut_commands(data), obs_cert_down, keep),
        "mc_up" => drive(mcast::parse_uplink_multicast_commands(data), obs_mc_up, keep),
        "mc_down" => drive(mcast::parse_downlink_multicast_commands(data), |c| obs_mc_down(c, kek), keep),
        other => panic!("unknown command set {other}"),
    }
}

// ------------------------------------------------------------------------------------------
// Payload constructors `XPayload::new(data)` (public API next to the iterators).
// Returns (ok, bytes(), len(), panics) or None when the type has no such constructor.

pub const PAYLOAD_NEW: &[(&str, &str)] = &[
    ("mac_down", "LinkCheckAns"),
    ("mac_down", "LinkADRReq"),
    ("mac_down", "DutyCycleReq"),
    ("mac_down", "RXParamSetupReq"),
    ("mac_down", "DevStatusReq"),
    ("mac_down", "NewChannelReq"),
    ("mac_down", "RXTimingSetupReq"),
    ("mac_down", "TXParamSetupReq"),
    ("mac_down", "DlChannelReq"),
    ("mac_down", "DeviceTimeAns"),
    ("mac_up", "LinkCheckReq"),
    ("mac_up", "LinkADRAns"),
    ("mac_up", "DutyCycleAns"),
    ("mac_up", "RXParamSetupAns"),
    ("mac_up", "DevStatusAns"),
    ("mac_up", "NewChannelAns"),
    ("mac_up", "RXTimingSetupAns"),
    ("mac_up", "TXParamSetupAns"),
    ("mac_up", "DlChannelAns"),
    ("mac_up", "DeviceTimeReq"),
    ("cert_down", "DutResetReq"),
    ("cert_down", "DutJoinReq"),
    ("cert_down", "AdrBitChangeReq"),
    ("cert_down", "TxPeriodicityChangeReq"),
    ("cert_down", "TxFramesCtrlReq"),
    ("cert_down", "EchoIncPayloadReq"),
    ("cert_down", "RxAppCntReq"),
    ("cert_down", "LinkCheckReq"),
    ("cert_down", "DutVersionsReq"),
    ("cert_up", "EchoIncPayloadAns"),
    ("cert_up", "RxAppCntAns"),
    ("cert_up", "DutVersionsAns"),
    ("mc_down", "PackageVersionReq"),
    ("mc_down", "McGroupStatusReq"),
    ("mc_down", "McGroupSetupReq"),
    ("mc_down", "McGroupDeleteReq"),
    ("mc_down", "McClassCSessionReq"),
    ("mc_down", "McClassBSessionReq"),
    ("mc_up", "PackageVersionAns"),
    ("mc_up", "McGroupStatusAns"),
    ("mc_up", "McGroupSetupAns"),
    ("mc_up", "McGroupDeleteAns"),
    ("mc_up", "McClassCSessionAns"),
    ("mc_up", "McClassBSessionAns"),
];

pub struct NewObs {
    pub ok: bool,
    pub bytes: Vec<u8>,
    pub len: i64,
    pub panics: Vec<String>,
}

/// Wrap a successfully constructed payload into its enum variant and observe every accessor.
macro_rules! via {
    ($res:expr, $variant:path, $obs:expr) => {{
        match catch(|| $res) {
            Err(m) => NewObs { ok: false, bytes: vec![], len: -1, panics: vec![format!("new: {m}")] },
            Ok(Err(_)) => NewObs { ok: false, bytes: vec![], len: -1, panics: vec![] },
            Ok(Ok(p)) => {
                let c = $variant(p);
                let o = $obs(&c);
                NewObs { ok: true, bytes: o.bytes, len: o.len, panics: o.panics }
            }
        }
    }};
}
/// zero-length payload types: `new` is infallible
macro_rules! via0 {
    ($res:expr, $variant:path, $obs:expr) => {{
        match catch(|| $res) {
            Err(m) => NewObs { ok: false, bytes: vec![], len: -1, panics: vec![format!("new: {m}")] },
            Ok(p) => {
                let c = $variant(p);
                let o = $obs(&c);
                NewObs { ok: true, bytes: o.bytes, len: o.len, panics: o.panics }
            }
        }
    }};
}

pub fn payload_new(set: &str, name: &str, data: &[u8], kek: &[u8; 16]) -> NewObs {
    use DownlinkDUTCommand as CD;
    use DownlinkMacCommand as MD;
    use DownlinkRemoteSetup as RD;
    use UplinkDUTCommand as CU;
    use UplinkMacCommand as MU;
    use UplinkRemoteSetup as RU;
    let od = |c: &RD<'_>| obs_mc_down(c, kek);
    match (set, name) {
        ("mac_down", "LinkCheckAns") => via!(mc::LinkCheckAnsPayload::new(data), MD::LinkCheckAns, obs_mac_down),
        ("mac_down", "LinkADRReq") => via!(mc::LinkADRReqPayload::new(data), MD::LinkADRReq, obs_mac_down),
        ("mac_down", "DutyCycleReq") => via!(mc::DutyCycleReqPayload::new(data), MD::DutyCycleReq, obs_mac_down),
        ("mac_down", "RXParamSetupReq") => via!(mc::RXParamSetupReqPayload::new(data), MD::RXParamSetupReq, obs_mac_down),
        ("mac_down", "DevStatusReq") => via0!(mc::DevStatusReqPayload::new(data), MD::DevStatusReq, obs_mac_down),
        ("mac_down", "NewChannelReq") => via!(mc::NewChannelReqPayload::new(data), MD::NewChannelReq, obs_mac_down),
        ("mac_down", "RXTimingSetupReq") => via!(mc::RXTimingSetupReqPayload::new(data), MD::RXTimingSetupReq, obs_mac_down),
        ("mac_down", "TXParamSetupReq") => via!(mc::TXParamSetupReqPayload::new(data), MD::TXParamSetupReq, obs_mac_down),
        ("mac_down", "DlChannelReq") => via!(mc::DlChannelReqPayload::new(data), MD::DlChannelReq, obs_mac_down),
        ("mac_down", "DeviceTimeAns") => via!(mc::DeviceTimeAnsPayload::new(data), MD::DeviceTimeAns, obs_mac_down),
        ("mac_up", "LinkCheckReq") => via0!(mc::LinkCheckReqPayload::new(data), MU::LinkCheckReq, obs_mac_up),
        ("mac_up", "LinkADRAns") => via!(mc::LinkADRAnsPayload::new(data), MU::LinkADRAns, obs_mac_up),
        ("mac_up", "DutyCycleAns") => via0!(mc::DutyCycleAnsPayload::new(data), MU::DutyCycleAns, obs_mac_up),
        ("mac_up", "RXParamSetupAns") => via!(mc::RXParamSetupAnsPayload::new(data), MU::RXParamSetupAns, obs_mac_up),
        ("mac_up", "DevStatusAns") => via!(mc::DevStatusAnsPayload::new(data), MU::DevStatusAns, obs_mac_up),
        ("mac_up", "NewChannelAns") => via!(mc::NewChannelAnsPayload::new(data), MU::NewChannelAns, obs_mac_up),
        ("mac_up", "RXTimingSetupAns") => via0!(mc::RXTimingSetupAnsPayload::new(data), MU::RXTimingSetupAns, obs_mac_up),
        ("mac_up", "TXParamSetupAns") => via0!(mc::TXParamSetupAnsPayload::new(data), MU::TXParamSetupAns, obs_mac_up),
        ("mac_up", "DlChannelAns") => via!(mc::DlChannelAnsPayload::new(data), MU::DlChannelAns, obs_mac_up),
        ("mac_up", "DeviceTimeReq") => via0!(mc::DeviceTimeReqPayload::new(data), MU::DeviceTimeReq, obs_mac_up),
        ("cert_down", "DutResetReq") => via0!(cert::DutResetReqPayload::new(data), CD::DutResetReq, obs_cert_down),
        ("cert_down", "DutJoinReq") => via0!(cert::DutJoinReqPayload::new(data), CD::DutJoinReq, obs_cert_down),
        ("cert_down", "AdrBitChangeReq") => via!(cert::AdrBitChangeReqPayload::new(data), CD::AdrBitChangeReq, obs_cert_down),
        ("cert_down", "TxPeriodicityChangeReq") => {
            via!(cert::TxPeriodicityChangeReqPayload::new(data), CD::TxPeriodicityChangeReq, obs_cert_down)
        }
        ("cert_down", "TxFramesCtrlReq") => via!(cert::TxFramesCtrlReqPayload::new(data), CD::TxFramesCtrlReq, obs_cert_down),
        ("cert_down", "EchoIncPayloadReq") => via!(cert::EchoIncPayloadReqPayload::new(data), CD::EchoIncPayloadReq, obs_cert_down),
        ("cert_down", "RxAppCntReq") => via0!(cert::RxAppCntReqPayload::new(data), CD::RxAppCntReq, obs_cert_down),
        ("cert_down", "LinkCheckReq") => via0!(cert::LinkCheckReqPayload::new(data), CD::LinkCheckReq, obs_cert_down),
        ("cert_down", "DutVersionsReq") => via0!(cert::DutVersionsReqPayload::new(data), CD::DutVersionsReq, obs_cert_down),
        ("cert_up", "EchoIncPayloadAns") => via!(cert::EchoIncPayloadAnsPayload::new(data), CU::EchoIncPayloadAns, obs_cert_up),
        ("cert_up", "RxAppCntAns") => via!(cert::RxAppCntAnsPayload::new(data), CU::RxAppCntAns, obs_cert_up),
        ("cert_up", "DutVersionsAns") => via!(cert::DutVersionsAnsPayload::new(data), CU::DutVersionsAns, obs_cert_up),
        ("mc_down", "PackageVersionReq") => via0!(mcast::PackageVersionReqPayload::new(data), RD::PackageVersionReq, od),
        ("mc_down", "McGroupStatusReq") => via!(mcast::McGroupStatusReqPayload::new(data), RD::McGroupStatusReq, od),
        ("mc_down", "McGroupSetupReq") => via!(mcast::McGroupSetupReqPayload::new(data), RD::McGroupSetupReq, od),
        ("mc_down", "McGroupDeleteReq") => via!(mcast::McGroupDeleteReqPayload::new(data), RD::McGroupDeleteReq, od),
        ("mc_down", "McClassCSessionReq") => via!(mcast::McClassCSessionReqPayload::new(data), RD::McClassCSessionReq, od),
        ("mc_down", "McClassBSessionReq") => via!(mcast::McClassBSessionReqPayload::new(data), RD::McClassBSessionReq, od),
        ("mc_up", "PackageVersionAns") => via!(mcast::PackageVersionAnsPayload::new(data), RU::PackageVersionAns, obs_mc_up),
        ("mc_up", "McGroupStatusAns") => via!(mcast::McGroupStatusAnsPayload::new(data), RU::McGroupStatusAns, obs_mc_up),
        ("mc_up", "McGroupSetupAns") => via!(mcast::McGroupSetupAnsPayload::new(data), RU::McGroupSetupAns, obs_mc_up),
        ("mc_up", "McGroupDeleteAns") => via!(mcast::McGroupDeleteAnsPayload::new(data), RU::McGroupDeleteAns, obs_mc_up),
        ("mc_up", "McClassCSessionAns") => via!(mcast::McClassCSessionAnsPayload::new(data), RU::McClassCSessionAns, obs_mc_up),
        ("mc_up", "McClassBSessionAns") => via!(mcast::McClassBSessionAnsPayload::new(data), RU::McClassBSessionAns, obs_mc_up),
        other => panic!("no payload constructor for {other:?}"),
    }
}

// ------------------------------------------------------------------------------------------
// Creators.  `set(field, value)` applies the one setter bound to the MacCmds.tla field name:
// returns 1 (accepted) or 0 (refused with Err); a panic is caught by the caller.

pub trait Cr {
    fn set(&mut self, f: &str, v: &Value) -> u8;
    fn built(&self) -> Vec<u8>;
    fn clen(&self) -> usize;
    fn ser(&self) -> &dyn SerializableMacCommand;
}

fn u(v: &Value) -> u8 {
    v.as_u64().expect("u8 argument") as u8
}
fn i(v: &Value) -> i8 {
    v.as_i64().expect("i8 argument") as i8
}
fn bo(v: &Value) -> bool {
    v.as_u64().expect("0/1 argument") == 1
}
pub fn by(v: &Value) -> Vec<u8> {
    v.as_array().expect("byte array").iter().map(|x| x.as_u64().unwrap() as u8).collect()
}
fn pr(v: &Value) -> u32 {
    let a = v.as_array().expect("[hi,lo]");
    ((a[0].as_u64().unwrap() as u32) << 16) | a[1].as_u64().unwrap() as u32
}
fn ok<T, E>(r: Result<T, E>) -> u8 {
    r.is_ok() as u8
}
fn arr<const N: usize>(v: &Value) -> [u8; N] {
    by(v).try_into().expect("array length")
}

macro_rules! cr {
    ($t:ty, |$c:ident, $f:ident, $v:ident| $body:expr) => {
        impl Cr for $t {
            #[allow(unused_variables)]
            fn set(&mut self, f: &str, v: &Value) -> u8 {
                let $c = self;
                let $f = f;
                let $v = v;
                $body
            }
            fn built(&self) -> Vec<u8> {
                self.build().to_vec()
            }
            fn clen(&self) -> usize {
                self.len()
            }
            fn ser(&self) -> &dyn SerializableMacCommand {
                self
            }
        }
    };
}
fn nosetter(f: &str) -> u8 {
    panic!("harness: no setter bound to field {f}")
}

// LoRaWAN MAC, downlink
cr!(mc::LinkCheckAnsCreator, |c, f, v| match f {
    "Margin" => {
        c.set_margin(u(v));
        1
    }
    "GwCnt" => {
        c.set_gateway_count(u(v));
        1
    }
    _ => nosetter(f),
});
cr!(mc::LinkADRReqCreator, |c, f, v| match f {
    "DataRate" => ok(c.set_data_rate(u(v))),
    "TXPower" => ok(c.set_tx_power(u(v))),
    "ChMask" => {
        c.set_channel_mask(arr::<2>(v));
        1
    }
    "Redundancy" => {
        c.set_redundancy(u(v));
        1
    }
    _ => nosetter(f),
});
cr!(mc::DutyCycleReqCreator, |c, f, v| match f {
    "MaxDCycle" => ok(c.set_max_duty_cycle(u(v))),
    _ => nosetter(f),
});
cr!(mc::RXParamSetupReqCreator, |c, f, v| match f {
    "DLsettings" => {
        c.set_dl_settings(u(v));
        1
    }
    "Frequency" => {
        let a = arr::<3>(v);
        c.set_frequency(&a);
        1
    }
    _ => nosetter(f),
});
cr!(mc::DevStatusReqCreator, |c, f, v| nosetter(f));
cr!(mc::NewChannelReqCreator, |c, f, v| match f {
    "ChIndex" => {
        c.set_channel_index(u(v));
        1
    }
    "Freq" => {
        let a = arr::<3>(v);
        c.set_frequency(&a);
        1
    }
    "DrRange" => {
        // every admissible range (max >= min) goes through the typed constructor the API offers, the rest as the raw octet
        let b = u(v);
        if (b >> 4) >= (b & 0x0f) {
            c.set_data_rate_range(lorawan::types::DataRateRange::new_range((b & 0x0f).into(), (b >> 4).into()));
        } else {
            c.set_data_rate_range(b);
        }
        1
    }
    _ => nosetter(f),
});
cr!(mc::RXTimingSetupReqCreator, |c, f, v| match f {
    "Del" => ok(c.set_delay(u(v))),
    _ => nosetter(f),
});
cr!(mc::TXParamSetupReqCreator, |c, f, v| match f {
    "DownlinkDwellTime" => {
        c.set_downlink_dwell_time(bo(v));
        1
    }
    "UplinkDwellTime" => {
        c.set_uplink_dwell_time(bo(v));
        1
    }
    "MaxEIRP" => ok(c.set_max_eirp(u(v))),
    _ => nosetter(f),
});
cr!(mc::DlChannelReqCreator, |c, f, v| match f {
    "ChIndex" => {
        c.set_channel_index(u(v));
        1
    }
    "Freq" => {
        let a = arr::<3>(v);
        c.set_frequency(&a);
        1
    }
    _ => nosetter(f),
});
cr!(mc::DeviceTimeAnsCreator, |c, f, v| match f {
    "Seconds" => {
        c.set_seconds(pr(v));
        1
    }
    "Nanos" => ok(c.set_nano_seconds(pr(v))),
    _ => nosetter(f),
});
// LoRaWAN MAC, uplink
cr!(mc::LinkCheckReqCreator, |c, f, v| nosetter(f));
cr!(mc::LinkADRAnsCreator, |c, f, v| match f {
    "ChannelMaskACK" => {
        c.set_channel_mask_ack(bo(v));
        1
    }
    "DataRateACK" => {
        c.set_data_rate_ack(bo(v));
        1
    }
    "PowerACK" => {
        c.set_tx_power_ack(bo(v));
        1
    }
    _ => nosetter(f),
});
cr!(mc::DutyCycleAnsCreator, |c, f, v| nosetter(f));
cr!(mc::RXParamSetupAnsCreator, |c, f, v| match f {
    "ChannelACK" => {
        c.set_channel_ack(bo(v));
        1
    }
    "RX2DataRateACK" => {
        c.set_rx2_data_rate_ack(bo(v));
        1
    }
    "RX1DRoffsetACK" => {
        c.set_rx1_data_rate_offset_ack(bo(v));
        1
    }
    _ => nosetter(f),
});
cr!(mc::DevStatusAnsCreator, |c, f, v| match f {
    "Battery" => {
        c.set_battery(u(v));
        1
    }
    "Margin" => ok(c.set_margin(i(v))),
    _ => nosetter(f),
});
cr!(mc::NewChannelAnsCreator, |c, f, v| match f {
    "ChannelFrequencyOK" => {
        c.set_channel_frequency_ack(bo(v));
        1
    }
    "DataRateRangeOK" => {
        c.set_data_rate_range_ack(bo(v));
        1
    }
    _ => nosetter(f),
});
cr!(mc::RXTimingSetupAnsCreator, |c, f, v| nosetter(f));
cr!(mc::TXParamSetupAnsCreator, |c, f, v| nosetter(f));
cr!(mc::DlChannelAnsCreator, |c, f, v| match f {
    "ChannelFrequencyOK" => {
        c.set_channel_frequency_ack(bo(v));
        1
    }
    "UplinkFrequencyExists" => {
        c.set_uplink_frequency_exists_ack(bo(v));
        1
    }
    _ => nosetter(f),
});
cr!(mc::DeviceTimeReqCreator, |c, f, v| nosetter(f));
// certification
cr!(cert::DutResetReqCreator, |c, f, v| nosetter(f));
cr!(cert::DutJoinReqCreator, |c, f, v| nosetter(f));
cr!(cert::AdrBitChangeReqCreator, |c, f, v| nosetter(f));
cr!(cert::TxPeriodicityChangeReqCreator, |c, f, v| nosetter(f));
cr!(cert::RxAppCntReqCreator, |c, f, v| nosetter(f));
cr!(cert::LinkCheckReqCreator, |c, f, v| nosetter(f));
cr!(cert::DutVersionsReqCreator, |c, f, v| nosetter(f));
cr!(cert::EchoIncPayloadAnsCreator, |c, f, v| match f {
    "EchoOf" => {
        c.payload(&by(v));
        1
    }
    _ => nosetter(f),
});
cr!(cert::RxAppCntAnsCreator, |c, f, v| match f {
    "RxAppCnt" => {
        c.set_rx_app_cnt(v.as_u64().expect("u16") as u16);
        1
    }
    _ => nosetter(f),
});
cr!(cert::DutVersionsAnsCreator, |c, f, v| match f {
    "Versions" => {
        c.set_versions_raw(arr::<12>(v));
        1
    }
    _ => nosetter(f),
});
// multicast setup
cr!(mcast::PackageVersionReqCreator, |c, f, v| nosetter(f));
cr!(mcast::McGroupStatusReqCreator, |c, f, v| match f {
    "ReqGroupMask" => {
        c.req_group_mask(u(v));
        1
    }
    "ReqGroup" => {
        c.req_group(u(v));
        1
    }
    _ => nosetter(f),
});
cr!(mcast::McGroupSetupReqCreator, |c, f, v| match f {
    "McGroupID" => {
        c.mc_group_id_header(u(v));
        1
    }
    "McAddr" => {
        c.mc_addr(&McAddr::from_wire_bytes(arr::<4>(v)));
        1
    }
    "McKey" => {
        let crypto = DefaultNetworkCrypto::new(&AES128(arr::<16>(&v["kek"])));
        c.mc_key(&crypto, &McKey::from(arr::<16>(&v["key"])));
        1
    }
    "minMcFCount" => {
        c.min_mc_fcount(pr(v));
        1
    }
    "maxMcFCount" => {
        c.max_mc_fcount(pr(v));
        1
    }
    _ => nosetter(f),
});
cr!(mcast::McGroupDeleteReqCreator, |c, f, v| match f {
    "McGroupID" => {
        c.mc_group_id_header(u(v));
        1
    }
    _ => nosetter(f),
});
cr!(mcast::McClassCSessionReqCreator, |c, f, v| nosetter(f));
cr!(mcast::McClassBSessionReqCreator, |c, f, v| nosetter(f));
cr!(mcast::PackageVersionAnsCreator, |c, f, v| match f {
    "PackageIdentifier" => {
        c.package_identifier(u(v));
        1
    }
    "PackageVersion" => {
        c.package_version(u(v));
        1
    }
    _ => nosetter(f),
});
cr!(mcast::McGroupStatusAnsCreator, |c, f, v| match f {
    "NbTotalGroups" => {
        c.nb_total_groups(u(v));
        1
    }
    "Push" => ok(c.push(u(&v["g"]), McAddr::from_wire_bytes(arr::<4>(&v["addr"])))),
    _ => nosetter(f),
});
cr!(mcast::McGroupSetupAnsCreator, |c, f, v| match f {
    "McGroupID" => {
        c.mc_group_id_header(u(v));
        1
    }
    _ => nosetter(f),
});
cr!(mcast::McGroupDeleteAnsCreator, |c, f, v| match f {
    "McGroupID" => {
        c.mc_group_id_header(u(v));
        1
    }
    "McGroupUndefined" => {
        c.mc_group_undefined(bo(v));
        1
    }
    _ => nosetter(f),
});
cr!(mcast::McClassCSessionAnsCreator, |c, f, v| nosetter(f));
cr!(mcast::McClassBSessionAnsCreator, |c, f, v| nosetter(f));

/// (set, command, setter fields).  Commands whose creator is `UnimplementedCreator`
/// (TxFramesCtrlReq, EchoIncPayloadReq: `new()` is `unimplemented!()` by design) are absent.
pub const CREATORS: &[(&str, &str, &[&str])] = &[
    ("mac_down", "LinkCheckAns", &["Margin", "GwCnt"]),
    ("mac_down", "LinkADRReq", &["DataRate", "TXPower", "ChMask", "Redundancy"]),
    ("mac_down", "DutyCycleReq", &["MaxDCycle"]),
    ("mac_down", "RXParamSetupReq", &["DLsettings", "Frequency"]),
    ("mac_down", "DevStatusReq", &[]),
    ("mac_down", "NewChannelReq", &["ChIndex", "Freq", "DrRange"]),
    ("mac_down", "RXTimingSetupReq", &["Del"]),
    ("mac_down", "TXParamSetupReq", &["DownlinkDwellTime", "UplinkDwellTime", "MaxEIRP"]),
    ("mac_down", "DlChannelReq", &["ChIndex", "Freq"]),
    ("mac_down", "DeviceTimeAns", &["Seconds", "Nanos"]),
    ("mac_up", "LinkCheckReq", &[]),
    ("mac_up", "LinkADRAns", &["ChannelMaskACK", "DataRateACK", "PowerACK"]),
    ("mac_up", "DutyCycleAns", &[]),
    ("mac_up", "RXParamSetupAns", &["ChannelACK", "RX2DataRateACK", "RX1DRoffsetACK"]),
    ("mac_up", "DevStatusAns", &["Battery", "Margin"]),
    ("mac_up", "NewChannelAns", &["ChannelFrequencyOK", "DataRateRangeOK"]),
    ("mac_up", "RXTimingSetupAns", &[]),
    ("mac_up", "TXParamSetupAns", &[]),
    ("mac_up", "DlChannelAns", &["ChannelFrequencyOK", "UplinkFrequencyExists"]),
    ("mac_up", "DeviceTimeReq", &[]),
    ("cert_down", "DutResetReq", &[]),
    ("cert_down", "DutJoinReq", &[]),
    ("cert_down", "AdrBitChangeReq", &[]),
    ("cert_down", "TxPeriodicityChangeReq", &[]),
    ("cert_down", "RxAppCntReq", &[]),
    ("cert_down", "LinkCheckReq", &[]),
    ("cert_down", "DutVersionsReq", &[]),
    ("cert_up", "EchoIncPayloadAns", &["EchoOf"]),
    ("cert_up", "RxAppCntAns", &["RxAppCnt"]),
    ("cert_up", "DutVersionsAns", &["Versions"]),
    ("mc_down", "PackageVersionReq", &[]),
    ("mc_down", "McGroupStatusReq", &["ReqGroupMask", "ReqGroup"]),
    ("mc_down", "McGroupSetupReq", &["McGroupID", "McAddr", "McKey", "minMcFCount", "maxMcFCount"]),
    ("mc_down", "McGroupDeleteReq", &["McGroupID"]),
    ("mc_down", "McClassCSessionReq", &[]),
    ("mc_down", "McClassBSessionReq", &[]),
    ("mc_up", "PackageVersionAns", &["PackageIdentifier", "PackageVersion"]),
    ("mc_up", "McGroupStatusAns", &["NbTotalGroups", "Push"]),
    ("mc_up", "McGroupSetupAns", &["McGroupID"]),
    ("mc_up", "McGroupDeleteAns", &["McGroupID", "McGroupUndefined"]),
    ("mc_up", "McClassCSessionAns", &[]),
    ("mc_up", "McClassBSessionAns", &[]),
];

pub fn make_creator(set: &str, name: &str) -> Box<dyn Cr> {
    match (set, name) {
        ("mac_down", "LinkCheckAns") => Box::new(mc::LinkCheckAnsCreator::new()),
        ("mac_down", "LinkADRReq") => Box::new(mc::LinkADRReqCreator::new()),
        ("mac_down", "DutyCycleReq") => Box::new(mc::DutyCycleReqCreator::new()),
        ("mac_down", "RXParamSetupReq") => Box::new(mc::RXParamSetupReqCreator::new()),
        ("mac_down", "DevStatusReq") => Box::new(mc::DevStatusReqCreator::new()),
        ("mac_down", "NewChannelReq") => Box::new(mc::NewChannelReqCreator::new()),
        ("mac_down", "RXTimingSetupReq") => Box::new(mc::RXTimingSetupReqCreator::new()),
        ("mac_down", "TXParamSetupReq") => Box::new(mc::TXParamSetupReqCreator::new()),
        ("mac_down", "DlChannelReq") => Box::new(mc::DlChannelReqCreator::new()),
        ("mac_down", "DeviceTimeAns") => Box::new(mc::DeviceTimeAnsCreator::new()),
        ("mac_up", "LinkCheckReq") => Box::new(mc::LinkCheckReqCreator::new()),
        ("mac_up", "LinkADRAns") => Box::new(mc::LinkADRAnsCreator::new()),
        ("mac_up", "DutyCycleAns") => Box::new(mc::DutyCycleAnsCreator::new()),
        ("mac_up", "RXParamSetupAns") => Box::new(mc::RXParamSetupAnsCreator::new()),
        ("mac_up", "DevStatusAns") => Box::new(mc::DevStatusAnsCreator::new()),
        ("mac_up", "NewChannelAns") => Box::new(mc::NewChannelAnsCreator::new()),
        ("mac_up", "RXTimingSetupAns") => Box::new(mc::RXTimingSetupAnsCreator::new()),
        ("mac_up", "TXParamSetupAns") => Box::new(mc::TXParamSetupAnsCreator::new()),
        ("mac_up", "DlChannelAns") => Box::new(mc::DlChannelAnsCreator::new()),
        ("mac_up", "DeviceTimeReq") => Box::new(mc::DeviceTimeReqCreator::new()),
        ("cert_down", "DutResetReq") => Box::new(cert::DutResetReqCreator::new()),
        ("cert_down", "DutJoinReq") => Box::new(cert::DutJoinReqCreator::new()),
        ("cert_down", "AdrBitChangeReq") => Box::new(cert::AdrBitChangeReqCreator::new()),
        ("cert_down", "TxPeriodicityChangeReq") => Box::new(cert::TxPeriodicityChangeReqCreator::new()),
        ("cert_down", "RxAppCntReq") => Box::new(cert::RxAppCntReqCreator::new()),
        ("cert_down", "LinkCheckReq") => Box::new(cert::LinkCheckReqCreator::new()),
        ("cert_down", "DutVersionsReq") => Box::new(cert::DutVersionsReqCreator::new()),
        ("cert_up", "EchoIncPayloadAns") => Box::new(cert::EchoIncPayloadAnsCreator::new()),
        ("cert_up", "RxAppCntAns") => Box::new(cert::RxAppCntAnsCreator::new()),
        ("cert_up", "DutVersionsAns") => Box::new(cert::DutVersionsAnsCreator::new()),
        ("mc_down", "PackageVersionReq") => Box::new(mcast::PackageVersionReqCreator::new()),
        ("mc_down", "McGroupStatusReq") => Box::new(mcast::McGroupStatusReqCreator::new()),
        ("mc_down", "McGroupSetupReq") => Box::new(mcast::McGroupSetupReqCreator::new()),
        ("mc_down", "McGroupDeleteReq") => Box::new(mcast::McGroupDeleteReqCreator::new()),
        ("mc_down", "McClassCSessionReq") => Box::new(mcast::McClassCSessionReqCreator::new()),
        ("mc_down", "McClassBSessionReq") => Box::new(mcast::McClassBSessionReqCreator::new()),
        ("mc_up", "PackageVersionAns") => Box::new(mcast::PackageVersionAnsCreator::new()),
        ("mc_up", "McGroupStatusAns") => Box::new(mcast::McGroupStatusAnsCreator::new()),
        ("mc_up", "McGroupSetupAns") => Box::new(mcast::McGroupSetupAnsCreator::new()),
        ("mc_up", "McGroupDeleteAns") => Box::new(mcast::McGroupDeleteAnsCreator::new()),
        ("mc_up", "McClassCSessionAns") => Box::new(mcast::McClassCSessionAnsCreator::new()),
        ("mc_up", "McClassBSessionAns") => Box::new(mcast::McClassBSessionAnsCreator::new()),
        other => panic!("no creator for {other:?}"),
    }
}

/// Apply the logged setter calls; returns (creator, per-call outcome 1/0/2, panic messages).
pub fn run_setters(set: &str, name: &str, sets: &[(String, Value)]) -> (Box<dyn Cr>, Vec<u8>, Vec<String>) {
    let mut c = make_creator(set, name);
    let mut rs = Vec::new();
    let mut panics = Vec::new();
    for (f, v) in sets {
        match catch(|| c.set(f, v)) {
            Ok(r) => rs.push(r),
            Err(m) => {
                rs.push(2);
                panics.push(format!("{name}.{f}: {m}"));
            }
        }
    }
    (c, rs, panics)
}

pub fn sets_json(sets: &[(String, Value)], rs: &[u8]) -> Value {
    Value::Array(sets.iter().zip(rs).map(|((f, v), r)| json!({"f": f, "v": v, "r": r})).collect())
}
