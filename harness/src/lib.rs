pub mod trace;
pub mod cli;
pub mod mock;
pub mod modrec;
pub mod codecrec;
pub mod macsim;
pub mod macdrv;
pub mod phydrv;
