pub mod trace;
pub mod cli;
pub mod modrec;
