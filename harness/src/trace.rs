//! ndjson trace writer (one JSON object per line).
use serde_json::Value;
use std::fs::File;
use std::io::{BufWriter, Write};

pub struct TraceWriter {
    out: BufWriter<File>,
    /// path of the file (the watchdog appends to it)
    pub path: String,
    /// flush after every event (a watchdog may end the process at any time)
    pub sync: bool,
    pub lines: u64,
    /// when set, events are dropped (silent re-execution of a history prefix)
    pub mute: bool,
}

impl TraceWriter {
    pub fn create(path: &str) -> Self {
        let f = File::create(path).unwrap_or_else(|e| panic!("cannot create {path}: {e}"));
        Self { out: BufWriter::new(f), path: path.to_string(), sync: false, lines: 0, mute: false }
    }
    pub fn emit(&mut self, v: &Value) {
        if self.mute {
            return;
        }
        serde_json::to_writer(&mut self.out, v).unwrap();
        self.out.write_all(b"\n").unwrap();
        if self.sync {
            self.out.flush().unwrap();
        }
        self.lines += 1;
    }
    pub fn finish(mut self) -> u64 {
        self.out.flush().unwrap();
        self.lines
    }
}

/// 32-bit value as [hi16, lo16] (TLC integers are 32-bit signed).
pub fn u32_pair(v: u32) -> Value {
    serde_json::json!([(v >> 16) as u32, v & 0xFFFF])
}

pub fn bytes(b: &[u8]) -> Value {
    Value::Array(b.iter().map(|x| Value::from(*x as u32)).collect())
}
