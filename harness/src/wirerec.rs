//! Recorder for the SX126x / SX127x drivers at the SPI-byte level (properties C13, C17, C18).
//!
//! Drivers/recorders only, NO oracle logic: the real lora-phy drivers (and Semtech's SWL2001
//! reference driver through `smtc-modem-cores`) are called with arguments over an emulated SPI
//! device whose chip memory is primed by the harness; every SPI transaction (all bytes clocked out,
//! zeros during reads, and the bytes read back), results and panics are logged.  All judgement is in
//! spec/WireTrace.tla (Sx126xWire.tla, Sx127xWire.tla, RxFetch.tla).
use crate::cli::{catch, Args, Shards};
use crate::mock::{block_on, MockDelay};
use embedded_hal::spi::{ErrorKind, ErrorType, Operation};
use embedded_hal_async::delay::DelayNs;
use lora_phy::mod_params::{PacketParams, PacketStatus, RadioError, RadioMode};
use lora_phy::mod_traits::{InterfaceVariant, RadioKind};
use lora_phy::{sx126x, sx127x, LoRa, RxMode};
use serde_json::{json, Value};
use std::cell::RefCell;
use std::collections::HashMap;
use std::rc::Rc;

// ------------------------------------------------------------------ emulated SPI bus

/// Chip-side memory that answers reads and absorbs writes (environment, not oracle).
pub trait ChipEnv {
    /// Fill `r` for a read that starts after `w` has been clocked out.
    fn read(&mut self, w: &[u8], r: &mut [u8]);
    /// A complete transaction `w` (zeros where reads happened) has ended.
    fn commit(&mut self, w: &[u8], had_read: bool);
}

#[derive(Clone, Debug)]
pub struct Txn {
    /// every byte clocked out on MOSI, in order (zeros during reads)
    pub w: Vec<u8>,
    /// bytes read back (concatenated over the read operations)
    pub r: Vec<u8>,
}

pub struct Wire<E> {
    pub env: E,
    pub log: Vec<Txn>,
}

pub struct Spi<E>(pub Rc<RefCell<Wire<E>>>);

impl<E> Clone for Spi<E> {
    fn clone(&self) -> Self {
        Spi(self.0.clone())
    }
}

impl<E: ChipEnv> Spi<E> {
    pub fn new(env: E) -> Self {
        Spi(Rc::new(RefCell::new(Wire { env, log: Vec::new() })))
    }
    pub fn take_log(&self) -> Vec<Txn> {
        std::mem::take(&mut self.0.borrow_mut().log)
    }
    pub fn with_env<T>(&self, f: impl FnOnce(&mut E) -> T) -> T {
        f(&mut self.0.borrow_mut().env)
    }
    fn run(&mut self, operations: &mut [Operation<'_, u8>]) {
        let mut wire = self.0.borrow_mut();
        let mut w: Vec<u8> = Vec::new();
        let mut r: Vec<u8> = Vec::new();
        let mut had_read = false;
        for op in operations.iter_mut() {
            match op {
                Operation::Write(b) => w.extend_from_slice(b),
                Operation::Read(b) => {
                    had_read = true;
                    wire.env.read(&w, b);
                    r.extend_from_slice(b);
                    w.extend(std::iter::repeat(0u8).take(b.len()));
                }
                Operation::Transfer(rd, wr) => {
                    had_read = true;
                    let before = w.clone();
                    w.extend_from_slice(wr);
                    wire.env.read(&before, rd);
                    r.extend_from_slice(rd);
                }
                Operation::TransferInPlace(b) => {
                    had_read = true;
                    let before = w.clone();
                    w.extend_from_slice(b);
                    wire.env.read(&before, b);
                    r.extend_from_slice(b);
                }
                Operation::DelayNs(_) => {}
            }
        }
        wire.env.commit(&w, had_read);
        wire.log.push(Txn { w, r });
    }
}

#[derive(Debug)]
pub struct SpiErr;
impl embedded_hal::spi::Error for SpiErr {
    fn kind(&self) -> ErrorKind {
        ErrorKind::Other
    }
}
impl<E> ErrorType for Spi<E> {
    type Error = SpiErr;
}
/// blocking device: used by the reference driver (smtc-modem-cores)
impl<E: ChipEnv> embedded_hal::spi::SpiDevice<u8> for Spi<E> {
    fn transaction(&mut self, operations: &mut [Operation<'_, u8>]) -> Result<(), SpiErr> {
        self.run(operations);
        Ok(())
    }
}
/// async device: used by lora-phy
impl<E: ChipEnv> embedded_hal_async::spi::SpiDevice<u8> for Spi<E> {
    async fn transaction(&mut self, operations: &mut [Operation<'_, u8>]) -> Result<(), SpiErr> {
        self.run(operations);
        Ok(())
    }
}

/// Control lines: always ready; `await_irq` returns at once but gives up after a budget so that a
/// driver that never sees its interrupt flag ends with an error instead of spinning forever.
pub struct Iv {
    pub irq_waits: u32,
}
impl Iv {
    pub fn new() -> Self {
        Iv { irq_waits: 0 }
    }
}
impl InterfaceVariant for Iv {
    async fn reset(&mut self, _delay: &mut impl DelayNs) -> Result<(), RadioError> {
        Ok(())
    }
    async fn wait_on_busy(&mut self) -> Result<(), RadioError> {
        Ok(())
    }
    async fn await_irq(&mut self) -> Result<(), RadioError> {
        self.irq_waits += 1;
        if self.irq_waits > 50 { Err(RadioError::Irq) } else { Ok(()) }
    }
    async fn enable_rf_switch_rx(&mut self) -> Result<(), RadioError> {
        Ok(())
    }
    async fn enable_rf_switch_tx(&mut self) -> Result<(), RadioError> {
        Ok(())
    }
    async fn disable_rf_switch(&mut self) -> Result<(), RadioError> {
        Ok(())
    }
}

// ------------------------------------------------------------------ chip memories

/// position-dependent fill of the chips' data buffer / FIFO (same definition as RxFetch!Pat)
pub fn pat(i: usize) -> u8 {
    ((37 * i + 11) % 256) as u8
}

/// SX126x: command interface with a register map, a 256-byte data buffer and status answers.
pub struct Env126 {
    pub regs: HashMap<u16, u8>,
    pub buf: [u8; 256],
    pub status: u8,
    pub rxlen: u8,
    pub rxoff: u8,
    pub irq: u16,
    pub pkt: [u8; 3],
    pub rssi: u8,
}
impl Env126 {
    pub fn new() -> Self {
        let mut buf = [0u8; 256];
        for (i, b) in buf.iter_mut().enumerate() {
            *b = pat(i);
        }
        Env126 { regs: HashMap::new(), buf, status: 0x24, rxlen: 0, rxoff: 0, irq: 0, pkt: [0; 3], rssi: 0 }
    }
    fn reg(&self, a: u16) -> u8 {
        *self.regs.get(&a).unwrap_or(&0)
    }
    /// byte the chip drives on MISO at clock position `p` of the transaction that started with `w`
    fn at(&self, w: &[u8], p: usize) -> u8 {
        let op = w[0];
        let tab = |t: &[u8]| t.get(p).copied().unwrap_or(0);
        match op {
            0x13 => tab(&[0, self.status, self.rxlen, self.rxoff]),
            0x12 => tab(&[0, self.status, (self.irq >> 8) as u8, self.irq as u8]),
            0x14 => tab(&[0, self.status, self.pkt[0], self.pkt[1], self.pkt[2]]),
            0x15 => tab(&[0, self.status, self.rssi]),
            0x17 => tab(&[0, self.status, 0, 0]),
            0x1D => {
                if p >= 4 && w.len() >= 3 {
                    let a = ((w[1] as u16) << 8) | w[2] as u16;
                    self.reg(a.wrapping_add((p - 4) as u16))
                } else {
                    self.status
                }
            }
            0x1E => {
                if p >= 3 && w.len() >= 2 {
                    self.buf[(w[1] as usize + (p - 3)) % 256]
                } else {
                    self.status
                }
            }
            _ => self.status,
        }
    }
}
impl ChipEnv for Env126 {
    fn read(&mut self, w: &[u8], r: &mut [u8]) {
        if w.is_empty() {
            r.fill(0);
            return;
        }
        for j in 0..r.len() {
            r[j] = self.at(w, w.len() + j);
        }
    }
    fn commit(&mut self, w: &[u8], had_read: bool) {
        if had_read || w.is_empty() {
            return;
        }
        if w[0] == 0x0D && w.len() >= 3 {
            let a = ((w[1] as u16) << 8) | w[2] as u16;
            for (i, b) in w[3..].iter().enumerate() {
                self.regs.insert(a.wrapping_add(i as u16), *b);
            }
        }
    }
}

/// SX127x: register file (7-bit addresses, auto-increment) and a 256-byte FIFO behind register 0.
pub struct Env127 {
    pub regs: [u8; 128],
    pub fifo: [u8; 256],
    /// a packet "arrives" (RxDone is raised) as soon as the chip is put into a receive mode
    pub rx_arrives: bool,
}
impl Env127 {
    pub fn new() -> Self {
        let mut fifo = [0u8; 256];
        for (i, b) in fifo.iter_mut().enumerate() {
            *b = pat(i);
        }
        let mut regs = [0u8; 128];
        regs[0x01] = 0x80; // LoRa, sleep
        regs[0x42] = 0x12;
        Env127 { regs, fifo, rx_arrives: false }
    }
}
impl ChipEnv for Env127 {
    fn read(&mut self, w: &[u8], r: &mut [u8]) {
        if w.is_empty() {
            r.fill(0);
            return;
        }
        let addr = (w[0] & 0x7f) as usize;
        for j in 0..r.len() {
            if addr == 0 {
                let p = self.regs[0x0D];
                r[j] = self.fifo[p as usize];
                self.regs[0x0D] = p.wrapping_add(1);
            } else {
                r[j] = self.regs[(addr + j) & 0x7f];
            }
        }
    }
    fn commit(&mut self, w: &[u8], had_read: bool) {
        if had_read || w.is_empty() || w[0] & 0x80 == 0 {
            return;
        }
        let addr = (w[0] & 0x7f) as usize;
        for (i, b) in w[1..].iter().enumerate() {
            if addr == 0 {
                let p = self.regs[0x0D];
                self.fifo[p as usize] = *b;
                self.regs[0x0D] = p.wrapping_add(1);
                continue;
            }
            let a = (addr + i) & 0x7f;
            if a == 0x12 {
                self.regs[a] &= !*b; // write 1 to clear
            } else {
                self.regs[a] = *b;
                if a == 0x01 && self.rx_arrives && matches!(*b & 0x07, 5 | 6) {
                    self.regs[0x12] |= 0x40;
                }
            }
        }
    }
}

// ------------------------------------------------------------------ helpers

fn txns_json(log: &[Txn]) -> Value {
    Value::Array(
        log.iter()
            .map(|t| Value::Array(t.w.iter().map(|b| Value::from(*b as u32)).collect()))
            .collect(),
    )
}

fn res_str<T>(r: &Result<Result<T, RadioError>, String>) -> &'static str {
    match r {
        Ok(Ok(_)) => "ok",
        Ok(Err(_)) => "err",
        Err(_) => "panic",
    }
}

fn sel(a: &Args, key: &str, chip: &str) -> bool {
    a.get(key).map(|v| v.split(',').any(|x| x == chip)).unwrap_or(true)
}

pub type R126 = sx126x::Sx126x<Spi<Env126>, Iv, sx126x::Sx1262>;
pub type R127<C> = sx127x::Sx127x<Spi<Env127>, Iv, C>;

fn new_1262(spi: &Spi<Env126>) -> R126 {
    sx126x::Sx126x::new(
        spi.clone(),
        Iv::new(),
        sx126x::Config { chip: sx126x::Sx1262, tcxo_ctrl: None, use_dcdc: false, rx_boost: false },
    )
}
fn new_1276(spi: &Spi<Env127>, tx_boost: bool) -> R127<sx127x::Sx1276> {
    sx127x::Sx127x::new(
        spi.clone(),
        Iv::new(),
        sx127x::Config { chip: sx127x::Sx1276, tcxo_used: false, tx_boost, rx_boost: false },
    )
}
fn new_1272(spi: &Spi<Env127>, tx_boost: bool) -> R127<sx127x::Sx1272> {
    sx127x::Sx127x::new(
        spi.clone(),
        Iv::new(),
        sx127x::Config { chip: sx127x::Sx1272, tcxo_used: false, tx_boost, rx_boost: false },
    )
}

// ================================================================== C18: fetching a received packet

const CANARY_A: u8 = 0xA5;
const CANARY_B: u8 = 0x5A;

/// Lossless run-length description of the caller's buffer after the call, from two runs with
/// different canaries: [kind, start, count] with kind 0 = untouched cells, kind 1 = cells holding
/// the chip-buffer bytes of addresses start, start+1, ... (mod 256).
fn segs(run_a: &[u8], run_b: &[u8]) -> Vec<[u32; 3]> {
    let mut inv = [0usize; 256];
    for i in 0..256 {
        inv[pat(i) as usize] = i;
    }
    let mut out: Vec<[u32; 3]> = Vec::new();
    for i in 0..run_a.len() {
        let untouched = run_a[i] == CANARY_A && run_b[i] == CANARY_B;
        if untouched {
            match out.last_mut() {
                Some(s) if s[0] == 0 => s[2] += 1,
                _ => out.push([0, 0, 1]),
            }
        } else {
            let v = if run_a[i] != CANARY_A { run_a[i] } else { run_b[i] };
            let idx = inv[v as usize] as u32;
            match out.last_mut() {
                Some(s) if s[0] == 1 && (s[1] + s[2]) % 256 == idx => s[2] += 1,
                _ => out.push([1, idx, 1]),
            }
        }
    }
    out
}

#[derive(Clone, Copy)]
struct FetchCase {
    hdr: bool,
    replen: u8,
    cfglen: u8,
    off: u8,
    status: u8,
    bufsz: usize,
}

/// (panic message | Ok(len) | Err) and the caller's buffer afterwards
type FetchOut = (Result<Result<usize, String>, String>, Vec<u8>);

fn pkt_params(c: &FetchCase) -> PacketParams {
    PacketParams { preamble_length: 8, implicit_header: c.hdr, payload_length: c.cfglen, crc_on: true, iq_inverted: false }
}

fn env126_for(c: &FetchCase) -> Env126 {
    let mut e = Env126::new();
    e.status = c.status;
    e.rxlen = c.replen;
    e.rxoff = c.off;
    e.irq = 0x0002; // RxDone
    e.pkt = [120, 20, 118];
    e.regs.insert(0x0702, c.cfglen); // the chip's payload-length register holds the configured length
    e
}
fn env127_for(c: &FetchCase) -> Env127 {
    let mut e = Env127::new();
    e.regs[0x13] = c.replen;
    e.regs[0x10] = c.off;
    e.regs[0x22] = c.cfglen;
    e.regs[0x19] = 20;
    e.regs[0x1a] = 90;
    e.regs[0x06] = 0xD9; // 868.1 MHz
    e.regs[0x07] = 0x06;
    e.regs[0x08] = 0x66;
    e
}

fn fetch_direct<RK: RadioKind>(rk: &mut RK, c: &FetchCase, canary: u8) -> FetchOut {
    let pkt = pkt_params(c);
    let mut buf = vec![canary; c.bufsz];
    let r = catch(|| block_on(rk.get_rx_payload(&pkt, &mut buf[..])));
    (r.map(|x| x.map(|l| l as usize).map_err(|e| format!("{e:?}"))), buf)
}

fn fetch_lora<RK: RadioKind>(rk: RK, c: &FetchCase, canary: u8, arm: &dyn Fn()) -> FetchOut {
    let pkt = pkt_params(c);
    let mut buf = vec![canary; c.bufsz];
    let r = catch(|| {
        block_on(async {
            let mut lora = LoRa::new(rk, true, MockDelay).await?;
            let mp = lora.create_modulation_params(
                lora_phy::mod_params::SpreadingFactor::_7,
                lora_phy::mod_params::Bandwidth::_125KHz,
                lora_phy::mod_params::CodingRate::_4_5,
                868_100_000,
            )?;
            lora.prepare_for_rx(RxMode::Continuous, &mp, &pkt).await?;
            arm();
            lora.complete_rx(&pkt, &mut buf[..]).await.map(|(l, _)| l as usize)
        })
    });
    (r.map(|x| x.map_err(|e| format!("{e:?}"))), buf)
}

fn fetch_lorawan<RK: RadioKind>(rk: RK, c: &FetchCase, canary: u8, arm: &dyn Fn()) -> FetchOut {
    use lorawan_device::async_device::radio::{PhyRxTx, RfConfig, RxConfig, RxMode as LwRxMode, RxStatus};
    let mut buf = vec![canary; c.bufsz];
    let r = catch(|| {
        block_on(async {
            let lora = LoRa::new(rk, true, MockDelay).await.map_err(|e| format!("{e:?}"))?;
            let mut radio: lora_phy::lorawan_radio::LorawanRadio<RK, MockDelay, 14> = lora.into();
            let bb = lora_modulation::BaseBandModulationParams::new(
                lora_modulation::SpreadingFactor::_7,
                lora_modulation::Bandwidth::_125KHz,
                lora_modulation::CodingRate::_4_5,
            );
            let cfg = RxConfig {
                rf: RfConfig { frequency: 868_100_000, bb, max_payload_len: 255 },
                mode: LwRxMode::Single { ms: 20 },
            };
            radio.setup_rx(cfg).await.map_err(|e| format!("{e:?}"))?;
            arm();
            match radio.rx_single(&mut buf[..]).await {
                Ok(RxStatus::Rx(len, _)) => Ok(len),
                Ok(RxStatus::RxTimeout) => Err("RxTimeout".to_string()),
                Err(e) => Err(format!("{e:?}")),
            }
        })
    });
    (r, buf)
}

fn run_fetch(chip: &str, path: &str, c: &FetchCase, canary: u8) -> FetchOut {
    match chip {
        "sx1262" => {
            let spi = Spi::new(env126_for(c));
            match path {
                "direct" => fetch_direct(&mut new_1262(&spi), c, canary),
                "lora" => fetch_lora(new_1262(&spi), c, canary, &|| {}),
                _ => fetch_lorawan(new_1262(&spi), c, canary, &|| {}),
            }
        }
        "sx1276" | "sx1272" => {
            let spi = Spi::new(env127_for(c));
            let s2 = spi.clone();
            let arm = move || {
                s2.with_env(|e| {
                    e.regs[0x12] |= 0x40;
                    e.rx_arrives = true;
                })
            };
            match (chip, path) {
                ("sx1276", "direct") => fetch_direct(&mut new_1276(&spi, false), c, canary),
                ("sx1276", "lora") => fetch_lora(new_1276(&spi, false), c, canary, &arm),
                ("sx1276", _) => fetch_lorawan(new_1276(&spi, false), c, canary, &arm),
                (_, "direct") => fetch_direct(&mut new_1272(&spi, false), c, canary),
                (_, "lora") => fetch_lora(new_1272(&spi, false), c, canary, &arm),
                (_, _) => fetch_lorawan(new_1272(&spi, false), c, canary, &arm),
            }
        }
        other => panic!("unknown chip {other}"),
    }
}

/// one case: [replen, cfglen, panic, ok, len, segs]
fn fetch_case(chip: &str, path: &str, c: &FetchCase) -> Value {
    let (ra, ba) = run_fetch(chip, path, c, CANARY_A);
    let (_rb, bb) = run_fetch(chip, path, c, CANARY_B);
    let (panic, ok, len) = match &ra {
        Err(_) => (1, 0, 0usize),
        Ok(Ok(l)) => (0, 1, *l),
        Ok(Err(_)) => (0, 0, 0),
    };
    json!([c.replen, c.cfglen, panic, ok, len, segs(&ba, &bb)])
}

/// `vh fetch`: C18.  One event per (chip, path, header mode, offset, buffer size, status) with the
/// outcomes for a list of lengths.  thorough: all 256 lengths x 256 offsets on the direct path.
pub fn vh_fetch(a: &Args) {
    let mut out = Shards::create(&a.out, "fetch", a.shards);
    let all: Vec<u32> = (0..=255).collect();
    let grid: Vec<u32> = vec![0, 1, 2, 11, 12, 13, 31, 63, 64, 65, 100, 127, 128, 200, 254, 255];
    let bufsizes = [0usize, 1, 12, 64, 255, 256];
    let mut cases: u64 = 0;
    // replay of one case: only=chip,path,hdr,off,bufsz,status,replen,cfglen
    if let Some(o) = a.get("only") {
        let f: Vec<&str> = o.split(',').collect();
        let n = |i: usize| f[i].parse::<u32>().unwrap();
        let c = FetchCase { hdr: n(2) == 1, off: n(3) as u8, bufsz: n(4) as usize, status: n(5) as u8, replen: n(6) as u8, cfglen: n(7) as u8 };
        out.emit(&json!({"ev":"fetch","chip":f[0],"path":f[1],"hdr":n(2),"off":n(3),"bufsz":n(4),"status":n(5),
                         "cases":[fetch_case(f[0], f[1], &c)]}));
        println!("events={} cases=1", out.finish());
        return;
    }
    for chip in ["sx1262", "sx1276", "sx1272"] {
        if !sel(a, "chips", chip) {
            continue;
        }
        for path in ["direct", "lora", "lorawan"] {
            if !sel(a, "paths", path) {
                continue;
            }
            let exhaustive = a.thorough && path == "direct";
            let (lens, offs) = if exhaustive { (&all, &all) } else { (&grid, &grid) };
            // the status byte only exists on the SX126x command interface
            let statuses: Vec<u8> = if chip == "sx1262" {
                if path == "direct" {
                    if a.thorough { (0..8u8).map(|s| 0x20 | (s << 1)).chain([0x00, 0xFF, 0x54, 0x0B]).collect() } else { vec![0x24, 0x26, 0x28, 0x2A, 0x2C, 0x00, 0xFF] }
                } else {
                    vec![0x24, 0x2A]
                }
            } else {
                vec![0]
            };
            // the LoRaWAN adapter always receives with an explicit header
            let hdrs: &[bool] = if path == "lorawan" { &[false] } else { &[false, true] };
            for &hdr in hdrs {
                for &bufsz in &bufsizes {
                    for &status in &statuses {
                        for &off in offs {
                            let mut cs: Vec<Value> = Vec::with_capacity(lens.len());
                            for &l in lens {
                                // explicit header: the length axis is the chip-reported length (the
                                // configured one is a decoy); implicit: the axis is the configured
                                // length and the chip-reported length is the decoy
                                let decoy = ((l + 77) % 256) as u8;
                                let c = if hdr {
                                    FetchCase { hdr, replen: decoy, cfglen: l as u8, off: off as u8, status, bufsz }
                                } else {
                                    FetchCase { hdr, replen: l as u8, cfglen: decoy, off: off as u8, status, bufsz }
                                };
                                cs.push(fetch_case(chip, path, &c));
                                cases += 1;
                            }
                            out.emit(&json!({"ev":"fetch","chip":chip,"path":path,"hdr":hdr as u32,"off":off,
                                             "bufsz":bufsz,"status":status,"cases":cs}));
                        }
                    }
                }
            }
        }
    }
    println!("events={} cases={}", out.finish(), cases);
}

#[allow(dead_code)]
fn _unused(_: PacketStatus, _: RadioMode, _: Value) {}

// ================================================================== C17 / C13 (filled in below)
pub fn vh_decode(_a: &Args) {
    eprintln!("decode: not built yet");
    std::process::exit(2);
}
pub fn vh_wire(_a: &Args) {
    eprintln!("wire: not built yet");
    std::process::exit(2);
}
