//! Recorder for the SX126x / SX127x drivers at the SPI-byte level (properties C13, C17, C18).
//!
//! Drivers/recorders only, NO oracle logic: the real lora-phy drivers (and Semtech's SWL2001
//! reference driver through `smtc-modem-cores`) are called with arguments over an emulated SPI
//! device whose chip memory is primed by the harness; every SPI transaction (all bytes clocked out,
//! zeros during reads, and the bytes read back), results and panics are logged.  All judgement is in
//! spec/WireTrace.tla (Sx126xWire.tla, Sx127xWire.tla, RxFetch.tla).
use crate::cli::{catch, Args, Shards};
use crate::mock::{block_on, MockDelay};
use embedded_hal::spi::{ErrorKind, ErrorType, Operation};
use embedded_hal_async::delay::DelayNs;
use lora_phy::mod_params::{PacketParams, PacketStatus, RadioError, RadioMode};
use lora_phy::mod_traits::{InterfaceVariant, RadioKind};
use lora_phy::{sx126x, sx127x, LoRa, RxMode};
use serde_json::{json, Value};
use std::cell::RefCell;
use std::collections::HashMap;
use std::rc::Rc;

// ------------------------------------------------------------------ emulated SPI bus

/// Chip-side memory that answers reads and absorbs writes (environment, not oracle).
pub trait ChipEnv {
    /// Fill `r` for a read that starts after `w` has been clocked out.
    fn read(&mut self, w: &[u8], r: &mut [u8]);
    /// A complete transaction `w` (zeros where reads happened) has ended.
    fn commit(&mut self, w: &[u8], had_read: bool);
}

#[derive(Clone, Debug)]
pub struct Txn {
    /// every byte clocked out on MOSI, in order (zeros during reads)
    pub w: Vec<u8>,
    /// bytes read back (concatenated over the read operations)
    pub r: Vec<u8>,
}

pub struct Wire<E> {
    pub env: E,
    pub log: Vec<Txn>,
}

pub struct Spi<E>(pub Rc<RefCell<Wire<E>>>);

impl<E> Clone for Spi<E> {
    fn clone(&self) -> Self {
        Spi(self.0.clone())
    }
}

impl<E: ChipEnv> Spi<E> {
    pub fn new(env: E) -> Self {
        Spi(Rc::new(RefCell::new(Wire { env, log: Vec::new() })))
    }
    pub fn take_log(&self) -> Vec<Txn> {
        std::mem::take(&mut self.0.borrow_mut().log)
    }
    pub fn with_env<T>(&self, f: impl FnOnce(&mut E) -> T) -> T {
        f(&mut self.0.borrow_mut().env)
    }
    fn run(&mut self, operations: &mut [Operation<'_, u8>]) {
        let mut wire = self.0.borrow_mut();
        let mut w: Vec<u8> = Vec::new();
        let mut r: Vec<u8> = Vec::new();
        let mut had_read = false;
        for op in operations.iter_mut() {
            match op {
                Operation::Write(b) => w.extend_from_slice(b),
                Operation::Read(b) => {
                    had_read = true;
                    wire.env.read(&w, b);
                    r.extend_from_slice(b);
                    w.extend(std::iter::repeat(0u8).take(b.len()));
                }
                Operation::Transfer(rd, wr) => {
                    had_read = true;
                    let before = w.clone();
                    w.extend_from_slice(wr);
                    wire.env.read(&before, rd);
                    r.extend_from_slice(rd);
                }
                Operation::TransferInPlace(b) => {
                    had_read = true;
                    let before = w.clone();
                    w.extend_from_slice(b);
                    wire.env.read(&before, b);
                    r.extend_from_slice(b);
                }
                Operation::DelayNs(_) => {}
            }
        }
        wire.env.commit(&w, had_read);
        wire.log.push(Txn { w, r });
    }
}

#[derive(Debug)]
pub struct SpiErr;
impl embedded_hal::spi::Error for SpiErr {
    fn kind(&self) -> ErrorKind {
        ErrorKind::Other
    }
}
impl<E> ErrorType for Spi<E> {
    type Error = SpiErr;
}
/// blocking device: used by the reference driver (smtc-modem-cores)
impl<E: ChipEnv> embedded_hal::spi::SpiDevice<u8> for Spi<E> {
    fn transaction(&mut self, operations: &mut [Operation<'_, u8>]) -> Result<(), SpiErr> {
        self.run(operations);
        Ok(())
    }
}
/// async device: used by lora-phy
impl<E: ChipEnv> embedded_hal_async::spi::SpiDevice<u8> for Spi<E> {
    async fn transaction(&mut self, operations: &mut [Operation<'_, u8>]) -> Result<(), SpiErr> {
        self.run(operations);
        Ok(())
    }
}

/// Control lines: always ready; `await_irq` returns at once but gives up after a budget so that a
/// driver that never sees its interrupt flag ends with an error instead of spinning forever.
pub struct Iv {
    pub irq_waits: u32,
}
impl Iv {
    pub fn new() -> Self {
        Iv { irq_waits: 0 }
    }
}
impl InterfaceVariant for Iv {
    async fn reset(&mut self, _delay: &mut impl DelayNs) -> Result<(), RadioError> {
        Ok(())
    }
    async fn wait_on_busy(&mut self) -> Result<(), RadioError> {
        Ok(())
    }
    async fn await_irq(&mut self) -> Result<(), RadioError> {
        self.irq_waits += 1;
        if self.irq_waits > 50 { Err(RadioError::Irq) } else { Ok(()) }
    }
    async fn enable_rf_switch_rx(&mut self) -> Result<(), RadioError> {
        Ok(())
    }
    async fn enable_rf_switch_tx(&mut self) -> Result<(), RadioError> {
        Ok(())
    }
    async fn disable_rf_switch(&mut self) -> Result<(), RadioError> {
        Ok(())
    }
}

// ------------------------------------------------------------------ chip memories

/// position-dependent fill of the chips' data buffer / FIFO (same definition as RxFetch!Pat)
pub fn pat(i: usize) -> u8 {
    ((37 * i + 11) % 256) as u8
}

/// SX126x: command interface with a register map, a 256-byte data buffer and status answers.
pub struct Env126 {
    pub regs: HashMap<u16, u8>,
    pub buf: [u8; 256],
    pub status: u8,
    pub rxlen: u8,
    pub rxoff: u8,
    pub irq: u16,
    pub pkt: [u8; 3],
    pub rssi: u8,
}
impl Env126 {
    pub fn new() -> Self {
        let mut buf = [0u8; 256];
        for (i, b) in buf.iter_mut().enumerate() {
            *b = pat(i);
        }
        Env126 { regs: HashMap::new(), buf, status: 0x24, rxlen: 0, rxoff: 0, irq: 0, pkt: [0; 3], rssi: 0 }
    }
    fn reg(&self, a: u16) -> u8 {
        *self.regs.get(&a).unwrap_or(&0)
    }
    /// byte the chip drives on MISO at clock position `p` of the transaction that started with `w`
    fn at(&self, w: &[u8], p: usize) -> u8 {
        let op = w[0];
        let tab = |t: &[u8]| t.get(p).copied().unwrap_or(0);
        match op {
            0x13 => tab(&[0, self.status, self.rxlen, self.rxoff]),
            0x12 => tab(&[0, self.status, (self.irq >> 8) as u8, self.irq as u8]),
            0x14 => tab(&[0, self.status, self.pkt[0], self.pkt[1], self.pkt[2]]),
            0x15 => tab(&[0, self.status, self.rssi]),
            0x17 => tab(&[0, self.status, 0, 0]),
            0x1D => {
                if p >= 4 && w.len() >= 3 {
                    let a = ((w[1] as u16) << 8) | w[2] as u16;
                    self.reg(a.wrapping_add((p - 4) as u16))
                } else {
                    self.status
                }
            }
            0x1E => {
                if p >= 3 && w.len() >= 2 {
                    self.buf[(w[1] as usize + (p - 3)) % 256]
                } else {
                    self.status
                }
            }
            _ => self.status,
        }
    }
}
impl ChipEnv for Env126 {
    fn read(&mut self, w: &[u8], r: &mut [u8]) {
        if w.is_empty() {
            r.fill(0);
            return;
        }
        for j in 0..r.len() {
            r[j] = self.at(w, w.len() + j);
        }
    }
    fn commit(&mut self, w: &[u8], had_read: bool) {
        if had_read || w.is_empty() {
            return;
        }
        if w[0] == 0x0D && w.len() >= 3 {
            let a = ((w[1] as u16) << 8) | w[2] as u16;
            for (i, b) in w[3..].iter().enumerate() {
                self.regs.insert(a.wrapping_add(i as u16), *b);
            }
        }
    }
}

/// SX127x: register file (7-bit addresses, auto-increment) and a 256-byte FIFO behind register 0.
pub struct Env127 {
    pub regs: [u8; 128],
    pub fifo: [u8; 256],
    /// a packet "arrives" (RxDone is raised) as soon as the chip is put into a receive mode
    pub rx_arrives: bool,
    /// the single-mode receive window expires at once (RxTimeout is raised on entering RxSingle)
    pub rx_times_out: bool,
}
impl Env127 {
    pub fn new() -> Self {
        let mut fifo = [0u8; 256];
        for (i, b) in fifo.iter_mut().enumerate() {
            *b = pat(i);
        }
        let mut regs = [0u8; 128];
        regs[0x01] = 0x80; // LoRa, sleep
        regs[0x42] = 0x12;
        Env127 { regs, fifo, rx_arrives: false, rx_times_out: false }
    }
}
impl ChipEnv for Env127 {
    fn read(&mut self, w: &[u8], r: &mut [u8]) {
        if w.is_empty() {
            r.fill(0);
            return;
        }
        let addr = (w[0] & 0x7f) as usize;
        for j in 0..r.len() {
            if addr == 0 {
                let p = self.regs[0x0D];
                r[j] = self.fifo[p as usize];
                self.regs[0x0D] = p.wrapping_add(1);
            } else {
                r[j] = self.regs[(addr + j) & 0x7f];
            }
        }
    }
    fn commit(&mut self, w: &[u8], had_read: bool) {
        if had_read || w.is_empty() || w[0] & 0x80 == 0 {
            return;
        }
        let addr = (w[0] & 0x7f) as usize;
        for (i, b) in w[1..].iter().enumerate() {
            if addr == 0 {
                let p = self.regs[0x0D];
                self.fifo[p as usize] = *b;
                self.regs[0x0D] = p.wrapping_add(1);
                continue;
            }
            let a = (addr + i) & 0x7f;
            if a == 0x12 {
                self.regs[a] &= !*b; // write 1 to clear
            } else {
                let mut v = *b;
                if a == 0x01 {
                    // LongRangeMode (bit 7) can only be changed while the chip is, and stays, in sleep mode
                    let cur = self.regs[0x01];
                    if !(cur & 0x07 == 0 && v & 0x07 == 0) {
                        v = (cur & 0x80) | (v & 0x7F);
                    }
                }
                self.regs[a] = v;
                if a == 0x01 && self.rx_arrives && matches!(*b & 0x07, 5 | 6) {
                    self.regs[0x12] |= 0x40;
                }
                if a == 0x01 && self.rx_times_out && (*b & 0x07) == 6 {
                    self.regs[0x12] |= 0x80;
                }
            }
        }
    }
}

/// LR1110: 16-bit opcodes; the response of a command is read in a separate read-only transaction that starts
/// with Stat1.  With no response pending a read returns Stat1, Stat2 and the 32-bit interrupt status.
pub struct EnvLr {
    pub buf: [u8; 256],
    pub status: u8,
    pub rxlen: u8,
    pub rxoff: u8,
    pub irq: u32,
    pub pkt: [u8; 3],
    /// command whose response is pending
    pending: Option<Vec<u8>>,
}
impl EnvLr {
    pub fn new() -> Self {
        let mut buf = [0u8; 256];
        for (i, b) in buf.iter_mut().enumerate() {
            *b = pat(i);
        }
        EnvLr { buf, status: 0x04, rxlen: 0, rxoff: 0, irq: 0, pkt: [0; 3], pending: None }
    }
}
impl ChipEnv for EnvLr {
    fn read(&mut self, w: &[u8], r: &mut [u8]) {
        r.fill(0);
        if w.iter().any(|b| *b != 0) {
            return; // the LR11xx drives nothing meaningful while a command is being written
        }
        // Stat1 bits 3..1 below CMD_OK: the command failed and the response that follows is not valid - the chip does
        // not hand out the data that was asked for (UM.LR1110 3.3.2); the filler is no chip buffer content
        let failed = (self.status >> 1) & 0x07 < 2;
        if w.is_empty() {
            // first byte of a read transaction: Stat1; without a pending response Stat2 and IrqStatus follow
            if let Some(b) = r.first_mut() {
                *b = self.status;
            }
            if failed && self.pending.is_some() {
                self.pending = None;
                for b in r.iter_mut().skip(1) {
                    *b = 0x5A;
                }
                return;
            }
            if self.pending.is_none() {
                let f = self.irq.to_be_bytes();
                for (j, b) in r.iter_mut().enumerate().skip(2) {
                    *b = f.get(j - 2).copied().unwrap_or(0);
                }
            } else if r.len() > 1 {
                let cmd = self.pending.take().unwrap();
                self.answer(&cmd, &mut r[1..]);
            }
            return;
        }
        // the bytes after Stat1: the response of the pending command
        if let Some(cmd) = self.pending.take() {
            if failed {
                r.fill(0x5A);
            } else {
                self.answer(&cmd, r);
            }
        }
    }
    fn commit(&mut self, w: &[u8], had_read: bool) {
        if had_read || w.len() < 2 {
            return;
        }
        let op = ((w[0] as u16) << 8) | w[1] as u16;
        // commands answered in the next read transaction (GetVersion, GetErrors, ReadBuffer8, GetRxBufferStatus,
        // GetPktStatus, GetRssiInst, ...)
        self.pending = if matches!(op, 0x0101 | 0x010D | 0x0106 | 0x0108 | 0x010A | 0x0201..=0x0205 | 0x0230) { Some(w.to_vec()) } else { None };
    }
}
impl EnvLr {
    fn answer(&self, cmd: &[u8], r: &mut [u8]) {
        let op = ((cmd[0] as u16) << 8) | cmd[1] as u16;
        match op {
            0x0203 => {
                for (j, b) in r.iter_mut().enumerate() {
                    *b = [self.rxlen, self.rxoff].get(j).copied().unwrap_or(0);
                }
            }
            0x010A if cmd.len() >= 4 => {
                for (j, b) in r.iter_mut().enumerate() {
                    *b = self.buf[(cmd[2] as usize + j) % 256];
                }
            }
            0x0204 => {
                for (j, b) in r.iter_mut().enumerate() {
                    *b = self.pkt.get(j).copied().unwrap_or(0);
                }
            }
            _ => {}
        }
    }
}

// ------------------------------------------------------------------ helpers

fn txns_json(log: &[Txn]) -> Value {
    Value::Array(
        log.iter()
            .map(|t| Value::Array(t.w.iter().map(|b| Value::from(*b as u32)).collect()))
            .collect(),
    )
}

fn res_str<T>(r: &Result<Result<T, RadioError>, String>) -> &'static str {
    match r {
        Ok(Ok(_)) => "ok",
        Ok(Err(_)) => "err",
        Err(_) => "panic",
    }
}

fn sel(a: &Args, key: &str, chip: &str) -> bool {
    a.get(key).map(|v| v.split(',').any(|x| x == chip)).unwrap_or(true)
}

pub type R126 = sx126x::Sx126x<Spi<Env126>, Iv, sx126x::Sx1262>;
pub type R127<C> = sx127x::Sx127x<Spi<Env127>, Iv, C>;

fn new_1262(spi: &Spi<Env126>) -> R126 {
    sx126x::Sx126x::new(
        spi.clone(),
        Iv::new(),
        sx126x::Config { chip: sx126x::Sx1262, tcxo_ctrl: None, use_dcdc: false, rx_boost: false },
    )
}
pub type RLr = lora_phy::lr1110::Lr1110<Spi<EnvLr>, Iv>;
fn new_lr(spi: &Spi<EnvLr>) -> RLr {
    lora_phy::lr1110::Lr1110::new(
        spi.clone(),
        Iv::new(),
        lora_phy::lr1110::Config {
            pa_selection: lora_phy::lr1110::PaSelection::Hp,
            dio_as_rf_switch: None,
            tcxo_ctrl: None,
            use_dcdc: false,
            rx_boost: false,
        },
    )
}
fn new_1276(spi: &Spi<Env127>, tx_boost: bool) -> R127<sx127x::Sx1276> {
    sx127x::Sx127x::new(
        spi.clone(),
        Iv::new(),
        sx127x::Config { chip: sx127x::Sx1276, tcxo_used: false, tx_boost, rx_boost: false },
    )
}
fn new_1272(spi: &Spi<Env127>, tx_boost: bool) -> R127<sx127x::Sx1272> {
    sx127x::Sx127x::new(
        spi.clone(),
        Iv::new(),
        sx127x::Config { chip: sx127x::Sx1272, tcxo_used: false, tx_boost, rx_boost: false },
    )
}

// ================================================================== C18: fetching a received packet

const CANARY_A: u8 = 0xA5;
const CANARY_B: u8 = 0x5A;

/// Lossless run-length description of the caller's buffer after the call, from two runs with
/// different canaries: [kind, start, count] with kind 0 = untouched cells, kind 1 = cells holding
/// the chip-buffer bytes of addresses start, start+1, ... (mod 256).
fn segs(run_a: &[u8], run_b: &[u8]) -> Vec<[u32; 3]> {
    let mut inv = [0usize; 256];
    for i in 0..256 {
        inv[pat(i) as usize] = i;
    }
    let mut out: Vec<[u32; 3]> = Vec::new();
    for i in 0..run_a.len() {
        let untouched = run_a[i] == CANARY_A && run_b[i] == CANARY_B;
        if untouched {
            match out.last_mut() {
                Some(s) if s[0] == 0 => s[2] += 1,
                _ => out.push([0, 0, 1]),
            }
        } else {
            let v = if run_a[i] != CANARY_A { run_a[i] } else { run_b[i] };
            let idx = inv[v as usize] as u32;
            match out.last_mut() {
                Some(s) if s[0] == 1 && (s[1] + s[2]) % 256 == idx => s[2] += 1,
                _ => out.push([1, idx, 1]),
            }
        }
    }
    out
}

#[derive(Clone, Copy)]
struct FetchCase {
    hdr: bool,
    replen: u8,
    cfglen: u8,
    off: u8,
    status: u8,
    bufsz: usize,
}

/// (panic message | Ok(len) | Err) and the caller's buffer afterwards
type FetchOut = (Result<Result<usize, String>, String>, Vec<u8>);

fn pkt_params(c: &FetchCase) -> PacketParams {
    PacketParams { preamble_length: 8, implicit_header: c.hdr, payload_length: c.cfglen, crc_on: true, iq_inverted: false }
}

fn env126_for(c: &FetchCase) -> Env126 {
    let mut e = Env126::new();
    e.status = c.status;
    e.rxlen = c.replen;
    e.rxoff = c.off;
    e.irq = 0x0002; // RxDone
    e.pkt = [120, 20, 118];
    e.regs.insert(0x0702, c.cfglen); // the chip's payload-length register holds the configured length
    e
}
fn envlr_for(c: &FetchCase) -> EnvLr {
    let mut e = EnvLr::new();
    e.status = c.status;
    e.rxlen = c.replen;
    e.rxoff = c.off;
    e.irq = 0x08; // RxDone
    e.pkt = [120, 20, 118];
    e
}
fn env127_for(c: &FetchCase) -> Env127 {
    let mut e = Env127::new();
    e.regs[0x13] = c.replen;
    e.regs[0x10] = c.off;
    e.regs[0x22] = c.cfglen;
    e.regs[0x19] = 20;
    e.regs[0x1a] = 90;
    e.regs[0x06] = 0xD9; // 868.1 MHz
    e.regs[0x07] = 0x06;
    e.regs[0x08] = 0x66;
    e
}

fn fetch_direct<RK: RadioKind>(rk: &mut RK, c: &FetchCase, canary: u8) -> FetchOut {
    let pkt = pkt_params(c);
    let mut buf = vec![canary; c.bufsz];
    let r = catch(|| block_on(rk.get_rx_payload(&pkt, &mut buf[..])));
    (r.map(|x| x.map(|l| l as usize).map_err(|e| format!("{e:?}"))), buf)
}

fn fetch_lora<RK: RadioKind>(rk: RK, c: &FetchCase, canary: u8, arm: &dyn Fn()) -> FetchOut {
    let pkt = pkt_params(c);
    let mut buf = vec![canary; c.bufsz];
    let r = catch(|| {
        block_on(async {
            let mut lora = LoRa::new(rk, true, MockDelay).await?;
            let mp = lora.create_modulation_params(
                lora_phy::mod_params::SpreadingFactor::_7,
                lora_phy::mod_params::Bandwidth::_125KHz,
                lora_phy::mod_params::CodingRate::_4_5,
                868_100_000,
            )?;
            lora.prepare_for_rx(RxMode::Continuous, &mp, &pkt).await?;
            arm();
            lora.complete_rx(&pkt, &mut buf[..]).await.map(|(l, _)| l as usize)
        })
    });
    (r.map(|x| x.map_err(|e| format!("{e:?}"))), buf)
}

fn fetch_lorawan<RK: RadioKind>(rk: RK, c: &FetchCase, canary: u8, arm: &dyn Fn()) -> FetchOut {
    use lorawan_device::async_device::radio::{PhyRxTx, RfConfig, RxConfig, RxMode as LwRxMode, RxStatus};
    let mut buf = vec![canary; c.bufsz];
    let r = catch(|| {
        block_on(async {
            let lora = LoRa::new(rk, true, MockDelay).await.map_err(|e| format!("{e:?}"))?;
            let mut radio: lora_phy::lorawan_radio::LorawanRadio<RK, MockDelay, 14> = lora.into();
            let bb = lora_modulation::BaseBandModulationParams::new(
                lora_modulation::SpreadingFactor::_7,
                lora_modulation::Bandwidth::_125KHz,
                lora_modulation::CodingRate::_4_5,
            );
            let cfg = RxConfig {
                rf: RfConfig { frequency: 868_100_000, bb, max_payload_len: 255 },
                mode: LwRxMode::Single { ms: 20 },
            };
            radio.setup_rx(cfg).await.map_err(|e| format!("{e:?}"))?;
            arm();
            match radio.rx_single(&mut buf[..]).await {
                Ok(RxStatus::Rx(len, _)) => Ok(len),
                Ok(RxStatus::RxTimeout) => Err("RxTimeout".to_string()),
                Err(e) => Err(format!("{e:?}")),
            }
        })
    });
    (r, buf)
}

fn run_fetch(chip: &str, path: &str, c: &FetchCase, canary: u8) -> FetchOut {
    match chip {
        "sx1262" => {
            let spi = Spi::new(env126_for(c));
            match path {
                "direct" => fetch_direct(&mut new_1262(&spi), c, canary),
                "lora" => fetch_lora(new_1262(&spi), c, canary, &|| {}),
                _ => fetch_lorawan(new_1262(&spi), c, canary, &|| {}),
            }
        }
        "lr1110" => {
            let spi = Spi::new(envlr_for(c));
            match path {
                "direct" => fetch_direct(&mut new_lr(&spi), c, canary),
                "lora" => fetch_lora(new_lr(&spi), c, canary, &|| {}),
                _ => fetch_lorawan(new_lr(&spi), c, canary, &|| {}),
            }
        }
        "sx1276" | "sx1272" => {
            let spi = Spi::new(env127_for(c));
            let s2 = spi.clone();
            let arm = move || {
                s2.with_env(|e| {
                    e.regs[0x12] |= 0x40;
                    e.rx_arrives = true;
                })
            };
            match (chip, path) {
                ("sx1276", "direct") => fetch_direct(&mut new_1276(&spi, false), c, canary),
                ("sx1276", "lora") => fetch_lora(new_1276(&spi, false), c, canary, &arm),
                ("sx1276", _) => fetch_lorawan(new_1276(&spi, false), c, canary, &arm),
                (_, "direct") => fetch_direct(&mut new_1272(&spi, false), c, canary),
                (_, "lora") => fetch_lora(new_1272(&spi, false), c, canary, &arm),
                (_, _) => fetch_lorawan(new_1272(&spi, false), c, canary, &arm),
            }
        }
        other => panic!("unknown chip {other}"),
    }
}

/// one case: [replen, cfglen, panic, ok, len, segs]
fn fetch_case(chip: &str, path: &str, c: &FetchCase) -> Value {
    let (ra, ba) = run_fetch(chip, path, c, CANARY_A);
    let (_rb, bb) = run_fetch(chip, path, c, CANARY_B);
    let (panic, ok, len) = match &ra {
        Err(_) => (1, 0, 0usize),
        Ok(Ok(l)) => (0, 1, *l),
        Ok(Err(_)) => (0, 0, 0),
    };
    json!([c.replen, c.cfglen, panic, ok, len, segs(&ba, &bb)])
}

/// `vh fetch`: C18.  One event per (chip, path, header mode, offset, buffer size, status) with the
/// outcomes for a list of lengths.  thorough: all 256 lengths x 256 offsets on the direct path.
pub fn vh_fetch(a: &Args) {
    let mut out = Shards::create(&a.out, "fetch", a.shards);
    let all: Vec<u32> = (0..=255).collect();
    let grid: Vec<u32> = vec![0, 1, 2, 11, 12, 13, 31, 63, 64, 65, 100, 127, 128, 200, 254, 255];
    let mut grid64: Vec<u32> = (0..=255).step_by(4).collect();
    grid64.extend([1, 11, 13, 63, 65, 127, 254, 255]);
    grid64.sort();
    grid64.dedup();
    let bufsizes = [0usize, 1, 12, 64, 255, 256];
    let mut cases: u64 = 0;
    // replay of one case: only=chip,path,hdr,off,bufsz,status,replen,cfglen
    if let Some(o) = a.get("only") {
        let f: Vec<&str> = o.split(',').collect();
        let n = |i: usize| f[i].parse::<u32>().unwrap();
        let c = FetchCase { hdr: n(2) == 1, off: n(3) as u8, bufsz: n(4) as usize, status: n(5) as u8, replen: n(6) as u8, cfglen: n(7) as u8 };
        out.emit(&json!({"ev":"fetch","chip":f[0],"path":f[1],"hdr":n(2),"off":n(3),"bufsz":n(4),"status":n(5),
                         "cases":[fetch_case(f[0], f[1], &c)]}));
        println!("events={} cases=1", out.finish());
        return;
    }
    for chip in ["sx1262", "sx1276", "sx1272", "lr1110"] {
        if !sel(a, "chips", chip) {
            continue;
        }
        for path in ["direct", "lora", "lorawan"] {
            if !sel(a, "paths", path) {
                continue;
            }
            // thorough: RadioKind::get_rx_payload and LoRa::complete_rx are enumerated completely (all 256 lengths x
            // 256 offsets), LorawanRadio::rx_single on a 64x64 grid; quick: the 16x16 boundary grid on every path
            let (lens, offs) = if a.thorough && path != "lorawan" {
                (&all, &all)
            } else if a.thorough {
                (&grid64, &grid64)
            } else {
                (&grid, &grid)
            };
            // the status byte only exists on the SX126x command interface
            let statuses: Vec<u8> = if chip == "sx1262" {
                if path == "direct" {
                    if a.thorough { (0..8u8).map(|s| 0x20 | (s << 1)).chain([0x00, 0xFF, 0x54, 0x0B]).collect() } else { vec![0x24, 0x26, 0x28, 0x2A, 0x2C, 0x00, 0xFF] }
                } else {
                    vec![0x24, 0x2A]
                }
            } else if chip == "lr1110" {
                // Stat1 bits 3..1: 0 CMD_FAIL, 1 CMD_PERR, 2 CMD_OK, 3 CMD_DAT; bit 0 = interrupt pending
                if path == "direct" { vec![0x04, 0x05, 0x06, 0x07, 0x00, 0x01, 0x02, 0x03] } else { vec![0x04, 0x06] }
            } else {
                vec![0]
            };
            // the LoRaWAN adapter always receives with an explicit header; so does the recorded LR1110 (what that
            // chip reports as the length of an implicit-header packet is not modelled)
            let hdrs: &[bool] = if path == "lorawan" || chip == "lr1110" { &[false] } else { &[false, true] };
            for &hdr in hdrs {
                for &bufsz in &bufsizes {
                    for &status in &statuses {
                        for &off in offs {
                            let mut cs: Vec<Value> = Vec::with_capacity(lens.len());
                            for &l in lens {
                                // explicit header: the length axis is the chip-reported length (the
                                // configured one is a decoy); implicit: the axis is the configured
                                // length and the chip-reported length is the decoy
                                let decoy = ((l + 77) % 256) as u8;
                                let c = if hdr {
                                    FetchCase { hdr, replen: decoy, cfglen: l as u8, off: off as u8, status, bufsz }
                                } else {
                                    FetchCase { hdr, replen: l as u8, cfglen: decoy, off: off as u8, status, bufsz }
                                };
                                cs.push(fetch_case(chip, path, &c));
                                cases += 1;
                            }
                            out.emit(&json!({"ev":"fetch","chip":chip,"path":path,"hdr":hdr as u32,"off":off,
                                             "bufsz":bufsz,"status":status,"cases":cs}));
                        }
                    }
                }
            }
        }
    }
    println!("events={} cases={}", out.finish(), cases);
}

#[allow(dead_code)]
fn _unused(_: PacketStatus, _: RadioMode, _: Value) {}


// ================================================================== shared enumerations

use crate::modrec::{BWS, CRS, SFS};
use lora_phy::mod_params::ModulationParams;
use rand::rngs::StdRng;
use rand::{Rng, SeedableRng};

fn pair(v: u32) -> Value {
    json!([v >> 16, v & 0xFFFF])
}

/// Channel grids of the LoRaWAN regional plans: (first frequency, step, count).
fn lorawan_channel_grids() -> Vec<(u32, u32, u32)> {
    vec![
        (868_100_000, 200_000, 3),   // EU868 join channels
        (867_100_000, 200_000, 5),   // EU868 common CFList
        (869_525_000, 1, 1),         // EU868 RX2
        (863_000_000, 100_000, 71),  // EU868 band raster
        (433_175_000, 200_000, 3),   // EU433
        (433_050_000, 25_000, 70),   // EU433 band raster
        (902_300_000, 200_000, 64),  // US915 125 kHz uplinks
        (903_000_000, 1_600_000, 8), // US915 500 kHz uplinks
        (923_300_000, 600_000, 8),   // US915/AU915 downlinks
        (915_200_000, 200_000, 64),  // AU915 125 kHz uplinks
        (915_900_000, 1_600_000, 8), // AU915 500 kHz uplinks
        (923_200_000, 200_000, 2),   // AS923-1
        (921_400_000, 200_000, 2),   // AS923-2
        (916_600_000, 200_000, 2),   // AS923-3
        (917_300_000, 200_000, 2),   // AS923-4
        (915_000_000, 100_000, 131), // AS923 band raster
        (865_062_500, 1, 1),         // IN865
        (865_402_500, 1, 1),
        (865_985_000, 1, 1),
        (866_550_000, 1, 1),
        (470_300_000, 200_000, 96),  // CN470 uplinks
        (500_300_000, 200_000, 48),  // CN470 downlinks
        (922_100_000, 200_000, 7),   // KR920
        (864_100_000, 200_000, 3),   // RU864
        (868_900_000, 200_000, 2),
    ]
}

/// Frequency batches (f0, step, n) for C13 / C17.
fn freq_batches(thorough: bool, seed: u64, raster_hz: u32) -> Vec<(u32, u32, u32)> {
    let mut v = lorawan_channel_grids();
    // coarse stride over the whole tuning range 137..1020 MHz
    let stride: u32 = if thorough { 9_973 } else { 200_003 };
    let mut f = 137_000_000u32;
    while f <= 1_020_000_000 {
        let n = ((1_020_000_000 - f) / stride + 1).min(1000);
        v.push((f, stride, n));
        f += stride * n;
    }
    // band edges
    for e in [137_000_000u32, 400_000_000, 425_000_000, 460_000_000, 525_000_000, 770_000_000, 779_000_000,
              850_000_000, 862_000_000, 900_000_000, 1_020_000_000,
              // the edges of the ISM bands themselves (data sheet table 9-2), where a threshold "tidied up" to the band
              // edge would sit
              430_000_000, 440_000_000, 470_000_000, 510_000_000, 787_000_000, 863_000_000, 870_000_000, 902_000_000, 928_000_000] {
        v.push((e - 2, 1, 5));
    }
    if thorough {
        // every `raster_hz` of the LoRaWAN bands (100 Hz where affordable)
        for (lo, hi) in [(433_050_000u32, 434_790_000u32), (470_000_000, 510_000_000), (779_000_000, 787_000_000),
                         (863_000_000, 870_000_000), (902_000_000, 928_000_000)] {
            let mut f = lo;
            while f <= hi {
                let n = ((hi - f) / raster_hz + 1).min(1000);
                v.push((f, raster_hz, n));
                f += raster_hz * n;
            }
        }
    }
    // random single frequencies
    let mut rng = StdRng::seed_from_u64(seed ^ 0xF4E0);
    for _ in 0..(if thorough { 200 } else { 20 }) {
        v.push((rng.gen_range(137_000_000..=1_020_000_000 - 50), 1, 50));
    }
    v
}

fn mk_mp(sf: usize, bw: usize, cr: usize, ldro: u8, freq: u32) -> ModulationParams {
    ModulationParams { spreading_factor: SFS[sf], bandwidth: BWS[bw], coding_rate: CRS[cr], low_data_rate_optimize: ldro, frequency_in_hz: freq }
}

// ================================================================== C17: decode events

/// lora-phy SX126x chip variants: (name, constructor)
fn with_126<T>(chip: &str, spi: &Spi<Env126>, f: &mut dyn FnMut(&mut dyn Rk126) -> T) -> T {
    fn cfg<C: sx126x::Sx126xVariant>(c: C) -> sx126x::Config<C> {
        sx126x::Config { chip: c, tcxo_ctrl: None, use_dcdc: false, rx_boost: false }
    }
    match chip {
        "sx1261" => f(&mut sx126x::Sx126x::new(spi.clone(), Iv::new(), cfg(sx126x::Sx1261))),
        "sx1262" => f(&mut sx126x::Sx126x::new(spi.clone(), Iv::new(), cfg(sx126x::Sx1262))),
        "stm32wl-hp" => f(&mut sx126x::Sx126x::new(
            spi.clone(),
            Iv::new(),
            sx126x::Config { chip: sx126x::Stm32wl { use_high_power_pa: true }, tcxo_ctrl: None, use_dcdc: false, rx_boost: false },
        )),
        "stm32wl-lp" => f(&mut sx126x::Sx126x::new(
            spi.clone(),
            Iv::new(),
            sx126x::Config { chip: sx126x::Stm32wl { use_high_power_pa: false }, tcxo_ctrl: None, use_dcdc: false, rx_boost: false },
        )),
        other => panic!("unknown chip {other}"),
    }
}

/// Object-safe subset of RadioKind used by the recorders (async fns are run to completion here).
pub trait Rk126 {
    fn tx_power(&mut self, dbm: i32, mp: Option<&ModulationParams>, prep: bool) -> Result<Result<(), RadioError>, String>;
    fn init_lora(&mut self, sw: u16) -> Result<Result<(), RadioError>, String>;
}
impl<C: sx126x::Sx126xVariant> Rk126 for sx126x::Sx126x<Spi<Env126>, Iv, C> {
    fn tx_power(&mut self, dbm: i32, mp: Option<&ModulationParams>, prep: bool) -> Result<Result<(), RadioError>, String> {
        catch(|| block_on(self.set_tx_power_and_ramp_time(dbm, mp, prep)))
    }
    fn init_lora(&mut self, sw: u16) -> Result<Result<(), RadioError>, String> {
        catch(|| block_on(RadioKind::init_lora(self, sw)))
    }
}

fn power_requests() -> Vec<i32> {
    let mut v: Vec<i32> = (-128..=127).collect();
    v.extend([i32::MIN, i32::MIN + 1, -100_000, -129, 128, 1000, 65_536, i32::MAX - 1, i32::MAX]);
    v
}

fn sparse_rf(e: &Env127) -> Value {
    Value::Array(
        e.regs.iter().enumerate().filter(|(_, v)| **v != 0).map(|(a, v)| json!([a, *v])).collect(),
    )
}

/// `vh decode`: C17.
pub fn vh_decode(a: &Args) {
    let mut out = Shards::create(&a.out, "decode", a.shards);
    let parts: Vec<&str> = a.get("parts").map(|s| s.split(',').collect()).unwrap_or(vec!["freq", "power", "symb", "adapter", "status"]);
    let mut cases: u64 = 0;

    // ---------------------------------------------------------------- frequency
    if parts.contains(&"freq") {
        let mut batches = freq_batches(a.thorough, a.seed, 100);
        // one full period of the SX126x conversion (15 625 Hz <-> 16 384 steps), 1 Hz granularity, at several bases
        let bases: Vec<u32> = if a.thorough { vec![137_000_000, 433_046_875, 868_093_750, 915_000_000, 1_019_984_375] } else { vec![868_093_750] };
        for b in bases {
            let mut f = b;
            while f < b + 15_625 {
                let n = (b + 15_625 - f).min(1000);
                batches.push((f, 1, n));
                f += n;
            }
        }
        if let Some(o) = a.get("freq") {
            let f: Vec<u32> = o.split(',').map(|x| x.parse().unwrap()).collect();
            batches = vec![(f[0], f[1], f[2])];
        }
        for chip in ["sx1262", "sx1276", "sx1272"] {
            if !sel(a, "chips", chip) {
                continue;
            }
            for &(f0, step, n) in &batches {
                let mut txns: Vec<Value> = Vec::new();
                let mut res = "ok";
                for i in 0..n {
                    let f = f0 + i * step;
                    let (r, log) = match chip {
                        "sx1262" => {
                            let spi = Spi::new(Env126::new());
                            let mut rk = new_1262(&spi);
                            (res_str(&catch(|| block_on(rk.set_channel(f)))), spi.take_log())
                        }
                        "sx1276" => {
                            let spi = Spi::new(Env127::new());
                            let mut rk = new_1276(&spi, false);
                            (res_str(&catch(|| block_on(rk.set_channel(f)))), spi.take_log())
                        }
                        _ => {
                            let spi = Spi::new(Env127::new());
                            let mut rk = new_1272(&spi, false);
                            (res_str(&catch(|| block_on(rk.set_channel(f)))), spi.take_log())
                        }
                    };
                    if r != "ok" {
                        res = r;
                    }
                    txns.push(txns_json(&log));
                    cases += 1;
                }
                out.emit(&json!({"ev":"dfreq","chip":chip,"f0":pair(f0),"step":step,"n":n,"res":res,"cases":txns}));
            }
            // periodicity of the SX126x conversion at a stride: f and f + k*15625
            if chip == "sx1262" {
                let mut rng = StdRng::seed_from_u64(a.seed ^ 0x9E7);
                for _ in 0..(if a.thorough { 400 } else { 40 }) {
                    let f0 = rng.gen_range(137_000_000u32..1_000_000_000);
                    let n = 200u32;
                    let mut txns: Vec<Value> = Vec::new();
                    for i in 0..n {
                        let spi = Spi::new(Env126::new());
                        let mut rk = new_1262(&spi);
                        let _ = catch(|| block_on(rk.set_channel(f0 + i * 15_625)));
                        txns.push(txns_json(&spi.take_log()));
                        cases += 1;
                    }
                    out.emit(&json!({"ev":"dfreq","chip":chip,"f0":pair(f0),"step":15_625,"n":n,"res":"ok","cases":txns}));
                }
            }
        }
    }

    // ---------------------------------------------------------------- TX power
    if parts.contains(&"power") {
        let reqs = power_requests();
        for chip in ["sx1261", "sx1262", "stm32wl-hp", "stm32wl-lp"] {
            if !sel(a, "chips", chip) {
                continue;
            }
            for band in ["none", "hf", "lf"] {
                for prep in [true, false] {
                    let mut cs: Vec<Value> = Vec::new();
                    for &req in &reqs {
                        let spi = Spi::new(Env126::new());
                        let mp = match band {
                            "hf" => Some(mk_mp(2, 7, 0, 0, 868_100_000)),
                            "lf" => Some(mk_mp(2, 7, 0, 0, 169_400_000)),
                            _ => None,
                        };
                        let r = with_126(chip, &spi, &mut |rk| rk.tx_power(req, mp.as_ref(), prep));
                        cs.push(json!([req, res_str(&r), txns_json(&spi.take_log())]));
                        cases += 1;
                    }
                    out.emit(&json!({"ev":"dpower","chip":chip,"band":band,"boost":0,"prep":prep as u32,"rf":[],"cases":cs}));
                }
            }
        }
        for chip in ["sx1276", "sx1272"] {
            if !sel(a, "chips", chip) {
                continue;
            }
            // RegPaDac as the reset leaves it (0x84) and as an earlier +20 dBm transmission leaves it (0x87): the
            // programmed power must not depend on what was requested before
            for (boost, padac) in [(false, 0x84u8), (true, 0x84), (false, 0x87), (true, 0x87)] {
                for prep in [true, false] {
                    let mut cs: Vec<Value> = Vec::new();
                    let mut env0 = Env127::new();
                    env0.regs[0x4D] = padac;
                    env0.regs[0x5A] = padac;
                    env0.regs[0x09] = 0x4F;
                    env0.regs[0x0A] = 0x09;
                    env0.regs[0x0B] = 0x2B;
                    let rf = sparse_rf(&env0);
                    for &req in &reqs {
                        let mut e = Env127::new();
                        e.regs = env0.regs;
                        let spi = Spi::new(e);
                        let r = if chip == "sx1276" {
                            let mut rk = new_1276(&spi, boost);
                            catch(|| block_on(rk.set_tx_power_and_ramp_time(req, None, prep)))
                        } else {
                            let mut rk = new_1272(&spi, boost);
                            catch(|| block_on(rk.set_tx_power_and_ramp_time(req, None, prep)))
                        };
                        cs.push(json!([req, res_str(&r), txns_json(&spi.take_log())]));
                        cases += 1;
                    }
                    out.emit(&json!({"ev":"dpower","chip":chip,"band":"none","boost":boost as u32,"prep":prep as u32,"rf":rf,"cases":cs}));
                }
            }
        }
    }

    // ---------------------------------------------------------------- symbol-count RX timeout
    if parts.contains(&"symb") {
        let ns: Vec<u32> = if a.thorough {
            (0..=65_535).collect()
        } else {
            (0..=1100).chain((1100..=65_535).step_by(97)).chain([65_535]).collect()
        };
        for chip in ["sx1262", "sx1276", "sx1272"] {
            if !sel(a, "chips", chip) {
                continue;
            }
            for chunk in ns.chunks(512) {
                let mut cs: Vec<Value> = Vec::new();
                for &n in chunk {
                    let (r, log) = match chip {
                        "sx1262" => {
                            let spi = Spi::new(Env126::new());
                            let mut rk = new_1262(&spi);
                            (res_str(&catch(|| block_on(rk.do_rx(RxMode::Single(n as u16))))), spi.take_log())
                        }
                        "sx1276" => {
                            let spi = Spi::new(Env127::new());
                            let mut rk = new_1276(&spi, false);
                            (res_str(&catch(|| block_on(rk.do_rx(RxMode::Single(n as u16))))), spi.take_log())
                        }
                        _ => {
                            let spi = Spi::new(Env127::new());
                            let mut rk = new_1272(&spi, false);
                            (res_str(&catch(|| block_on(rk.do_rx(RxMode::Single(n as u16))))), spi.take_log())
                        }
                    };
                    cs.push(json!([n, r, txns_json(&log)]));
                    cases += 1;
                }
                out.emit(&json!({"ev":"dsymb","chip":chip,"cases":cs}));
            }
        }
    }

    // ---------------------------------------------------------------- LoRaWAN adapter: ms -> symbols
    if parts.contains(&"adapter") {
        use lorawan_device::async_device::radio::{PhyRxTx, RfConfig, RxConfig, RxMode as LwRxMode};
        let mss: Vec<u32> = if a.thorough {
            (0..=1000).collect()
        } else {
            (0..=25).chain((30..=1000).step_by(35)).chain([999, 1000]).collect()
        };
        for chip in ["sx1276", "sx1262"] {
            if !sel(a, "chips", chip) {
                continue;
            }
            for (si, sf) in SFS.iter().enumerate() {
                if chip == "sx1276" && si <= 1 {
                    continue; // SF5 does not exist on the SX127x; SF6 needs the implicit header the adapter never uses
                }
                for (bi, bw) in BWS.iter().enumerate() {
                    let bb = lora_modulation::BaseBandModulationParams::new(*sf, *bw, lora_modulation::CodingRate::_4_5);
                    let mut cs: Vec<Value> = Vec::new();
                    let mut res = "ok";
                    macro_rules! run {
                        ($rk:expr, $spi:expr, $filter:expr) => {{
                            let spi = $spi;
                            let r = catch(|| {
                                block_on(async {
                                    let lora = LoRa::new($rk, true, MockDelay).await.map_err(|e| format!("{e:?}"))?;
                                    let mut radio: lora_phy::lorawan_radio::LorawanRadio<_, MockDelay, 14> = lora.into();
                                    for &ms in &mss {
                                        let cfg = RxConfig {
                                            rf: RfConfig { frequency: 868_100_000, bb, max_payload_len: 255 },
                                            mode: LwRxMode::Single { ms },
                                        };
                                        spi.take_log();
                                        radio.setup_rx(cfg).await.map_err(|e| format!("{e:?}"))?;
                                        let mut buf = [0u8; 255];
                                        let _ = radio.rx_single(&mut buf).await;
                                        let log: Vec<Txn> = spi.take_log().into_iter().filter($filter).collect();
                                        cs.push(json!([ms, txns_json(&log)]));
                                    }
                                    Ok::<(), String>(())
                                })
                            });
                            if !matches!(r, Ok(Ok(()))) {
                                res = "fail";
                            }
                        }};
                    }
                    if chip == "sx1276" {
                        let mut e = Env127::new();
                        e.rx_times_out = true;
                        let spi = Spi::new(e);
                        run!(new_1276(&spi, false), &spi, |t: &Txn| t.w[0] == 0x9E || t.w[0] == 0x9F);
                    } else {
                        let mut e = Env126::new();
                        e.irq = 0x0200; // timeout
                        let spi = Spi::new(e);
                        run!(new_1262(&spi), &spi, |t: &Txn| t.w[0] == 0xA0 || (t.w[0] == 0x0D && t.w[1] == 0x07 && t.w[2] == 0x06));
                    }
                    cases += cs.len() as u64;
                    out.emit(&json!({"ev":"symbols","chip":chip,"sf":sf.factor(),"bw":bi,"res":res,"cases":cs}));
                }
            }
        }
    }

    // ---------------------------------------------------------------- packet status / RSSI
    if parts.contains(&"status") {
        // SX126x: every value of each of the three status bytes, the other two at fixed values; plus a cross
        {
            let mut triples: Vec<[u8; 3]> = Vec::new();
            for v in 0..=255u8 {
                triples.push([v, 20, 118]);
                triples.push([120, v, 118]);
                triples.push([120, 20, v]);
            }
            let grid: Vec<u8> = if a.thorough { (0..=255).collect() } else { (0..=255).step_by(5).chain([126, 127, 128, 129, 254]).collect() };
            for &r0 in &grid {
                for &r1 in &grid {
                    triples.push([r0, r1, (r0 ^ r1).wrapping_mul(31)]);
                }
            }
            for chunk in triples.chunks(512) {
                let mut cs: Vec<Value> = Vec::new();
                for t in chunk {
                    let mut e = Env126::new();
                    e.pkt = *t;
                    let spi = Spi::new(e);
                    let mut rk = new_1262(&spi);
                    let r = catch(|| block_on(rk.get_rx_packet_status()));
                    let (rs, rssi, snr) = match &r {
                        Ok(Ok(p)) => ("ok", p.rssi as i32, p.snr as i32),
                        Ok(Err(_)) => ("err", 0, 0),
                        Err(_) => ("panic", 0, 0),
                    };
                    cs.push(json!([t[0], t[1], t[2], rs, rssi, snr]));
                    cases += 1;
                }
                out.emit(&json!({"ev":"pktstatus","chip":"sx1262","band":"none","cases":cs}));
            }
            let mut cs: Vec<Value> = Vec::new();
            for v in 0..=255u8 {
                let mut e = Env126::new();
                e.rssi = v;
                let spi = Spi::new(e);
                let mut rk = new_1262(&spi);
                let r = catch(|| block_on(rk.get_rssi()));
                let (rs, rssi) = match &r {
                    Ok(Ok(p)) => ("ok", *p as i32),
                    Ok(Err(_)) => ("err", 0),
                    Err(_) => ("panic", 0),
                };
                cs.push(json!([v, rs, rssi]));
                cases += 1;
            }
            out.emit(&json!({"ev":"rssiinst","chip":"sx1262","band":"none","cases":cs}));
        }
        // SX127x: the full 2^16 cross of (SNR, RSSI) raw values per chip / band
        for (chip, band, frf) in [("sx1276", "hf", [0xD9u8, 0x06, 0x66]), ("sx1276", "lf", [0x6C, 0x80, 0x00]), ("sx1272", "hf", [0xD9, 0x06, 0x66])] {
            if !sel(a, "chips", chip) {
                continue;
            }
            for snr_raw in 0..=255u8 {
                let mut cs: Vec<Value> = Vec::new();
                for rssi_raw in 0..=255u8 {
                    let mut e = Env127::new();
                    e.regs[0x19] = snr_raw;
                    e.regs[0x1a] = rssi_raw;
                    e.regs[0x06] = frf[0];
                    e.regs[0x07] = frf[1];
                    e.regs[0x08] = frf[2];
                    let spi = Spi::new(e);
                    let r = if chip == "sx1276" {
                        let mut rk = new_1276(&spi, false);
                        catch(|| block_on(rk.get_rx_packet_status()))
                    } else {
                        let mut rk = new_1272(&spi, false);
                        catch(|| block_on(rk.get_rx_packet_status()))
                    };
                    let (rs, rssi, snr) = match &r {
                        Ok(Ok(p)) => ("ok", p.rssi as i32, p.snr as i32),
                        Ok(Err(_)) => ("err", 0, 0),
                        Err(_) => ("panic", 0, 0),
                    };
                    cs.push(json!([rssi_raw, snr_raw, 0, rs, rssi, snr]));
                    cases += 1;
                }
                out.emit(&json!({"ev":"pktstatus","chip":chip,"band":band,"cases":cs}));
            }
            let mut cs: Vec<Value> = Vec::new();
            for v in 0..=255u8 {
                let mut e = Env127::new();
                e.regs[0x1b] = v;
                e.regs[0x06] = frf[0];
                e.regs[0x07] = frf[1];
                e.regs[0x08] = frf[2];
                let spi = Spi::new(e);
                let r = if chip == "sx1276" {
                    let mut rk = new_1276(&spi, false);
                    catch(|| block_on(rk.get_rssi()))
                } else {
                    let mut rk = new_1272(&spi, false);
                    catch(|| block_on(rk.get_rssi()))
                };
                let (rs, rssi) = match &r {
                    Ok(Ok(p)) => ("ok", *p as i32),
                    Ok(Err(_)) => ("err", 0),
                    Err(_) => ("panic", 0),
                };
                cs.push(json!([v, rs, rssi]));
                cases += 1;
            }
            out.emit(&json!({"ev":"rssiinst","chip":chip,"band":band,"cases":cs}));
        }
    // SX127x after a band change that did not reconfigure the modulation (`rx_switch_channel` / `set_channel` into
        // the other band): the conversion follows the band the synthesiser is tuned to NOW, whatever was configured before
        for (chip, band, f_before, f_now) in [("sx1276", "lf", 868_100_000u32, 433_175_000u32), ("sx1276", "hf", 433_175_000, 868_100_000),
                                               ("sx1272", "hf", 903_900_000, 868_100_000)] {
            if !sel(a, "chips", chip) {
                continue;
            }
            let mut cs_p: Vec<Value> = Vec::new();
            let mut cs_i: Vec<Value> = Vec::new();
            for v in 0..=255u8 {
                let snr_raw = v.wrapping_mul(37);
                let mut e = Env127::new();
                e.regs[0x19] = snr_raw;
                e.regs[0x1a] = v;
                e.regs[0x1b] = v;
                let spi = Spi::new(e);
                macro_rules! history {
                    ($rk:expr) => {{
                        let mut rk = $rk;
                        catch(|| {
                            let mp = rk.create_modulation_params(lora_modulation::SpreadingFactor::_7, lora_modulation::Bandwidth::_125KHz, lora_modulation::CodingRate::_4_5, f_before).map_err(|_| ())?;
                            block_on(rk.set_channel(f_before)).map_err(|_| ())?;
                            block_on(rk.set_modulation_params(&mp)).map_err(|_| ())?;
                            block_on(rk.set_channel(f_now)).map_err(|_| ())?;
                            let p = block_on(rk.get_rx_packet_status()).map_err(|_| ())?;
                            let i = block_on(rk.get_rssi()).map_err(|_| ())?;
                            Ok::<_, ()>((p.rssi as i32, p.snr as i32, i as i32))
                        })
                    }};
                }
                let r = if chip == "sx1276" { history!(new_1276(&spi, false)) } else { history!(new_1272(&spi, false)) };
                match r {
                    Ok(Ok((rssi, snr, inst))) => {
                        cs_p.push(json!([v, snr_raw, 0, "ok", rssi, snr]));
                        cs_i.push(json!([v, "ok", inst]));
                    }
                    Ok(Err(_)) => {
                        cs_p.push(json!([v, snr_raw, 0, "err", 0, 0]));
                        cs_i.push(json!([v, "err", 0]));
                    }
                    Err(_) => {
                        cs_p.push(json!([v, snr_raw, 0, "panic", 0, 0]));
                        cs_i.push(json!([v, "panic", 0]));
                    }
                }
                cases += 2;
            }
            out.emit(&json!({"ev":"pktstatus","chip":chip,"band":band,"cases":cs_p,"after":"band change without new modulation"}));
            out.emit(&json!({"ev":"rssiinst","chip":chip,"band":band,"cases":cs_i,"after":"band change without new modulation"}));
        }
    }
    println!("events={} cases={}", out.finish(), cases);
}

// ================================================================== C13: wire events

use smtc_modem_cores::sx126x as r126;
use smtc_modem_cores::sx127x as r127;
use smtc_modem_cores::sys;

fn wcase(a: &[i64], p: &[(u16, u8)], d: &[u8], res: &str, log: &[Txn]) -> Value {
    json!({"a": a, "p": p.iter().map(|(x, y)| json!([x, y])).collect::<Vec<_>>(), "d": d, "res": res, "t": txns_json(log)})
}

fn st126(s: r126::Status) -> &'static str {
    match s {
        r126::Status::Ok => "ok",
        _ => "err",
    }
}
fn st127(s: r127::Status) -> &'static str {
    match s {
        r127::Status::Ok => "ok",
        _ => "err",
    }
}

macro_rules! on126 {
    ($chip:expr, $spi:expr, $rxboost:expr, |$rk:ident| $body:expr) => {
        match $chip {
            "sx1261" => {
                let mut $rk = sx126x::Sx126x::new($spi.clone(), Iv::new(), sx126x::Config { chip: sx126x::Sx1261, tcxo_ctrl: None, use_dcdc: false, rx_boost: $rxboost });
                $body
            }
            "sx1262" => {
                let mut $rk = sx126x::Sx126x::new($spi.clone(), Iv::new(), sx126x::Config { chip: sx126x::Sx1262, tcxo_ctrl: None, use_dcdc: false, rx_boost: $rxboost });
                $body
            }
            "stm32wl-hp" => {
                let mut $rk = sx126x::Sx126x::new($spi.clone(), Iv::new(), sx126x::Config { chip: sx126x::Stm32wl { use_high_power_pa: true }, tcxo_ctrl: None, use_dcdc: false, rx_boost: $rxboost });
                $body
            }
            _ => {
                let mut $rk = sx126x::Sx126x::new($spi.clone(), Iv::new(), sx126x::Config { chip: sx126x::Stm32wl { use_high_power_pa: false }, tcxo_ctrl: None, use_dcdc: false, rx_boost: $rxboost });
                $body
            }
        }
    };
}
macro_rules! on127 {
    ($chip:expr, $spi:expr, $txboost:expr, $rxboost:expr, |$rk:ident| $body:expr) => {
        match $chip {
            "sx1276" => {
                let mut $rk = sx127x::Sx127x::new($spi.clone(), Iv::new(), sx127x::Config { chip: sx127x::Sx1276, tcxo_used: false, tx_boost: $txboost, rx_boost: $rxboost });
                $body
            }
            _ => {
                let mut $rk = sx127x::Sx127x::new($spi.clone(), Iv::new(), sx127x::Config { chip: sx127x::Sx1272, tcxo_used: false, tx_boost: $txboost, rx_boost: $rxboost });
                $body
            }
        }
    };
}

fn env126_with(p: &[(u16, u8)]) -> Env126 {
    let mut e = Env126::new();
    for (a, v) in p {
        e.regs.insert(*a, *v);
    }
    e
}

fn c_sf(sf: u32) -> r126::sx126x_lora_sf_e {
    use r126::sx126x_lora_sf_e::*;
    match sf {
        5 => SX126X_LORA_SF5,
        6 => SX126X_LORA_SF6,
        7 => SX126X_LORA_SF7,
        8 => SX126X_LORA_SF8,
        9 => SX126X_LORA_SF9,
        10 => SX126X_LORA_SF10,
        11 => SX126X_LORA_SF11,
        _ => SX126X_LORA_SF12,
    }
}
fn c_bw(bw: usize) -> r126::sx126x_lora_bw_e {
    use r126::sx126x_lora_bw_e::*;
    [SX126X_LORA_BW_007, SX126X_LORA_BW_010, SX126X_LORA_BW_015, SX126X_LORA_BW_020, SX126X_LORA_BW_031, SX126X_LORA_BW_041,
     SX126X_LORA_BW_062, SX126X_LORA_BW_125, SX126X_LORA_BW_250, SX126X_LORA_BW_500][bw]
}
fn c_cr(den: u32) -> r126::sx126x_lora_cr_e {
    use r126::sx126x_lora_cr_e::*;
    match den {
        5 => SX126X_LORA_CR_4_5,
        6 => SX126X_LORA_CR_4_6,
        7 => SX126X_LORA_CR_4_7,
        _ => SX126X_LORA_CR_4_8,
    }
}
fn c_ramp(code: u32) -> r126::sx126x_ramp_time_e {
    use r126::sx126x_ramp_time_e::*;
    [SX126X_RAMP_10_US, SX126X_RAMP_20_US, SX126X_RAMP_40_US, SX126X_RAMP_80_US, SX126X_RAMP_200_US, SX126X_RAMP_800_US,
     SX126X_RAMP_1700_US, SX126X_RAMP_3400_US][code as usize]
}

/// an event collector: cases are grouped per (drv, chip, op) and flushed in batches
struct Collector {
    out: Shards,
    cur: HashMap<(String, String, String), Vec<Value>>,
    cases: u64,
    batch: usize,
}
impl Collector {
    fn add(&mut self, drv: &str, chip: &str, op: &str, c: Value) {
        self.cases += 1;
        let k = (drv.to_string(), chip.to_string(), op.to_string());
        let v = self.cur.entry(k.clone()).or_default();
        v.push(c);
        if v.len() >= self.batch {
            let cs = std::mem::take(v);
            self.out.emit(&json!({"ev":"wire","drv":k.0,"chip":k.1,"op":k.2,"cases":cs}));
        }
    }
    fn finish(mut self) -> (u64, u64) {
        let mut keys: Vec<_> = self.cur.keys().cloned().collect();
        keys.sort();
        for k in keys {
            let cs = self.cur.remove(&k).unwrap();
            if !cs.is_empty() {
                self.out.emit(&json!({"ev":"wire","drv":k.0,"chip":k.1,"op":k.2,"cases":cs}));
            }
        }
        (self.out.finish(), self.cases)
    }
}

fn preambles(thorough: bool) -> Vec<u16> {
    if thorough { vec![0, 1, 6, 8, 11, 12, 13, 255, 256, 4660, 65535] } else { vec![0, 1, 8, 12, 256, 65535] }
}
fn lens(thorough: bool) -> Vec<u8> {
    if thorough { (0..=255).collect() } else { vec![0, 1, 12, 13, 51, 64, 127, 128, 222, 242, 254, 255] }
}

unsafe extern "C" {
    // SWL2001 sx126x.h: present in the static library of smtc-modem-cores-sys, not in its generated bindings
    fn sx126x_set_reg_mode(context: *const core::ffi::c_void, mode: u32) -> u32;
    fn sx126x_clear_device_errors(context: *const core::ffi::c_void) -> u32;
    fn sx126x_set_dio3_as_tcxo_ctrl(context: *const core::ffi::c_void, tcxo_voltage: u32, timeout: u32) -> u32;
    fn sx126x_cal(context: *const core::ffi::c_void, param: u8) -> u32;
}

fn tcxo_voltage(code: i64) -> Option<sx126x::TcxoCtrlVoltage> {
    use sx126x::TcxoCtrlVoltage::*;
    match code {
        0 => Some(Ctrl1V6),
        1 => Some(Ctrl1V7),
        2 => Some(Ctrl1V8),
        3 => Some(Ctrl2V2),
        4 => Some(Ctrl2V4),
        5 => Some(Ctrl2V7),
        6 => Some(Ctrl3V0),
        7 => Some(Ctrl3V3),
        _ => None,
    }
}

/// init_lora of one chip variant with the regulator / TCXO options of the board configuration
fn init126(chip: &str, spi: &Spi<Env126>, use_dcdc: bool, tcxo: i64, sw: u16) -> Result<Result<(), RadioError>, String> {
    let tcxo_ctrl = tcxo_voltage(tcxo);
    match chip {
        "sx1261" => {
            let mut rk = sx126x::Sx126x::new(spi.clone(), Iv::new(), sx126x::Config { chip: sx126x::Sx1261, tcxo_ctrl, use_dcdc, rx_boost: false });
            catch(|| block_on(RadioKind::init_lora(&mut rk, sw)))
        }
        "sx1262" => {
            let mut rk = sx126x::Sx126x::new(spi.clone(), Iv::new(), sx126x::Config { chip: sx126x::Sx1262, tcxo_ctrl, use_dcdc, rx_boost: false });
            catch(|| block_on(RadioKind::init_lora(&mut rk, sw)))
        }
        "stm32wl-hp" => {
            let mut rk = sx126x::Sx126x::new(spi.clone(), Iv::new(), sx126x::Config { chip: sx126x::Stm32wl { use_high_power_pa: true }, tcxo_ctrl, use_dcdc, rx_boost: false });
            catch(|| block_on(RadioKind::init_lora(&mut rk, sw)))
        }
        _ => {
            let mut rk = sx126x::Sx126x::new(spi.clone(), Iv::new(), sx126x::Config { chip: sx126x::Stm32wl { use_high_power_pa: false }, tcxo_ctrl, use_dcdc, rx_boost: false });
            catch(|| block_on(RadioKind::init_lora(&mut rk, sw)))
        }
    }
}

fn wire_126(a: &Args, col: &mut Collector, rng: &mut StdRng) {
    let th = a.thorough;
    let md = &mut MockDelay;
    let only = |op: &str| sel(a, "ops", op);
    let priors = |rng: &mut StdRng| -> Vec<u8> { vec![0x00, 0x04, 0xFB, 0xFF, rng.r#gen(), rng.r#gen()] };
    // ---------------- single-shot operations
    for chip in ["sx1261", "sx1262"] {
        if !sel(a, "chips", chip) {
            continue;
        }
        if only("sleep") {
            for warm in [false, true] {
                let spi = Spi::new(Env126::new());
                let r = on126!(chip, spi, false, |rk| catch(|| block_on(rk.set_sleep(warm, md))));
                col.add("lora-phy", chip, "sleep", wcase(&[warm as i64], &[], &[], res_str(&r), &spi.take_log()));
                let mut c = r126::Context::new(Spi::new(Env126::new()));
                let s = c.set_sleep(if warm { r126::SleepCfg::WarmStart } else { r126::SleepCfg::ColdStart });
                col.add("reference", chip, "sleep", wcase(&[warm as i64], &[], &[], st126(s), &c.inner.take_log()));
            }
        }
        if only("standby") {
            let spi = Spi::new(Env126::new());
            let r = on126!(chip, spi, false, |rk| catch(|| block_on(rk.set_standby())));
            col.add("lora-phy", chip, "standby", wcase(&[0], &[], &[], res_str(&r), &spi.take_log()));
            for cfg in [0i64, 1] {
                let mut c = r126::Context::new(Spi::new(Env126::new()));
                let s = c.set_standby(if cfg == 0 { r126::sx126x_standby_cfgs_e::SX126X_STANDBY_CFG_RC } else { r126::sx126x_standby_cfgs_e::SX126X_STANDBY_CFG_XOSC });
                col.add("reference", chip, "standby", wcase(&[cfg], &[], &[], st126(s), &c.inner.take_log()));
            }
        }
        if only("tx_start") {
            let spi = Spi::new(Env126::new());
            let r = on126!(chip, spi, false, |rk| catch(|| block_on(rk.do_tx())));
            col.add("lora-phy", chip, "tx_start", wcase(&[0], &[], &[], res_str(&r), &spi.take_log()));
            for ms in [0u32, 1, 1000, 262_143] {
                let mut c = r126::Context::new(Spi::new(Env126::new()));
                let s = c.set_tx(ms);
                col.add("reference", chip, "set_tx", wcase(&[ms as i64], &[], &[], st126(s), &c.inner.take_log()));
            }
            let spi = Spi::new(Env126::new());
            let r = on126!(chip, spi, false, |rk| catch(|| block_on(rk.set_tx_continuous_wave_mode())));
            col.add("lora-phy", chip, "cw", wcase(&[], &[], &[], res_str(&r), &spi.take_log()));
            let mut c = r126::Context::new(Spi::new(Env126::new()));
            let s = c.set_tx_cw();
            col.add("reference", chip, "cw", wcase(&[], &[], &[], st126(s), &c.inner.take_log()));
        }
        if only("wakeup") {
            let spi = Spi::new(Env126::new());
            let r = on126!(chip, spi, false, |rk| catch(|| block_on(rk.ensure_ready(RadioMode::Sleep))));
            col.add("lora-phy", chip, "wakeup", wcase(&[], &[], &[], res_str(&r), &spi.take_log()));
            let mut c = r126::Context::new(Spi::new(Env126::new()));
            let (s, _) = c.get_status();
            col.add("reference", chip, "wakeup", wcase(&[], &[], &[], st126(s), &c.inner.take_log()));
        }
        // ---------------- frequency
        if only("rf_freq") {
            // the 100 Hz raster of the LoRaWAN bands on the SX1262 (both drivers); the SX1261 shares the code path: 1 kHz
            for (f0, step, n) in freq_batches(th, a.seed, if chip == "sx1262" { 100 } else { 1000 }) {
                for i in 0..n {
                    let f = f0 + i * step;
                    let fa = [(f >> 16) as i64, (f & 0xFFFF) as i64];
                    let spi = Spi::new(Env126::new());
                    let r = on126!(chip, spi, false, |rk| catch(|| block_on(rk.set_channel(f))));
                    col.add("lora-phy", chip, "rf_freq", wcase(&fa, &[], &[], res_str(&r), &spi.take_log()));
                    if chip == "sx1262" {
                        let mut c = r126::Context::new(Spi::new(Env126::new()));
                        let s = c.set_rf_freq(f);
                        col.add("reference", chip, "rf_freq", wcase(&fa, &[], &[], st126(s), &c.inner.take_log()));
                    }
                }
            }
        }
        if only("cal_image") {
            for (f0, step, n) in freq_batches(false, a.seed, 1000) {
                for i in 0..n {
                    let f = f0 + i * step;
                    let fa = [(f >> 16) as i64, (f & 0xFFFF) as i64];
                    let spi = Spi::new(Env126::new());
                    let r = on126!(chip, spi, false, |rk| catch(|| block_on(rk.calibrate_image(f))));
                    col.add("lora-phy", chip, "cal_image", wcase(&fa, &[], &[], res_str(&r), &spi.take_log()));
                }
            }
            if chip == "sx1262" {
                for f1 in (0..=255u8).step_by(if th { 1 } else { 7 }) {
                    for f2 in (0..=255u8).step_by(if th { 3 } else { 11 }) {
                        let mut c = r126::Context::new(Spi::new(Env126::new()));
                        let s = c.cal_img(f1, f2);
                        col.add("reference", chip, "cal_img", wcase(&[f1 as i64, f2 as i64], &[], &[], st126(s), &c.inner.take_log()));
                    }
                }
                for (m1, m2) in [(430u16, 440u16), (470, 510), (779, 787), (863, 870), (902, 928), (137, 1020), (433, 434), (915, 915)] {
                    let mut c = r126::Context::new(Spi::new(Env126::new()));
                    let s: r126::Status =
                        unsafe { sys::sx126x_cal_img_in_mhz(&mut c as *mut _ as *const core::ffi::c_void, m1, m2) }.into();
                    col.add("reference", chip, "cal_img_mhz", wcase(&[m1 as i64, m2 as i64], &[], &[], st126(s), &c.inner.take_log()));
                }
            }
        }
        // ---------------- modulation parameters
        if only("mod_params") {
            for sf in 0..8usize {
                for bw in 0..10usize {
                    for cr in 0..4usize {
                        for ldro in [0u8, 1] {
                            for prior in priors(rng) {
                                let aa = [SFS[sf].factor() as i64, bw as i64, CRS[cr].denom() as i64, ldro as i64];
                                let p = [(0x0889u16, prior)];
                                let spi = Spi::new(env126_with(&p));
                                let mp = mk_mp(sf, bw, cr, ldro, 868_100_000);
                                let r = on126!(chip, spi, false, |rk| catch(|| block_on(rk.set_modulation_params(&mp))));
                                col.add("lora-phy", chip, "mod_params", wcase(&aa, &p, &[], res_str(&r), &spi.take_log()));
                                if chip == "sx1262" {
                                    let mut c = r126::Context::new(Spi::new(env126_with(&p)));
                                    let s = c.set_lora_mod_params(&r126::sx126x_mod_params_lora_t {
                                        sf: c_sf(SFS[sf].factor()),
                                        bw: c_bw(bw),
                                        cr: c_cr(CRS[cr].denom()),
                                        ldro,
                                    });
                                    col.add("reference", chip, "mod_params", wcase(&aa, &p, &[], st126(s), &c.inner.take_log()));
                                }
                                if !th && prior == 0x04 {
                                    break; // quick: two prior contents per tuple
                                }
                            }
                        }
                    }
                }
            }
        }
        // ---------------- packet parameters
        if only("pkt_params") {
            for pre in preambles(th) {
                for hdr in [false, true] {
                    for crc in [false, true] {
                        for iq in [false, true] {
                            for len in lens(th) {
                                let prior: u8 = rng.r#gen();
                                let aa = [pre as i64, hdr as i64, len as i64, crc as i64, iq as i64];
                                let p = [(0x0736u16, prior)];
                                let spi = Spi::new(env126_with(&p));
                                let pp = PacketParams { preamble_length: pre, implicit_header: hdr, payload_length: len, crc_on: crc, iq_inverted: iq };
                                let r = on126!(chip, spi, false, |rk| catch(|| block_on(rk.set_packet_params(&pp))));
                                col.add("lora-phy", chip, "pkt_params", wcase(&aa, &p, &[], res_str(&r), &spi.take_log()));
                                if chip == "sx1262" {
                                    let mut c = r126::Context::new(Spi::new(env126_with(&p)));
                                    let s = c.set_lora_pkt_params(&r126::sx126x_pkt_params_lora_t {
                                        preamble_len_in_symb: pre,
                                        header_type: if hdr { r126::sx126x_lora_pkt_len_modes_e::SX126X_LORA_PKT_IMPLICIT } else { r126::sx126x_lora_pkt_len_modes_e::SX126X_LORA_PKT_EXPLICIT },
                                        pld_len_in_bytes: len,
                                        crc_is_on: crc,
                                        invert_iq_is_on: iq,
                                    });
                                    col.add("reference", chip, "pkt_params", wcase(&aa, &p, &[], st126(s), &c.inner.take_log()));
                                }
                            }
                        }
                    }
                }
            }
        }
        // ---------------- sync word
        if only("sync_word") {
            let sws: Vec<u16> = if th {
                (0..=65535).collect()
            } else {
                (0..=255u16).map(|b| ((b & 0xF0) | 0x04) << 8 | ((b & 0x0F) << 4) | 0x04).chain((0..200).map(|_| rng.r#gen())).collect()
            };
            for sw in sws {
                let spi = Spi::new(Env126::new());
                let r = on126!(chip, spi, false, |rk| catch(|| block_on(rk.set_lora_sync_word(sw))));
                col.add("lora-phy", chip, "sync_word", wcase(&[sw as i64], &[], &[], res_str(&r), &spi.take_log()));
            }
            if chip == "sx1262" {
                for sw8 in 0..=255u8 {
                    for k in 0..(if th { 4 } else { 2 }) {
                        let p = if k == 0 { [(0x0740u16, 0x14u8), (0x0741, 0x24)] } else { [(0x0740, rng.r#gen()), (0x0741, rng.r#gen())] };
                        let mut c = r126::Context::new(Spi::new(env126_with(&p)));
                        let s = c.set_lora_sync_word(sw8);
                        col.add("reference", chip, "sync_word_rmw", wcase(&[sw8 as i64], &p, &[], st126(s), &c.inner.take_log()));
                    }
                }
            }
        }
        // ---------------- buffer base / payload
        if only("buffer") {
            let g: Vec<usize> = if th { (0..=255).collect() } else { vec![0, 1, 64, 127, 128, 200, 254, 255] };
            for &tx in &g {
                for &rx in &g {
                    if th && (tx * 7 + rx) % 5 != 0 && tx != rx && tx != 0 && rx != 0 {
                        continue;
                    }
                    let spi = Spi::new(Env126::new());
                    let r = on126!(chip, spi, false, |rk| catch(|| block_on(rk.set_tx_rx_buffer_base_address(tx, rx))));
                    col.add("lora-phy", chip, "buffer_base", wcase(&[tx as i64, rx as i64], &[], &[], res_str(&r), &spi.take_log()));
                    if chip == "sx1262" {
                        let mut c = r126::Context::new(Spi::new(Env126::new()));
                        let s = c.set_buffer_base_address(tx as u8, rx as u8);
                        col.add("reference", chip, "buffer_base", wcase(&[tx as i64, rx as i64], &[], &[], st126(s), &c.inner.take_log()));
                    }
                }
            }
            for (tx, rx) in [(256usize, 0usize), (0, 256), (1000, 1000)] {
                let spi = Spi::new(Env126::new());
                let r = on126!(chip, spi, false, |rk| catch(|| block_on(rk.set_tx_rx_buffer_base_address(tx, rx))));
                col.add("lora-phy", chip, "buffer_base", wcase(&[tx as i64, rx as i64], &[], &[], res_str(&r), &spi.take_log()));
            }
            for len in 0..=255usize {
                let data: Vec<u8> = (0..len).map(|_| rng.r#gen()).collect();
                let spi = Spi::new(Env126::new());
                let r = on126!(chip, spi, false, |rk| catch(|| block_on(rk.set_payload(&data))));
                col.add("lora-phy", chip, "write_buffer", wcase(&[0], &[], &data, res_str(&r), &spi.take_log()));
                if chip == "sx1262" {
                    let off: u8 = if len % 3 == 0 { 0 } else { rng.r#gen() };
                    let mut c = r126::Context::new(Spi::new(Env126::new()));
                    let s = c.write_buffer(off, &data);
                    col.add("reference", chip, "write_buffer", wcase(&[off as i64], &[], &data, st126(s), &c.inner.take_log()));
                }
            }
        }
        // ---------------- interrupts
        if only("irq") {
            let modes: [(i64, Option<RadioMode>); 7] = [
                (0, None),
                (1, Some(RadioMode::Standby)),
                (2, Some(RadioMode::Transmit)),
                (3, Some(RadioMode::Receive(RxMode::Continuous))),
                (4, Some(RadioMode::ChannelActivityDetection)),
                (5, Some(RadioMode::Sleep)),
                (6, Some(RadioMode::Receive(RxMode::Single(8)))),
            ];
            for (code, m) in modes {
                let spi = Spi::new(Env126::new());
                let r = on126!(chip, spi, false, |rk| catch(|| block_on(rk.set_irq_params(m))));
                col.add("lora-phy", chip, "irq_params", wcase(&[code], &[], &[], res_str(&r), &spi.take_log()));
            }
            if chip == "sx1262" {
                let mut masks: Vec<[u16; 4]> = vec![[0, 0, 0, 0], [0xFFFF; 4], [0x0201, 0x0201, 0, 0], [0x43FF, 0x43FF, 0, 0]];
                for b in 0..16 {
                    masks.push([1 << b, 0, 0, 0]);
                    masks.push([0, 1 << b, 0, 0]);
                    masks.push([0, 0, 1 << b, 0]);
                    masks.push([0, 0, 0, 1 << b]);
                }
                for _ in 0..(if th { 2000 } else { 100 }) {
                    masks.push([rng.r#gen(), rng.r#gen(), rng.r#gen(), rng.r#gen()]);
                }
                for m in masks {
                    let mut c = r126::Context::new(Spi::new(Env126::new()));
                    let s = c.set_dio_irq_params(m[0], m[1], m[2], m[3]);
                    col.add("reference", chip, "dio_irq", wcase(&[m[0] as i64, m[1] as i64, m[2] as i64, m[3] as i64], &[], &[], st126(s), &c.inner.take_log()));
                }
                for m in [0u16, 0xFFFF, 0x0001, 0x0200, 0x1234] {
                    let mut c = r126::Context::new(Spi::new(Env126::new()));
                    let s = c.clear_irq_status(m);
                    col.add("reference", chip, "clear_irq", wcase(&[m as i64], &[], &[], st126(s), &c.inner.take_log()));
                }
                let mut c = r126::Context::new(Spi::new(Env126::new()));
                let (s, _) = c.get_irq_status();
                col.add("reference", chip, "get_irq_status", wcase(&[], &[], &[], st126(s), &c.inner.take_log()));
            }
            // interrupt processing: read + clear (+ the implicit-header timeout workaround after a single-mode RxDone)
            for (code, mode, irq) in [(2i64, RadioMode::Transmit, 0x0001u16), (3, RadioMode::Receive(RxMode::Continuous), 0x0002), (6, RadioMode::Receive(RxMode::Single(8)), 0x0002)] {
                for prior in [0u8, 0x02, 0xFD, rng.r#gen()] {
                    let p = [(0x0944u16, prior)];
                    let mut e = env126_with(&p);
                    e.irq = irq;
                    let spi = Spi::new(e);
                    let r = on126!(chip, spi, false, |rk| catch(|| block_on(rk.process_irq_event(mode, None, true)).map(|_| ())));
                    col.add("lora-phy", chip, "irq_process", wcase(&[code], &p, &[], res_str(&r), &spi.take_log()));
                }
            }
        }
        // ---------------- receive / CAD start
        if only("rx_start") {
            let ns: Vec<u16> = if th { (0..=1100).chain((1100..=65535).step_by(97)).collect() } else { (0..=260).chain([511, 1023, 4096, 65535]).collect() };
            for boost in [false, true] {
                for &n in &ns {
                    let spi = Spi::new(Env126::new());
                    let r = on126!(chip, spi, boost, |rk| catch(|| block_on(rk.do_rx(RxMode::Single(n)))));
                    col.add("lora-phy", chip, "rx_start", wcase(&[0, n as i64, boost as i64, 0, 0], &[], &[], res_str(&r), &spi.take_log()));
                }
                let spi = Spi::new(Env126::new());
                let r = on126!(chip, spi, boost, |rk| catch(|| block_on(rk.do_rx(RxMode::Continuous))));
                col.add("lora-phy", chip, "rx_start", wcase(&[1, 0, boost as i64, 0, 0], &[], &[], res_str(&r), &spi.take_log()));
                for _ in 0..20 {
                    let (rx, sl): (u32, u32) = (rng.gen_range(0..0x1000000), rng.gen_range(0..0x1000000));
                    let spi = Spi::new(Env126::new());
                    let dc = lora_phy::mod_params::DutyCycleParams { rx_time: rx, sleep_time: sl };
                    let r = on126!(chip, spi, boost, |rk| catch(|| block_on(rk.do_rx(RxMode::DutyCycle(dc)))));
                    col.add("lora-phy", chip, "rx_start", wcase(&[2, 0, boost as i64, rx as i64, sl as i64], &[], &[], res_str(&r), &spi.take_log()));
                }
            }
            if chip == "sx1262" {
                for en in [false, true] {
                    let mut c = r126::Context::new(Spi::new(Env126::new()));
                    let s = c.stop_timer_on_preamble(en);
                    col.add("reference", chip, "stop_timer", wcase(&[en as i64], &[], &[], st126(s), &c.inner.take_log()));
                    let mut c = r126::Context::new(Spi::new(Env126::new()));
                    let s = c.cfg_rx_boosted(en);
                    col.add("reference", chip, "rx_gain", wcase(&[en as i64], &[], &[], st126(s), &c.inner.take_log()));
                }
                for n in 0..=255u8 {
                    let mut c = r126::Context::new(Spi::new(Env126::new()));
                    let s = c.set_lora_symb_nb_timeout(n);
                    col.add("reference", chip, "symb_timeout", wcase(&[n as i64], &[], &[], st126(s), &c.inner.take_log()));
                }
                for t in [0u32, 0xFFFFFF, 1, 0x123456, 64000].into_iter().chain((0..20).map(|_| rng.gen_range(0..0x1000000))) {
                    let mut c = r126::Context::new(Spi::new(Env126::new()));
                    let s = c.set_rx_with_timeout_in_rtc_step(t);
                    col.add("reference", chip, "set_rx", wcase(&[t as i64], &[], &[], st126(s), &c.inner.take_log()));
                }
            }
        }
        if only("cad_start") {
            for sf in 0..8usize {
                for boost in [false, true] {
                    let spi = Spi::new(Env126::new());
                    let mp = mk_mp(sf, 7, 0, 0, 868_100_000);
                    let r = on126!(chip, spi, boost, |rk| catch(|| block_on(rk.do_cad(&mp))));
                    col.add("lora-phy", chip, "cad_start", wcase(&[SFS[sf].factor() as i64, boost as i64], &[], &[], res_str(&r), &spi.take_log()));
                }
            }
            if chip == "sx1262" {
                use r126::sx126x_cad_symbs_e::*;
                let syms = [SX126X_CAD_01_SYMB, SX126X_CAD_02_SYMB, SX126X_CAD_04_SYMB, SX126X_CAD_08_SYMB, SX126X_CAD_16_SYMB];
                for (si, sym) in syms.into_iter().enumerate() {
                    for _ in 0..(if th { 40 } else { 6 }) {
                        let (peak, min): (u8, u8) = (rng.r#gen(), rng.r#gen());
                        let exit_rx: bool = rng.r#gen();
                        let to: u32 = rng.gen_range(0..0x1000000);
                        let mut c = r126::Context::new(Spi::new(Env126::new()));
                        let s = c.set_cad_params(&r126::sx126x_cad_params_t {
                            cad_symb_nb: sym,
                            cad_detect_peak: peak,
                            cad_detect_min: min,
                            cad_exit_mode: if exit_rx { r126::sx126x_cad_exit_modes_e::SX126X_CAD_RX } else { r126::sx126x_cad_exit_modes_e::SX126X_CAD_ONLY },
                            cad_timeout: to,
                        });
                        col.add("reference", chip, "cad_params", wcase(&[si as i64, peak as i64, min as i64, exit_rx as i64, to as i64], &[], &[], st126(s), &c.inner.take_log()));
                    }
                }
                let mut c = r126::Context::new(Spi::new(Env126::new()));
                let s = c.set_cad();
                col.add("reference", chip, "set_cad", wcase(&[], &[], &[], st126(s), &c.inner.take_log()));
            }
        }
        // ---------------- status reads and packet fetch (transaction shapes)
        if only("reads") {
            let spi = Spi::new(Env126::new());
            let r = on126!(chip, spi, false, |rk| catch(|| block_on(rk.get_rx_packet_status()).map(|_| ())));
            col.add("lora-phy", chip, "pkt_status", wcase(&[], &[], &[], res_str(&r), &spi.take_log()));
            let spi = Spi::new(Env126::new());
            let r = on126!(chip, spi, false, |rk| catch(|| block_on(rk.get_rssi()).map(|_| ())));
            col.add("lora-phy", chip, "rssi_inst", wcase(&[], &[], &[], res_str(&r), &spi.take_log()));
            if chip == "sx1262" {
                let mut c = r126::Context::new(Spi::new(Env126::new()));
                let (s, _) = c.get_lora_pkt_status();
                col.add("reference", chip, "pkt_status", wcase(&[], &[], &[], st126(s), &c.inner.take_log()));
                let mut c = r126::Context::new(Spi::new(Env126::new()));
                let (s, _) = c.get_rssi_inst();
                col.add("reference", chip, "rssi_inst", wcase(&[], &[], &[], st126(s), &c.inner.take_log()));
                let mut c = r126::Context::new(Spi::new(Env126::new()));
                let (s, _) = c.get_rx_buffer_status();
                col.add("reference", chip, "rx_buffer_status", wcase(&[], &[], &[], st126(s), &c.inner.take_log()));
            }
            let g: Vec<u8> = if th { (0..=255).step_by(3).collect() } else { vec![0, 1, 12, 64, 128, 200, 255] };
            for hdr in [false, true] {
                for &len in &g {
                    for &off in &g {
                        let c = FetchCase { hdr, replen: len, cfglen: len ^ 0x55, off, status: 0x24, bufsz: 256 };
                        let spi = Spi::new(env126_for(&c));
                        let pkt = pkt_params(&c);
                        let mut buf = [0u8; 256];
                        let r = on126!(chip, spi, false, |rk| catch(|| block_on(rk.get_rx_payload(&pkt, &mut buf)).map(|_| ())));
                        col.add("lora-phy", chip, "fetch", wcase(&[hdr as i64, len as i64, (len ^ 0x55) as i64, off as i64], &[], &[], res_str(&r), &spi.take_log()));
                        if chip == "sx1262" && !hdr {
                            let mut cx = r126::Context::new(Spi::new(Env126::new()));
                            let mut b = vec![0u8; len as usize];
                            let s = cx.read_buffer(off, &mut b);
                            col.add("reference", chip, "read_buffer", wcase(&[off as i64, len as i64], &[], &[], st126(s), &cx.inner.take_log()));
                        }
                    }
                }
            }
        }
    }
    // ---------------- TX power (all variants) and start-up
    for chip in ["sx1261", "sx1262", "stm32wl-hp", "stm32wl-lp"] {
        if !sel(a, "chips", chip) {
            continue;
        }
        if only("tx_power") {
            for req in power_requests() {
                for prep in [true, false] {
                    for prior in [0x00u8, 0x1E, 0xE1, rng.r#gen()] {
                        let p = [(0x08D8u16, prior)];
                        let spi = Spi::new(env126_with(&p));
                        let r = on126!(chip, spi, false, |rk| catch(|| block_on(rk.set_tx_power_and_ramp_time(req, None, prep))));
                        col.add("lora-phy", chip, "tx_power", wcase(&[req as i64, prep as i64], &p, &[], res_str(&r), &spi.take_log()));
                        if !th {
                            break;
                        }
                    }
                }
            }
        }
        if only("init") {
            // regulator / TCXO branches of the start-up sequence: a = [sync word, use_dcdc, tcxo voltage code or -1]
            for dcdc in [false, true] {
                for tcxo in -1i64..=7 {
                    if !dcdc && tcxo < 0 {
                        continue; // the plain configuration is enumerated below with the retention-list variants
                    }
                    let spi = Spi::new(Env126::new());
                    let r = init126(chip, &spi, dcdc, tcxo, 0x3444);
                    col.add("lora-phy", chip, "init", wcase(&[0x3444, dcdc as i64, tcxo], &[], &[], res_str(&r), &spi.take_log()));
                }
            }
            for sw in [0x3444u16, 0x1424, 0xAB12] {
                for k in 0..4 {
                    // retention list contents: empty, already holding RxGain, holding two other registers, full
                    let list: [u8; 9] = match k {
                        0 => [0; 9],
                        1 => [1, 0x08, 0xAC, 0, 0, 0, 0, 0, 0],
                        2 => [2, 0x07, 0x36, 0x08, 0x89, 0, 0, 0, 0],
                        _ => [4, 0x01, 0x02, 0x03, 0x04, 0x05, 0x06, 0x07, 0x08],
                    };
                    let p: Vec<(u16, u8)> = list.iter().enumerate().map(|(i, v)| (0x029F + i as u16, *v)).collect();
                    let spi = Spi::new(env126_with(&p));
                    let r = on126!(chip, spi, false, |rk| catch(|| block_on(RadioKind::init_lora(&mut rk, sw))));
                    col.add("lora-phy", chip, "init", wcase(&[sw as i64, 0, -1], &p, &[], res_str(&r), &spi.take_log()));
                }
            }
        }
    }
    if sel(a, "chips", "sx1262") && only("tx_power") {
        let chip = "sx1262";
        for duty in 0..8u8 {
            for hp in 0..8u8 {
                for ds in 0..2u8 {
                    let mut c = r126::Context::new(Spi::new(Env126::new()));
                    let s = c.set_pa_cfg(&r126::sx126x_pa_cfg_params_t { pa_duty_cycle: duty, hp_max: hp, device_sel: ds, pa_lut: 1 });
                    col.add("reference", chip, "pa_cfg", wcase(&[duty as i64, hp as i64, ds as i64, 1], &[], &[], st126(s), &c.inner.take_log()));
                }
            }
        }
        for pwr in -128..=127i32 {
            for ramp in 0..8u32 {
                let mut c = r126::Context::new(Spi::new(Env126::new()));
                let s = c.set_tx_params(pwr as i8, c_ramp(ramp));
                col.add("reference", chip, "tx_params", wcase(&[pwr as i64, ramp as i64], &[], &[], st126(s), &c.inner.take_log()));
            }
        }
        for prior in 0..=255u8 {
            let p = [(0x08D8u16, prior)];
            let mut c = r126::Context::new(Spi::new(env126_with(&p)));
            let s = c.cfg_tx_clamp();
            col.add("reference", chip, "tx_clamp", wcase(&[], &p, &[], st126(s), &c.inner.take_log()));
        }
    }
    if sel(a, "chips", "sx1262") && only("init") {
        let chip = "sx1262";
        for en in [false, true] {
            let mut c = r126::Context::new(Spi::new(Env126::new()));
            let s = c.set_dio2_as_rf_sw_ctrl(en);
            col.add("reference", chip, "dio2_rf_switch", wcase(&[en as i64], &[], &[], st126(s), &c.inner.take_log()));
        }
        for (code, t) in [(0i64, r126::sx126x_pkt_types_e::SX126X_PKT_TYPE_GFSK), (1, r126::sx126x_pkt_types_e::SX126X_PKT_TYPE_LORA)] {
            let mut c = r126::Context::new(Spi::new(Env126::new()));
            let s = c.set_pkt_type(t);
            col.add("reference", chip, "pkt_type", wcase(&[code], &[], &[], st126(s), &c.inner.take_log()));
        }
        // functions of the reference's C API that the safe wrapper does not expose (they are in the linked library)
        for m in [0u32, 1] {
            let mut c = r126::Context::new(Spi::new(Env126::new()));
            let s = unsafe { sx126x_set_reg_mode(&mut c as *mut _ as *const core::ffi::c_void, m) };
            col.add("reference", chip, "reg_mode", wcase(&[m as i64], &[], &[], if s == 0 { "ok" } else { "err" }, &c.inner.take_log()));
        }
        {
            let mut c = r126::Context::new(Spi::new(Env126::new()));
            let s = unsafe { sx126x_clear_device_errors(&mut c as *mut _ as *const core::ffi::c_void) };
            col.add("reference", chip, "clear_device_errors", wcase(&[], &[], &[], if s == 0 { "ok" } else { "err" }, &c.inner.take_log()));
        }
        for v in 0..8u32 {
            for t in [0u32, 1, 640, 0x123456, 0xFFFFFF] {
                let mut c = r126::Context::new(Spi::new(Env126::new()));
                let s = unsafe { sx126x_set_dio3_as_tcxo_ctrl(&mut c as *mut _ as *const core::ffi::c_void, v, t) };
                col.add("reference", chip, "tcxo_ctrl", wcase(&[v as i64, t as i64], &[], &[], if s == 0 { "ok" } else { "err" }, &c.inner.take_log()));
            }
        }
        for m in [0u8, 0x7F, 0x40, 0x01, 0x2A] {
            let mut c = r126::Context::new(Spi::new(Env126::new()));
            let s = unsafe { sx126x_cal(&mut c as *mut _ as *const core::ffi::c_void, m) };
            col.add("reference", chip, "calibrate", wcase(&[m as i64], &[], &[], if s == 0 { "ok" } else { "err" }, &c.inner.take_log()));
        }
        for addr in [0x08ACu16, 0x0889, 0x0736] {
            for k in 0..4 {
                let list: [u8; 9] = match k {
                    0 => [0; 9],
                    1 => [1, 0x08, 0xAC, 0, 0, 0, 0, 0, 0],
                    2 => [2, 0x07, 0x36, 0x08, 0x89, 0, 0, 0, 0],
                    _ => [4, 0x01, 0x02, 0x03, 0x04, 0x05, 0x06, 0x07, 0x08],
                };
                let p: Vec<(u16, u8)> = list.iter().enumerate().map(|(i, v)| (0x029F + i as u16, *v)).collect();
                let mut c = r126::Context::new(Spi::new(env126_with(&p)));
                let s = c.add_registers_to_retention_list(&[addr]);
                col.add("reference", chip, "retention_add", wcase(&[addr as i64], &p, &[], st126(s), &c.inner.take_log()));
            }
        }
    }
}

/// `vh wire`: C13.
pub fn vh_wire(a: &Args) {
    let out = Shards::create(&a.out, "wire", a.shards);
    let mut col = Collector { out, cur: HashMap::new(), cases: 0, batch: a.get_usize("batch", 200) };
    let mut rng = StdRng::seed_from_u64(a.seed ^ 0xC13);
    if sel(a, "fam", "sx126x") {
        wire_126(a, &mut col, &mut rng);
    }
    if sel(a, "fam", "sx127x") {
        wire_127(a, &mut col, &mut rng);
    }
    let (events, cases) = col.finish();
    println!("events={events} cases={cases}");
}


/// register file primed with legal contents: data sheet reset values in reserved fields, random bits in
/// the fields that read-modify-write operations have to preserve or replace
fn env127_random(rng: &mut StdRng, chip: &str) -> Env127 {
    let mut e = Env127::new();
    let r = &mut e.regs;
    r[0x01] = 0x81 | (rng.r#gen::<u8>() & 0x08); // LoRa standby, LowFrequencyModeOn random
    r[0x06] = 0x6C;
    r[0x07] = 0x80;
    r[0x09] = rng.r#gen();
    r[0x0A] = (rng.r#gen::<u8>() & 0x1F) | if chip == "sx1272" { 0 } else { 0 };
    r[0x0B] = 0x20 | (rng.r#gen::<u8>() & 0x1F);
    r[0x0C] = 0x20;
    r[0x0D] = rng.r#gen();
    r[0x0E] = 0x00;
    r[0x0F] = 0x00;
    r[0x11] = rng.r#gen();
    r[0x1D] = rng.r#gen();
    r[0x1E] = rng.r#gen();
    r[0x1F] = rng.r#gen();
    r[0x20] = rng.r#gen();
    r[0x21] = rng.r#gen();
    r[0x22] = rng.r#gen();
    r[0x23] = 0xFF;
    r[0x26] = rng.r#gen::<u8>() & 0x0C;
    r[0x2F] = rng.r#gen();
    r[0x30] = rng.r#gen();
    r[0x31] = 0x40 | (rng.r#gen::<u8>() & 0x87);
    r[0x33] = 0x26 | (rng.r#gen::<u8>() & 0x41);
    r[0x36] = rng.r#gen();
    r[0x37] = rng.r#gen();
    r[0x39] = rng.r#gen();
    r[0x3A] = rng.r#gen();
    r[0x3B] = if rng.r#gen() { 0x1D } else { 0x19 };
    r[0x40] = rng.r#gen();
    r[0x41] = rng.r#gen::<u8>() & 0xF0;
    r[0x42] = if chip == "sx1272" { 0x22 } else { 0x12 };
    r[0x4D] = 0x80 | (rng.r#gen::<u8>() & 0x07);
    r[0x5A] = 0x80 | (rng.r#gen::<u8>() & 0x07);
    e
}

fn rf_pairs(e: &Env127) -> Vec<(u16, u8)> {
    e.regs.iter().enumerate().filter(|(_, v)| **v != 0).map(|(a, v)| (a as u16, *v)).collect()
}

fn ref127(spi: Spi<Env127>, chip: &str) -> r127::Context<Spi<Env127>> {
    let id = if chip == "sx1272" { r127::sx127x_radio_id_e::SX127X_RADIO_ID_SX1272 } else { r127::sx127x_radio_id_e::SX127X_RADIO_ID_SX1276 };
    let mut c = r127::Context::new(spi, id);
    // select the LoRa packet engine (no bus write when the chip already is in LoRa mode, which the priming ensures)
    c.set_pkt_type(sys::sx127x_pkt_types_e_SX127X_PKT_TYPE_LORA);
    c
}

fn wire_127(a: &Args, col: &mut Collector, rng: &mut StdRng) {
    let th = a.thorough;
    let md = &mut MockDelay;
    let only = |op: &str| sel(a, "ops", op);
    for chip in ["sx1276", "sx1272"] {
        if !sel(a, "chips", chip) {
            continue;
        }
        let bws: Vec<usize> = if chip == "sx1272" { vec![7, 8, 9] } else { (0..10).collect() };
        // a fresh primed chip, the lora-phy driver over it, and the priming as pairs
        macro_rules! lp {
            ($txb:expr, $rxb:expr, $prep:expr, |$rk:ident| $body:expr) => {{
                let spi = Spi::new(env127_random(rng, chip));
                on127!(chip, spi, $txb, $rxb, |$rk| {
                    #[allow(clippy::redundant_closure_call)]
                    ($prep)(&mut $rk);
                    spi.take_log();
                    let p = spi.with_env(|e| rf_pairs(e));
                    let r = $body;
                    (p, res_str(&r), spi.take_log())
                })
            }};
        }
        macro_rules! rf {
            ($prep:expr, |$c:ident| $body:expr) => {{
                let spi = Spi::new(env127_random(rng, chip));
                let mut $c = ref127(spi.clone(), chip);
                #[allow(clippy::redundant_closure_call)]
                ($prep)(&mut $c);
                spi.take_log();
                let p = spi.with_env(|e| rf_pairs(e));
                let s = $body;
                (p, st127(s), spi.take_log())
            }};
        }
        let reps = if th { 4 } else { 1 };
        if only("sleep") {
            for _ in 0..(reps * 3) {
                let (p, r, log) = lp!(false, false, |_rk: &mut _| {}, |rk| catch(|| block_on(rk.set_sleep(false, md))));
                col.add("lora-phy", chip, "sleep", wcase(&[], &p, &[], r, &log));
                let (p, r, log) = lp!(false, false, |_rk: &mut _| {}, |rk| catch(|| block_on(rk.set_standby())));
                col.add("lora-phy", chip, "standby", wcase(&[], &p, &[], r, &log));
                let (p, r, log) = rf!(|_c: &mut _| {}, |c| c.set_sleep());
                col.add("reference", chip, "sleep", wcase(&[], &p, &[], r, &log));
                let (p, r, log) = rf!(|_c: &mut _| {}, |c| c.set_standby());
                col.add("reference", chip, "standby", wcase(&[], &p, &[], r, &log));
            }
        }
        if only("rf_freq") {
            for (f0, step, n) in freq_batches(th, a.seed, 1000) {
                for i in 0..n {
                    let f = f0 + i * step;
                    let fa = [(f >> 16) as i64, (f & 0xFFFF) as i64];
                    let spi = Spi::new(Env127::new());
                    let p = spi.with_env(|e| rf_pairs(e));
                    let r = on127!(chip, spi, false, false, |rk| catch(|| block_on(rk.set_channel(f))));
                    col.add("lora-phy", chip, "rf_freq", wcase(&fa, &p, &[], res_str(&r), &spi.take_log()));
                    let spi = Spi::new(Env127::new());
                    let mut c = ref127(spi.clone(), chip);
                    spi.take_log();
                    let s = c.set_rf_freq(f);
                    col.add("reference", chip, "rf_freq", wcase(&fa, &p, &[], st127(s), &spi.take_log()));
                }
            }
        }
        if only("mod_params") {
            for sf in 1..8usize {
                for &bw in &bws {
                    for cr in 0..4usize {
                        for ldro in [0u8, 1] {
                            for (quirk, freq) in [(true, 868_100_000u32), (true, 433_175_000), (false, 868_100_000), (true, 700_000_000)] {
                                if !th && !(quirk && freq == 868_100_000) && (sf + bw + cr) % 3 != 0 {
                                    continue;
                                }
                                if chip == "sx1272" && !quirk {
                                    continue;
                                }
                                let aa = [SFS[sf].factor() as i64, bw as i64, CRS[cr].denom() as i64, ldro as i64, (freq >> 16) as i64, (freq & 0xFFFF) as i64, quirk as i64];
                                let mp = mk_mp(sf, bw, cr, ldro, freq);
                                // the errata 2.1 quirk of the SX1276 driver is armed by init_lora reading silicon version 0x12
                                let spi = Spi::new(env127_random(rng, chip));
                                if !quirk {
                                    spi.with_env(|e| e.regs[0x42] = 0x13);
                                }
                                let (p, r, log) = on127!(chip, spi, false, false, |rk| {
                                    let _ = catch(|| block_on(RadioKind::init_lora(&mut rk, 0x3444)));
                                    spi.take_log();
                                    let p = spi.with_env(|e| rf_pairs(e));
                                    let r = catch(|| block_on(rk.set_modulation_params(&mp)));
                                    (p, res_str(&r), spi.take_log())
                                });
                                col.add("lora-phy", chip, "mod_params", wcase(&aa, &p, &[], r, &log));
                                if quirk && freq == 868_100_000 {
                                    let (p, r, log) = rf!(|_c: &mut _| {}, |c| c.set_lora_mod_params(&r127::sx127x_lora_mod_params_t {
                                        sf: SFS[sf].factor(),
                                        bw: bw as u32,
                                        cr: CRS[cr].denom() - 4,
                                        ldro,
                                    }));
                                    col.add("reference", chip, "mod_params", wcase(&aa, &p, &[], r, &log));
                                }
                            }
                        }
                    }
                }
            }
        }
        if only("pkt_params") {
            for pre in preambles(th) {
                for hdr in [false, true] {
                    for crc in [false, true] {
                        for iq in [false, true] {
                            for len in lens(th) {
                                let aa = [pre as i64, hdr as i64, len as i64, crc as i64, iq as i64];
                                let pp = PacketParams { preamble_length: pre, implicit_header: hdr, payload_length: len, crc_on: crc, iq_inverted: iq };
                                let (p, r, log) = lp!(false, false, |_rk: &mut _| {}, |rk| catch(|| block_on(rk.set_packet_params(&pp))));
                                col.add("lora-phy", chip, "pkt_params", wcase(&aa, &p, &[], r, &log));
                                let (p, r, log) = rf!(|_c: &mut _| {}, |c| c.set_lora_pkt_params(&r127::sx127x_lora_pkt_params_t {
                                    preamble_len_in_symb: pre,
                                    header_type: hdr as u32,
                                    pld_len_in_bytes: len,
                                    crc_is_on: crc,
                                    invert_iq_is_on: iq,
                                }));
                                col.add("reference", chip, "pkt_params", wcase(&aa, &p, &[], r, &log));
                            }
                        }
                    }
                }
            }
        }
        if only("sync_word") {
            let sws: Vec<u16> = if th {
                (0..=65535).step_by(3).chain((0..=255u16).map(|b| ((b & 0xF0) | 0x04) << 8 | ((b & 0x0F) << 4) | 0x04)).collect()
            } else {
                (0..=255u16).map(|b| ((b & 0xF0) | 0x04) << 8 | ((b & 0x0F) << 4) | 0x04).chain((0..100).map(|_| rng.r#gen())).collect()
            };
            for sw in sws {
                let (p, r, log) = lp!(false, false, |_rk: &mut _| {}, |rk| catch(|| block_on(rk.set_lora_sync_word(sw))));
                col.add("lora-phy", chip, "sync_word", wcase(&[sw as i64], &p, &[], r, &log));
            }
            for sw8 in 0..=255u8 {
                let (p, r, log) = rf!(|_c: &mut _| {}, |c| c.set_lora_sync_word(sw8));
                col.add("reference", chip, "sync_word8", wcase(&[sw8 as i64], &p, &[], r, &log));
            }
        }
        if only("buffer") {
            let g: Vec<usize> = if th { (0..=255).step_by(5).chain([255]).collect() } else { vec![0, 1, 64, 128, 255] };
            for &tx in &g {
                for &rx in &g {
                    let (p, r, log) = lp!(false, false, |_rk: &mut _| {}, |rk| catch(|| block_on(rk.set_tx_rx_buffer_base_address(tx, rx))));
                    col.add("lora-phy", chip, "buffer_base", wcase(&[tx as i64, rx as i64], &p, &[], r, &log));
                }
            }
            let (p, r, log) = lp!(false, false, |_rk: &mut _| {}, |rk| catch(|| block_on(rk.set_tx_rx_buffer_base_address(256, 0))));
            col.add("lora-phy", chip, "buffer_base", wcase(&[256, 0], &p, &[], r, &log));
            for len in 0..=255usize {
                let data: Vec<u8> = (0..len).map(|_| rng.r#gen()).collect();
                let (p, r, log) = lp!(false, false, |_rk: &mut _| {}, |rk| catch(|| block_on(rk.set_payload(&data))));
                col.add("lora-phy", chip, "write_buffer", wcase(&[], &p, &data, r, &log));
                let (p, r, log) = rf!(
                    |c: &mut r127::Context<Spi<Env127>>| {
                        c.set_lora_pkt_params(&r127::sx127x_lora_pkt_params_t {
                            preamble_len_in_symb: 8,
                            header_type: 0,
                            pld_len_in_bytes: len as u8,
                            crc_is_on: true,
                            invert_iq_is_on: false,
                        });
                    },
                    |c| c.write_buffer(0, &data)
                );
                col.add("reference", chip, "write_buffer", wcase(&[], &p, &data, r, &log));
            }
        }
        if only("tx_power") {
            for req in power_requests() {
                for boost in [false, true] {
                    for prep in [true, false] {
                        let (p, r, log) = lp!(boost, false, |_rk: &mut _| {}, |rk| catch(|| block_on(rk.set_tx_power_and_ramp_time(req, None, prep))));
                        col.add("lora-phy", chip, "tx_power", wcase(&[req as i64, boost as i64, prep as i64], &p, &[], r, &log));
                    }
                }
            }
            // the reference takes PA path and +20 dBm option as board parameters; legal power range per path
            for (boost, is20, lo, hi) in [(false, false, if chip == "sx1272" { -1 } else { -4 }, if chip == "sx1272" { 14 } else { 15 }), (true, false, 2, 17), (true, true, 5, 20)] {
                for pwr in lo..=hi {
                    for ramp in 0..16u32 {
                        if !th && ramp % 5 != 4 {
                            continue;
                        }
                        let (p, r, log) = rf!(|_c: &mut _| {}, |c| {
                            c.set_pa_cfg(&r127::sx127x_pa_cfg_params_t {
                                pa_select: if boost { sys::sx127x_pa_select_e_SX127X_PA_SELECT_BOOST } else { sys::sx127x_pa_select_e_SX127X_PA_SELECT_RFO },
                                is_20_dbm_output_on: is20,
                            });
                            c.set_tx_params(pwr as i8, ramp)
                        });
                        col.add("reference", chip, "tx_params", wcase(&[pwr as i64, ramp as i64, boost as i64, is20 as i64], &p, &[], r, &log));
                    }
                }
            }
        }
        if only("irq") {
            let modes: [(i64, Option<RadioMode>); 6] = [
                (0, None),
                (1, Some(RadioMode::Standby)),
                (2, Some(RadioMode::Transmit)),
                (3, Some(RadioMode::Receive(RxMode::Continuous))),
                (4, Some(RadioMode::ChannelActivityDetection)),
                (6, Some(RadioMode::Receive(RxMode::Single(8)))),
            ];
            for (code, m) in modes {
                for _ in 0..(reps * 8) {
                    let (p, r, log) = lp!(false, false, |_rk: &mut _| {}, |rk| catch(|| block_on(rk.set_irq_params(m))));
                    col.add("lora-phy", chip, "irq_params", wcase(&[code], &p, &[], r, &log));
                }
            }
            let mut masks: Vec<u16> = vec![0, 0x7FF, 1, 2, 0x40, 0x10, 0x80, 0x100, 0x200, 0x181, 0x242];
            for _ in 0..(if th { 500 } else { 40 }) {
                masks.push(rng.r#gen::<u16>() & 0x7FF);
            }
            for m in masks {
                let (p, r, log) = rf!(|_c: &mut _| {}, |c| c.set_irq_mask(m));
                col.add("reference", chip, "irq_mask", wcase(&[m as i64], &p, &[], r, &log));
            }
        }
        if only("rx_start") {
            let ns: Vec<u16> = if th { (0..=1100).chain((1100..=65535).step_by(97)).collect() } else { (0..=40).chain((41..=1023).step_by(17)).chain([1023, 1024, 4096, 65535]).collect() };
            for &n in &ns {
                let boost = n % 2 == 1;
                let (p, r, log) = lp!(false, boost, |_rk: &mut _| {}, |rk| catch(|| block_on(rk.do_rx(RxMode::Single(n)))));
                col.add("lora-phy", chip, "rx_start", wcase(&[0, n as i64, boost as i64], &p, &[], r, &log));
                if (1..=1023).contains(&n) {
                    let (p, r, log) = rf!(|_c: &mut _| {}, |c| c.set_lora_sync_timeout(n));
                    col.add("reference", chip, "symb_timeout", wcase(&[n as i64], &p, &[], r, &log));
                }
            }
            for boost in [false, true] {
                for _ in 0..(reps * 4) {
                    let (p, r, log) = lp!(false, boost, |_rk: &mut _| {}, |rk| catch(|| block_on(rk.do_rx(RxMode::Continuous))));
                    col.add("lora-phy", chip, "rx_start", wcase(&[1, 0, boost as i64], &p, &[], r, &log));
                }
            }
            let dc = lora_phy::mod_params::DutyCycleParams { rx_time: 100, sleep_time: 100 };
            let (p, r, log) = lp!(false, false, |_rk: &mut _| {}, |rk| catch(|| block_on(rk.do_rx(RxMode::DutyCycle(dc)))));
            col.add("lora-phy", chip, "rx_start", wcase(&[2, 0, 0], &p, &[], r, &log));
            // reference receive start: state set up by the earlier calls of a reception, then set_rx
            for &bw in &bws {
                for iq in [false, true] {
                    for cont in [false, true] {
                        for freq in [868_100_000u32, 433_175_000] {
                            let n: u16 = rng.gen_range(1..=1023);
                            let (p, r, log) = rf!(
                                |c: &mut r127::Context<Spi<Env127>>| {
                                    c.set_rf_freq(freq);
                                    c.set_lora_mod_params(&r127::sx127x_lora_mod_params_t { sf: 7, bw: bw as u32, cr: 1, ldro: 0 });
                                    c.set_lora_pkt_params(&r127::sx127x_lora_pkt_params_t {
                                        preamble_len_in_symb: 8,
                                        header_type: 0,
                                        pld_len_in_bytes: 255,
                                        crc_is_on: true,
                                        invert_iq_is_on: iq,
                                    });
                                    c.set_lora_sync_timeout(n);
                                },
                                |c| c.set_rx(if cont { 0xFFFFFF } else { 0 })
                            );
                            col.add("reference", chip, "rx_start", wcase(&[cont as i64, iq as i64, bw as i64, (freq >> 16) as i64, (freq & 0xFFFF) as i64], &p, &[], r, &log));
                        }
                    }
                }
            }
        }
        if only("tx_start") {
            for _ in 0..(reps * 6) {
                let (p, r, log) = lp!(false, false, |_rk: &mut _| {}, |rk| catch(|| block_on(rk.do_tx())));
                col.add("lora-phy", chip, "tx_start", wcase(&[], &p, &[], r, &log));
                let boost: bool = rng.r#gen();
                let mp = mk_mp(2, 7, 0, 0, 868_100_000);
                let (p, r, log) = lp!(false, boost, |_rk: &mut _| {}, |rk| catch(|| block_on(rk.do_cad(&mp))));
                col.add("lora-phy", chip, "cad_start", wcase(&[boost as i64], &p, &[], r, &log));
                for iq in [false, true] {
                    let (p, r, log) = rf!(
                        |c: &mut r127::Context<Spi<Env127>>| {
                            c.set_lora_pkt_params(&r127::sx127x_lora_pkt_params_t {
                                preamble_len_in_symb: 8,
                                header_type: 0,
                                pld_len_in_bytes: 12,
                                crc_is_on: true,
                                invert_iq_is_on: iq,
                            });
                        },
                        |c| c.set_tx()
                    );
                    col.add("reference", chip, "tx_start", wcase(&[iq as i64], &p, &[], r, &log));
                }
                let (p, r, log) = rf!(|_c: &mut _| {}, |c| c.set_cad());
                col.add("reference", chip, "cad_start", wcase(&[], &p, &[], r, &log));
            }
        }
    }
}
