//! Recorder for lora-modulation (time on air) and the LDRO decisions of the
//! airtime calculator and the radio drivers.  Recorders only: no oracle logic.
use crate::cli::{catch, Args, Shards};
use lora_modulation::{Bandwidth, BaseBandModulationParams, CodingRate, SpreadingFactor};
use serde_json::json;

pub const SFS: [SpreadingFactor; 8] = [
    SpreadingFactor::_5,
    SpreadingFactor::_6,
    SpreadingFactor::_7,
    SpreadingFactor::_8,
    SpreadingFactor::_9,
    SpreadingFactor::_10,
    SpreadingFactor::_11,
    SpreadingFactor::_12,
];
pub const BWS: [Bandwidth; 10] = [
    Bandwidth::_7KHz,
    Bandwidth::_10KHz,
    Bandwidth::_15KHz,
    Bandwidth::_20KHz,
    Bandwidth::_31KHz,
    Bandwidth::_41KHz,
    Bandwidth::_62KHz,
    Bandwidth::_125KHz,
    Bandwidth::_250KHz,
    Bandwidth::_500KHz,
];
pub const CRS: [CodingRate; 4] = [CodingRate::_4_5, CodingRate::_4_6, CodingRate::_4_7, CodingRate::_4_8];

/// `vh toa`: one event per (sf,bw,cr,header,preamble), the 256 values as a step function.
pub fn toa(a: &Args) {
    let mut out = Shards::create(&a.out, "toa", a.shards);
    let pres: Vec<i32> = if a.thorough { (-1..=255).collect() } else { vec![-1, 0, 1, 6, 8, 12, 255] };
    // only=sf,bw,cr,h,pre restricts the recording to one tuple (replay)
    let only: Option<Vec<i32>> = a.get("only").map(|s| s.split(',').map(|x| x.parse().unwrap()).collect());
    for (bi, bw) in BWS.iter().enumerate() {
        for sf in SFS {
            for cr in CRS {
                for h in [true, false] {
                    for pre in &pres {
                        if let Some(o) = &only {
                            if [sf.factor() as i32, bi as i32, cr.denom() as i32, h as i32] != o[0..4] {
                                continue;
                            }
                            if *pre != o[4] && !(pre == pres.last().unwrap() && !pres.contains(&o[4])) {
                                continue;
                            }
                        }
                        let pre = &(if let Some(o) = &only { o[4] } else { *pre });
                        let mut steps: Vec<[i64; 2]> = Vec::new();
                        let mut panics = 0u32;
                        for len in 0..=255u32 {
                            let v = catch(|| {
                                let p = BaseBandModulationParams::new(sf, *bw, cr);
                                let pr = if *pre < 0 { None } else { Some(*pre as u8) };
                                p.time_on_air_us(pr, h, len as u8)
                            });
                            let v: i64 = match v {
                                Ok(v) => v as i64,
                                Err(_) => {
                                    panics += 1;
                                    -1
                                }
                            };
                            if steps.last().map(|s| s[1]) != Some(v) {
                                steps.push([len as i64, v]);
                            }
                        }
                        out.emit(&json!({
                            "ev": "toa", "sf": sf.factor(), "bw": bi, "cr": cr.denom(),
                            "h": if h {1} else {0}, "pre": pre, "steps": steps, "panics": panics,
                        }));
                    }
                }
            }
        }
    }
    println!("events={}", out.finish());
}

// ------------------------------------------------------------------ LDRO (C15)
use crate::mock::{block_on, Bus, BusEv, MockIv, MockSpi};
use lora_phy::mod_traits::RadioKind;
use lora_phy::{lr1110, sx126x, sx127x};

fn spi_writes(bus: &std::rc::Rc<std::cell::RefCell<Bus>>) -> Vec<Vec<u8>> {
    bus.borrow()
        .log
        .iter()
        .filter_map(|e| match e {
            BusEv::Spi { w, .. } => Some(w.clone()),
            _ => None,
        })
        .collect()
}

/// Query one driver: (supported, decision, raw SPI writes of set_modulation_params)
fn query<RK: RadioKind>(
    rk: &mut RK,
    bus: &std::rc::Rc<std::cell::RefCell<Bus>>,
    sf: SpreadingFactor,
    bw: Bandwidth,
) -> Option<(u8, Vec<Vec<u8>>, Vec<Vec<u8>>)> {
    let mp = rk.create_modulation_params(sf, bw, CodingRate::_4_5, 868_100_000).ok()?;
    // the registers hold what an earlier configuration left there: once all zeros, once all ones (the drivers
    // that read-modify-write must REPLACE the LDRO bit whatever it was)
    let mut all = vec![];
    for prior in [0x00u8, 0xff] {
        bus.borrow_mut().responder = Box::new(move |_w: &[u8], r: &mut [u8]| r.fill(prior));
        bus.borrow_mut().log.clear();
        let r = block_on(rk.set_modulation_params(&mp));
        if r.is_err() {
            return None;
        }
        all.push(spi_writes(bus));
    }
    let second = all.pop().unwrap();
    Some((mp.low_data_rate_optimize, all.pop().unwrap(), second))
}

/// The LDRO bit the chip ends up with after a full configuration as `LoRa::prepare_for_tx/rx` performs it:
/// set_modulation_params followed by set_packet_params (header mode x CRC), over a register file that serves
/// back what was written (prior content all zeros / all ones).  Returns the SPI writes of both calls per variant.
fn query_prepared<RK: RadioKind>(
    rk: &mut RK,
    bus: &std::rc::Rc<std::cell::RefCell<Bus>>,
    sf: SpreadingFactor,
    bw: Bandwidth,
) -> Option<Vec<(u8, u8, u8, Vec<Vec<u8>>)>> {
    let mp = rk.create_modulation_params(sf, bw, CodingRate::_4_5, 868_100_000).ok()?;
    let mut out = vec![];
    for prior in [0x00u8, 0xff] {
        for hdr in [false, true] {
            for crc in [false, true] {
                let regs = std::rc::Rc::new(std::cell::RefCell::new([prior; 128]));
                let (r1, r2) = (regs.clone(), regs.clone());
                {
                    let mut b = bus.borrow_mut();
                    // register-file semantics of the SX127x (first byte = address, bit 7 = write); harmless for the
                    // command-based chips, which do not read anything back here
                    b.responder = Box::new(move |w: &[u8], r: &mut [u8]| {
                        let a = w.first().map(|a| (a & 0x7f) as usize).unwrap_or(0);
                        for (i, x) in r.iter_mut().enumerate() {
                            *x = r1.borrow()[(a + i) & 0x7f];
                        }
                    });
                    b.on_write = Some(Box::new(move |w: &[u8]| {
                        if w.len() >= 2 && w[0] & 0x80 != 0 {
                            let a = (w[0] & 0x7f) as usize;
                            for (i, v) in w[1..].iter().enumerate() {
                                r2.borrow_mut()[(a + i) & 0x7f] = *v;
                            }
                        }
                    }));
                    b.log.clear();
                }
                if block_on(rk.set_modulation_params(&mp)).is_err() {
                    return None;
                }
                let pp = rk.create_packet_params(8, hdr, 16, crc, false, &mp).ok()?;
                if block_on(rk.set_packet_params(&pp)).is_err() {
                    return None;
                }
                out.push((prior, hdr as u8, crc as u8, spi_writes(bus)));
                bus.borrow_mut().on_write = None;
            }
        }
    }
    Some(out)
}

/// The LDRO bit the chip ends up with after each call of the `LoRa` API that programs a modulation: prepare_for_tx,
/// prepare_for_rx, prepare_for_cad with the parameters `LoRa::create_modulation_params` hands out, and `listen`
/// (which builds its own SF7 modulation for the bandwidth) - over a register file that serves back what was written.
/// Returns (path, spreading factor programmed, SPI writes of the call).
fn query_api<RK: RadioKind>(
    rk: RK,
    bus: &std::rc::Rc<std::cell::RefCell<Bus>>,
    sf: SpreadingFactor,
    bw: Bandwidth,
) -> Vec<(&'static str, u32, Vec<Vec<u8>>)> {
    use crate::mock::MockDelay;
    use lora_phy::{LoRa, RxMode};
    let regs = std::rc::Rc::new(std::cell::RefCell::new([0u8; 128]));
    let (r1, r2) = (regs.clone(), regs.clone());
    {
        let mut b = bus.borrow_mut();
        b.responder = Box::new(move |w: &[u8], r: &mut [u8]| {
            let a = w.first().map(|a| (a & 0x7f) as usize).unwrap_or(0);
            for (i, x) in r.iter_mut().enumerate() {
                *x = r1.borrow()[(a + i) & 0x7f];
            }
        });
        b.on_write = Some(Box::new(move |w: &[u8]| {
            if w.len() >= 2 && w[0] & 0x80 != 0 {
                let a = (w[0] & 0x7f) as usize;
                for (i, v) in w[1..].iter().enumerate() {
                    r2.borrow_mut()[(a + i) & 0x7f] = *v;
                }
            }
        }));
    }
    let mut out = vec![];
    let Some(Ok(mut lora)) = crate::mock::block_on_budget(LoRa::new(rk, false, MockDelay), 64) else { return out };
    let f = 868_100_000u32;
    if let Ok(mp) = lora.create_modulation_params(sf, bw, CodingRate::_4_5, f) {
        if let Ok(mut txp) = lora.create_tx_packet_params(8, false, true, false, &mp) {
            bus.borrow_mut().log.clear();
            if let Some(Ok(())) = crate::mock::block_on_budget(lora.prepare_for_tx(&mp, &mut txp, 10, &[1, 2, 3]), 64) {
                out.push(("prepare_for_tx", sf.factor(), spi_writes(bus)));
            }
        }
        if let Ok(rxp) = lora.create_rx_packet_params(8, false, 16, true, false, &mp) {
            bus.borrow_mut().log.clear();
            if let Some(Ok(())) = crate::mock::block_on_budget(lora.prepare_for_rx(RxMode::Continuous, &mp, &rxp), 64) {
                out.push(("prepare_for_rx", sf.factor(), spi_writes(bus)));
            }
        }
        bus.borrow_mut().log.clear();
        if let Some(Ok(())) = crate::mock::block_on_budget(lora.prepare_for_cad(&mp), 64) {
            out.push(("prepare_for_cad", sf.factor(), spi_writes(bus)));
        }
    }
    if sf == SpreadingFactor::_7 {
        // leave a slow configuration behind first, so that a bit that is not written shows
        bus.borrow_mut().log.clear();
        if let Some(Ok(())) = crate::mock::block_on_budget(lora.listen(f, bw), 64) {
            out.push(("listen", 7, spi_writes(bus)));
        }
    }
    bus.borrow_mut().on_write = None;
    out
}

/// `vh ldro`: every implementation's LDRO decision and the bytes it programs, for all 80 (SF,BW).
pub fn ldro(a: &Args) {
    let mut out = Shards::create(&a.out, "ldro", a.shards);
    let only: Option<Vec<usize>> = a.get("only").map(|s| s.split(',').map(|x| x.parse().unwrap()).collect());
    for (bi, bw) in BWS.iter().enumerate() {
        for sf in SFS {
            if let Some(o) = &only {
                if o[0] != sf.factor() as usize || o[1] != bi {
                    continue;
                }
            }
            let mut decisions: Vec<u32> = Vec::new();
            let mut prepared: Vec<(&str, Option<Vec<(u8, u8, u8, Vec<Vec<u8>>)>>)> = Vec::new();
            let mut api: Vec<(&str, Vec<(&'static str, u32, Vec<Vec<u8>>)>)> = Vec::new();
            let calc = BaseBandModulationParams::new(sf, *bw, CodingRate::_4_5).ldro as u32;
            decisions.push(calc);
            out.emit(&json!({"ev":"ldro","impl":"calc","what":"decision","sf":sf.factor(),"bw":bi,
                             "supported":1,"ldro":calc,"txns":[]}));
            let mut rec = |name: &str, q: Option<(u8, Vec<Vec<u8>>, Vec<Vec<u8>>)>, decisions: &mut Vec<u32>| match q {
                None => out.emit(&json!({"ev":"ldro","impl":name,"what":"decision","sf":sf.factor(),"bw":bi,
                                         "supported":0,"ldro":0,"txns":[]})),
                Some((d, txns, txns_ones)) => {
                    decisions.push(d as u32);
                    out.emit(&json!({"ev":"ldro","impl":name,"what":"decision","sf":sf.factor(),"bw":bi,
                                     "supported":1,"ldro":d,"txns":[]}));
                    out.emit(&json!({"ev":"ldro","impl":name,"what":"written","sf":sf.factor(),"bw":bi,
                                     "supported":1,"ldro":-1,"txns":txns,"prior":0,"dec":d}));
                    out.emit(&json!({"ev":"ldro","impl":name,"what":"written","sf":sf.factor(),"bw":bi,
                                     "supported":1,"ldro":-1,"txns":txns_ones,"prior":255,"dec":d}));
                }
            };
            {
                let bus = Bus::new();
                let mut rk = sx126x::Sx126x::new(
                    MockSpi(bus.clone()),
                    MockIv(bus.clone()),
                    sx126x::Config { chip: sx126x::Sx1262, tcxo_ctrl: None, use_dcdc: false, rx_boost: false },
                );
                rec("sx126x", query(&mut rk, &bus, sf, *bw), &mut decisions);
                prepared.push(("sx126x", query_prepared(&mut rk, &bus, sf, *bw)));
                let bus2 = Bus::new();
                api.push(("sx126x", query_api(sx126x::Sx126x::new(MockSpi(bus2.clone()), MockIv(bus2.clone()),
                    sx126x::Config { chip: sx126x::Sx1262, tcxo_ctrl: None, use_dcdc: false, rx_boost: false }), &bus2, sf, *bw)));
            }
            {
                let bus = Bus::new();
                let mut rk = sx127x::Sx127x::new(
                    MockSpi(bus.clone()),
                    MockIv(bus.clone()),
                    sx127x::Config { chip: sx127x::Sx1276, tcxo_used: false, tx_boost: false, rx_boost: false },
                );
                rec("sx1276", query(&mut rk, &bus, sf, *bw), &mut decisions);
                prepared.push(("sx1276", query_prepared(&mut rk, &bus, sf, *bw)));
                let bus2 = Bus::new();
                api.push(("sx1276", query_api(sx127x::Sx127x::new(MockSpi(bus2.clone()), MockIv(bus2.clone()),
                    sx127x::Config { chip: sx127x::Sx1276, tcxo_used: false, tx_boost: false, rx_boost: false }), &bus2, sf, *bw)));
            }
            {
                let bus = Bus::new();
                let mut rk = sx127x::Sx127x::new(
                    MockSpi(bus.clone()),
                    MockIv(bus.clone()),
                    sx127x::Config { chip: sx127x::Sx1272, tcxo_used: false, tx_boost: false, rx_boost: false },
                );
                rec("sx1272", query(&mut rk, &bus, sf, *bw), &mut decisions);
                prepared.push(("sx1272", query_prepared(&mut rk, &bus, sf, *bw)));
                let bus2 = Bus::new();
                api.push(("sx1272", query_api(sx127x::Sx127x::new(MockSpi(bus2.clone()), MockIv(bus2.clone()),
                    sx127x::Config { chip: sx127x::Sx1272, tcxo_used: false, tx_boost: false, rx_boost: false }), &bus2, sf, *bw)));
            }
            {
                let bus = Bus::new();
                let mut rk = lr1110::Lr1110::new(
                    MockSpi(bus.clone()),
                    MockIv(bus.clone()),
                    lr1110::Config {
                        pa_selection: lr1110::PaSelection::Lp,
                        dio_as_rf_switch: None,
                        tcxo_ctrl: None,
                        use_dcdc: false,
                        rx_boost: false,
                    },
                );
                rec("lr1110", query(&mut rk, &bus, sf, *bw), &mut decisions);
                prepared.push(("lr1110", query_prepared(&mut rk, &bus, sf, *bw)));
                let bus2 = Bus::new();
                api.push(("lr1110", query_api(lr1110::Lr1110::new(MockSpi(bus2.clone()), MockIv(bus2.clone()),
                    lr1110::Config { pa_selection: lr1110::PaSelection::Lp, dio_as_rf_switch: None, tcxo_ctrl: None, use_dcdc: false, rx_boost: false }), &bus2, sf, *bw)));
            }
            for (name, q) in api {
                for (path, sfp, txns) in q {
                    out.emit(&json!({"ev":"ldro","impl":name,"what":"prepared","sf":sfp,"bw":bi,
                                     "supported":1,"ldro":-1,"txns":txns,"prior":0,"hdr":0,"crc":1,"path":path}));
                }
            }
            for (name, q) in prepared {
                for (prior, hdr, crc, txns) in q.unwrap_or_default() {
                    out.emit(&json!({"ev":"ldro","impl":name,"what":"prepared","sf":sf.factor(),"bw":bi,
                                     "supported":1,"ldro":-1,"txns":txns,"prior":prior,"hdr":hdr,"crc":crc}));
                }
            }
            out.emit(&json!({"ev":"ldro_agree","sf":sf.factor(),"bw":bi,"decisions":decisions}));
        }
    }
    println!("events={}", out.finish());
}
