//! Recorder for lora-modulation (time on air) and the LDRO decisions of the
//! airtime calculator and the radio drivers.  Recorders only: no oracle logic.
use crate::cli::{catch, Args, Shards};
use lora_modulation::{Bandwidth, BaseBandModulationParams, CodingRate, SpreadingFactor};
use serde_json::json;

pub const SFS: [SpreadingFactor; 8] = [
    SpreadingFactor::_5,
    SpreadingFactor::_6,
    SpreadingFactor::_7,
    SpreadingFactor::_8,
    SpreadingFactor::_9,
    SpreadingFactor::_10,
    SpreadingFactor::_11,
    SpreadingFactor::_12,
];
pub const BWS: [Bandwidth; 10] = [
    Bandwidth::_7KHz,
    Bandwidth::_10KHz,
    Bandwidth::_15KHz,
    Bandwidth::_20KHz,
    Bandwidth::_31KHz,
    Bandwidth::_41KHz,
    Bandwidth::_62KHz,
    Bandwidth::_125KHz,
    Bandwidth::_250KHz,
    Bandwidth::_500KHz,
];
pub const CRS: [CodingRate; 4] = [CodingRate::_4_5, CodingRate::_4_6, CodingRate::_4_7, CodingRate::_4_8];

/// `vh toa`: one event per (sf,bw,cr,header,preamble), the 256 values as a step function.
pub fn toa(a: &Args) {
    let mut out = Shards::create(&a.out, "toa", a.shards);
    let pres: Vec<i32> = if a.thorough { (-1..=255).collect() } else { vec![-1, 0, 1, 6, 8, 12, 255] };
    // only=sf,bw,cr,h,pre restricts the recording to one tuple (replay)
    let only: Option<Vec<i32>> = a.get("only").map(|s| s.split(',').map(|x| x.parse().unwrap()).collect());
    for (bi, bw) in BWS.iter().enumerate() {
        for sf in SFS {
            for cr in CRS {
                for h in [true, false] {
                    for pre in &pres {
                        if let Some(o) = &only {
                            if [sf.factor() as i32, bi as i32, cr.denom() as i32, h as i32] != o[0..4] {
                                continue;
                            }
                            if *pre != o[4] && !(pre == pres.last().unwrap() && !pres.contains(&o[4])) {
                                continue;
                            }
                        }
                        let pre = &(if let Some(o) = &only { o[4] } else { *pre });
                        let mut steps: Vec<[i64; 2]> = Vec::new();
                        let mut panics = 0u32;
                        for len in 0..=255u32 {
                            let v = catch(|| {
                                let p = BaseBandModulationParams::new(sf, *bw, cr);
                                let pr = if *pre < 0 { None } else { Some(*pre as u8) };
                                p.time_on_air_us(pr, h, len as u8)
                            });
                            let v: i64 = match v {
                                Ok(v) => v as i64,
                                Err(_) => {
                                    panics += 1;
                                    -1
                                }
                            };
                            if steps.last().map(|s| s[1]) != Some(v) {
                                steps.push([len as i64, v]);
                            }
                        }
                        out.emit(&json!({
                            "ev": "toa", "sf": sf.factor(), "bw": bi, "cr": cr.denom(),
                            "h": if h {1} else {0}, "pre": pre, "steps": steps, "panics": panics,
                        }));
                    }
                }
            }
        }
    }
    println!("events={}", out.finish());
}
