//! Minimal argument handling shared by all sub-commands:
//!   vh <cmd> --out DIR [--shards N] [--tier quick|thorough] [--seed S] [k=v ...]
use std::collections::HashMap;

#[derive(Clone, Debug)]
pub struct Args {
    pub cmd: String,
    pub out: String,
    pub shards: usize,
    pub thorough: bool,
    pub seed: u64,
    pub kv: HashMap<String, String>,
}

impl Args {
    pub fn parse() -> Args {
        let mut it = std::env::args().skip(1);
        let cmd = it.next().unwrap_or_else(|| {
            eprintln!("usage: vh <cmd> --out DIR [--shards N] [--tier quick|thorough] [--seed S] [k=v]");
            std::process::exit(2)
        });
        let mut a = Args { cmd, out: ".".into(), shards: 1, thorough: false, seed: 1, kv: HashMap::new() };
        while let Some(x) = it.next() {
            match x.as_str() {
                "--out" => a.out = it.next().expect("--out DIR"),
                "--shards" => a.shards = it.next().expect("--shards N").parse().expect("N"),
                "--tier" => a.thorough = it.next().expect("--tier T") == "thorough",
                "--seed" => a.seed = it.next().expect("--seed S").parse().expect("S"),
                other => {
                    if let Some((k, v)) = other.split_once('=') {
                        a.kv.insert(k.to_string(), v.to_string());
                    } else {
                        eprintln!("unknown argument {other}");
                        std::process::exit(2);
                    }
                }
            }
        }
        a
    }
    pub fn get(&self, k: &str) -> Option<&str> {
        self.kv.get(k).map(|s| s.as_str())
    }
    pub fn get_usize(&self, k: &str, default: usize) -> usize {
        self.get(k).map(|v| v.parse().expect("number")).unwrap_or(default)
    }
}

/// Round-robin sharded trace output: DIR/<stem>.<i>.ndjson
pub struct Shards {
    writers: Vec<crate::trace::TraceWriter>,
    next: usize,
}

impl Shards {
    pub fn create(dir: &str, stem: &str, n: usize) -> Shards {
        std::fs::create_dir_all(dir).unwrap();
        let writers = (0..n.max(1))
            .map(|i| crate::trace::TraceWriter::create(&format!("{dir}/{stem}.{i}.ndjson")))
            .collect();
        Shards { writers, next: 0 }
    }
    /// Emit one independent event to the next shard.
    pub fn emit(&mut self, v: &serde_json::Value) {
        let n = self.writers.len();
        self.writers[self.next % n].emit(v);
        self.next += 1;
    }
    /// Writer for a whole history (events that must stay together).
    pub fn shard(&mut self, i: usize) -> &mut crate::trace::TraceWriter {
        let n = self.writers.len();
        &mut self.writers[i % n]
    }
    pub fn finish(self) -> u64 {
        self.writers.into_iter().map(|w| w.finish()).sum()
    }
}

/// Run a closure, converting a panic into Err(message).
pub fn catch<T>(f: impl FnOnce() -> T) -> Result<T, String> {
    let r = std::panic::catch_unwind(std::panic::AssertUnwindSafe(f));
    r.map_err(|e| {
        if let Some(s) = e.downcast_ref::<&str>() {
            s.to_string()
        } else if let Some(s) = e.downcast_ref::<String>() {
            s.clone()
        } else {
            "panic".to_string()
        }
    })
}

/// Panics of the code under test are data (caught by `catch`), so nothing is printed when one happens; the
/// location of the LAST panic is remembered so that a panic escaping the recorder itself can be reported.
pub static LAST_PANIC: std::sync::Mutex<String> = std::sync::Mutex::new(String::new());

pub fn quiet_panics() {
    std::panic::set_hook(Box::new(|info| {
        if let Ok(mut l) = LAST_PANIC.lock() {
            *l = format!("{info}");
        }
    }));
}
