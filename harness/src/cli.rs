//! Minimal argument handling shared by all sub-commands:
//!   vh <cmd> --out DIR [--shards N] [--tier quick|thorough] [--seed S] [k=v ...]
use std::collections::HashMap;

#[derive(Clone, Debug)]
pub struct Args {
    pub cmd: String,
    pub out: String,
    pub shards: usize,
    pub thorough: bool,
    pub seed: u64,
    pub kv: HashMap<String, String>,
}

impl Args {
    pub fn parse() -> Args {
        let mut it = std::env::args().skip(1);
        let cmd = it.next().unwrap_or_else(|| {
            eprintln!("usage: vh <cmd> --out DIR [--shards N] [--tier quick|thorough] [--seed S] [k=v]");
            std::process::exit(2)
        });
        let mut a = Args { cmd, out: ".".into(), shards: 1, thorough: false, seed: 1, kv: HashMap::new() };
        while let Some(x) = it.next() {
            match x.as_str() {
                "--out" => a.out = it.next().expect("--out DIR"),
                "--shards" => a.shards = it.next().expect("--shards N").parse().expect("N"),
                "--tier" => a.thorough = it.next().expect("--tier T") == "thorough",
                "--seed" => a.seed = it.next().expect("--seed S").parse().expect("S"),
                other => {
                    if let Some((k, v)) = other.split_once('=') {
                        a.kv.insert(k.to_string(), v.to_string());
                    } else {
                        eprintln!("unknown argument {other}");
                        std::process::exit(2);
                    }
                }
            }
        }
        a
    }
    pub fn get(&self, k: &str) -> Option<&str> {
        self.kv.get(k).map(|s| s.as_str())
    }
    pub fn get_usize(&self, k: &str, default: usize) -> usize {
        self.get(k).map(|v| v.parse().expect("number")).unwrap_or(default)
    }
}

/// Round-robin sharded trace output: DIR/<stem>.<i>.ndjson
pub struct Shards {
    writers: Vec<crate::trace::TraceWriter>,
    next: usize,
}

impl Shards {
    pub fn create(dir: &str, stem: &str, n: usize) -> Shards {
        std::fs::create_dir_all(dir).unwrap();
        let writers = (0..n.max(1))
            .map(|i| crate::trace::TraceWriter::create(&format!("{dir}/{stem}.{i}.ndjson")))
            .collect();
        Shards { writers, next: 0 }
    }
    /// Emit one independent event to the next shard.
    pub fn emit(&mut self, v: &serde_json::Value) {
        let n = self.writers.len();
        self.writers[self.next % n].emit(v);
        self.next += 1;
    }
    /// Writer for a whole history (events that must stay together).
    pub fn shard(&mut self, i: usize) -> &mut crate::trace::TraceWriter {
        let n = self.writers.len();
        &mut self.writers[i % n]
    }
    pub fn finish(self) -> u64 {
        self.writers.into_iter().map(|w| w.finish()).sum()
    }
}

/// Run a closure, converting a panic into Err(message).
pub fn catch<T>(f: impl FnOnce() -> T) -> Result<T, String> {
    let r = std::panic::catch_unwind(std::panic::AssertUnwindSafe(f));
    r.map_err(|e| {
        if let Some(s) = e.downcast_ref::<&str>() {
            s.to_string()
        } else if let Some(s) = e.downcast_ref::<String>() {
            s.clone()
        } else {
            "panic".to_string()
        }
    })
}

/// Panics of the code under test are data (caught by `catch`), so nothing is printed when one happens; the
/// location of the LAST panic is remembered so that a panic escaping the recorder itself can be reported.
pub static LAST_PANIC: std::sync::Mutex<String> = std::sync::Mutex::new(String::new());

pub fn quiet_panics() {
    std::panic::set_hook(Box::new(|info| {
        if let Ok(mut l) = LAST_PANIC.lock() {
            *l = format!("{info}");
        }
    }));
}


// ---------------------------------------------------------------- watchdog
// A call into the code under test that never returns and draws no random numbers (so the draw budget cannot end
// it) would hang the recorder.  While a call is in flight the recorder publishes a deadline and what it is doing;
// a watchdog thread that sees the deadline pass appends a `watchdog` event (response Hang) to the trace file of
// the running history and ends the process normally: the events recorded so far are validated as usual, and the
// trace specification has no action that matches a call that did not return.
pub static WATCH_DEADLINE_MS: std::sync::atomic::AtomicU64 = std::sync::atomic::AtomicU64::new(0);
pub static WATCH_CTX: std::sync::Mutex<(String, String)> = std::sync::Mutex::new((String::new(), String::new()));
/// the ops of the running history so far (JSON list, the op in flight last) and the history's RNG seed
pub static WATCH_HIST: std::sync::Mutex<(String, u64)> = std::sync::Mutex::new((String::new(), 0));
static WATCH_START: std::sync::OnceLock<std::time::Instant> = std::sync::OnceLock::new();

fn now_ms() -> u64 {
    WATCH_START.get_or_init(std::time::Instant::now).elapsed().as_millis() as u64 + 1
}

/// The recorder is about to call into the code under test (`what` = the op as JSON, `path` = trace file).
pub fn watch_begin(path: &str, what: &str, limit_ms: u64) {
    if let Ok(mut c) = WATCH_CTX.lock() {
        *c = (path.to_string(), what.to_string());
    }
    WATCH_DEADLINE_MS.store(now_ms() + limit_ms, std::sync::atomic::Ordering::SeqCst);
}

pub fn watch_end() {
    WATCH_DEADLINE_MS.store(0, std::sync::atomic::Ordering::SeqCst);
}

pub fn spawn_watchdog() {
    let _ = now_ms();
    std::thread::spawn(|| loop {
        std::thread::sleep(std::time::Duration::from_millis(200));
        let d = WATCH_DEADLINE_MS.load(std::sync::atomic::Ordering::SeqCst);
        if d != 0 && now_ms() > d {
            let (path, what) = WATCH_CTX.lock().map(|c| c.clone()).unwrap_or_default();
            let (ops_all, hseed) = WATCH_HIST.lock().map(|c| c.clone()).unwrap_or_default();
            let ev = serde_json::json!({"ev": "watchdog", "k": "mac", "opj": what, "ops_all": ops_all, "hseed": hseed.to_string(),
                "resp": {"k": "Hang", "v": 0, "cnt": [], "s": "the call did not return (watchdog; no random draws were made)"}});
            if let Ok(mut f) = std::fs::OpenOptions::new().append(true).open(&path) {
                use std::io::Write;
                let _ = writeln!(f, "{ev}");
            }
            println!("events=0 histories=0 watchdog=1");
            std::process::exit(0);
        }
    });
}
