//! Drivers / recorders for C03 (parsing arbitrary bytes is total, bounds-safe, terminating) and
//! C19 (MAC-command builders/parsers and identifier text forms round-trip).
//! Recorders only: the drivers choose inputs, call the real API (crate::cmdobs) and log arguments
//! and complete results; all judgement is in spec/MacCmds.tla + spec/CmdTrace.tla.
//!
//!   vh cmds_items  --out DIR cases=FILE   C03: enumeration cases from CmdCases.tla, exhaustive short strings,
//!                                         mutated streams and frames, payload constructors
//!   vh cmds_fields --out DIR              C19: creators (build), accessors (parse_fields), build_mac_commands (stream)
//!   vh idtext      --out DIR              C19: Display / FromStr of identifiers and keys
//!   vh cmds_replay --out DIR in=FILE      re-execute recorded events on the current tree
use crate::cli::{catch, Args, Shards};
use crate::cmdobs::{self, by, items, ItemsObs, CREATORS, PAYLOAD_NEW, SETS};
use crate::codecrec;
use crate::trace::bytes;
use lorawan::maccommandcreator::build_mac_commands;
use lorawan::maccommands::{mac_commands_len, SerializableMacCommand};
use lorawan::default_crypto::DefaultCrypto;
use lorawan::keys::AES128;
use lorawan::parser::{
    self, CfList, DecryptedDataPayload, DecryptedJoinAcceptPayload, EncryptedDataPayload, EncryptedJoinAcceptPayload,
    FrmPayload, JoinRequestPayload, PhyPayload,
};
use rand::rngs::StdRng;
use rand::seq::SliceRandom;
use rand::{Rng, SeedableRng};
use serde_json::{json, Value};
use std::str::FromStr;

const KEK0: [u8; 16] = [0x66; 16];

fn rnd_bytes(rng: &mut StdRng, n: usize) -> Vec<u8> {
    (0..n).map(|_| rng.r#gen()).collect()
}

fn out_json(out: &[[i64; 3]]) -> Value {
    Value::Array(out.iter().map(|x| json!([x[0], x[1], x[2]])).collect())
}

// ------------------------------------------------------------------------------------------ C03

fn ev_items(set: &str, data: &[u8], src: &str) -> Value {
    let r = items(set, data, false, &KEK0);
    json!({"ev": "items", "set": set, "in": bytes(data), "out": out_json(&r.out), "names": r.names,
           "cat": bytes(&r.cat), "nonterm": r.nonterm as u8, "panics": r.panics, "src": src})
}

/// Outcome of one short string, with "CID = last octet of the input" written as -1 when the command
/// (or error) starts at the last octet, so that outcomes are piecewise constant in the last octet.
/// (Lossless given the input: -1 is emitted only when the value equals the last octet.)
fn short_outcome(r: &ItemsObs, s: &[u8]) -> Vec<[i64; 3]> {
    let mut v = r.out.clone();
    if let (Some(last), Some(&j)) = (v.last_mut(), s.last()) {
        let off: i64 = r.out[..r.out.len() - 1].iter().map(|x| if x[0] == 1 { x[2] } else { 0 }).sum();
        if off == s.len() as i64 - 1 {
            if last[0] == 1 && last[1] == j as i64 {
                last[1] = -1;
            } else if last[0] == 0 && last[2] == j as i64 {
                last[2] = -1;
            }
        }
    }
    v
}

struct RowAcc {
    rows: Vec<Value>,
    panics: u64,
    nonterm: u64,
    first_panic: String,
}

/// All 256 strings prefix ++ [mid?] ++ [j], run-length encoded over j.
fn exh_row(set: &str, prefix: &[u8], mid: i32, acc: &mut RowAcc) {
    let mut s: Vec<u8> = prefix.to_vec();
    if mid >= 0 {
        s.push(mid as u8);
    }
    s.push(0);
    let n = s.len();
    let mut runs: Vec<Value> = Vec::new();
    let mut prev: Option<Vec<[i64; 3]>> = None;
    for j in 0..=255u8 {
        s[n - 1] = j;
        let r = items(set, &s, false, &KEK0);
        if !r.panics.is_empty() {
            acc.panics += r.panics.len() as u64;
            if acc.first_panic.is_empty() {
                acc.first_panic = format!("{:?}: {}", s, r.panics[0]);
            }
        }
        acc.nonterm += r.nonterm as u64;
        let o = short_outcome(&r, &s);
        if prev.as_ref() != Some(&o) {
            runs.push(json!([j, out_json(&o)]));
            prev = Some(o);
        }
    }
    acc.rows.push(json!([mid, runs]));
}

fn ev_exh(set: &str, prefix: &[u8], mids: &[i32]) -> Value {
    let mut acc = RowAcc { rows: vec![], panics: 0, nonterm: 0, first_panic: String::new() };
    for m in mids {
        exh_row(set, prefix, *m, &mut acc);
    }
    json!({"ev": "exh", "set": set, "prefix": bytes(prefix), "rows": acc.rows, "panics": acc.panics,
           "nonterm": acc.nonterm, "first_panic": acc.first_panic})
}

/// Frame parsers on one byte string: classification by each entry point, every accessor of every
/// successfully parsed view called under catch.  cls: 0 error, 1 JoinRequest, 2 JoinAccept, 3 data.
fn frame_obs(b: &[u8]) -> ([i64; 4], Vec<String>) {
    let mut panics = Vec::new();
    let touch_data = |p: &EncryptedDataPayload<'_>, panics: &mut Vec<String>| {
        if let Err(m) = catch(|| {
            let h = p.fhdr();
            let c = h.fctrl();
            let _ = (p.frame_type(), p.is_uplink(), p.is_confirmed(), p.f_port(), p.mic(), p.as_bytes().len());
            let _ = (h.dev_addr(), h.mc_addr(), h.fcnt(), h.f_opts().len());
            let _ = (c.adr(), c.adr_ack_req(), c.ack(), c.f_pending(), c.f_opts_len(), c.raw_value());
            // FOpts as a MAC-command stream in the frame's direction
            let set = if p.is_uplink() { "mac_up" } else { "mac_down" };
            let r = items(set, h.f_opts(), false, &KEK0);
            if !r.panics.is_empty() {
                panic!("fopts: {}", r.panics[0]);
            }
            // the decrypted view of the same bytes (no MIC check), with and without keys
            let key = DefaultCrypto::new(&AES128(KEK0));
            for (nwk, app) in [(Some(&key), Some(&key)), (None, None)] {
                let mut buf = p.as_bytes().to_vec();
                if let Ok(d) = DecryptedDataPayload::decrypt_in_place(&mut buf, nwk, app, 0x0001_0000) {
                    let h = d.fhdr();
                    let _ = (d.frame_type(), d.is_uplink(), d.is_confirmed(), d.f_port(), d.mic(), d.as_bytes().len());
                    let _ = (h.dev_addr(), h.fcnt(), h.f_opts().len(), h.fctrl().f_opts_len());
                    match d.frm_payload() {
                        FrmPayload::MacCommands(m) => {
                            let r = items(set, m, false, &KEK0);
                            if !r.panics.is_empty() {
                                panic!("port 0 commands: {}", r.panics[0]);
                            }
                        }
                        FrmPayload::Data(x) => {
                            let _ = x.len();
                        }
                        FrmPayload::None => {}
                    }
                }
            }
        }) {
            panics.push(format!("data accessors: {m}"));
        }
    };
    let touch_jr = |p: &JoinRequestPayload<'_>, panics: &mut Vec<String>| {
        if let Err(m) = catch(|| {
            let _ = (p.join_eui(), p.dev_eui(), p.dev_nonce(), p.mic(), p.as_bytes().len());
            let _ = format!("{} {} {}", p.join_eui(), p.dev_eui(), p.dev_nonce());
        }) {
            panics.push(format!("join request accessors: {m}"));
        }
    };
    let touch_ja = |p: &EncryptedJoinAcceptPayload<'_>, panics: &mut Vec<String>| {
        if let Err(m) = catch(|| {
            let _ = p.as_bytes().len();
            // the decrypted view (no MIC check) and every accessor of it
            let mut buf = p.as_bytes().to_vec();
            let key = DefaultCrypto::new(&AES128(KEK0));
            if let Ok(d) = DecryptedJoinAcceptPayload::decrypt_in_place(&mut buf, &key) {
                let _ = (d.join_nonce(), d.net_id(), d.dev_addr(), d.dl_settings().raw_value(), d.rx_delay(), d.mic());
                let _ = (d.validate_mic(&key), d.as_bytes().len());
                match d.c_f_list() {
                    Some(CfList::DynamicChannel(f)) => {
                        let _ = f.iter().map(|x| x.hz() as u64).sum::<u64>();
                    }
                    Some(CfList::FixedChannel(m)) => {
                        let _ = m.as_ref().len();
                    }
                    None => {}
                }
                let _ = d.derive_nwkskey(lorawan::parser::DevNonce::from_value(1), &key);
                let _ = d.derive_appskey(lorawan::parser::DevNonce::from_value(1), &key);
            }
        }) {
            panics.push(format!("join accept accessors: {m}"));
        }
    };
    let cls = match catch(|| parser::parse(b)) {
        Err(m) => {
            panics.push(format!("parse: {m}"));
            -1
        }
        Ok(Err(e)) => {
            let _ = format!("{e} {e:?}");
            0
        }
        Ok(Ok(PhyPayload::JoinRequest(p))) => {
            touch_jr(&p, &mut panics);
            1
        }
        Ok(Ok(PhyPayload::JoinAccept(p))) => {
            touch_ja(&p, &mut panics);
            2
        }
        Ok(Ok(PhyPayload::Data(p))) => {
            touch_data(&p, &mut panics);
            3
        }
    };
    let data_ok = match catch(|| EncryptedDataPayload::parse(b)) {
        Err(m) => {
            panics.push(format!("EncryptedDataPayload::parse: {m}"));
            -1
        }
        Ok(Err(_)) => 0,
        Ok(Ok(p)) => {
            touch_data(&p, &mut panics);
            1
        }
    };
    let jr_ok = match catch(|| JoinRequestPayload::parse(b)) {
        Err(m) => {
            panics.push(format!("JoinRequestPayload::parse: {m}"));
            -1
        }
        Ok(Err(_)) => 0,
        Ok(Ok(p)) => {
            touch_jr(&p, &mut panics);
            1
        }
    };
    let ja_ok = match catch(|| EncryptedJoinAcceptPayload::parse(b)) {
        Err(m) => {
            panics.push(format!("EncryptedJoinAcceptPayload::parse: {m}"));
            -1
        }
        Ok(Err(_)) => 0,
        Ok(Ok(p)) => {
            touch_ja(&p, &mut panics);
            1
        }
    };
    ([cls, data_ok, jr_ok, ja_ok], panics)
}

fn ev_frame(b: &[u8], src: &str) -> Value {
    let (c, panics) = frame_obs(b);
    json!({"ev": "frame", "bytes": bytes(b), "cls": c[0], "data_ok": c[1], "jr_ok": c[2], "ja_ok": c[3],
           "panics": panics, "src": src})
}

fn ev_fexh(prefix: &[u8], mids: &[i32]) -> Value {
    let mut rows = Vec::new();
    let mut npanics = 0u64;
    let mut first = String::new();
    for &mid in mids {
        let mut s: Vec<u8> = prefix.to_vec();
        if mid >= 0 {
            s.push(mid as u8);
        }
        s.push(0);
        let n = s.len();
        let mut runs: Vec<Value> = Vec::new();
        let mut prev: Option<[i64; 4]> = None;
        for j in 0..=255u8 {
            s[n - 1] = j;
            let (c, p) = frame_obs(&s);
            if !p.is_empty() {
                npanics += p.len() as u64;
                if first.is_empty() {
                    first = format!("{:?}: {}", s, p[0]);
                }
            }
            if prev != Some(c) {
                runs.push(json!([j, [c[0], c[1], c[2], c[3]]]));
                prev = Some(c);
            }
        }
        rows.push(json!([mid, runs]));
    }
    json!({"ev": "fexh", "prefix": bytes(prefix), "rows": rows, "panics": npanics, "first_panic": first})
}

fn ev_payload_new(set: &str, name: &str, data: &[u8]) -> Value {
    let r = cmdobs::payload_new(set, name, data, &KEK0);
    json!({"ev": "payload_new", "set": set, "name": name, "in": bytes(data), "ok": r.ok as u8,
           "bytes": bytes(&r.bytes), "plen": r.len, "panics": r.panics})
}

fn mutate(rng: &mut StdRng, b: &[u8], cids: &[u8]) -> Vec<u8> {
    let mut v = b.to_vec();
    let n = rng.gen_range(1..=3);
    for _ in 0..n {
        match rng.gen_range(0..8) {
            0 if !v.is_empty() => {
                let i = rng.gen_range(0..v.len());
                v[i] ^= 1 << rng.gen_range(0..8);
            }
            1 if !v.is_empty() => {
                let i = rng.gen_range(0..v.len());
                v[i] = rng.r#gen();
            }
            2 if !v.is_empty() => {
                let i = rng.gen_range(0..v.len());
                v.remove(i);
            }
            3 => {
                let i = rng.gen_range(0..=v.len());
                v.insert(i, rng.r#gen());
            }
            4 if !v.is_empty() => {
                let k = rng.gen_range(0..v.len());
                v.truncate(k);
            }
            5 => {
                let k = rng.gen_range(1..=40);
                let x = rnd_bytes(rng, k);
                v.extend_from_slice(&x);
            }
            6 if !v.is_empty() && !cids.is_empty() => {
                let i = rng.gen_range(0..v.len());
                v[i] = cids[rng.gen_range(0..cids.len())];
            }
            _ => {
                if !cids.is_empty() {
                    let i = rng.gen_range(0..=v.len());
                    v.insert(i, cids[rng.gen_range(0..cids.len())]);
                }
            }
        }
    }
    v.truncate(255);
    v
}

/// Templates written by TLC from spec/CmdCases.tla: [{set, t:[octet | -1 ...]}]
fn load_cases(path: &str) -> Vec<(String, Vec<i32>)> {
    let v: Value = serde_json::from_str(&std::fs::read_to_string(path).expect("cases file")).expect("cases json");
    v.as_array()
        .unwrap()
        .iter()
        .map(|c| {
            (
                c["set"].as_str().unwrap().to_string(),
                c["t"].as_array().unwrap().iter().map(|x| x.as_i64().unwrap() as i32).collect(),
            )
        })
        .collect()
}

fn fill(t: &[i32], mode: u8, rng: &mut StdRng) -> Vec<u8> {
    t.iter()
        .map(|&x| {
            if x >= 0 {
                x as u8
            } else {
                match mode {
                    0 => rng.r#gen(),
                    1 => 0x00,
                    _ => 0xFF,
                }
            }
        })
        .collect()
}

/// Run `jobs` closures producing events on up to `nthreads` threads, keep the order.
fn par_events<F: Fn(usize) -> Vec<Value> + Sync>(n: usize, nthreads: usize, f: F) -> Vec<Vec<Value>> {
    let next = std::sync::atomic::AtomicUsize::new(0);
    let res: std::sync::Mutex<Vec<(usize, Vec<Value>)>> = std::sync::Mutex::new(Vec::new());
    std::thread::scope(|sc| {
        for _ in 0..nthreads.max(1) {
            sc.spawn(|| loop {
                let k = next.fetch_add(1, std::sync::atomic::Ordering::SeqCst);
                if k >= n {
                    break;
                }
                let v = f(k);
                res.lock().unwrap().push((k, v));
            });
        }
    });
    let mut r = res.into_inner().unwrap();
    r.sort_by_key(|x| x.0);
    r.into_iter().map(|x| x.1).collect()
}

/// A valid command stream of the set, built with the library's own creators (seed for mutation).
fn valid_stream(set: &str, rng: &mut StdRng, maxcmds: usize) -> Vec<u8> {
    let mine: Vec<&(&str, &str, &[&str])> = CREATORS.iter().filter(|c| c.0 == set).collect();
    let mut v = Vec::new();
    for _ in 0..rng.gen_range(0..=maxcmds) {
        let c = mine[rng.gen_range(0..mine.len())];
        let sets = random_setters(set, c.1, c.2, rng, true);
        let (cr, _, _) = cmdobs::run_setters(set, c.1, &sets);
        if let Ok(b) = catch(|| cr.built()) {
            v.extend_from_slice(&b);
        }
    }
    v.truncate(255);
    v
}

pub fn cmds_items(a: &Args) {
    let mut out = Shards::create(&a.out, "items", a.shards);
    let mut rng = StdRng::seed_from_u64(a.seed ^ 0xC03);
    let nthreads = std::thread::available_parallelism().map(|n| n.get()).unwrap_or(4);
    let mut n_enum = 0u64;
    let mut n_short = 0u64;
    // (a) spec-derived enumeration
    if let Some(path) = a.get("cases") {
        for (set, t) in load_cases(path) {
            let modes: &[u8] = if t.iter().any(|&x| x < 0) { &[0, 1, 2] } else { &[0] };
            for &m in modes {
                let data = fill(&t, m, &mut rng);
                out.emit(&ev_items(&set, &data, "enum"));
                n_enum += 1;
            }
            if a.thorough && t.iter().any(|&x| x < 0) {
                for _ in 0..3 {
                    let data = fill(&t, 0, &mut rng);
                    out.emit(&ev_items(&set, &data, "enum"));
                    n_enum += 1;
                }
            }
        }
    }
    // (b) exhaustive short strings: length 0, 1, 2 always; length 3 completely in the thorough tier,
    //     a seeded sample of (b0,b1) prefixes in the quick tier
    for set in SETS {
        out.emit(&ev_items(set, &[], "short"));
        out.emit(&ev_exh(set, &[], &[-1]));
        n_short += 1 + 256;
    }
    out.emit(&ev_frame(&[], "short"));
    out.emit(&ev_fexh(&[], &[-1]));
    let all_mids: Vec<i32> = (0..256).collect();
    let evs = par_events(SETS.len() * 4, nthreads, |k| {
        let set = SETS[k / 4];
        let q = k % 4;
        vec![ev_exh(set, &[], &all_mids[q * 64..(q + 1) * 64])]
    });
    for e in evs.into_iter().flatten() {
        out.emit(&e);
        n_short += 64 * 256;
    }
    out.emit(&ev_fexh(&[], &all_mids));
    let sample3 = a.get_usize("sample3", 1500);
    if a.thorough || a.get("all3").is_some() {
        let evs = par_events(SETS.len() * 256, nthreads, |k| {
            let set = SETS[k / 256];
            let b0 = (k % 256) as u8;
            vec![ev_exh(set, &[b0], &all_mids)]
        });
        for e in evs.into_iter().flatten() {
            out.emit(&e);
            n_short += 65536;
        }
        let evs = par_events(256, nthreads, |k| vec![ev_fexh(&[k as u8], &all_mids)]);
        for e in evs.into_iter().flatten() {
            out.emit(&e);
        }
    } else {
        for _ in 0..sample3 {
            let set = SETS[rng.gen_range(0..SETS.len())];
            // bias the prefix towards CIDs the sets define
            let pick = |rng: &mut StdRng| -> u8 {
                if rng.gen_bool(0.7) {
                    [0u8, 1, 2, 3, 4, 5, 6, 7, 8, 9, 10, 13, 32, 127][rng.gen_range(0..14)]
                } else {
                    rng.r#gen()
                }
            };
            let (b0, b1) = (pick(&mut rng), pick(&mut rng));
            out.emit(&ev_exh(set, &[b0], &[b1 as i32]));
            n_short += 256;
        }
        for _ in 0..40 {
            let b0: u8 = rng.r#gen();
            let b1: u8 = rng.r#gen();
            out.emit(&ev_fexh(&[b0], &[b1 as i32]));
        }
    }
    // (c) mutation of valid streams and frames up to 255 bytes
    let n_mut_streams = a.get_usize("mut_streams", if a.thorough { 60_000 } else { 6_000 });
    let n_mut_frames = a.get_usize("mut_frames", if a.thorough { 40_000 } else { 4_000 });
    let mut n_mut = 0u64;
    for k in 0..n_mut_streams {
        let set = SETS[k % SETS.len()];
        let cids: Vec<u8> = CREATORS.iter().filter(|c| c.0 == set).map(|c| cmdobs::make_creator(set, c.1).built()[0]).collect();
        let seed = valid_stream(set, &mut rng, 12);
        let data = if k % 10 == 0 { seed } else { mutate(&mut rng, &seed, &cids) };
        out.emit(&ev_items(set, &data, "mut"));
        n_mut += 1;
    }
    let descs = codecrec::descriptions(a.seed, false);
    for k in 0..n_mut_frames {
        let d = &descs[rng.gen_range(0..descs.len())];
        let base: Vec<u8> = match k % 8 {
            0 => {
                let n = [23usize, 17, 33, 12, 13, 255][rng.gen_range(0..6)];
                rnd_bytes(&mut rng, n)
            }
            1 => {
                // join-request / join-accept shaped strings
                let n = if rng.gen_bool(0.5) { 23 } else { [17usize, 33][rng.gen_range(0..2)] };
                let mut v = rnd_bytes(&mut rng, n);
                v[0] = if v.len() == 23 { 0x00 } else { 0x20 };
                v
            }
            _ => match codecrec::build(d) {
                Ok(Ok(b)) => b,
                _ => rnd_bytes(&mut rng, 20),
            },
        };
        let data = if k % 5 == 0 { base } else { mutate(&mut rng, &base, &[0x00, 0x20, 0x40, 0x60, 0x80, 0xA0, 0xC0, 0xE0]) };
        out.emit(&ev_frame(&data, "mut"));
        // every frame-shaped string also goes through the six iterators (cheap, rarely valid)
        if k % 4 == 0 {
            let set = SETS[(k / 4) % SETS.len()];
            out.emit(&ev_items(set, &data, "mut"));
        }
        n_mut += 1;
    }
    // every length 0..=255 of random bytes through every iterator and the frame parsers
    for len in 0..=255usize {
        let data = rnd_bytes(&mut rng, len);
        out.emit(&ev_frame(&data, "len"));
        for set in SETS {
            out.emit(&ev_items(set, &data, "len"));
        }
    }
    // strings longer than any radio buffer (the property quantifies over byte strings, not over receptions): every
    // length 256..=300 and the lengths around the next multiples of 256, random and data-frame shaped (data MHDR,
    // every FOptsLen), so that a length or offset kept in 8 bits shows
    for len in (256..=300usize).chain(500..=530).chain(760..=790).chain(1015..=1045) {
        let data = rnd_bytes(&mut rng, len);
        out.emit(&ev_frame(&data, "long"));
        let mut shaped = rnd_bytes(&mut rng, len);
        shaped[0] = [0x40u8, 0x60, 0x80, 0xA0][len % 4];
        shaped[5] = (shaped[5] & 0xF0) | (len % 16) as u8;
        out.emit(&ev_frame(&shaped, "long"));
    }
    // (d) payload constructors: every length 0..=max+2, three fills
    let mut n_new = 0u64;
    for (set, name) in PAYLOAD_NEW {
        for len in 0..=34usize {
            for mode in 0..3u8 {
                let data: Vec<u8> = match mode {
                    0 => rnd_bytes(&mut rng, len),
                    1 => vec![0; len],
                    _ => vec![0xFF; len],
                };
                out.emit(&ev_payload_new(set, name, &data));
                n_new += 1;
            }
        }
        if *name == "McGroupStatusAns" {
            for st in 0..=255u8 {
                for extra in [0usize, 4, 5, 9, 10, 14, 15, 19, 20, 21] {
                    let mut data = vec![st];
                    data.extend(rnd_bytes(&mut rng, extra));
                    out.emit(&ev_payload_new(set, name, &data));
                    n_new += 1;
                }
            }
        }
    }
    let total = out.finish();
    println!("events={total} enum={n_enum} short_strings={n_short} mutated={n_mut} payload_new={n_new}");
}

// ------------------------------------------------------------------------------------------ C19

fn pair(v: u32) -> Value {
    json!([v >> 16, v & 0xFFFF])
}

const U32_BOUNDARY: [u32; 12] = [
    0, 1, 0xFF, 0x100, 0xFFFF, 0x1_0000, 0x0102_0304, 0x7FFF_FFFF, 0x8000_0000, 0xFFFF_FFFE, 0xFFFF_FFFF, 0x00FF_00FF,
];
const NANOS_BOUNDARY: [u32; 14] = [
    0, 1, 3_906_249, 3_906_250, 3_906_251, 7_812_500, 499_999_999, 500_000_000, 996_093_749, 996_093_750,
    999_999_999, 1_000_000_000, 1_000_000_001, 0xFFFF_FFFF,
];

/// A random (or boundary) argument for the setter bound to `field` of (set, name).
/// `valid` restricts to arguments the setter must accept.
fn random_arg(set: &str, name: &str, field: &str, rng: &mut StdRng, valid: bool) -> Value {
    let u8any = |rng: &mut StdRng| -> u8 {
        match rng.gen_range(0..4) {
            0 => [0u8, 1, 2, 3, 4, 7, 8, 15, 16, 31, 32, 127, 128, 254, 255][rng.gen_range(0..15)],
            _ => rng.r#gen(),
        }
    };
    let flag = |rng: &mut StdRng| json!(rng.gen_range(0..=1));
    match (set, name, field) {
        (_, "LinkADRReq", "DataRate") | (_, "LinkADRReq", "TXPower") | (_, "DutyCycleReq", _) | (_, "RXTimingSetupReq", _)
        | (_, "TXParamSetupReq", "MaxEIRP") => {
            if valid { json!(rng.gen_range(0..16)) } else { json!(u8any(rng)) }
        }
        (_, "LinkADRReq", "ChMask") => bytes(&rnd_bytes(rng, 2)),
        (_, _, "Frequency") | (_, _, "Freq") => bytes(&rnd_bytes(rng, 3)),
        (_, "DeviceTimeAns", "Seconds") | (_, _, "minMcFCount") | (_, _, "maxMcFCount") => {
            if rng.gen_bool(0.4) { pair(U32_BOUNDARY[rng.gen_range(0..U32_BOUNDARY.len())]) } else { pair(rng.r#gen()) }
        }
        (_, "DeviceTimeAns", "Nanos") => {
            if valid {
                pair(rng.gen_range(0..1_000_000_000))
            } else if rng.gen_bool(0.5) {
                pair(NANOS_BOUNDARY[rng.gen_range(0..NANOS_BOUNDARY.len())])
            } else if rng.gen_bool(0.8) {
                pair(rng.gen_range(0..1_000_000_000))
            } else {
                pair(rng.r#gen())
            }
        }
        (_, "DevStatusAns", "Margin") => {
            if valid { json!(rng.gen_range(-32..=31)) } else { json!(rng.r#gen::<i8>()) }
        }
        (_, "EchoIncPayloadAns", "EchoOf") => {
            let n = if valid || rng.gen_bool(0.9) { rng.gen_range(0..=241) } else { rng.gen_range(242..=255) };
            bytes(&rnd_bytes(rng, n))
        }
        (_, "RxAppCntAns", _) => json!(if rng.gen_bool(0.3) { [0u16, 1, 255, 256, 0x7FFF, 0x8000, 0xFFFF][rng.gen_range(0..7)] } else { rng.r#gen::<u16>() }),
        (_, "DutVersionsAns", _) => bytes(&rnd_bytes(rng, 12)),
        (_, "McGroupStatusReq", "ReqGroupMask") => {
            if valid { json!(rng.gen_range(0..16)) } else { json!(u8any(rng)) }
        }
        (_, "McGroupStatusReq", "ReqGroup") | (_, "McGroupSetupReq", "McGroupID") | (_, "McGroupDeleteReq", _)
        | (_, "McGroupSetupAns", _) | (_, "McGroupDeleteAns", "McGroupID") => {
            if valid { json!(rng.gen_range(0..4)) } else { json!(u8any(rng)) }
        }
        (_, _, "McAddr") => bytes(&rnd_bytes(rng, 4)),
        (_, _, "McKey") => json!({"kek": bytes(&rnd_bytes(rng, 16)), "key": bytes(&rnd_bytes(rng, 16))}),
        (_, "McGroupStatusAns", "NbTotalGroups") => {
            if valid { json!(rng.gen_range(0..8)) } else { json!(u8any(rng)) }
        }
        (_, "McGroupStatusAns", "Push") => json!({"g": rng.gen_range(0..4), "addr": bytes(&rnd_bytes(rng, 4))}),
        (_, "LinkADRAns", _) | (_, "RXParamSetupAns", _) | (_, "NewChannelAns", _) | (_, "DlChannelAns", _)
        | (_, "TXParamSetupReq", _) | (_, "McGroupDeleteAns", "McGroupUndefined") => flag(rng),
        _ => json!(u8any(rng)), // whole-octet setters
    }
}

/// An admissible argument near the low / high end of the setter's domain: the extreme (by the sum of all numbers
/// in its JSON form) of 12 admissible draws.
fn extreme_arg(set: &str, name: &str, field: &str, rng: &mut StdRng, high: bool) -> Value {
    fn weight(v: &Value) -> i64 {
        match v {
            Value::Number(n) => n.as_i64().unwrap_or(0),
            Value::Array(a) => a.iter().map(weight).sum(),
            Value::Object(o) => o.values().map(weight).sum(),
            _ => 0,
        }
    }
    let mut best = random_arg(set, name, field, rng, true);
    for _ in 0..11 {
        let c = random_arg(set, name, field, rng, true);
        if (high && weight(&c) > weight(&best)) || (!high && weight(&c) < weight(&best)) {
            best = c;
        }
    }
    best
}

/// Each setter of the creator once (DESIGN 7.9), in random order; Push/ReqGroup are additive and may repeat
/// with distinct groups.
fn random_setters(set: &str, name: &str, fields: &[&str], rng: &mut StdRng, valid: bool) -> Vec<(String, Value)> {
    let mut v: Vec<(String, Value)> = Vec::new();
    for f in fields {
        if rng.gen_bool(0.15) {
            continue;
        }
        match *f {
            "Push" => {
                let mut gs = vec![0u8, 1, 2, 3];
                gs.shuffle(rng);
                for g in gs.into_iter().take(rng.gen_range(0..=4)) {
                    v.push(("Push".into(), json!({"g": g, "addr": bytes(&rnd_bytes(rng, 4))})));
                }
            }
            "ReqGroup" => {
                for _ in 0..rng.gen_range(0..=3) {
                    v.push(("ReqGroup".into(), random_arg(set, name, f, rng, valid)));
                }
            }
            _ => v.push((f.to_string(), random_arg(set, name, f, rng, valid))),
        }
    }
    v.shuffle(rng);
    v
}

fn ev_build(set: &str, name: &str, sets: &[(String, Value)]) -> Value {
    let (c, rs, mut panics) = cmdobs::run_setters(set, name, sets);
    let (b, clen) = match catch(|| (c.built(), c.clen())) {
        Ok(x) => (x.0, x.1 as i64),
        Err(m) => {
            panics.push(format!("{name}.build: {m}"));
            (vec![], -1)
        }
    };
    // the trait view used by build_mac_commands must agree with build()
    let tr = catch(|| {
        let s = c.ser();
        let mut t = vec![s.cid()];
        t.extend_from_slice(s.payload_bytes());
        (t, s.payload_len() as i64)
    });
    let (tb, tl) = match tr {
        Ok(x) => x,
        Err(m) => {
            panics.push(format!("{name}.SerializableMacCommand: {m}"));
            (vec![], -1)
        }
    };
    json!({"ev": "build", "set": set, "name": name, "sets": cmdobs::sets_json(sets, &rs), "bytes": bytes(&b),
           "clen": clen, "tbytes": bytes(&tb), "tlen": tl, "panics": panics})
}

fn obs_json(o: &cmdobs::Obs) -> Value {
    json!({"name": o.name, "cid": o.cid, "plen": o.len, "payload": bytes(&o.bytes), "f": Value::Object(o.f.clone()),
           "d": Value::Object(o.d.clone())})
}

/// One command (CID | payload, possibly followed by garbage) through the set's iterator; the first
/// yielded command is observed completely.
fn ev_parse_fields(set: &str, data: &[u8], kek: &[u8; 16]) -> Value {
    let r = items(set, data, true, kek);
    let (found, first) = match r.cmds.first() {
        Some(o) => (1, obs_json(o)),
        None => (0, json!({"name": "", "cid": -1, "plen": -1, "payload": [], "f": {}, "d": {}})),
    };
    json!({"ev": "parse_fields", "set": set, "in": bytes(data), "kek": bytes(kek), "found": found, "c": first,
           "out": out_json(&r.out), "panics": r.panics})
}

fn ev_stream(set: &str, cmds: &[(String, Vec<(String, Value)>)], buflen: usize) -> Value {
    let mut crs = Vec::new();
    let mut jc = Vec::new();
    let mut panics = Vec::new();
    for (name, sets) in cmds {
        let (c, rs, mut p) = cmdobs::run_setters(set, name, sets);
        panics.append(&mut p);
        jc.push(json!({"name": name, "sets": cmdobs::sets_json(sets, &rs)}));
        crs.push(c);
    }
    let refs: Vec<&dyn SerializableMacCommand> = crs.iter().map(|c| c.ser()).collect();
    let total = catch(|| mac_commands_len(&refs) as i64).unwrap_or_else(|m| {
        panics.push(format!("mac_commands_len: {m}"));
        -1
    });
    let mut buf = vec![0xA5u8; buflen];
    let r = catch(|| build_mac_commands(&refs, &mut buf[..]));
    let (ok, n) = match r {
        Ok(Ok(n)) => (1, n as i64),
        Ok(Err(_)) => (0, -1),
        Err(m) => {
            panics.push(format!("build_mac_commands: {m}"));
            (2, -1)
        }
    };
    let written: Vec<u8> = if ok == 1 { buf[..(n as usize).min(buflen)].to_vec() } else { vec![] };
    let back = items(set, &written, false, &KEK0);
    panics.extend(back.panics.iter().cloned());
    json!({"ev": "stream", "set": set, "cmds": jc, "buflen": buflen, "ok": ok, "n": n, "total": total,
           "bytes": bytes(&written), "after": bytes(&buf), "out": out_json(&back.out), "names": back.names, "panics": panics})
}

/// Payload length used to drive parse_fields for (set, name): fixed lengths from the creators, a few
/// lengths for variable commands.  (Input generation only; the oracle is MacCmds.tla.)
fn parse_inputs(set: &str, rng: &mut StdRng, thorough: bool) -> Vec<Vec<u8>> {
    let mut v: Vec<Vec<u8>> = Vec::new();
    // boundaries of 2..8-bit sub-fields (and of their signed readings)
    let boundary: [u8; 22] = [0, 1, 2, 3, 4, 7, 8, 0x0F, 0x10, 0x1F, 0x20, 0x21, 0x3F, 0x40, 0x7F, 0x80, 0x81, 0xC0, 0xE0, 0xF0, 0xFE, 0xFF];
    for c in CREATORS.iter().filter(|c| c.0 == set) {
        let cmd = cmdobs::make_creator(set, c.1).built();
        let (cid, plen) = (cmd[0], cmd.len() - 1);
        if c.1 == "EchoIncPayloadAns" || c.1 == "McGroupStatusAns" {
            continue; // variable length, below
        }
        if plen == 0 {
            v.push(vec![cid]);
            continue;
        }
        for pos in 0..plen {
            // short payloads: every value of every octet (sub-field boundaries such as the -32 of a 6-bit signed
            // field are then hit whatever the layout); longer ones: the boundary list plus random values
            let vals: Vec<u8> = if plen <= 4 || thorough {
                (0..=255).collect()
            } else {
                let mut x = boundary.to_vec();
                x.extend(rnd_bytes(rng, 14));
                x
            };
            for val in vals {
                let mut p = match rng.gen_range(0..4) {
                    0 => vec![0u8; plen],
                    1 => vec![0xFFu8; plen],
                    _ => rnd_bytes(rng, plen),
                };
                p[pos] = val;
                let mut s = vec![cid];
                s.extend(p);
                if rng.gen_bool(0.2) {
                    s.extend(rnd_bytes(rng, 3)); // trailing octets of a following command
                }
                v.push(s);
            }
        }
    }
    match set {
        "cert_down" => {
            for cid in [7u8, 8] {
                for first in 0..=255u8 {
                    let mut s = vec![cid, first];
                    let n = rng.gen_range(0..6);
                    s.extend(rnd_bytes(rng, n));
                    v.push(s);
                }
                for len in [1usize, 2, 16, 100, 241, 242, 254] {
                    let mut s = vec![cid];
                    s.extend(rnd_bytes(rng, len));
                    v.push(s);
                }
            }
        }
        "cert_up" => {
            for len in 1..=254usize {
                let mut s = vec![8u8];
                s.extend(rnd_bytes(rng, len));
                v.push(s);
            }
        }
        "mc_up" => {
            for st in 0..=255u8 {
                let n = 5 * (st & 0x0F).count_ones() as usize;
                for _ in 0..(if thorough { 8 } else { 2 }) {
                    let mut s = vec![1u8, st];
                    s.extend(rnd_bytes(rng, n));
                    if rng.gen_bool(0.3) {
                        s.extend(rnd_bytes(rng, 2));
                    }
                    v.push(s);
                }
            }
            // session answers (no accessors; framing + generic accessors)
            for cid in [4u8, 5] {
                for st in 0..=255u8 {
                    let mut s = vec![cid, st];
                    s.extend(rnd_bytes(rng, 3));
                    v.push(s);
                }
            }
        }
        "mc_down" => {
            // commands without setters but with a layout: random payloads
            for cid in [4u8, 5] {
                for _ in 0..64 {
                    let mut s = vec![cid];
                    s.extend(rnd_bytes(rng, 10));
                    v.push(s);
                }
            }
        }
        _ => {}
    }
    v
}

pub fn cmds_fields(a: &Args) {
    let mut out = Shards::create(&a.out, "fields", a.shards);
    let mut rng = StdRng::seed_from_u64(a.seed ^ 0xC19);
    let (mut n_build, mut n_parse, mut n_stream) = (0u64, 0u64, 0u64);
    // ---- creators
    for (set, name, fields) in CREATORS {
        // no setter at all / default state
        out.emit(&ev_build(set, name, &[]));
        n_build += 1;
        for f in fields.iter() {
            // the setter under test with every argument of its domain (<= 16 bits: exhaustive; wider: boundary + random),
            // the other setters before and after it in random order with arbitrary arguments
            let args: Vec<Value> = match (*name, *f) {
                ("DevStatusAns", "Margin") => (-128..=127).map(|x| json!(x)).collect(),
                ("LinkADRAns", _) | ("RXParamSetupAns", _) | ("NewChannelAns", _) | ("DlChannelAns", _)
                | ("TXParamSetupReq", "DownlinkDwellTime") | ("TXParamSetupReq", "UplinkDwellTime")
                | ("McGroupDeleteAns", "McGroupUndefined") => vec![json!(0), json!(1)],
                ("RxAppCntAns", _) => {
                    if a.thorough {
                        (0..=65535u32).map(|x| json!(x)).collect()
                    } else {
                        let mut v: Vec<Value> = [0u32, 1, 255, 256, 257, 0x7FFF, 0x8000, 0xFF00, 0xFFFE, 0xFFFF].iter().map(|x| json!(x)).collect();
                        v.extend((0..600).map(|_| json!(rng.r#gen::<u16>())));
                        v
                    }
                }
                ("LinkADRReq", "ChMask") => {
                    if a.thorough {
                        (0..=65535u32).map(|x| json!([x & 0xFF, x >> 8])).collect()
                    } else {
                        let mut v: Vec<Value> = (0..16).map(|k| json!([(1u32 << k) & 0xFF, (1u32 << k) >> 8])).collect();
                        v.extend((0..300).map(|_| bytes(&rnd_bytes(&mut rng, 2))));
                        v
                    }
                }
                (_, "Frequency") | (_, "Freq") => {
                    let mut v: Vec<Value> = vec![json!([0, 0, 0]), json!([255, 255, 255]), json!([1, 0, 0]), json!([0, 1, 0]), json!([0, 0, 1]),
                                                  json!([0x28, 0x76, 0x84]), json!([255, 0, 0]), json!([0, 0, 128])];
                    v.extend((0..200).map(|_| bytes(&rnd_bytes(&mut rng, 3))));
                    v
                }
                ("DeviceTimeAns", "Seconds") | (_, "minMcFCount") | (_, "maxMcFCount") => {
                    let mut v: Vec<Value> = U32_BOUNDARY.iter().map(|x| pair(*x)).collect();
                    v.extend((0..300).map(|_| pair(rng.r#gen())));
                    v
                }
                ("DeviceTimeAns", "Nanos") => {
                    let mut v: Vec<Value> = NANOS_BOUNDARY.iter().map(|x| pair(*x)).collect();
                    for k in 0..=256u32 {
                        // every step boundary of the 1/256 s grid, from both sides
                        let t = (k as u64 * 3_906_250) as u32;
                        v.push(pair(t));
                        if t > 0 {
                            v.push(pair(t - 1));
                        }
                    }
                    v.extend((0..300).map(|_| random_arg(set, name, f, &mut rng, false)));
                    v
                }
                ("EchoIncPayloadAns", _) => {
                    let mut v: Vec<Value> = (0..=255usize).map(|n| bytes(&rnd_bytes(&mut rng, n))).collect();
                    v.push(bytes(&[0xFF; 10]));
                    v.push(bytes(&[0x00; 10]));
                    v.push(bytes(&(0..=240).map(|x| x as u8).collect::<Vec<u8>>()));
                    v
                }
                ("DutVersionsAns", _) => (0..200).map(|_| bytes(&rnd_bytes(&mut rng, 12))).collect(),
                (_, "McAddr") => (0..200).map(|_| bytes(&rnd_bytes(&mut rng, 4))).collect(),
                (_, "McKey") => (0..(if a.thorough { 400 } else { 60 })).map(|_| random_arg(set, name, f, &mut rng, true)).collect(),
                ("McGroupStatusAns", "Push") => vec![], // sequences below
                _ => (0..=255).map(|x| json!(x)).collect(), // u8 setters, in and out of range
            };
            let others: Vec<&str> = fields.iter().copied().filter(|g| g != f && *g != "Push").collect();
            for arg in args {
                // (1) the other setters before and after it in random order with arbitrary arguments
                let mut pre = random_setters(set, name, &others, &mut rng, false);
                let cut = rng.gen_range(0..=pre.len());
                let post = pre.split_off(cut);
                pre.push((f.to_string(), arg.clone()));
                pre.extend(post);
                out.emit(&ev_build(set, name, &pre));
                // (2) alone on the default creator: every neighbouring bit is in its default state
                out.emit(&ev_build(set, name, &[(f.to_string(), arg.clone())]));
                n_build += 2;
                // (3), (4) after every other setter was given a (near-)minimal / (near-)maximal admissible argument:
                // a value that spills over sets a cleared neighbour bit or clears a set one
                if !others.is_empty() {
                    for high in [false, true] {
                        let mut v: Vec<(String, Value)> = others.iter().map(|g| (g.to_string(), extreme_arg(set, name, g, &mut rng, high))).collect();
                        v.push((f.to_string(), arg.clone()));
                        out.emit(&ev_build(set, name, &v));
                        n_build += 1;
                    }
                }
                // (5) the same setter again, on a creator that already holds a (near-)maximal / (near-)minimal value of
                // this very field: the field carries the value set last, nothing of the earlier one survives
                // (not for the additive ReqGroup, nor for McKey, whose encrypted form the specification can only check
                // against the key of the final octets)
                if *f != "ReqGroup" && *f != "McKey" {
                    for high in [true, false] {
                        let v = vec![(f.to_string(), extreme_arg(set, name, f, &mut rng, high)), (f.to_string(), arg.clone())];
                        out.emit(&ev_build(set, name, &v));
                        n_build += 1;
                    }
                }
            }
        }
        if *name == "McGroupStatusAns" {
            // every ordered selection of distinct groups 0..3
            let mut seqs: Vec<Vec<u8>> = vec![vec![]];
            let mut frontier: Vec<Vec<u8>> = vec![vec![]];
            for _ in 0..4 {
                let mut next = Vec::new();
                for s in &frontier {
                    for g in 0..4u8 {
                        if !s.contains(&g) {
                            let mut t = s.clone();
                            t.push(g);
                            next.push(t);
                        }
                    }
                }
                seqs.extend(next.iter().cloned());
                frontier = next;
            }
            let push = |g: u8, rng: &mut StdRng| ("Push".to_string(), json!({"g": g, "addr": bytes(&rnd_bytes(rng, 4))}));
            for s in &seqs {
                for nb in [None, Some(0u8), Some(7), Some(rng.r#gen::<u8>())] {
                    let mut v: Vec<(String, Value)> = s.iter().map(|g| push(*g, &mut rng)).collect();
                    if let Some(nb) = nb {
                        let at = rng.gen_range(0..=v.len());
                        v.insert(at, ("NbTotalGroups".into(), json!(nb)));
                    }
                    out.emit(&ev_build(set, name, &v));
                    n_build += 1;
                }
            }
            // one out-of-range group id at every position of a short valid sequence; a fifth record
            for bad in [4u8, 5, 6, 7, 8, 9, 15, 16, 31, 32, 64, 128, 255] {
                for s in seqs.iter().filter(|s| s.len() <= 3).step_by(3) {
                    for at in 0..=s.len() {
                        let mut v: Vec<(String, Value)> = s.iter().map(|g| push(*g, &mut rng)).collect();
                        v.insert(at, push(bad, &mut rng));
                        if rng.gen_bool(0.5) {
                            v.insert(0, ("NbTotalGroups".into(), json!(rng.gen_range(0..8))));
                        }
                        out.emit(&ev_build(set, name, &v));
                        n_build += 1;
                    }
                }
                let mut v: Vec<(String, Value)> = [0u8, 1, 2, 3].iter().map(|g| push(*g, &mut rng)).collect();
                v.push(push(bad, &mut rng));
                out.emit(&ev_build(set, name, &v));
                n_build += 1;
            }
        }
    }
    // ---- accessors
    for set in SETS {
        for data in parse_inputs(set, &mut rng, a.thorough) {
            let kek: [u8; 16] = rng.r#gen();
            out.emit(&ev_parse_fields(set, &data, &kek));
            n_parse += 1;
        }
    }
    // LinkADRReq channel mask: 16-bit field
    {
        let masks: Vec<u32> = if a.thorough { (0..=65535).collect() } else { (0..600).map(|_| rng.gen_range(0..=65535)).collect() };
        for m in masks {
            let data = vec![3u8, rng.r#gen(), (m & 0xFF) as u8, (m >> 8) as u8, rng.r#gen()];
            out.emit(&ev_parse_fields("mac_down", &data, &KEK0));
            n_parse += 1;
        }
    }
    // builder -> parser through the real code: what a creator built is parsed back and observed
    for (set, name, fields) in CREATORS {
        for _ in 0..(if a.thorough { 200 } else { 40 }) {
            let sets = random_setters(set, name, fields, &mut rng, true);
            let kek = sets.iter().find(|s| s.0 == "McKey").map(|s| by(&s.1["kek"]).try_into().unwrap()).unwrap_or(KEK0);
            let (c, _, _) = cmdobs::run_setters(set, name, &sets);
            if let Ok(b) = catch(|| c.built()) {
                out.emit(&ev_parse_fields(set, &b, &kek));
                n_parse += 1;
            }
        }
    }
    // ---- streams
    let n_streams = a.get_usize("streams", if a.thorough { 20_000 } else { 2_500 });
    for k in 0..n_streams {
        let set = SETS[k % SETS.len()];
        let mine: Vec<&(&str, &str, &[&str])> = CREATORS.iter().filter(|c| c.0 == set).collect();
        let n = rng.gen_range(0..=8);
        let cmds: Vec<(String, Vec<(String, Value)>)> = (0..n)
            .map(|_| {
                let c = mine[rng.gen_range(0..mine.len())];
                (c.1.to_string(), random_setters(set, c.1, c.2, &mut rng, true))
            })
            .collect();
        // probe the total to place the buffer length around the boundary
        let total: usize = cmds.iter().map(|(n, s)| cmdobs::run_setters(set, n, s).0.built().len()).sum();
        let buflen = match rng.gen_range(0..6) {
            0 => total.saturating_sub(1),
            1 => total,
            2 => total + 1,
            3 => rng.gen_range(0..=total),
            4 => 0,
            _ => total + rng.gen_range(0..64),
        };
        out.emit(&ev_stream(set, &cmds, buflen));
        n_stream += 1;
    }
    let total = out.finish();
    println!("events={total} build={n_build} parse_fields={n_parse} stream={n_stream}");
}

// ------------------------------------------------------------------------------------------ text forms

pub const TEXT_TYPES: [(&str, usize); 18] = [
    ("DevAddr", 4),
    ("McAddr", 4),
    ("DevEui", 8),
    ("JoinEui", 8),
    ("DevNonce", 2),
    ("JoinNonce", 3),
    ("NetId", 3),
    ("KeysDevEui", 8),
    ("KeysAppEui", 8),
    ("AppKey", 16),
    ("NwkSKey", 16),
    ("AppSKey", 16),
    ("McRootKey", 16),
    ("McKEKey", 16),
    ("McNetSKey", 16),
    ("McAppSKey", 16),
    ("GenAppKey", 16),
    ("McKey", 16),
];

macro_rules! text_wire {
    ($t:ty, $n:literal, $w:expr) => {{
        let a: [u8; $n] = $w.try_into().expect("wire length");
        let v = <$t>::from_wire_bytes(a);
        let s = format!("{v}");
        let back = <$t>::from_str(&s).ok().map(|x| x.as_wire_bytes().to_vec());
        (s, back)
    }};
}
macro_rules! text_key {
    ($t:ty, $n:literal, $w:expr) => {{
        let a: [u8; $n] = $w.try_into().expect("wire length");
        let v = <$t>::from(a);
        let s = format!("{v}");
        let back = <$t>::from_str(&s).ok().map(|x| x.as_ref().to_vec());
        (s, back)
    }};
}
macro_rules! from_wire {
    ($t:ty, $s:expr) => {
        <$t>::from_str($s).ok().map(|x| x.as_wire_bytes().to_vec())
    };
}
macro_rules! from_key {
    ($t:ty, $s:expr) => {
        <$t>::from_str($s).ok().map(|x| x.as_ref().to_vec())
    };
}

/// Display of the value with these wire bytes, and FromStr of that string.
fn text_roundtrip(ty: &str, w: &[u8]) -> (String, Option<Vec<u8>>) {
    use lorawan::keys as k;
    use lorawan::parser as p;
    match ty {
        "DevAddr" => text_wire!(p::DevAddr, 4, w),
        "McAddr" => text_wire!(p::McAddr, 4, w),
        "DevEui" => text_wire!(p::DevEui, 8, w),
        "JoinEui" => text_wire!(p::JoinEui, 8, w),
        "DevNonce" => text_wire!(p::DevNonce, 2, w),
        "JoinNonce" => text_wire!(p::JoinNonce, 3, w),
        "NetId" => text_wire!(p::NetId, 3, w),
        "KeysDevEui" => text_key!(k::DevEui, 8, w),
        "KeysAppEui" => text_key!(k::AppEui, 8, w),
        "AppKey" => text_key!(k::AppKey, 16, w),
        "NwkSKey" => text_key!(k::NwkSKey, 16, w),
        "AppSKey" => text_key!(k::AppSKey, 16, w),
        "McRootKey" => text_key!(k::McRootKey, 16, w),
        "McKEKey" => text_key!(k::McKEKey, 16, w),
        "McNetSKey" => text_key!(k::McNetSKey, 16, w),
        "McAppSKey" => text_key!(k::McAppSKey, 16, w),
        "GenAppKey" => text_key!(k::GenAppKey, 16, w),
        "McKey" => text_key!(k::McKey, 16, w),
        other => panic!("unknown text type {other}"),
    }
}

fn text_fromstr(ty: &str, s: &str) -> Option<Vec<u8>> {
    use lorawan::keys as k;
    use lorawan::parser as p;
    match ty {
        "DevAddr" => from_wire!(p::DevAddr, s),
        "McAddr" => from_wire!(p::McAddr, s),
        "DevEui" => from_wire!(p::DevEui, s),
        "JoinEui" => from_wire!(p::JoinEui, s),
        "DevNonce" => from_wire!(p::DevNonce, s),
        "JoinNonce" => from_wire!(p::JoinNonce, s),
        "NetId" => from_wire!(p::NetId, s),
        "KeysDevEui" => from_key!(k::DevEui, s),
        "KeysAppEui" => from_key!(k::AppEui, s),
        "AppKey" => from_key!(k::AppKey, s),
        "NwkSKey" => from_key!(k::NwkSKey, s),
        "AppSKey" => from_key!(k::AppSKey, s),
        "McRootKey" => from_key!(k::McRootKey, s),
        "McKEKey" => from_key!(k::McKEKey, s),
        "McNetSKey" => from_key!(k::McNetSKey, s),
        "McAppSKey" => from_key!(k::McAppSKey, s),
        "GenAppKey" => from_key!(k::GenAppKey, s),
        "McKey" => from_key!(k::McKey, s),
        other => panic!("unknown text type {other}"),
    }
}

fn ev_text(ty: &str, wires: &[Vec<u8>]) -> Value {
    let mut disps = Vec::new();
    let mut backs = Vec::new();
    let mut backok = Vec::new();
    let mut panics = Vec::new();
    for w in wires {
        match catch(|| text_roundtrip(ty, w)) {
            Ok((s, b)) => {
                disps.push(bytes(s.as_bytes()));
                backok.push(b.is_some() as u8);
                backs.push(bytes(&b.unwrap_or_default()));
            }
            Err(m) => {
                panics.push(format!("{ty} {w:?}: {m}"));
                disps.push(json!([]));
                backok.push(0);
                backs.push(json!([]));
            }
        }
    }
    json!({"ev": "text", "type": ty, "wires": wires.iter().map(|w| bytes(w)).collect::<Vec<_>>(), "disps": disps,
           "backok": backok, "backs": backs, "panics": panics})
}

fn ev_fromstr(ty: &str, strs: &[String]) -> Value {
    let mut oks = Vec::new();
    let mut wires = Vec::new();
    let mut panics = Vec::new();
    for s in strs {
        match catch(|| text_fromstr(ty, s)) {
            Ok(r) => {
                oks.push(r.is_some() as u8);
                wires.push(bytes(&r.unwrap_or_default()));
            }
            Err(m) => {
                panics.push(format!("{ty} {s:?}: {m}"));
                oks.push(2);
                wires.push(json!([]));
            }
        }
    }
    json!({"ev": "fromstr", "type": ty, "strs": strs.iter().map(|s| bytes(s.as_bytes())).collect::<Vec<_>>(),
           "oks": oks, "wires": wires, "panics": panics})
}

fn hex_string(rng: &mut StdRng, n: usize, case: u8) -> String {
    (0..n)
        .map(|_| {
            let d = rng.gen_range(0..16u32);
            let c = std::char::from_digit(d, 16).unwrap();
            match case {
                0 => c,
                1 => c.to_ascii_uppercase(),
                _ => {
                    if rng.gen_bool(0.5) {
                        c.to_ascii_uppercase()
                    } else {
                        c
                    }
                }
            }
        })
        .collect()
}

/// Strings around the valid form: right and wrong lengths, either case, every class of foreign character
/// at every position, sign / prefix / whitespace decorations, non-ASCII.
fn fromstr_corpus(n: usize, rng: &mut StdRng, thorough: bool) -> Vec<String> {
    let full = 2 * n;
    let mut v: Vec<String> = Vec::new();
    for len in 0..=(full + 3) {
        for case in 0..3 {
            v.push(hex_string(rng, len, case));
        }
    }
    for _ in 0..(if thorough { 300 } else { 40 }) {
        v.push(hex_string(rng, full, 2));
    }
    let foreign: [&str; 22] = [" ", "+", "-", "g", "G", "/", ":", "@", "`", "x", "X", "_", ".", "\0", "\n", "\t", "z", "é", "０", "𝟘", "~", "'"];
    for pos in 0..full {
        for f in foreign {
            // replace one digit (length in chars stays 2n; byte length grows for non-ASCII)
            let h = hex_string(rng, full, 2);
            let mut s: String = h.chars().take(pos).collect();
            s.push_str(f);
            s.extend(h.chars().skip(pos + 1));
            v.push(s);
        }
    }
    for f in ["+", "-", " ", "0x", "0X", "\u{feff}"] {
        // decorated: total byte length = 2n and 2n + len(f)
        let k = f.len();
        if full >= k {
            v.push(format!("{f}{}", hex_string(rng, full - k, 0)));
            v.push(format!("{}{f}", hex_string(rng, full - k, 0)));
        }
        v.push(format!("{f}{}", hex_string(rng, full, 0)));
        v.push(format!("{}{f}", hex_string(rng, full, 0)));
    }
    // byte length 2n made of multi-byte characters
    if full % 2 == 0 {
        v.push("é".repeat(full / 2));
    }
    v.push("f".repeat(full));
    v.push("F".repeat(full));
    v.push("0".repeat(full));
    v
}

pub fn idtext(a: &Args) {
    let mut out = Shards::create(&a.out, "text", a.shards);
    let mut rng = StdRng::seed_from_u64(a.seed ^ 0x7E87);
    let (mut nvals, mut nstrs) = (0u64, 0u64);
    for (ty, n) in TEXT_TYPES {
        let mut wires: Vec<Vec<u8>> = Vec::new();
        if n == 2 {
            for v in 0..=65535u32 {
                wires.push(vec![(v & 0xFF) as u8, (v >> 8) as u8]);
            }
        } else {
            wires.push(vec![0; n]);
            wires.push(vec![0xFF; n]);
            for k in 0..n {
                for b in [0x01u8, 0x0F, 0x10, 0x80, 0xA5, 0xFF] {
                    let mut w = vec![0u8; n];
                    w[k] = b;
                    wires.push(w);
                }
            }
            wires.push((0..n).map(|k| (k * 17 + 1) as u8).collect());
            let cnt = a.get_usize("values", if a.thorough { 20_000 } else { 2_000 });
            for _ in 0..cnt {
                wires.push(rnd_bytes(&mut rng, n));
            }
        }
        nvals += wires.len() as u64;
        for chunk in wires.chunks(256) {
            out.emit(&ev_text(ty, chunk));
        }
        let strs = fromstr_corpus(n, &mut rng, a.thorough);
        nstrs += strs.len() as u64;
        for chunk in strs.chunks(128) {
            out.emit(&ev_fromstr(ty, chunk));
        }
    }
    let total = out.finish();
    println!("events={total} values={nvals} strings={nstrs}");
}

// ------------------------------------------------------------------------------------------ replay

fn jsets(v: &Value) -> Vec<(String, Value)> {
    v.as_array().unwrap().iter().map(|s| (s["f"].as_str().unwrap().to_string(), s["v"].clone())).collect()
}

pub fn cmds_replay(a: &Args) {
    let src = a.get("in").expect("in=FILE");
    let mut out = Shards::create(&a.out, "replay", 1);
    for line in std::fs::read_to_string(src).expect("read").lines() {
        if line.trim().is_empty() {
            continue;
        }
        let e: Value = serde_json::from_str(line).expect("json");
        let set = e["set"].as_str().unwrap_or("");
        match e["ev"].as_str().unwrap_or("") {
            "items" => out.emit(&ev_items(set, &by(&e["in"]), e["src"].as_str().unwrap_or("replay"))),
            "exh" => {
                let mids: Vec<i32> = e["rows"].as_array().unwrap().iter().map(|r| r[0].as_i64().unwrap() as i32).collect();
                out.emit(&ev_exh(set, &by(&e["prefix"]), &mids));
            }
            "fexh" => {
                let mids: Vec<i32> = e["rows"].as_array().unwrap().iter().map(|r| r[0].as_i64().unwrap() as i32).collect();
                out.emit(&ev_fexh(&by(&e["prefix"]), &mids));
            }
            "frame" => out.emit(&ev_frame(&by(&e["bytes"]), e["src"].as_str().unwrap_or("replay"))),
            "payload_new" => out.emit(&ev_payload_new(set, e["name"].as_str().unwrap(), &by(&e["in"]))),
            "build" => out.emit(&ev_build(set, e["name"].as_str().unwrap(), &jsets(&e["sets"]))),
            "parse_fields" => {
                let kek: [u8; 16] = by(&e["kek"]).try_into().unwrap_or(KEK0);
                out.emit(&ev_parse_fields(set, &by(&e["in"]), &kek));
            }
            "stream" => {
                let cmds: Vec<(String, Vec<(String, Value)>)> = e["cmds"]
                    .as_array()
                    .unwrap()
                    .iter()
                    .map(|c| (c["name"].as_str().unwrap().to_string(), jsets(&c["sets"])))
                    .collect();
                out.emit(&ev_stream(set, &cmds, e["buflen"].as_u64().unwrap() as usize));
            }
            "text" => {
                let wires: Vec<Vec<u8>> = e["wires"].as_array().unwrap().iter().map(by).collect();
                out.emit(&ev_text(e["type"].as_str().unwrap(), &wires));
            }
            "fromstr" => {
                let strs: Vec<String> =
                    e["strs"].as_array().unwrap().iter().map(|s| String::from_utf8(by(s)).expect("utf-8")).collect();
                out.emit(&ev_fromstr(e["type"].as_str().unwrap(), &strs));
            }
            other => eprintln!("cannot replay {other}"),
        }
    }
    println!("events={}", out.finish());
}
