//! Driver for C14: sequences of physical-layer API calls on the real `LoRa<Sx126x>` over a scripted SPI bus,
//! with scripted interrupt outcomes, a fault at a chosen bus event, and cancellation of droppable waits.
//! Every call becomes one trace event with the raw bus events it produced and the driver's bookkeeping
//! afterwards (hook `verif_state`).  No oracle logic here: the chip model and the clauses are in PhyTrace.tla.
use crate::cli::{catch, Args, Shards};
use crate::mock::{block_on_budget, Bus, BusEv, MockDelay, MockIv, MockSpi};
use crate::trace::bytes;
use lora_modulation::{Bandwidth, CodingRate, SpreadingFactor};
use lora_phy::mod_params::{DutyCycleParams, RadioError, RadioMode};
use lora_phy::sx126x::{self, Sx1262, Sx126x, TcxoCtrlVoltage};
use lora_phy::{LoRa, RxMode};
use serde::{Deserialize, Serialize};
use serde_json::{json, Value};
use std::cell::RefCell;
use std::collections::VecDeque;
use std::rc::Rc;

#[derive(Clone, Debug, Serialize, Deserialize, PartialEq)]
pub struct Step {
    /// init | sleep_warm | sleep_cold | prep_tx | tx | prep_rx_single | prep_rx_cont | prep_rx_duty | start_rx |
    /// complete_rx | switch_ch | listen | prep_cad | cad | sync_word
    pub call: String,
    /// interrupt flag words returned by successive GetIrqStatus reads during this call
    pub irq: Vec<u16>,
    /// index of the bus event of this call that fails (-1 none)
    pub fault: i32,
    /// the interrupt line never fires: the future is dropped at the droppable wait
    pub cancel: bool,
}

pub const CALLS: [&str; 15] = [
    "init", "sleep_warm", "sleep_cold", "prep_tx", "tx", "prep_rx_single", "prep_rx_cont", "prep_rx_duty", "start_rx",
    "complete_rx", "switch_ch", "listen", "prep_cad", "cad", "sync_word",
];

const IRQ_TX_DONE: u16 = 0x0001;
const IRQ_RX_DONE: u16 = 0x0002;
const IRQ_PREAMBLE: u16 = 0x0004;
const IRQ_HEADER_ERR: u16 = 0x0020;
const IRQ_CRC_ERR: u16 = 0x0040;
const IRQ_CAD_DONE: u16 = 0x0080;
const IRQ_CAD_DET: u16 = 0x0100;
const IRQ_TIMEOUT: u16 = 0x0200;

/// interrupt outcome variants worth distinguishing per call
pub fn irq_variants(call: &str) -> Vec<Vec<u16>> {
    match call {
        "tx" => vec![vec![IRQ_TX_DONE], vec![IRQ_TIMEOUT], vec![0, IRQ_TX_DONE]],
        "complete_rx" => vec![
            vec![IRQ_RX_DONE],
            vec![IRQ_TIMEOUT],
            vec![IRQ_PREAMBLE, IRQ_RX_DONE],
            vec![IRQ_RX_DONE | IRQ_CRC_ERR],
            vec![IRQ_HEADER_ERR, IRQ_TIMEOUT],
            vec![0, 0, IRQ_RX_DONE],
        ],
        "cad" => vec![vec![IRQ_CAD_DONE], vec![IRQ_CAD_DONE | IRQ_CAD_DET]],
        _ => vec![vec![]],
    }
}

struct Script {
    irq: VecDeque<u16>,
}

type Dev = LoRa<Sx126x<MockSpi, MockIv, Sx1262>, MockDelay>;

fn mode_code(m: RadioMode) -> &'static str {
    match m {
        RadioMode::Sleep => "sleep",
        RadioMode::Standby => "standby",
        RadioMode::FrequencySynthesis => "fs",
        RadioMode::Transmit => "transmit",
        RadioMode::Receive(RxMode::Single(_)) => "rx_single",
        RadioMode::Receive(RxMode::Continuous) => "rx_cont",
        RadioMode::Receive(RxMode::DutyCycle(_)) => "rx_duty",
        RadioMode::Listen => "listen",
        RadioMode::ChannelActivityDetection => "cad",
    }
}

fn bus_json(log: &[BusEv]) -> Value {
    Value::Array(
        log.iter()
            .map(|e| match e {
                BusEv::Spi { w, r, ok } => json!({"t": "spi", "w": bytes(w), "r": bytes(r), "ok": *ok as u8}),
                BusEv::Reset(ok) => json!({"t": "reset", "w": [], "r": [], "ok": *ok as u8}),
                BusEv::Busy(ok) => json!({"t": "busy", "w": [], "r": [], "ok": *ok as u8}),
                BusEv::Irq(ok) => json!({"t": "irq", "w": [], "r": [], "ok": *ok as u8}),
                BusEv::RfRx(ok) => json!({"t": "rfrx", "w": [], "r": [], "ok": *ok as u8}),
                BusEv::RfTx(ok) => json!({"t": "rftx", "w": [], "r": [], "ok": *ok as u8}),
                BusEv::RfOff(ok) => json!({"t": "rfoff", "w": [], "r": [], "ok": *ok as u8}),
            })
            .collect(),
    )
}

fn err_name(e: &RadioError) -> String {
    format!("{e:?}").split('(').next().unwrap().to_string()
}

pub struct PhyRun {
    bus: Rc<RefCell<Bus>>,
    script: Rc<RefCell<Script>>,
    dev: Option<Dev>,
}

impl PhyRun {
    fn new() -> PhyRun {
        let bus = Bus::new();
        let script = Rc::new(RefCell::new(Script { irq: VecDeque::new() }));
        let s2 = script.clone();
        bus.borrow_mut().responder = Box::new(move |w: &[u8], r: &mut [u8]| {
            r.fill(0);
            match w.first() {
                // GetIrqStatus: status byte then the 16-bit flag word
                Some(0x12) if r.len() == 2 => {
                    let f = s2.borrow_mut().irq.pop_front().unwrap_or(0);
                    r[0] = (f >> 8) as u8;
                    r[1] = f as u8;
                }
                // GetRxBufferStatus: length 5 at offset 0
                Some(0x13) if r.len() == 2 => {
                    r[0] = 5;
                    r[1] = 0;
                }
                _ => {}
            }
        });
        PhyRun { bus, script, dev: None }
    }

    fn state(&self) -> (String, u8, u8) {
        match &self.dev {
            Some(d) => {
                let (m, c, ci) = d.verif_state();
                (mode_code(m).to_string(), c as u8, ci as u8)
            }
            None => ("none".into(), 1, 1),
        }
    }

    /// Execute one step; returns the trace event.
    fn step(&mut self, st: &Step) -> Value {
        {
            let mut b = self.bus.borrow_mut();
            b.log.clear();
            b.fail_at = if st.fault >= 0 { Some(st.fault as usize) } else { None };
            b.irq_pending = st.cancel;
        }
        self.script.borrow_mut().irq = st.irq.iter().copied().collect();
        let (pre_mode, pre_cold, _) = self.state();
        let call = st.call.clone();
        let res: Result<Option<Result<(), RadioError>>, String> = if call == "new" {
            let bus = self.bus.clone();
            let r = catch(|| {
                let rk = Sx126x::new(
                    MockSpi(bus.clone()),
                    MockIv(bus.clone()),
                    sx126x::Config { chip: Sx1262, tcxo_ctrl: Some(TcxoCtrlVoltage::Ctrl1V7), use_dcdc: true, rx_boost: false },
                );
                block_on_budget(LoRa::new(rk, true, MockDelay), 16)
            });
            match r {
                Ok(Some(Ok(d))) => {
                    self.dev = Some(d);
                    Ok(Some(Ok(())))
                }
                Ok(Some(Err(e))) => Ok(Some(Err(e))),
                Ok(None) => Ok(None),
                Err(p) => Err(p),
            }
        } else {
            let Some(dev) = self.dev.as_mut() else {
                return json!({"ev": "phy", "call": call, "skipped": 1});
            };
            let freq = 868_100_000u32;
            let mdl = dev
                .create_modulation_params(SpreadingFactor::_7, Bandwidth::_125KHz, CodingRate::_4_5, freq)
                .expect("modulation params");
            let rx_pkt = dev.create_rx_packet_params(8, false, 255, true, true, &mdl).expect("packet params");
            catch(|| {
                let budget = 16;
                match call.as_str() {
                    "init" => block_on_budget(dev.init(), budget),
                    "sleep_warm" => block_on_budget(dev.sleep(true), budget),
                    "sleep_cold" => block_on_budget(dev.sleep(false), budget),
                    "prep_tx" => {
                        let mut tx_pkt = dev.create_tx_packet_params(8, false, true, false, &mdl).unwrap();
                        block_on_budget(dev.prepare_for_tx(&mdl, &mut tx_pkt, 14, &[1, 2, 3, 4]), budget)
                    }
                    "tx" => block_on_budget(dev.tx(), budget),
                    "prep_rx_single" => block_on_budget(dev.prepare_for_rx(RxMode::Single(20), &mdl, &rx_pkt), budget),
                    "prep_rx_cont" => block_on_budget(dev.prepare_for_rx(RxMode::Continuous, &mdl, &rx_pkt), budget),
                    "prep_rx_duty" => block_on_budget(
                        dev.prepare_for_rx(RxMode::DutyCycle(DutyCycleParams { rx_time: 640, sleep_time: 6400 }), &mdl, &rx_pkt),
                        budget,
                    ),
                    "start_rx" => block_on_budget(dev.start_rx(), budget),
                    "complete_rx" => {
                        let mut buf = [0u8; 64];
                        block_on_budget(dev.complete_rx(&rx_pkt, &mut buf), budget).map(|r| r.map(|_| ()))
                    }
                    "switch_ch" => block_on_budget(dev.rx_switch_channel(868_300_000), budget),
                    "listen" => block_on_budget(dev.listen(freq, Bandwidth::_125KHz), budget),
                    "prep_cad" => block_on_budget(dev.prepare_for_cad(&mdl), budget),
                    "cad" => block_on_budget(dev.cad(&mdl), budget).map(|r| r.map(|_| ())),
                    "sync_word" => block_on_budget(dev.set_lora_sync_word(0x1424), budget),
                    other => panic!("unknown call {other}"),
                }
            })
        };
        let (r, err) = match &res {
            Ok(Some(Ok(()))) => ("ok", String::new()),
            Ok(Some(Err(e))) => ("err", err_name(e)),
            Ok(None) => ("cancelled", String::new()),
            Err(p) => ("panic", p.clone()),
        };
        let (mode, cold, calimg) = self.state();
        let b = self.bus.borrow();
        json!({"ev": "phy", "chip": "sx1262", "call": call, "irq": st.irq, "fault": st.fault, "cancel": st.cancel as u8,
               "pre_mode": pre_mode, "pre_cold": pre_cold, "res": r, "err": err,
               "mode": mode, "cold": cold, "calimg": calimg, "bus": bus_json(&b.log), "skipped": 0})
    }
}

/// Run one history (a fresh chip + driver, then the steps); emits one event per call, first a `new` event.
pub fn run_history(out: &mut crate::trace::TraceWriter, steps: &[Step]) {
    let mut run = PhyRun::new();
    let new = Step { call: "new".into(), irq: vec![], fault: -1, cancel: false };
    let mut ev = run.step(&new);
    ev["hist"] = json!(serde_json::to_string(steps).unwrap());
    ev["first"] = json!(1);
    out.emit(&ev);
    for st in steps {
        let mut ev = run.step(st);
        ev["hist"] = json!("");
        ev["first"] = json!(0);
        let stop = ev["res"] == "panic";
        out.emit(&ev);
        if stop {
            break;
        }
    }
}

fn alphabet() -> Vec<Step> {
    let mut v = vec![];
    for c in CALLS {
        for irq in irq_variants(c) {
            v.push(Step { call: c.to_string(), irq, fault: -1, cancel: false });
        }
    }
    v
}

/// `vh phy`: enumerated call sequences.  depth=<d> (fault-free sequences of that length are exhaustive over the
/// call x interrupt-outcome alphabet), faults: every bus position of the last call of every (depth-1)-prefix.
pub fn vh_phy(a: &Args) {
    let depth = a.get_usize("depth", if a.thorough { 3 } else { 2 });
    let mut out = Shards::create(&a.out, "phy", a.shards);
    let alpha = alphabet();
    let mut h = 0usize;
    let mut nhist = 0usize;
    // all sequences up to `depth`
    let mut seqs: Vec<Vec<Step>> = vec![vec![]];
    for _ in 0..depth {
        let mut next = vec![];
        for s in &seqs {
            if s.len() + 1 > depth {
                continue;
            }
            for x in &alpha {
                let mut t = s.clone();
                t.push(x.clone());
                next.push(t);
            }
        }
        seqs.extend(next.iter().cloned());
        seqs.retain(|s| !s.is_empty());
        seqs.sort_by_key(|s| s.len());
        seqs.dedup();
    }
    let full: Vec<&Vec<Step>> = seqs.iter().filter(|s| s.len() == depth).collect();
    for s in &full {
        run_history(out.shard(h), s);
        h += 1;
        nhist += 1;
    }
    // structured longer histories around sleep / re-initialisation (clause 3 needs: configure, lose the
    // configuration, prepare again, start): [A, S, B, C] and [A, S, B, C, D]
    let st = |c: &str, irq: Vec<u16>| Step { call: c.to_string(), irq, fault: -1, cancel: false };
    let firsts = ["", "prep_tx", "prep_rx_single", "prep_rx_cont", "prep_cad", "listen"];
    let losers = ["", "sleep_cold", "sleep_warm", "init"];
    let pairs: Vec<Vec<Step>> = vec![
        vec![st("prep_tx", vec![]), st("tx", vec![IRQ_TX_DONE])],
        vec![st("prep_tx", vec![]), st("tx", vec![IRQ_TIMEOUT])],
        vec![st("prep_rx_single", vec![]), st("start_rx", vec![]), st("complete_rx", vec![IRQ_RX_DONE])],
        vec![st("prep_rx_single", vec![]), st("start_rx", vec![]), st("complete_rx", vec![IRQ_TIMEOUT])],
        vec![st("prep_rx_cont", vec![]), st("start_rx", vec![]), st("complete_rx", vec![IRQ_HEADER_ERR, IRQ_TIMEOUT])],
        vec![st("prep_rx_duty", vec![]), st("start_rx", vec![]), st("complete_rx", vec![IRQ_PREAMBLE, IRQ_RX_DONE])],
        vec![st("prep_rx_cont", vec![]), st("start_rx", vec![]), st("switch_ch", vec![])],
        vec![st("prep_cad", vec![]), st("cad", vec![IRQ_CAD_DONE])],
        vec![st("listen", vec![])],
        vec![st("sync_word", vec![]), st("prep_tx", vec![]), st("tx", vec![IRQ_TX_DONE])],
    ];
    for a1 in firsts {
        for lo in losers {
            for lo2 in ["", "sleep_cold"] {
                for p in &pairs {
                    let mut t = vec![];
                    if !a1.is_empty() {
                        t.push(st(a1, vec![]));
                    }
                    if !lo.is_empty() {
                        t.push(st(lo, vec![]));
                    }
                    if !lo2.is_empty() {
                        if lo.is_empty() {
                            continue;
                        }
                        t.push(st("prep_rx_single", vec![]));
                        t.push(st(lo2, vec![]));
                    }
                    t.extend(p.iter().cloned());
                    run_history(out.shard(h), &t);
                    h += 1;
                    nhist += 1;
                }
            }
        }
    }
    // fault / cancel at every bus position of the last call, after every prefix of length depth-1
    let prefixes: Vec<Vec<Step>> = if depth <= 1 { vec![vec![]] } else { seqs.iter().filter(|s| s.len() == depth - 1).cloned().collect() };
    for p in &prefixes {
        for x in &alpha {
            // how many bus events does the fault-free call produce?
            let mut probe = PhyRun::new();
            let _ = probe.step(&Step { call: "new".into(), irq: vec![], fault: -1, cancel: false });
            for st in p {
                let _ = probe.step(st);
            }
            let ev = probe.step(x);
            let n = ev["bus"].as_array().map(|b| b.len()).unwrap_or(0);
            for k in 0..n {
                let mut t = p.clone();
                let mut f = x.clone();
                f.fault = k as i32;
                t.push(f);
                // after the faulty call, one follow-up call shows whether the driver recovered
                t.push(Step { call: "prep_tx".into(), irq: vec![], fault: -1, cancel: false });
                run_history(out.shard(h), &t);
                h += 1;
                nhist += 1;
            }
            if ["tx", "cad"].contains(&x.call.as_str()) {
                let mut t = p.clone();
                let mut f = x.clone();
                f.cancel = true;
                t.push(f);
                t.push(Step { call: "prep_tx".into(), irq: vec![], fault: -1, cancel: false });
                run_history(out.shard(h), &t);
                h += 1;
                nhist += 1;
            }
        }
    }
    println!("events={} histories={nhist}", out.finish());
}

/// `vh phyreplay in=FILE`: re-drive a recorded history ({"steps":[...]}).
pub fn vh_phyreplay(a: &Args) {
    let text = std::fs::read_to_string(a.get("in").expect("in=FILE")).unwrap();
    let v: Value = serde_json::from_str(&text).unwrap();
    let steps: Vec<Step> = serde_json::from_value(v["steps"].clone()).unwrap();
    let mut out = Shards::create(&a.out, "phy", 1);
    run_history(out.shard(0), &steps);
    println!("events={} histories=1", out.finish());
}
