//! Driver for C14: sequences of physical-layer API calls on the real `LoRa<Sx126x>` over a scripted SPI bus,
//! with scripted interrupt outcomes, a fault at a chosen bus event, and cancellation of droppable waits.
//! Every call becomes one trace event with the raw bus events it produced and the driver's bookkeeping
//! afterwards (hook `verif_state`).  No oracle logic here: the chip model and the clauses are in PhyTrace.tla.
use crate::cli::{catch, Args, Shards};
use crate::mock::{block_on_budget, Bus, BusEv, MockDelay, MockIv, MockSpi};
use crate::trace::bytes;
use lora_modulation::{Bandwidth, CodingRate, SpreadingFactor};
use lora_phy::mod_params::{DutyCycleParams, RadioError, RadioMode};
use lora_phy::mod_traits::RadioKind;
use lora_phy::sx126x::{self, Sx1262, Sx126x, TcxoCtrlVoltage};
use lora_phy::sx127x::{self, Sx1272, Sx1276, Sx127x};
use lora_phy::lr1110::{self, Lr1110};
use lora_phy::lorawan_radio::{Error as LwError, LorawanRadio};
use lora_phy::{LoRa, RxMode};
use lorawan_device::async_device::radio::{PhyRxTx, RfConfig, RxConfig, RxMode as LwRxMode, RxStatus, TxConfig};
use serde::{Deserialize, Serialize};
use serde_json::{json, Value};
use std::cell::RefCell;
use std::collections::VecDeque;
use std::rc::Rc;

#[derive(Clone, Debug, Serialize, Deserialize, PartialEq)]
pub struct Step {
    /// init | sleep_warm | sleep_cold | prep_tx | tx | prep_rx_single | prep_rx_cont | prep_rx_duty | start_rx |
    /// complete_rx | switch_ch | listen | prep_cad | cad | sync_word
    pub call: String,
    /// interrupt flag words returned by successive GetIrqStatus reads during this call
    pub irq: Vec<u16>,
    /// index of the bus event of this call that fails (-1 none)
    pub fault: i32,
    /// the interrupt line never fires: the future is dropped at the droppable wait
    pub cancel: bool,
}

/// (complete_rx_small: complete_rx into a buffer shorter than the packet the chip reports - a reception that
/// fails after the chip has finished it; recorded under the call name complete_rx)
pub const CALLS: [&str; 17] = [
    "init", "sleep_warm", "sleep_cold", "prep_tx", "tx", "prep_rx_single", "prep_rx_cont", "prep_rx_duty", "start_rx",
    "complete_rx", "switch_ch", "listen", "prep_cad", "cad", "sync_word", "cw", "complete_rx_small",
];

const IRQ_TX_DONE: u16 = 0x0001;
const IRQ_RX_DONE: u16 = 0x0002;
const IRQ_PREAMBLE: u16 = 0x0004;
const IRQ_HEADER_ERR: u16 = 0x0020;
const IRQ_CRC_ERR: u16 = 0x0040;
const IRQ_CAD_DONE: u16 = 0x0080;
const IRQ_CAD_DET: u16 = 0x0100;
const IRQ_TIMEOUT: u16 = 0x0200;

/// interrupt outcome variants worth distinguishing per call (flag words as the chip reports them)
pub fn irq_variants(chip: &str, call: &str) -> Vec<Vec<u16>> {
    let call = match call {
        "lw_tx" => "tx",
        "lw_rx_single" | "lw_rx_cont" => "complete_rx",
        c => c,
    };
    if call == "complete_rx_small" {
        // only the completed reception is of interest: the packet does not fit the caller's buffer
        return vec![irq_variants(chip, "complete_rx")[0].clone()];
    }
    if base_chip(chip) == "lr1110" {
        // 32-bit status word: TxDone 0x04, RxDone 0x08, PreambleDetected 0x10, HeaderError 0x40, CrcError 0x80,
        // CadDone 0x100, CadDetected 0x200, Timeout 0x400; an all-zero word after the interrupt line fired is taken
        // as "transmission complete" by the driver
        return match call {
            "tx" => vec![vec![0x04], vec![0x400], vec![0x10, 0x04], vec![0]],
            "complete_rx" => vec![vec![0x08], vec![0x400], vec![0x10, 0x08], vec![0x08 | 0x80], vec![0x40, 0x400], vec![0, 0, 0x08]],
            "cad" => vec![vec![0x100], vec![0x300]],
            _ => vec![vec![]],
        };
    }
    if is_127(chip) {
        // RegIrqFlags: RxTimeout 0x80, RxDone 0x40, PayloadCrcError 0x20, ValidHeader 0x10, TxDone 0x08, CadDone 0x04, CadDetected 0x01
        return match call {
            "tx" => vec![vec![0x08], vec![0, 0x08]],
            "complete_rx" => vec![vec![0x40], vec![0x80], vec![0x10, 0x40], vec![0x40 | 0x20], vec![0, 0, 0x40], vec![0x10, 0x80]],
            "cad" => vec![vec![0x04], vec![0x05]],
            _ => vec![vec![]],
        };
    }
    match call {
        "tx" => vec![vec![IRQ_TX_DONE], vec![IRQ_TIMEOUT], vec![0, IRQ_TX_DONE]],
        "complete_rx" => vec![
            vec![IRQ_RX_DONE],
            vec![IRQ_TIMEOUT],
            vec![IRQ_PREAMBLE, IRQ_RX_DONE],
            vec![IRQ_RX_DONE | IRQ_CRC_ERR],
            vec![IRQ_HEADER_ERR, IRQ_TIMEOUT],
            vec![0, 0, IRQ_RX_DONE],
        ],
        "cad" => vec![vec![IRQ_CAD_DONE], vec![IRQ_CAD_DONE | IRQ_CAD_DET]],
        _ => vec![vec![]],
    }
}

struct Script {
    irq: VecDeque<u16>,
    /// SX127x register file (so that read-modify-write sequences see what was written)
    regs: [u8; 128],
    /// LR11xx: the command whose response the next read transaction carries
    pending: Option<Vec<u8>>,
}

type Dev6 = LoRa<Sx126x<MockSpi, MockIv, Sx1262>, MockDelay>;
type Dev7 = LoRa<Sx127x<MockSpi, MockIv, Sx1276>, MockDelay>;

type Dev72 = LoRa<Sx127x<MockSpi, MockIv, Sx1272>, MockDelay>;
type Lw72 = LorawanRadio<Sx127x<MockSpi, MockIv, Sx1272>, MockDelay, 20, 0>;
type Dev11 = LoRa<Lr1110<MockSpi, MockIv>, MockDelay>;
type Lw11 = LorawanRadio<Lr1110<MockSpi, MockIv>, MockDelay, 22, 0>;
type Lw6 = LorawanRadio<Sx126x<MockSpi, MockIv, Sx1262>, MockDelay, 22, 0>;
type Lw7 = LorawanRadio<Sx127x<MockSpi, MockIv, Sx1276>, MockDelay, 20, 0>;

enum Dev {
    A(Dev6),
    B(Dev7),
    /// the same drivers behind the LoRaWAN radio adapter (chips "sx1262-lw", "sx1276-lw")
    C(Lw6),
    D(Lw7),
    /// LR1110 (16-bit opcodes, responses in a separate transaction), plain and behind the adapter
    E(Dev11),
    F(Lw11),
    /// SX1272 (the other SX127x variant: same register map for everything C14 looks at)
    G(Dev72),
    H(Lw72),
}

/// calls of the LoRaWAN adapter (`PhyRxTx`)
pub const LW_CALLS: [&str; 6] = ["lw_tx", "lw_setup_single", "lw_setup_cont", "lw_rx_single", "lw_rx_cont", "lw_low_power"];

fn is_127(chip: &str) -> bool {
    matches!(base_chip(chip), "sx1276" | "sx1272")
}

fn base_chip(chip: &str) -> &str {
    chip.strip_suffix("-lw").unwrap_or(chip)
}

fn mode_code(m: RadioMode) -> &'static str {
    match m {
        RadioMode::Sleep => "sleep",
        RadioMode::Standby => "standby",
        RadioMode::FrequencySynthesis => "fs",
        RadioMode::Transmit => "transmit",
        RadioMode::Receive(RxMode::Single(_)) => "rx_single",
        RadioMode::Receive(RxMode::Continuous) => "rx_cont",
        RadioMode::Receive(RxMode::DutyCycle(_)) => "rx_duty",
        RadioMode::Listen => "listen",
        RadioMode::ChannelActivityDetection => "cad",
    }
}

fn bus_json(log: &[BusEv]) -> Value {
    Value::Array(
        log.iter()
            .map(|e| match e {
                BusEv::Spi { w, r, ok } => json!({"t": "spi", "w": bytes(w), "r": bytes(r), "ok": *ok as u8}),
                BusEv::Reset(ok) => json!({"t": "reset", "w": [], "r": [], "ok": *ok as u8}),
                BusEv::Busy(ok) => json!({"t": "busy", "w": [], "r": [], "ok": *ok as u8}),
                BusEv::Irq(ok) => json!({"t": "irq", "w": [], "r": [], "ok": *ok as u8}),
                BusEv::RfRx(ok) => json!({"t": "rfrx", "w": [], "r": [], "ok": *ok as u8}),
                BusEv::RfTx(ok) => json!({"t": "rftx", "w": [], "r": [], "ok": *ok as u8}),
                BusEv::RfOff(ok) => json!({"t": "rfoff", "w": [], "r": [], "ok": *ok as u8}),
            })
            .collect(),
    )
}

fn err_name(e: &RadioError) -> String {
    format!("{e:?}").split('(').next().unwrap().to_string()
}

pub struct PhyRun {
    bus: Rc<RefCell<Bus>>,
    script: Rc<RefCell<Script>>,
    dev: Option<Dev>,
    chip: String,
}

impl PhyRun {
    fn new(chip: &str) -> PhyRun {
        let bus = Bus::new();
        let script = Rc::new(RefCell::new(Script { irq: VecDeque::new(), regs: [0; 128], pending: None }));
        let s2 = script.clone();
        let is127 = is_127(chip);
        let is11 = base_chip(chip) == "lr1110";
        if is11 {
            let s3 = script.clone();
            bus.borrow_mut().on_write = Some(Box::new(move |w: &[u8]| s3.borrow_mut().pending = Some(w.to_vec())));
        }
        bus.borrow_mut().responder = Box::new(move |w: &[u8], r: &mut [u8]| {
            r.fill(0);
            let mut sc = s2.borrow_mut();
            if is11 {
                // a read transaction: Stat1 (one byte) and then the response of the pending command, or - with no
                // command pending - the six status bytes Stat1, Stat2, IrqStatus(4); the wake-up is a one-byte read
                let cmd_ok = 0x04u8; // Stat1 bits 3..1 = 2 (CMD_OK)
                if w.is_empty() && r.len() == 1 {
                    r[0] = cmd_ok;
                    return;
                }
                if w.is_empty() && r.len() == 6 && !matches!(sc.pending.as_deref(), Some([0x01, 0x0A, ..])) {
                    let f = sc.irq.pop_front().map(|f| f as u32).unwrap_or(0x0000_07fc);
                    r[0] = cmd_ok;
                    r[2..6].copy_from_slice(&f.to_be_bytes());
                    sc.pending = None;
                    return;
                }
                match sc.pending.take().as_deref() {
                    // GetRxBufferStatus: length 5 at offset 0
                    Some([0x02, 0x03, ..]) if r.len() == 2 => {
                        r[0] = 5;
                        r[1] = 0;
                    }
                    _ => {}
                }
                return;
            }
            if is127 {
                // the first written byte is the register address (bit 7 clear = read); reads auto-increment
                let Some(&a) = w.first() else { return };
                let addr = (a & 0x7f) as usize;
                for (i, b) in r.iter_mut().enumerate() {
                    let reg = if addr == 0 { 0 } else { (addr + i) & 0x7f };
                    *b = if reg == 0x12 {
                        // RegIrqFlags: scripted; when the script is exhausted every flag is raised so that
                        // polling loops terminate
                        sc.irq.pop_front().map(|f| f as u8).unwrap_or(0xff)
                    } else if reg == 0x13 {
                        5 // RegRxNbBytes
                    } else {
                        sc.regs[reg]
                    };
                }
                return;
            }
            match w.first() {
                // GetIrqStatus: status byte then the 16-bit flag word
                Some(0x12) if r.len() == 2 => {
                    let f = sc.irq.pop_front().unwrap_or(0x03ff);
                    r[0] = (f >> 8) as u8;
                    r[1] = f as u8;
                }
                // GetRxBufferStatus: length 5 at offset 0
                Some(0x13) if r.len() == 2 => {
                    r[0] = 5;
                    r[1] = 0;
                }
                _ => {}
            }
        });
        PhyRun { bus, script, dev: None, chip: chip.to_string() }
    }

    /// SX127x: remember register writes (the responder serves them back)
    fn absorb_writes(&mut self) {
        if !is_127(&self.chip) {
            return;
        }
        let b = self.bus.borrow();
        let mut sc = self.script.borrow_mut();
        for e in &b.log {
            if let BusEv::Spi { w, ok: true, r } = e {
                if r.is_empty() && w.len() >= 2 && w[0] & 0x80 != 0 {
                    let addr = (w[0] & 0x7f) as usize;
                    if addr != 0 {
                        for (i, v) in w[1..].iter().enumerate() {
                            sc.regs[(addr + i) & 0x7f] = *v;
                        }
                    }
                }
            }
        }
    }

    fn state(&self) -> (String, u8, u8) {
        let st = match &self.dev {
            Some(Dev::A(d)) => Some(d.verif_state()),
            Some(Dev::B(d)) => Some(d.verif_state()),
            Some(Dev::C(d)) => Some(d.verif_state()),
            Some(Dev::D(d)) => Some(d.verif_state()),
            Some(Dev::E(d)) => Some(d.verif_state()),
            Some(Dev::F(d)) => Some(d.verif_state()),
            Some(Dev::G(d)) => Some(d.verif_state()),
            Some(Dev::H(d)) => Some(d.verif_state()),
            None => None,
        };
        match st {
            Some((m, c, ci)) => (mode_code(m).to_string(), c as u8, ci as u8),
            None => ("none".into(), 1, 1),
        }
    }

    /// Execute one step; returns the trace event.
    fn step(&mut self, st: &Step) -> Value {
        {
            let mut b = self.bus.borrow_mut();
            b.log.clear();
            b.fail_at = if st.fault >= 0 { Some(st.fault as usize) } else { None };
            b.irq_pending = st.cancel;
        }
        self.script.borrow_mut().irq = st.irq.iter().copied().collect();
        let (pre_mode, pre_cold, _) = self.state();
        let call = st.call.clone();
        let mut timed_out = 0u8;
        let res: Result<Option<Result<(), String>>, String> = if call == "new" {
            let bus = self.bus.clone();
            let chip = self.chip.clone();
            let r = catch(|| {
                let lw = chip.ends_with("-lw");
                if base_chip(&chip) == "lr1110" {
                    let rk = Lr1110::new(
                        MockSpi(bus.clone()),
                        MockIv(bus.clone()),
                        lr1110::Config {
                            pa_selection: lr1110::PaSelection::Hp,
                            dio_as_rf_switch: Some(Default::default()),
                            tcxo_ctrl: Some(lr1110::TcxoCtrlVoltage::Ctrl1V8),
                            use_dcdc: true,
                            rx_boost: false,
                        },
                    );
                    block_on_budget(LoRa::new(rk, true, MockDelay), 16).map(|r| r.map(|d| if lw { Dev::F(d.into()) } else { Dev::E(d) }))
                } else if base_chip(&chip) == "sx1272" {
                    let rk = Sx127x::new(
                        MockSpi(bus.clone()),
                        MockIv(bus.clone()),
                        sx127x::Config { chip: Sx1272, tcxo_used: true, tx_boost: true, rx_boost: false },
                    );
                    block_on_budget(LoRa::new(rk, true, MockDelay), 16).map(|r| r.map(|d| if lw { Dev::H(d.into()) } else { Dev::G(d) }))
                } else if base_chip(&chip) == "sx1276" {
                    let rk = Sx127x::new(
                        MockSpi(bus.clone()),
                        MockIv(bus.clone()),
                        sx127x::Config { chip: Sx1276, tcxo_used: true, tx_boost: true, rx_boost: false },
                    );
                    block_on_budget(LoRa::new(rk, true, MockDelay), 16).map(|r| r.map(|d| if lw { Dev::D(d.into()) } else { Dev::B(d) }))
                } else {
                    let rk = Sx126x::new(
                        MockSpi(bus.clone()),
                        MockIv(bus.clone()),
                        sx126x::Config { chip: Sx1262, tcxo_ctrl: Some(TcxoCtrlVoltage::Ctrl1V7), use_dcdc: true, rx_boost: false },
                    );
                    block_on_budget(LoRa::new(rk, true, MockDelay), 16).map(|r| r.map(|d| if lw { Dev::C(d.into()) } else { Dev::A(d) }))
                }
            });
            match r {
                Ok(Some(Ok(d))) => {
                    self.dev = Some(d);
                    Ok(Some(Ok(())))
                }
                Ok(Some(Err(e))) => Ok(Some(Err(err_name(&e)))),
                Ok(None) => Ok(None),
                Err(p) => Err(p),
            }
        } else {
            let plain = |r: Option<Result<(), RadioError>>| r.map(|x| x.map_err(|e| err_name(&e)));
            let mut to = 0u8;
            let r = match self.dev.as_mut() {
                None => return json!({"ev": "phy", "call": call, "skipped": 1}),
                Some(Dev::A(d)) => catch(|| plain(do_call(d, &call))),
                Some(Dev::B(d)) => catch(|| plain(do_call(d, &call))),
                Some(Dev::C(d)) => catch(|| do_lw_call(d, &call, &mut to)),
                Some(Dev::D(d)) => catch(|| do_lw_call(d, &call, &mut to)),
                Some(Dev::E(d)) => catch(|| plain(do_call(d, &call))),
                Some(Dev::F(d)) => catch(|| do_lw_call(d, &call, &mut to)),
                Some(Dev::G(d)) => catch(|| plain(do_call(d, &call))),
                Some(Dev::H(d)) => catch(|| do_lw_call(d, &call, &mut to)),
            };
            timed_out = to;
            r
        };
        self.absorb_writes();
        let (r, err) = match &res {
            Ok(Some(Ok(()))) => ("ok", String::new()),
            Ok(Some(Err(e))) => ("err", e.clone()),
            Ok(None) => ("cancelled", String::new()),
            Err(p) => ("panic", p.clone()),
        };
        let (mode, cold, calimg) = self.state();
        let b = self.bus.borrow();
        let call = if call == "complete_rx_small" { "complete_rx".to_string() } else { call };
        json!({"ev": "phy", "chip": self.chip, "call": call, "irq": st.irq, "fault": st.fault, "cancel": st.cancel as u8,
               "pre_mode": pre_mode, "pre_cold": pre_cold, "res": r, "err": err,
               "mode": mode, "cold": cold, "calimg": calimg, "bus": bus_json(&b.log), "skipped": 0, "timed_out": timed_out})
    }
}

/// One API call on either driver.
fn do_call<RK: RadioKind>(dev: &mut LoRa<RK, MockDelay>, call: &str) -> Option<Result<(), RadioError>> {
    let freq = 868_100_000u32;
    let mdl = dev
        .create_modulation_params(SpreadingFactor::_7, Bandwidth::_125KHz, CodingRate::_4_5, freq)
        .expect("modulation params");
    let rx_pkt = dev.create_rx_packet_params(8, false, 255, true, true, &mdl).expect("packet params");
    let budget = 16;
    match call {
        "init" => block_on_budget(dev.init(), budget),
        "sleep_warm" => block_on_budget(dev.sleep(true), budget),
        "sleep_cold" => block_on_budget(dev.sleep(false), budget),
        "prep_tx" => {
            let mut tx_pkt = dev.create_tx_packet_params(8, false, true, false, &mdl).unwrap();
            block_on_budget(dev.prepare_for_tx(&mdl, &mut tx_pkt, 14, &[1, 2, 3, 4]), budget)
        }
        "tx" => block_on_budget(dev.tx(), budget),
        "prep_rx_single" => block_on_budget(dev.prepare_for_rx(RxMode::Single(20), &mdl, &rx_pkt), budget),
        "prep_rx_cont" => block_on_budget(dev.prepare_for_rx(RxMode::Continuous, &mdl, &rx_pkt), budget),
        "prep_rx_duty" => block_on_budget(
            dev.prepare_for_rx(RxMode::DutyCycle(DutyCycleParams { rx_time: 640, sleep_time: 6400 }), &mdl, &rx_pkt),
            budget,
        ),
        "start_rx" => block_on_budget(dev.start_rx(), budget),
        "complete_rx" => {
            let mut buf = [0u8; 64];
            block_on_budget(dev.complete_rx(&rx_pkt, &mut buf), budget).map(|r| r.map(|_| ()))
        }
        "complete_rx_small" => {
            // the emulated chips report a 5-byte packet
            let mut buf = [0u8; 3];
            block_on_budget(dev.complete_rx(&rx_pkt, &mut buf), budget).map(|r| r.map(|_| ()))
        }
        "switch_ch" => block_on_budget(dev.rx_switch_channel(868_300_000), budget),
        "listen" => block_on_budget(dev.listen(freq, Bandwidth::_125KHz), budget),
        "prep_cad" => block_on_budget(dev.prepare_for_cad(&mdl), budget),
        "cad" => block_on_budget(dev.cad(&mdl), budget).map(|r| r.map(|_| ())),
        "sync_word" => block_on_budget(dev.set_lora_sync_word(0x1424), budget),
        "cw" => block_on_budget(dev.continuous_wave(&mdl, 14), budget),
        other => panic!("unknown call {other}"),
    }
}

/// One call of the LoRaWAN adapter on either driver.  `timed_out` is set when rx_single reports RxTimeout
/// (the adapter turns that error into an Ok value).
fn do_lw_call<R: PhyRxTx<PhyError = LwError>>(dev: &mut R, call: &str, timed_out: &mut u8) -> Option<Result<(), String>> {
    let rf = RfConfig {
        frequency: 868_100_000,
        bb: lora_modulation::BaseBandModulationParams::new(SpreadingFactor::_7, Bandwidth::_125KHz, CodingRate::_4_5),
        max_payload_len: 255,
    };
    let budget = 16;
    let name = |e: LwError| match e {
        LwError::Radio(e) => err_name(&e),
        LwError::NoRxParams => "NoRxParams".to_string(),
    };
    let mut buf = [0u8; 64];
    match call {
        "lw_tx" => block_on_budget(dev.tx(TxConfig { pw: 14, rf }, &[1, 2, 3, 4]), budget).map(|r| r.map(|_| ()).map_err(name)),
        "lw_setup_single" => block_on_budget(dev.setup_rx(RxConfig { rf, mode: LwRxMode::Single { ms: 50 } }), budget).map(|r| r.map_err(name)),
        "lw_setup_cont" => block_on_budget(dev.setup_rx(RxConfig { rf, mode: LwRxMode::Continuous }), budget).map(|r| r.map_err(name)),
        "lw_rx_single" => block_on_budget(dev.rx_single(&mut buf), budget).map(|r| {
            r.map(|s| {
                if let RxStatus::RxTimeout = s {
                    *timed_out = 1;
                }
            })
            .map_err(name)
        }),
        "lw_rx_cont" => block_on_budget(dev.rx_continuous(&mut buf), budget).map(|r| r.map(|_| ()).map_err(name)),
        "lw_low_power" => block_on_budget(dev.low_power(), budget).map(|r| r.map_err(name)),
        other => panic!("unknown adapter call {other}"),
    }
}

/// Run one history (a fresh chip + driver, then the steps); emits one event per call, first a `new` event.
pub fn run_history(out: &mut crate::trace::TraceWriter, chip: &str, steps: &[Step]) {
    let mut run = PhyRun::new(chip);
    let new = Step { call: "new".into(), irq: vec![], fault: -1, cancel: false };
    let mut ev = run.step(&new);
    ev["hist"] = json!(serde_json::to_string(&json!({"chip": chip, "steps": steps})).unwrap());
    ev["first"] = json!(1);
    out.emit(&ev);
    for st in steps {
        let mut ev = run.step(st);
        ev["hist"] = json!("");
        ev["first"] = json!(0);
        let stop = ev["res"] == "panic";
        out.emit(&ev);
        if stop {
            break;
        }
    }
}

fn alphabet(chip: &str) -> Vec<Step> {
    let mut v = vec![];
    let calls: &[&str] = if chip.ends_with("-lw") { &LW_CALLS } else { &CALLS };
    for c in calls {
        for irq in irq_variants(chip, c) {
            v.push(Step { call: c.to_string(), irq, fault: -1, cancel: false });
        }
    }
    v
}

/// `vh phy`: enumerated call sequences.  depth=<d> (fault-free sequences of that length are exhaustive over the
/// call x interrupt-outcome alphabet), faults: every bus position of the last call of every (depth-1)-prefix.
pub fn vh_phy(a: &Args) {
    let depth = a.get_usize("depth", if a.thorough { 3 } else { 2 });
    let mut out = Shards::create(&a.out, "phy", a.shards);
    let mut h = 0usize;
    let mut nhist = 0usize;
    let chips: Vec<String> = a.get("chips").unwrap_or("sx1262,sx1276,sx1272,lr1110,sx1262-lw,sx1276-lw,sx1272-lw,lr1110-lw").split(',').map(|s| s.to_string()).collect();
    for chip in &chips {
    let chip = chip.as_str();
    // the adapter's alphabet is small: depth 3 in both tiers
    // faults: at every bus position of the last call after every prefix of length 1 (both tiers; deeper fault
    // prefixes multiply the histories by the ~50 bus events of a call: 1.4 M histories at depth 3)
    let fdepth = depth.min(2);
    let depth = if chip.ends_with("-lw") { depth.max(3) } else { depth };
    let alpha = alphabet(chip);
    let (done_tx, to_tx, done_rx, to_rx, pre_rx, herr, cad): (u16, u16, u16, u16, u16, u16, u16) =
        if is_127(chip) { (0x08, 0x08, 0x40, 0x80, 0x10, 0x10, 0x04) } else if base_chip(chip) == "lr1110" { (0x04, 0x400, 0x08, 0x400, 0x10, 0x40, 0x100) } else { (IRQ_TX_DONE, IRQ_TIMEOUT, IRQ_RX_DONE, IRQ_TIMEOUT, IRQ_PREAMBLE, IRQ_HEADER_ERR, IRQ_CAD_DONE) };
    // all sequences up to `depth`
    let mut seqs: Vec<Vec<Step>> = vec![vec![]];
    for _ in 0..depth {
        let mut next = vec![];
        for s in &seqs {
            if s.len() + 1 > depth {
                continue;
            }
            for x in &alpha {
                let mut t = s.clone();
                t.push(x.clone());
                next.push(t);
            }
        }
        seqs.extend(next.iter().cloned());
        seqs.retain(|s| !s.is_empty());
        seqs.sort_by_key(|s| s.len());
        seqs.dedup();
    }
    let full: Vec<&Vec<Step>> = seqs.iter().filter(|s| s.len() == depth).collect();
    for s in &full {
        run_history(out.shard(h), chip, s);
        h += 1;
        nhist += 1;
    }
    // structured longer histories around sleep / re-initialisation (clause 3 needs: configure, lose the
    // configuration, prepare again, start): [A, S, B, C] and [A, S, B, C, D]
    let st = |c: &str, irq: Vec<u16>| Step { call: c.to_string(), irq, fault: -1, cancel: false };
    let lw = chip.ends_with("-lw");
    let firsts: Vec<&str> = if lw { vec!["", "lw_tx", "lw_setup_single", "lw_setup_cont"] } else { vec!["", "prep_tx", "prep_rx_single", "prep_rx_cont", "prep_cad", "listen"] };
    let losers: Vec<&str> = if lw { vec!["", "lw_low_power"] } else { vec!["", "sleep_cold", "sleep_warm", "init"] };
    let (lose2, reprep) = if lw { ("lw_low_power", "lw_setup_single") } else { ("sleep_cold", "prep_rx_single") };
    let pairs: Vec<Vec<Step>> = if lw { vec![
        vec![st("lw_tx", vec![done_tx])],
        vec![st("lw_tx", vec![to_tx])],
        vec![st("lw_tx", vec![done_tx]), st("lw_setup_single", vec![]), st("lw_rx_single", vec![to_rx]), st("lw_setup_single", vec![]), st("lw_rx_single", vec![done_rx])],
        vec![st("lw_tx", vec![done_tx]), st("lw_setup_single", vec![]), st("lw_rx_single", vec![pre_rx, done_rx]), st("lw_low_power", vec![])],
        vec![st("lw_setup_single", vec![]), st("lw_rx_single", vec![to_rx]), st("lw_rx_single", vec![done_rx])],
        vec![st("lw_setup_cont", vec![]), st("lw_rx_cont", vec![herr, done_rx]), st("lw_rx_cont", vec![done_rx]), st("lw_tx", vec![done_tx])],
        vec![st("lw_setup_cont", vec![]), st("lw_rx_cont", vec![to_rx]), st("lw_tx", vec![done_tx])],
        vec![st("lw_rx_single", vec![done_rx])],
    ] } else { vec![
        vec![st("prep_tx", vec![]), st("tx", vec![done_tx])],
        vec![st("prep_tx", vec![]), st("tx", vec![to_tx])],
        vec![st("prep_rx_single", vec![]), st("start_rx", vec![]), st("complete_rx", vec![done_rx])],
        vec![st("prep_rx_single", vec![]), st("start_rx", vec![]), st("complete_rx", vec![to_rx])],
        vec![st("prep_rx_cont", vec![]), st("start_rx", vec![]), st("complete_rx", vec![herr, to_rx])],
        vec![st("prep_rx_duty", vec![]), st("start_rx", vec![]), st("complete_rx", vec![pre_rx, done_rx])],
        vec![st("prep_rx_cont", vec![]), st("start_rx", vec![]), st("switch_ch", vec![])],
        vec![st("prep_cad", vec![]), st("cad", vec![cad])],
        vec![st("listen", vec![])],
        vec![st("sync_word", vec![]), st("prep_tx", vec![]), st("tx", vec![done_tx])],
        vec![st("cw", vec![])],
        vec![st("cw", vec![]), st("prep_tx", vec![]), st("tx", vec![done_tx])],
    ] };
    for a1 in &firsts {
        for lo in &losers {
            for lo2 in ["", lose2] {
                for p in &pairs {
                    let mut t = vec![];
                    if !a1.is_empty() {
                        t.push(st(a1, vec![]));
                    }
                    if !lo.is_empty() {
                        t.push(st(lo, vec![]));
                    }
                    if !lo2.is_empty() {
                        if lo.is_empty() {
                            continue;
                        }
                        t.push(st(reprep, vec![]));
                        t.push(st(lo2, vec![]));
                    }
                    t.extend(p.iter().cloned());
                    run_history(out.shard(h), chip, &t);
                    h += 1;
                    nhist += 1;
                }
            }
        }
    }
    // sleep interleavings: lose the configuration, wake the chip by a call that does not reprogram it (or not at
    // all), sleep again (warm or cold), then prepare and start an operation: the cold-start bookkeeping must
    // survive any mixture of warm and cold sleeps
    if !lw {
        for s1 in ["sleep_cold", "sleep_warm"] {
            for w in ["sync_word", "init", "listen", ""] {
                for s2 in ["sleep_cold", "sleep_warm", ""] {
                    for p in &pairs {
                        let mut t = vec![st(s1, vec![])];
                        if !w.is_empty() {
                            t.push(st(w, vec![]));
                        }
                        if !s2.is_empty() {
                            t.push(st(s2, vec![]));
                        }
                        t.extend(p.iter().cloned());
                        run_history(out.shard(h), chip, &t);
                        h += 1;
                        nhist += 1;
                    }
                }
            }
        }
    }
    // fault / cancel at every bus position of the last call, after every prefix of length depth-1
    let prefixes: Vec<Vec<Step>> = if fdepth <= 1 { vec![vec![]] } else { seqs.iter().filter(|s| s.len() == fdepth - 1).cloned().collect() };
    let recover = if lw { "lw_setup_single" } else { "prep_tx" };
    let (recover2, done_after) = if lw { ("lw_rx_single", done_rx) } else { ("tx", done_tx) };
    for p in &prefixes {
        for x in &alpha {
            // how many bus events does the fault-free call produce?
            let mut probe = PhyRun::new(chip);
            let _ = probe.step(&Step { call: "new".into(), irq: vec![], fault: -1, cancel: false });
            for st in p {
                let _ = probe.step(st);
            }
            let ev = probe.step(x);
            let n = ev["bus"].as_array().map(|b| b.len()).unwrap_or(0);
            for k in 0..n {
                let mut t = p.clone();
                let mut f = x.clone();
                f.fault = k as i32;
                t.push(f);
                // after the faulty call, a follow-up prepare + start shows whether driver and chip still agree
                // (an operation must not start on a chip that lost its configuration in the failed call)
                t.push(Step { call: recover.into(), irq: vec![], fault: -1, cancel: false });
                t.push(Step { call: recover2.into(), irq: vec![done_after], fault: -1, cancel: false });
                run_history(out.shard(h), chip, &t);
                h += 1;
                nhist += 1;
            }
            if ["tx", "cad"].contains(&x.call.as_str()) {
                let mut t = p.clone();
                let mut f = x.clone();
                f.cancel = true;
                t.push(f);
                t.push(Step { call: "prep_tx".into(), irq: vec![], fault: -1, cancel: false });
                run_history(out.shard(h), chip, &t);
                h += 1;
                nhist += 1;
            }
        }
    }
    }
    println!("events={} histories={nhist}", out.finish());
}

/// `vh phymc in=FILE`: call sequences generated by TLC from MCPhy.tla (one JSON object {"chip", "steps"} per line),
/// executed on the real drivers.
pub fn vh_phymc(a: &Args) {
    let text = std::fs::read_to_string(a.get("in").expect("in=FILE")).unwrap();
    let mut out = Shards::create(&a.out, "phy", a.shards);
    let mut h = 0usize;
    for line in text.lines().filter(|l| !l.trim().is_empty()) {
        let v: Value = serde_json::from_str(line).unwrap();
        let steps: Vec<Step> = serde_json::from_value(v["steps"].clone()).unwrap();
        let chip = v["chip"].as_str().unwrap_or("sx1262").to_string();
        run_history(out.shard(h), &chip, &steps);
        h += 1;
    }
    println!("events={} histories={h}", out.finish());
}

/// `vh phyreplay in=FILE`: re-drive a recorded history ({"steps":[...]}).
pub fn vh_phyreplay(a: &Args) {
    let text = std::fs::read_to_string(a.get("in").expect("in=FILE")).unwrap();
    let v: Value = serde_json::from_str(&text).unwrap();
    let steps: Vec<Step> = serde_json::from_value(v["steps"].clone()).unwrap();
    let chip = v["chip"].as_str().unwrap_or("sx1262").to_string();
    let mut out = Shards::create(&a.out, "phy", 1);
    run_history(out.shard(0), &chip, &steps);
    println!("events={} histories=1", out.finish());
}
