use vharness::cli::{quiet_panics, Args};

fn main() {
    let a = Args::parse();
    quiet_panics();
    if ["mac", "macreplay", "macmc", "nbwalk", "awalk", "certwalk", "mcwalk", "bufwalk", "mcdata"].contains(&a.cmd.as_str()) {
        vharness::cli::spawn_watchdog();
    }
    // a panic that escapes the recorder itself (not the code under test, whose panics are trace events) is a tool
    // error: say where it happened
    let r = std::panic::catch_unwind(std::panic::AssertUnwindSafe(|| dispatch(&a)));
    if r.is_err() {
        eprintln!("HARNESS-PANIC (recorder, not the code under test): {}", vharness::cli::LAST_PANIC.lock().map(|l| l.clone()).unwrap_or_default());
        std::process::exit(101);
    }
}

fn dispatch(a: &Args) {
    let a = a.clone();
    match a.cmd.as_str() {
        "toa" => vharness::modrec::toa(&a),
        "ldro" => vharness::modrec::ldro(&a),
        "codec_build" => vharness::codecrec::codec_build(&a),
        "codec_parse" => vharness::codecrec::codec_parse(&a),
        "codec_replay" => vharness::codecrec::codec_replay(&a),
        "mac" => vharness::macdrv::vh_mac(&a),
        "macreplay" => vharness::macdrv::vh_macreplay(&a),
        "macmc" => vharness::macdrv::vh_macmc(&a),
        "bufwalk" => vharness::macdrv::vh_bufwalk(&a),
        #[cfg(feature = "mc")]
        "mcdata" => vharness::macdrv::vh_mcdata(&a),
        "nbwalk" => vharness::macdrv::vh_nbwalk(&a),
        "awalk" => vharness::macdrv::vh_awalk(&a),
        "certwalk" => vharness::macdrv::vh_certwalk(&a),
        "mcwalk" => vharness::macdrv::vh_mcwalk(&a),
        "cmds_items" => vharness::cmdrec::cmds_items(&a),
        "cmds_fields" => vharness::cmdrec::cmds_fields(&a),
        "idtext" => vharness::cmdrec::idtext(&a),
        "cmds_replay" => vharness::cmdrec::cmds_replay(&a),
        "fcnt" => vharness::macdrv::vh_fcnt(&a),
        "phy" => vharness::phydrv::vh_phy(&a),
        "phymc" => vharness::phydrv::vh_phymc(&a),
        "phyreplay" => vharness::phydrv::vh_phyreplay(&a),
        "fetch" => vharness::wirerec::vh_fetch(&a),
        "decode" => vharness::wirerec::vh_decode(&a),
        "wire" => vharness::wirerec::vh_wire(&a),
        other => {
            eprintln!("unknown command {other}");
            std::process::exit(2);
        }
    }
}
