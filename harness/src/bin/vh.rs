use vharness::cli::{quiet_panics, Args};

fn main() {
    let a = Args::parse();
    quiet_panics();
    match a.cmd.as_str() {
        "toa" => vharness::modrec::toa(&a),
        "ldro" => vharness::modrec::ldro(&a),
        "codec_build" => vharness::codecrec::codec_build(&a),
        "codec_parse" => vharness::codecrec::codec_parse(&a),
        "codec_replay" => vharness::codecrec::codec_replay(&a),
        "mac" => vharness::macdrv::vh_mac(&a),
        "macreplay" => vharness::macdrv::vh_macreplay(&a),
        "macmc" => vharness::macdrv::vh_macmc(&a),
        "nbwalk" => vharness::macdrv::vh_nbwalk(&a),
        "awalk" => vharness::macdrv::vh_awalk(&a),
        "cmds_items" => vharness::cmdrec::cmds_items(&a),
        "cmds_fields" => vharness::cmdrec::cmds_fields(&a),
        "idtext" => vharness::cmdrec::idtext(&a),
        "cmds_replay" => vharness::cmdrec::cmds_replay(&a),
        "fcnt" => vharness::macdrv::vh_fcnt(&a),
        "phy" => vharness::phydrv::vh_phy(&a),
        "phyreplay" => vharness::phydrv::vh_phyreplay(&a),
        "fetch" => vharness::wirerec::vh_fetch(&a),
        "decode" => vharness::wirerec::vh_decode(&a),
        "wire" => vharness::wirerec::vh_wire(&a),
        other => {
            eprintln!("unknown command {other}");
            std::process::exit(2);
        }
    }
}
