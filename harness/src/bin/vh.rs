use vharness::cli::{quiet_panics, Args};

fn main() {
    let a = Args::parse();
    quiet_panics();
    match a.cmd.as_str() {
        "toa" => vharness::modrec::toa(&a),
        "ldro" => vharness::modrec::ldro(&a),
        other => {
            eprintln!("unknown command {other}");
            std::process::exit(2);
        }
    }
}
