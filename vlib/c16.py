"""C16 - time on air equals the Semtech formula exactly (Modulation.tla / ModTrace.tla)."""
import glob, json, os
from . import core

PID = "C16"


def _validate(rep, traces, wd):
    res = core.validate_traces("ModTrace.tla", "ModTrace.cfg", traces, PID)
    states = sum(r["distinct"] for r in res)
    gen = sum(r["generated"] for r in res)
    accepted = 0
    for r in res:
        if r["accepted"]:
            accepted += 1
            continue
        line = r.get("matched", 0) + 1
        ev = core.nth_event(r["trace"], line)
        only = "only=%d,%d,%d,%d,%d" % (ev["sf"], ev["bw"], ev["cr"], ev["h"], ev["pre"])
        rep.violation({"property": PID, "vh": ["toa", only], "event": ev, "mismatch": r["mismatches"][:5]},
                      f"time on air differs from the formula for sf={ev['sf']} bw#{ev['bw']} cr=4/{ev['cr']} "
                      f"explicit_header={ev['h']} preamble={ev['pre']}: {r['mismatches'][:1]}")
    return res, states, gen, accepted


def run():
    rep = core.Report(PID)
    wd = core.workdir(PID)
    out = core.run_vh("toa", wd, shards=core.NCPU)
    n = core.kv(out)["events"]
    traces = sorted(glob.glob(os.path.join(wd, "toa.*.ndjson")))
    res, states, gen, accepted = _validate(rep, traces, wd)
    sample = core.read_events(traces[0], 2)
    thorough = core.tier() == "thorough"
    cov = {
        "states": states,
        "transitions": gen,
        "traces_validated_against_impl": accepted,
        "evaluations": n * 256,
        "distinct_nontrivial": n * 256,
        "rule": "one evaluation = one (SF,BW,CR,header,preamble,length) tuple compared with Modulation!Toa by TLC; "
                "tuples are enumerated, all distinct; every tuple is non-trivial (a separate point of the function)",
        "samples": sample,
        "exhaustive": thorough,
        "explanation": "8 SF x 10 BW x 4 CR x 2 header modes x %s preamble options x 256 lengths; the implementation's "
                       "values are recorded losslessly as step functions and expanded by TLC" % (
                           "all 257" if thorough else "7 (None,0,1,6,8,12,255)"),
    }
    return rep.finish("model_checking", cov, [
        "Modulation.tla transcribes the SX127x/AN1200.13 formula; symbol time = 2^SF*10^6/BW truncated to 1 us with the nominal bandwidth values of lora-modulation (the documented truncation)",
        "TLC evaluates the formula in exact integer arithmetic (overflow is a TLC error)",
    ])


def replay(path):
    with open(path) as f:
        r = json.load(f)
    rep = core.Report(PID + "-replay")
    wd = core.workdir(PID + "-replay")
    core.run_vh("toa", wd, shards=1, extra=r["vh"][1:])
    traces = sorted(glob.glob(os.path.join(wd, "toa.*.ndjson")))
    res = core.validate_traces("ModTrace.tla", "ModTrace.cfg", traces, PID + "-replay")
    bad = [x for x in res if not x["accepted"]]
    for x in bad:
        print("REPLAY mismatch:", x["mismatches"][:3])
    print("REPLAY", "violation reproduced" if bad else "no violation")
    return 1 if bad else 0
