"""C16 - time on air equals the Semtech formula exactly (Modulation.tla / ModTrace.tla)."""
import glob, json, os
from . import core, purefn

PID = "C16"


def _sel(ev):
    return "only=%d,%d,%d,%d,%d" % (ev["sf"], ev["bw"], ev["cr"], ev["h"], ev["pre"])


def run():
    rep = core.Report(PID)
    wd = core.workdir(PID)
    out = core.run_vh("toa", wd, shards=core.NCPU)
    n = core.kv(out)["events"]
    traces = sorted(glob.glob(os.path.join(wd, "toa.*.ndjson")))
    res, bad = purefn.validate(PID, "ModTrace.tla", "ModTrace.cfg", traces)
    for tr, ln, ev, mm in bad:
        rep.violation({"property": PID, "vh": ["toa", _sel(ev)], "event": ev, "mismatch": mm[:5]},
                      f"time on air differs from the formula for sf={ev['sf']} bw#{ev['bw']} cr=4/{ev['cr']} "
                      f"explicit_header={ev['h']} preamble={ev['pre']}: {mm[0][:200]}")
    states, gen, accepted = purefn.totals(res)
    thorough = core.tier() == "thorough"
    cov = {
        "states": states,
        "transitions": gen,
        "traces_validated_against_impl": accepted,
        "evaluations": n * 256,
        "distinct_nontrivial": n * 256,
        "rule": "one evaluation = one (SF,BW,CR,header,preamble,length) tuple compared with Modulation!Toa by TLC; "
                "tuples are enumerated, all distinct; every tuple is non-trivial (a separate point of the function)",
        "samples": [purefn.trim(e, 6) for e in core.read_events(traces[0], 2)],
        "exhaustive": thorough,
        "explanation": "8 SF x 10 BW x 4 CR x 2 header modes x %s preamble options x 256 lengths; the implementation's "
                       "values are recorded losslessly as step functions and expanded by TLC; also monotone in the "
                       "length, no panic" % ("all 257" if thorough else "7 (None,0,1,6,8,12,255)"),
    }
    return rep.finish("model_checking", cov, [
        "Modulation.tla transcribes the SX127x/AN1200.13 formula; symbol time = 2^SF*10^6/BW truncated to 1 us with the nominal bandwidth values of lora-modulation (the documented truncation)",
        "TLC evaluates the formula in exact integer arithmetic (an overflow is a TLC error, not a wrap)",
    ])


def replay(path):
    with open(path) as f:
        r = json.load(f)
    pid = PID + "-replay"
    wd = core.workdir(pid)
    core.run_vh("toa", wd, shards=1, extra=r["vh"][1:])
    traces = sorted(glob.glob(os.path.join(wd, "toa.*.ndjson")))
    res, bad = purefn.validate(pid, "ModTrace.tla", "ModTrace.cfg", traces)
    for b in bad:
        print("REPLAY mismatch:", b[3][:2])
    print("REPLAY", "violation reproduced" if bad else "no violation")
    return 1 if bad else 0
