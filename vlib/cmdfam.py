"""Shared driver of C03 and C19: MacCmds.tla (command sets, framing, field layouts, text forms) +
CmdTrace.tla (trace validation, soft mismatches, known-finding deviations) + MCCmds.tla (design-level
lemmas about the specification itself) + CmdCases.tla (spec-derived enumeration of framing cases)."""
import glob, json, os, re, collections
from . import core, purefn

_LINE = re.compile(r'^<<\s*"MISMATCH",\s*(\d+),')
_KNOWN = re.compile(r'^<<\s*"KNOWN",\s*(\d+),\s*"([^"]+)"')


def open_signatures(pid):
    """Open findings of known_findings.json (the only authority).  Only status == "open" entries are passed
    to the trace spec as allowed deviations (a fixed finding suppresses nothing: a regression is reported
    again); a deviation is REPORTED only by the checks of the properties it violates."""
    sigs = {}
    p = os.path.join(core.ROOT, "known_findings.json")
    if os.path.exists(p):
        for k in json.load(open(p)).get("findings", []):
            if k.get("status") == "open" and k.get("signature"):
                k = dict(k, mine=(k.get("property") == pid or pid in k.get("also", [])))
                sigs.setdefault(k["signature"], k)
    return sigs


def design_check(pid):
    """MCCmds.tla: the specification's own lemmas (tables consistent, layouts partition the payload,
    ParseCmd/BuildCmd inverse, Items well formed on all short strings).  A failure is a tool error."""
    r = core.model_check("MCCmds.tla", "MCCmds.cfg", pid, workers=1, coverage=False, timeout=600, xmx="2g")
    if not r["ok"]:
        core.log(r["out"][-3000:])
        raise core.ToolError("MCCmds.tla: an ASSUME about the specification itself is false")
    return r


def gen_cases(pid, wd):
    """CmdCases.tla: TLC enumerates the framing cases from the tables and writes them as JSON."""
    out = os.path.join(wd, "cases.json")
    r = core.model_check("CmdCases.tla", "CmdCases.cfg", pid, workers=1, coverage=False, timeout=600, xmx="2g",
                         env={"OUT": out})
    if not r["ok"] or not os.path.exists(out):
        core.log(r["out"][-3000:])
        raise core.ToolError("CmdCases.tla did not produce the case file")
    n = 0
    for t in r["tuples"]:
        m = re.search(r'"cases",\s*(\d+)', t)
        if m:
            n = int(m.group(1))
    return out, n, r


def validate(pid, traces, wd, timeout=3600):
    sigs = open_signatures(pid)
    kf = os.path.join(wd, "known.json")
    with open(kf, "w") as f:
        json.dump(sorted(sigs), f)
    res = core.validate_traces("CmdTrace.tla", "CmdTrace.cfg", traces, pid, env={"KNOWN": kf}, timeout=timeout, xmx="3g")
    bad = []
    for r in res:
        lines = {}
        for m in r["mismatches"]:
            mm = _LINE.match(m)
            if mm:
                lines.setdefault(int(mm.group(1)), []).append(m)
        if not r["accepted"] and not lines:
            lines[r.get("matched", 0) + 1] = ["trace rejected"]
        for ln in sorted(lines):
            bad.append((r["trace"], ln, core.nth_event(r["trace"], ln), lines[ln]))
    return res, bad, sigs


def report_known(rep, res, sigs):
    """KNOWN tuples -> KNOWN-FINDING lines (only findings of this property), counts per signature."""
    cnt = collections.Counter()
    foreign = collections.Counter()
    for r in res:
        for t in r["known"]:
            m = _KNOWN.match(t)
            if not m:
                continue
            sig = m.group(2)
            if sig in sigs and sigs[sig]["mine"]:
                cnt[sig] += 1
            else:
                foreign[sig] += 1
    for sig, n in sorted(cnt.items()):
        k = sigs[sig]
        rep.known_finding(f"[{k['id']}] {k['line'][:400]} (matched by {n} events of this run)")
    return dict(cnt), dict(foreign)


def trim_event(ev, maxlen=40):
    """Replay files keep the complete inputs; only the evidence samples are trimmed."""
    return purefn.trim(ev, maxlen)


def summ(ev, mm):
    t = ev.get("ev")
    head = re.sub(r"\s+", " ", mm[0])[:300]
    if t in ("items", "parse_fields"):
        return f"{t} set={ev['set']} in={ev['in'][:24]}: {head}"
    if t in ("exh", "fexh"):
        return f"{t} set={ev.get('set','-')} prefix={ev['prefix']}: {head}"
    if t == "frame":
        return f"frame len={len(ev['bytes'])} bytes={ev['bytes'][:16]}: {head}"
    if t in ("build", "payload_new"):
        return f"{t} {ev['set']}/{ev['name']}: {head}"
    if t == "stream":
        return f"stream {ev['set']} {[c['name'] for c in ev['cmds']]} buflen={ev['buflen']}: {head}"
    if t in ("text", "fromstr"):
        return f"{t} {ev['type']}: {head}"
    return f"{t}: {head}"


def replay(pid, path):
    with open(path) as f:
        r = json.load(f)
    rp = pid + "-replay"
    wd = core.workdir(rp)
    src = os.path.join(wd, "in.ndjson")
    with open(src, "w") as f:
        f.write(json.dumps(r["event"]) + "\n")
    core.run_vh("cmds_replay", wd, extra=[f"in={src}"])
    traces = sorted(glob.glob(os.path.join(wd, "replay.*.ndjson")))
    res, bad, sigs = validate(rp, traces, wd)
    for b in bad:
        print("REPLAY mismatch:", [re.sub(r"\s+", " ", m)[:400] for m in b[3][:2]])
    print("REPLAY", "violation reproduced" if bad else "no violation")
    return 1 if bad else 0


TRUSTED = [
    "MacCmds.tla is written from LoRaWAN 1.0.3 section 5, TS009-1.0.0 and TS005-1.0.0 as recalled (no copy of the "
    "standards exists in this environment); its internal consistency (unique CIDs, layouts partition every fixed "
    "payload, ParseCmd/BuildCmd inverse, Items well formed on all short strings, hand-worked examples) is checked by "
    "TLC on every run (MCCmds.tla)",
    "the command sets are the library's scope: Class B MAC commands (0x10-0x13), proprietary CIDs and the TS009 commands "
    "the library does not implement (listed in MacCmds!*Unsupported) are expected to be reported as unknown CIDs",
    "DISPUTED entry (DESIGN 7.1): TimeToStart of McClassCSessionAns/McClassBSessionAns (TS005) is read as conditional "
    "(absent when an error bit is set) or as always present; both framings are accepted (MacCmds!ItemsAccepted), any "
    "third behaviour is reported",
    "the recorder binds accessors / setters to MacCmds.tla field names (table at the top of harness/src/cmdobs.rs); a "
    "wrong binding shows up as a mismatch, a missing accessor is a coverage gap reported in the evidence",
]
