"""C06 (MAC family: MacTrace.tla)."""
from . import macfam, core, mcnb, mcdata
PID = "C06"


def run():
    t = core.tier() == "thorough"
    return macfam.run(PID, [[f"hist={40 if t else 4}", f"steps={70 if t else 45}", "profile=faults"],
                            # enumerated: every async procedure (send | join) x RX1 x RX2 outcome x fault position 0..9, followed by a second one
                            ["cmd=awalk"],
                            # enumerated: the nb state machine under free-form event sequences
                            ["cmd=nbwalk"]],
        'uplink counter / MIC counter deviates (reuse or wrap)',
        'enumerated: every async procedure (send|join x RX1 x RX2 outcome in {nothing, authentic, MIC-broken, oversize} x fault position none/0..9) followed by a second procedure or Class C listening, and the nb state machine under free-form event sequences; plus seeded random histories with a radio fault at a random call position in half of the async procedures, confirmed/unconfirmed sends, RX1/RX2 hits, timeouts, invalid frames, Class C receptions; every transmitted uplink is decoded by Codec.tla (wire counter = low half, MIC under the full counter) and the counter after every call is compared with Mac.tla (consumed also when the procedure aborts after a successful tx)',
        macfam.COMMON_ASSUMPTIONS, mc=[("MCFront.tla", "MCFront.cfg", {"workers": 8}),
            # the same model with the REAL constants: counters at 0, across the 16-bit roll-over and at 2^32-4 .. 2^32-2
            ("MCFront.tla", "MCFrontReal.cfg", {"workers": 6}),
            # the nb front-end as a design-level model: every order of application requests, radio and timer events
            ("MCNb.tla", "MCNb.cfg", {"workers": 4})],
        # specification -> implementation: one event sequence per transition of MCNb, executed on the real nb device
        extra=[mcnb.extra(PID),
               # beyond the default build: the multicast build (set-up handler uplinks, multicast frames heard in RX1 / RX2)
               mcdata.extra(PID)])


def replay(path):
    import json
    with open(path) as f:
        if json.load(f).get("mc"):
            return mcdata.replay(PID, path)
    return macfam.replay(PID, path)
